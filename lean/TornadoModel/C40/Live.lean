/-
C40 — liveness machinery: an explicit ranking function on (token position, waker state) that every progress
step of either thread strictly decreases until the watched fd is dispatched.

Everything in this file is about single steps of `Model.step` from *arbitrary* states (no reachability needed);
the reachability-dependent half (some progress step is always enabled) is in Props.lean.
-/
import TornadoModel.C40.Lemmas
namespace TornadoModel.C40

/-- progress steps of the selector thread and of the loop thread's own machinery (`_handle_select` running its
round, the owed `_wake_selector`).  Not included: the environment (`ready/unready`), user calls
(`add/remove_reader/writer`, `close`) and `raised`, which is a label that changes nothing. -/
def Ev.isSys : Ev → Bool
  | .take _ | .sexit | .selected _ | .report _ => true
  | .handleBegin _ | .dispatch _ _ | .consume _ | .post _ | .wake => true
  | _ => false

/-- the environment -/
def Ev.isEnv : Ev → Bool
  | .ready _ _ | .unready _ _ => true
  | _ => false

/-- user calls on the loop thread that change registrations -/
def Ev.isMut : Ev → Bool
  | .addReader _ | .addWriter _ | .removeReader _ _ | .removeWriter _ _ => true
  | _ => false

theorem isSys_iff (e : Ev) :
    e.isSys = true ↔ (e.isS = true ∨
      (match e with | .handleBegin _ | .dispatch _ _ | .consume _ | .post _ | .wake => true | _ => false) = true) := by
  cases e <;> simp [Ev.isSys, Ev.isS]

/-! ### `skipUnreg` -/

theorem skipUnreg_suffix (reg todo : List Fd) : skipUnreg reg todo <:+ todo :=
  List.dropWhile_suffix _

theorem skipUnreg_mem (reg todo : List Fd) (fd : Fd) (h : fd ∈ todo) (hr : fd ∈ reg) : fd ∈ skipUnreg reg todo := by
  induction todo with
  | nil => simp at h
  | cons x xs ih =>
    unfold skipUnreg
    rw [List.dropWhile_cons]
    split
    · rename_i hx
      have hne : fd ≠ x := by
        intro heq; subst heq
        simp [hr] at hx
      rcases List.mem_cons.1 h with h | h
      · exact absurd h hne
      · exact ih h
    · exact h

/-- what one dispatch/consume step does to a todo list -/
theorem skipUnreg_cons {reg todo : List Fd} {x : Fd} {rest : List Fd} (h : skipUnreg reg todo = x :: rest) :
    rest.length < todo.length ∧ (∀ y, y ∈ rest → y ∈ todo) ∧
    (∀ fd, fd ∈ todo → fd ∈ reg → fd ≠ x → fd ∈ rest) := by
  have hs := skipUnreg_suffix reg todo
  rw [h] at hs
  refine ⟨?_, ?_, ?_⟩
  · have := hs.length_le
    simp only [List.length_cons] at this
    omega
  · intro y hy
    exact hs.mem (List.mem_cons_of_mem _ hy)
  · intro fd hfd hreg hne
    have := skipUnreg_mem reg todo fd hfd hreg
    rw [h] at this
    rcases List.mem_cons.1 this with h1 | h1
    · exact absurd h1 hne
    · exact h1

theorem skipUnreg_nil_not_mem {reg todo : List Fd} (h : skipUnreg reg todo = []) (fd : Fd) (hreg : fd ∈ reg) :
    fd ∉ todo := by
  intro hfd
  have := skipUnreg_mem reg todo fd hfd hreg
  rw [h] at this
  simp at this

/-! ### the rank -/

/-- cost of finishing a `_handle_select` round over `r`/`w`: if the watched fd is among the readers of this round,
it is dispatched before the reader list is exhausted; otherwise the whole round, the `post`, and a complete fresh
round (`take, selected, report, handleBegin` + at most `n` = all registered readers) are needed. -/
def roundCost (fd : Fd) (n : Nat) (r w : List Fd) : Nat :=
  if fd ∈ r then r.length else r.length + w.length + (5 + n)

def rkA (fd : Fd) (n : Nat) : Option Sets → Nat
  | some a => 4 + roundCost fd n a.r a.w
  | none => 0

def rkS (fd : Fd) (n : Nat) : SPc → Nat
  | .selecting a => 3 + roundCost fd n a.r a.w
  | .selected r => 2 + roundCost fd n r.r r.w
  | _ => 0

def rkQ (fd : Fd) (n : Nat) : List Sets → Nat
  | [] => 0
  | q :: qs => 1 + roundCost fd n q.r q.w + rkQ fd n qs

def rkL (fd : Fd) (n : Nat) : LPc → Nat
  | .handling tR tW => roundCost fd n tR tW
  | _ => 0

/-- **the ranking function**: (is a wake-up owed) + (where the select token is and how much of its round is left).
An upper bound on the number of progress steps before `fd`'s reader callback runs. -/
def rank (fd : Fd) (s : St) : Nat :=
  (if s.pendingWake then 1 else 0) + rkA fd s.readers.length s.args + rkS fd s.readers.length s.spc +
    rkQ fd s.readers.length s.queue + rkL fd s.readers.length s.lpc

theorem rkQ_append (fd : Fd) (n : Nat) (q1 q2 : List Sets) : rkQ fd n (q1 ++ q2) = rkQ fd n q1 + rkQ fd n q2 := by
  induction q1 with
  | nil => simp [rkQ]
  | cons q qs ih => simp only [List.cons_append, rkQ, ih]; omega

/-- the situation the liveness statements are about: `fd` is a registered user fd that is readable, the loop thread
is between callbacks or inside `_handle_select`, `close()` has not begun -/
structure Watch (fd : Fd) (s : St) : Prop where
  ne : fd ≠ waker
  reg : fd ∈ s.readers
  rdy : s.readyR.contains fd = true
  lpc : s.lpc = .running ∨ ∃ a b, s.lpc = .handling a b
  op : s.closingFlag = false

theorem roundCost_select (fd : Fd) (n : Nat) (s : St) (a : Sets) (hne : fd ≠ waker)
    (hrdy : s.readyR.contains fd = true) :
    roundCost fd n (selectResult s a).r (selectResult s a).w ≤ roundCost fd n a.r a.w := by
  have hr : (selectResult s a).r.length ≤ a.r.length := List.length_filter_le _ _
  have hw : (selectResult s a).w.length ≤ a.w.length := List.length_filter_le _ _
  unfold roundCost
  by_cases hm : fd ∈ a.r
  · have hm' : fd ∈ (selectResult s a).r := by
      simp only [selectResult, List.mem_filter]
      have hx : fd ∈ s.readyR := by simpa using hrdy
      exact ⟨hm, by simp [hne, hx]⟩
    simp only [hm, hm', ↓reduceIte]
    exact hr
  · have hm' : fd ∉ (selectResult s a).r := by
      simp only [selectResult, List.mem_filter]
      exact fun h => hm h.1
    simp only [hm, hm', ↓reduceIte]
    omega

/-- **every progress step decreases the rank** (until the watched fd is dispatched), and keeps the situation -/
theorem rank_step (fd : Fd) (s : St) (ev : Ev) (s' : St) (hw : Watch fd s) (hsys : ev.isSys = true)
    (h : step s ev = some s') :
    ev = .dispatch false fd ∨ (Watch fd s' ∧ rank fd s' < rank fd s) := by
  obtain ⟨hne, hreg, hrdy, hlpc, hop⟩ := hw
  cases ev with
  | take a =>
    right
    simp only [step] at h
    split at h
    · rename_i hc
      simp only [Bool.and_eq_true, beq_iff_eq, bne_iff_ne, ne_eq, Bool.not_eq_true'] at hc
      obtain ⟨⟨⟨h1, h2⟩, h3⟩, h4⟩ := hc
      simp only [Option.some.injEq] at h; subst h
      refine ⟨⟨hne, hreg, hrdy, hlpc, hop⟩, ?_⟩
      simp only [rank, h1, h4, rkA, rkS]
      omega
    · simp at h
  | sexit =>
    simp only [step] at h
    split at h
    · rename_i hc
      simp [hop] at hc
    · simp at h
  | selected res =>
    right
    simp only [step] at h
    split at h
    · rename_i a hsp
      split at h
      · rename_i hc
        simp only [Bool.and_eq_true, beq_iff_eq] at hc
        simp only [Option.some.injEq] at h; subst h
        refine ⟨⟨hne, hreg, hrdy, hlpc, hop⟩, ?_⟩
        have := roundCost_select fd s.readers.length s a hne hrdy
        simp only [rank, hsp, rkS, hc.1]
        omega
      · simp at h
    · simp at h
  | report res =>
    right
    simp only [step] at h
    split at h
    · rename_i r hsp
      split at h
      · rename_i hc
        simp only [beq_iff_eq] at hc
        simp only [Option.some.injEq] at h; subst h
        refine ⟨⟨hne, hreg, hrdy, hlpc, hop⟩, ?_⟩
        simp only [rank, hsp, rkS, rkQ_append, rkQ, hc]
        omega
      · simp at h
    · simp at h
  | handleBegin res =>
    right
    simp only [step] at h
    split at h
    · rename_i q rest hq
      split at h
      · rename_i hc
        simp only [Bool.and_eq_true, lFree, beq_iff_eq, Bool.not_eq_true'] at hc
        obtain ⟨⟨hl, hp⟩, hqr⟩ := hc
        simp only [Option.some.injEq] at h; subst h
        refine ⟨⟨hne, hreg, hrdy, Or.inr ⟨_, _, rfl⟩, hop⟩, ?_⟩
        simp only [rank, hq, hl, rkQ, rkL, hqr]
        omega
      · simp at h
    · simp at h
  | dispatch isW x =>
    simp only [step] at h
    split at h
    · simp at h
    · rename_i hp
      split at h
      · rename_i todoR todoW hl
        split at h
        · -- a writer callback: the reader part of the round is exhausted, so `fd` was not in it
          right
          split at h
          · rename_i y rest hsr hsw
            split at h
            · simp only [Option.some.injEq] at h; subst h
              refine ⟨⟨hne, hreg, hrdy, Or.inr ⟨_, _, rfl⟩, hop⟩, ?_⟩
              have hnot : fd ∉ todoR := skipUnreg_nil_not_mem hsr fd hreg
              have hlen := (skipUnreg_cons hsw).1
              simp only [rank, hl, rkL, roundCost, hnot, ↓reduceIte, List.not_mem_nil, List.length_nil]
              omega
            · simp at h
          · simp at h
        · rename_i hisW
          split at h
          · rename_i y rest hsr
            split at h
            · rename_i hc
              simp only [Bool.and_eq_true, beq_iff_eq, bne_iff_ne, ne_eq] at hc
              by_cases hxf : x = fd
              · left
                have : isW = false := by simpa using hisW
                subst this; subst hxf; rfl
              · right
                simp only [Option.some.injEq] at h; subst h
                refine ⟨⟨hne, hreg, hrdy, Or.inr ⟨_, _, rfl⟩, hop⟩, ?_⟩
                obtain ⟨hlen, hsub, hkeep⟩ := skipUnreg_cons hsr
                have hyx : y = x := hc.1
                simp only [rank, hl, rkL, roundCost]
                by_cases hm : fd ∈ todoR
                · have hm' : fd ∈ rest := hkeep fd hm hreg (by rw [hyx]; exact fun e => hxf e.symm)
                  simp only [hm, hm', ↓reduceIte]
                  omega
                · have hm' : fd ∉ rest := fun e => hm (hsub fd e)
                  simp only [hm, hm', ↓reduceIte]
                  omega
            · simp at h
          · simp at h
      · simp at h
  | consume n =>
    right
    simp only [step] at h
    split at h
    · simp at h
    · split at h
      · rename_i todoR todoW hl
        split at h
        · rename_i y rest hsr
          split at h
          · rename_i hc
            simp only [Bool.and_eq_true, beq_iff_eq] at hc
            simp only [Option.some.injEq] at h; subst h
            refine ⟨⟨hne, hreg, hrdy, Or.inr ⟨_, _, rfl⟩, hop⟩, ?_⟩
            obtain ⟨hlen, hsub, hkeep⟩ := skipUnreg_cons hsr
            simp only [rank, hl, rkL, roundCost]
            by_cases hm : fd ∈ todoR
            · have hm' : fd ∈ rest := hkeep fd hm hreg (by rw [hc.1]; exact hne)
              simp only [hm, hm', ↓reduceIte]
              omega
            · have hm' : fd ∉ rest := fun e => hm (hsub fd e)
              simp only [hm, hm', ↓reduceIte]
              omega
          · simp at h
        · simp at h
      · simp at h
  | post a =>
    right
    simp only [step] at h
    split at h
    · simp at h
    · rename_i hp
      split at h
      · rename_i todoR todoW hl
        split at h
        · rename_i hc
          simp only [Bool.and_eq_true, List.isEmpty_iff, beq_iff_eq] at hc
          obtain ⟨⟨hsr, hsw⟩, ha⟩ := hc
          simp only [Option.some.injEq] at h; subst h
          refine ⟨⟨hne, hreg, hrdy, Or.inl rfl, hop⟩, ?_⟩
          have hnot : fd ∉ todoR := skipUnreg_nil_not_mem hsr fd hreg
          have hcur : fd ∈ (current s).r := hreg
          have hcl : (current s).r.length = s.readers.length := rfl
          simp only [rank, hl, rkL, rkA, roundCost, hnot, ↓reduceIte, ha, hcur, hcl]
          omega
        · simp at h
      · simp at h
  | wake =>
    right
    simp only [step] at h
    split at h
    · rename_i hp
      simp only [Option.some.injEq] at h; subst h
      refine ⟨⟨hne, hreg, hrdy, hlpc, hop⟩, ?_⟩
      simp only [rank, hp, ↓reduceIte]
      simp
    · split at h
      · rename_i hc
        simp only [beq_iff_eq] at hc
        rcases hlpc with hl | ⟨a, b, hl⟩ <;> simp [hl] at hc
      · simp at h
  | _ => simp [Ev.isSys] at hsys

/-- the environment does not move the rank (nor the situation, unless it makes `fd` itself unreadable) -/
theorem rank_env (fd : Fd) (s : St) (ev : Ev) (s' : St) (hw : Watch fd s) (henv : ev.isEnv = true)
    (hkeep : ev ≠ .unready false fd) (h : step s ev = some s') : Watch fd s' ∧ rank fd s' = rank fd s := by
  obtain ⟨hne, hreg, hrdy, hlpc, hop⟩ := hw
  cases ev with
  | ready isW x =>
    simp only [step] at h
    split at h
    · simp at h
    · split at h
      · simp only [Option.some.injEq] at h; subst h
        exact ⟨⟨hne, hreg, hrdy, hlpc, hop⟩, rfl⟩
      · simp only [Option.some.injEq] at h; subst h
        refine ⟨⟨hne, hreg, ?_, hlpc, hop⟩, rfl⟩
        have hx : fd ∈ s.readyR := by simpa using hrdy
        have := mem_insertKey s.readyR x fd hx
        simpa using this
  | unready isW x =>
    simp only [step] at h
    split at h
    · simp only [Option.some.injEq] at h; subst h
      exact ⟨⟨hne, hreg, hrdy, hlpc, hop⟩, rfl⟩
    · rename_i hisW
      have hW : isW = false := by simpa using hisW
      subst hW
      simp only [Option.some.injEq] at h; subst h
      refine ⟨⟨hne, hreg, ?_, hlpc, hop⟩, rfl⟩
      have hx : fd ∈ s.readyR := by simpa using hrdy
      have hxne : fd ≠ x := by
        intro e; subst e; exact hkeep rfl
      have := mem_filter_ne s.readyR x fd hx hxne
      simpa using this
  | _ => simp [Ev.isEnv] at henv

/-- events allowed between now and the dispatch of `fd`: progress steps of the two threads, the environment (except
making `fd` unreadable), user calls changing registrations (except unregistering `fd`) -/
def Allowed (fd : Fd) (e : Ev) : Prop :=
  e.isSys = true ∨ (e.isEnv = true ∧ e ≠ .unready false fd) ∨
  (e.isMut = true ∧ e ≠ .removeReader fd true ∧ e ≠ .removeReader fd false)

instance (fd : Fd) (e : Ev) : Decidable (Allowed fd e) := by unfold Allowed; infer_instance

theorem sys_not_mut (e : Ev) (h : e.isSys = true) : e.isMut = false := by cases e <;> simp_all [Ev.isSys, Ev.isMut]
theorem env_not_sys (e : Ev) (h : e.isEnv = true) : e.isSys = false := by cases e <;> simp_all [Ev.isSys, Ev.isEnv]
theorem env_not_mut (e : Ev) (h : e.isEnv = true) : e.isMut = false := by cases e <;> simp_all [Ev.isMut, Ev.isEnv]
theorem mut_not_sys (e : Ev) (h : e.isMut = true) : e.isSys = false := by cases e <;> simp_all [Ev.isSys, Ev.isMut]

/-! ### the rank under user calls -/

theorem roundCost_mono (fd : Fd) (n n' : Nat) (r w : List Fd) (h : n' ≤ n + 1) :
    roundCost fd n' r w ≤ roundCost fd n r w + 1 := by
  unfold roundCost; split <;> omega

theorem rkA_mono (fd : Fd) (n n' : Nat) (x : Option Sets) (h : n' ≤ n + 1) : rkA fd n' x ≤ rkA fd n x + tokA x := by
  cases x with
  | none => simp [rkA]
  | some a => have := roundCost_mono fd n n' a.r a.w h; simp only [rkA, tokA_some]; omega

theorem rkS_mono (fd : Fd) (n n' : Nat) (x : SPc) (h : n' ≤ n + 1) : rkS fd n' x ≤ rkS fd n x + tokS x := by
  cases x with
  | selecting a => have := roundCost_mono fd n n' a.r a.w h; simp only [rkS, tokS_selecting]; omega
  | selected a => have := roundCost_mono fd n n' a.r a.w h; simp only [rkS, tokS_selected]; omega
  | idle => simp [rkS]
  | exited => simp [rkS]

theorem rkQ_mono (fd : Fd) (n n' : Nat) (q : List Sets) (h : n' ≤ n + 1) : rkQ fd n' q ≤ rkQ fd n q + q.length := by
  induction q with
  | nil => simp [rkQ]
  | cons a qs ih => have := roundCost_mono fd n n' a.r a.w h; simp only [rkQ, List.length_cons]; omega

theorem rkL_mono (fd : Fd) (n n' : Nat) (x : LPc) (h : n' ≤ n + 1) : rkL fd n' x ≤ rkL fd n x + tokL x := by
  cases x with
  | handling a b => have := roundCost_mono fd n n' a b h; simp only [rkL, tokL_handling]; omega
  | _ => simp [rkL]

theorem rank_le_of (fd : Fd) (s s' : St) (ha : s'.args = s.args) (hs : s'.spc = s.spc) (hq : s'.queue = s.queue)
    (hl : s'.lpc = s.lpc) (hn : s'.readers.length ≤ s.readers.length + 1) (hp : s.pendingWake = false) :
    rank fd s' ≤ rank fd s + 1 + tokens s := by
  unfold rank tokens
  rw [ha, hs, hq, hl]
  have h1 := rkA_mono fd s.readers.length s'.readers.length s.args hn
  have h2 := rkS_mono fd s.readers.length s'.readers.length s.spc hn
  have h3 := rkQ_mono fd s.readers.length s'.readers.length s.queue hn
  have h4 := rkL_mono fd s.readers.length s'.readers.length s.lpc hn
  simp only [hp, Bool.false_eq_true, ↓reduceIte]
  split <;> omega

theorem length_insertKey (l : List Fd) (x : Fd) : (insertKey l x).length ≤ l.length + 1 := by
  unfold insertKey; split <;> simp

/-! ### schedules -/

theorem isSys_of_isS (ev : Ev) (h : ev.isS = true) : ev.isSys = true := by
  cases ev <;> simp_all [Ev.isS, Ev.isSys]

/-- the callback of `fd` can only run in a state of rank ≥ 1 -/
theorem rank_pos_of_dispatch (fd : Fd) (s s' : St) (h : step s (.dispatch false fd) = some s') : 1 ≤ rank fd s := by
  simp only [step] at h
  split at h
  · simp at h
  · split at h
    · rename_i tR tW hl
      simp only [Bool.false_eq_true, ↓reduceIte] at h
      split at h
      · rename_i x rest hsr
        split at h
        · rename_i hc
          simp only [Bool.and_eq_true, beq_iff_eq] at hc
          have hmem : fd ∈ tR := by
            apply (skipUnreg_suffix s.readers tR).mem
            rw [hsr, hc.1]; exact List.mem_cons_self
          have hlen : 1 ≤ tR.length := List.length_pos_of_mem hmem
          simp only [rank, hl, rkL, roundCost, hmem, ↓reduceIte]
          omega
        · simp at h
      · simp at h
    · simp at h

/-- if a progress step is enabled in every reachable watched state, a schedule of at most `rank` progress steps runs
the callback (induction on the rank) -/
theorem no_lost_event_aux (fd : Fd)
    (canMove : ∀ s, Reach s → Watch fd s → ∃ ev s', ev.isSys = true ∧ step s ev = some s') :
    ∀ (n : Nat) (s : St), Reach s → Watch fd s → rank fd s ≤ n →
    ∃ evs s', run s evs = some s' ∧ evs.length ≤ rank fd s ∧ Ev.dispatch false fd ∈ evs ∧
      ∀ e ∈ evs, e.isSys = true := by
  intro n
  induction n with
  | zero =>
    intro s hr hw hn
    obtain ⟨ev, s1, hsys, hst⟩ := canMove s hr hw
    rcases rank_step fd s ev s1 hw hsys hst with he | ⟨_, hlt⟩
    · subst he
      have := rank_pos_of_dispatch fd s s1 hst
      omega
    · omega
  | succ n ih =>
    intro s hr hw hn
    obtain ⟨ev, s1, hsys, hst⟩ := canMove s hr hw
    rcases rank_step fd s ev s1 hw hsys hst with he | ⟨hw1, hlt⟩
    · subst he
      refine ⟨[.dispatch false fd], s1, by simp [run, hst], ?_, List.mem_singleton.2 rfl, ?_⟩
      · simpa using rank_pos_of_dispatch fd s s1 hst
      · intro e he; rw [List.mem_singleton.1 he]; rfl
    · obtain ⟨evs, s2, hrun, hlen, hmem, hall⟩ := ih s1 (reach_step hr hst) hw1 (by omega)
      refine ⟨ev :: evs, s2, by simp [run, hst, hrun], ?_, List.mem_cons_of_mem _ hmem, ?_⟩
      · simp only [List.length_cons]; omega
      · intro e he
        rcases List.mem_cons.1 he with h | h
        · rw [h]; exact hsys
        · exact hall e h

/-! ### infinite executions -/

/-- the first `n` events of an infinite execution -/
def pref (ev : Nat → Ev) (n : Nat) : List Ev := (List.range n).map ev

theorem run_snoc {s s1 s2 : St} {es : List Ev} {e : Ev} (h1 : run s es = some s1) (h2 : step s1 e = some s2) :
    run s (es ++ [e]) = some s2 := by
  induction es generalizing s with
  | nil => simp only [run, Option.some.injEq] at h1; subst h1; simp [run, h2]
  | cons x xs ih =>
    simp only [run, List.cons_append] at h1 ⊢
    cases hs : step s x with
    | none => simp [hs] at h1
    | some a => rw [hs] at h1; simp only []; exact ih h1

theorem pref_succ (ev : Nat → Ev) (n : Nat) : pref ev (n + 1) = pref ev n ++ [ev n] := by
  simp [pref, List.range_succ]

theorem run_pref (st : Nat → St) (ev : Nat → Ev) (hok : ∀ i, step (st i) (ev i) = some (st (i + 1))) :
    ∀ n, run (st 0) (pref ev n) = some (st n) := by
  intro n
  induction n with
  | zero => simp [pref, run]
  | succ n ih => rw [pref_succ]; exact run_snoc ih (hok n)

theorem count_pref_mono (ev : Nat → Ev) (n m : Nat) (h : n ≤ m) :
    (pref ev n).countP Ev.isSys ≤ (pref ev m).countP Ev.isSys := by
  induction m with
  | zero => have : n = 0 := by omega
            subst this; exact Nat.le_refl _
  | succ m ih =>
    by_cases hm : n ≤ m
    · rw [pref_succ, List.countP_append]; have := ih hm; omega
    · have : n = m + 1 := by omega
      subst this; exact Nat.le_refl _

theorem count_pref_unbounded (ev : Nat → Ev) (hfair : ∀ i, ∃ j, i ≤ j ∧ (ev j).isSys = true) :
    ∀ k, ∃ n, k ≤ (pref ev n).countP Ev.isSys := by
  intro k
  induction k with
  | zero => exact ⟨0, Nat.zero_le _⟩
  | succ k ih =>
    obtain ⟨n, hn⟩ := ih
    obtain ⟨j, hj, hsys⟩ := hfair n
    refine ⟨j + 1, ?_⟩
    have := count_pref_mono ev n j hj
    rw [pref_succ, List.countP_append, List.countP_singleton]
    simp only [hsys, ↓reduceIte]
    omega

theorem mem_pref {ev : Nat → Ev} {n : Nat} {e : Ev} (h : e ∈ pref ev n) : ∃ j, j < n ∧ ev j = e := by
  simp only [pref, List.mem_map, List.mem_range] at h
  exact h

theorem exists_first (P : Nat → Prop) (h : ∃ j, P j) : ∃ j, P j ∧ ∀ i, i < j → ¬ P i := by
  obtain ⟨j, hj⟩ := h
  induction j using Nat.strongRecOn with
  | _ j ih =>
    by_cases hm : ∃ i, i < j ∧ P i
    · obtain ⟨i, hi, hpi⟩ := hm
      exact ih i hi hpi
    · exact ⟨j, hj, fun i hi hpi => hm ⟨i, hi, hpi⟩⟩

end TornadoModel.C40
