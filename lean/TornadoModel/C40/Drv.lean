/- C40 driver:
   `C40 accept [ev,…]` → `ok T <final-state summary>` | `ok F <index of the first rejected event> <state summary before it>`
   `C40 spec <k> [ev,…]` → `ok alternates [lostR…] [lostW…] closeOk inSelect` (inSelect: at the moment `close()` begins / at the end)
   events: [start,[r],[w]] [addReader,fd] [addWriter,fd] [removeReader,fd,T|F] [removeWriter,fd,T|F] [wake]
           [handleBegin,[r],[w]] [dispatch,R|W,fd] [consume,n] [post,[r],[w]] [setClosing] [joined] [closed]
           [ready,R|W,fd] [unready,R|W,fd] [take,[r],[w]] [sexit] [selected,[r],[w]] [report,[r],[w]] [ebadf] -/
import TornadoModel.Base.Wire
import TornadoModel.C40.Spec
namespace TornadoModel.C40.Drv
open TornadoModel TornadoModel.Wire TornadoModel.C40

def nats (v : V) : Option (List Nat) := v.list? >>= (·.mapM V.nat?)
def sets (r w : V) : Option Sets := do pure { r := ← nats r, w := ← nats w }
def isW : V → Option Bool
  | .atom "R" => some false
  | .atom "W" => some true
  | _ => none

def decEv (v : V) : Option Ev := do
  match ← v.list? with
  | [.atom "start", r, w] => pure (.start (← sets r w))
  | [.atom "addReader", fd] => pure (.addReader (← fd.nat?))
  | [.atom "addWriter", fd] => pure (.addWriter (← fd.nat?))
  | [.atom "removeReader", fd, b] => pure (.removeReader (← fd.nat?) (← b.bool?))
  | [.atom "removeWriter", fd, b] => pure (.removeWriter (← fd.nat?) (← b.bool?))
  | [.atom "wake"] => pure .wake
  | [.atom "handleBegin", r, w] => pure (.handleBegin (← sets r w))
  | [.atom "dispatch", k, fd] => pure (.dispatch (← isW k) (← fd.nat?))
  | [.atom "consume", n] => pure (.consume (← n.nat?))
  | [.atom "raised"] => pure .raised
  | [.atom "post", r, w] => pure (.post (← sets r w))
  | [.atom "setClosing"] => pure .setClosing
  | [.atom "joined"] => pure .joined
  | [.atom "closed"] => pure .closed
  | [.atom "ready", k, fd] => pure (.ready (← isW k) (← fd.nat?))
  | [.atom "unready", k, fd] => pure (.unready (← isW k) (← fd.nat?))
  | [.atom "take", r, w] => pure (.take (← sets r w))
  | [.atom "sexit"] => pure .sexit
  | [.atom "ebadf"] => pure .ebadf
  | [.atom "selected", r, w] => pure (.selected (← sets r w))
  | [.atom "report", r, w] => pure (.report (← sets r w))
  | _ => none

def encNats (l : List Nat) : V := .list (l.map fun n => V.int (Int.ofNat n))
def encSets (a : Sets) : V := .list [encNats a.r, encNats a.w]

def encSPc : SPc → V
  | .idle => .list [.atom "idle"]
  | .selecting a => .list [.atom "selecting", encSets a]
  | .selected a => .list [.atom "selected", encSets a]
  | .exited => .list [.atom "exited"]

def encLPc : LPc → V
  | .fresh => .atom "fresh" | .running => .atom "running" | .handling _ _ => .atom "handling"
  | .closing => .atom "closing" | .joining => .atom "joining" | .joined => .atom "joined" | .closed => .atom "closed"

def summary (s : St) : V :=
  .list [encNats s.readers, encNats s.writers, V.ofOpt encSets s.args, V.ofBool s.closingFlag, .int s.bytes,
         .int s.queue.length, encSPc s.spc, encLPc s.lpc, V.ofBool s.failed]

def handle (toks : List String) : String :=
  match toks.mapM V.parse with
  | none => err "bad-arg"
  | some args =>
    match args with
    | [.atom "accept", evs] =>
      match evs.list? >>= (·.mapM decEv) with
      | some evs =>
        match firstReject init evs 0 with
        | none => match run init evs with
          | some s => ok [V.ofBool true, summary s]
          | none => err "inconsistent"
        | some (i, s) => ok [V.ofBool false, .int i, summary s]
      | none => err "bad-event"
    | [.atom "spec", k, evs] =>
      match k.nat?, evs.list? >>= (·.mapM decEv) with
      | some k, some evs =>
        let l := Spec.lost k evs
        ok [V.ofBool (Spec.alternates .none evs), encNats l.1, encNats l.2, V.ofBool (Spec.closeOk evs),
            V.ofBool (Spec.inSelect false (evs.takeWhile (· != .setClosing)))]
      | _, _ => err "bad-event"
    | _ => err "bad-cmd"

end TornadoModel.C40.Drv
