/-
C40 — specification side: the property statement read as checks over a recorded execution (list of events of
both threads in their real order).

* `alternates`   : posting select arguments (`start`/`post`) and the selector thread taking them strictly
                   alternate, every `take` is answered by one `selected` + `report`, every report is handled once,
                   in order: at most one select is in progress and no posted arguments are ever overwritten.
* `lost k`       : fds that were registered *and* ready during the whole suffix of the trace starting at index `k`
                   without their callback being dispatched in that suffix.
* `inSelect`     : at the end of the trace the selector thread is inside `select` (used when both threads are at rest).
* `closeOk`      : once `close` has begun, the selector thread exits, `join` returns after that and `close` finishes.
-/
import TornadoModel.C40.Model
namespace TornadoModel.C40.Spec
open TornadoModel.C40

/-- where the single "select token" is -/
inductive Tok | none | posted | withS | reported (n : Nat) | handling
  deriving DecidableEq, Repr

/-- token discipline as an automaton over events; `none` result = violated -/
def tokStep (t : Tok) : Ev → Option Tok
  | .start _ => if t = .none then some .posted else Option.none
  | .post _ => if t = .handling then some .posted else Option.none
  | .take _ => if t = .posted then some .withS else Option.none
  | .selected _ => if t = .withS then some .withS else Option.none
  | .ebadf => if t = .withS then some .withS else Option.none
  | .report _ => if t = .withS then some (.reported 1) else Option.none
  | .handleBegin _ => if t = .reported 1 then some .handling else Option.none
  | _ => some t

def alternates : Tok → List Ev → Bool
  | _, [] => true
  | t, e :: es => match tokStep t e with | some t' => alternates t' es | Option.none => false

/-- is a select in progress at the end of the trace: the selector thread took arguments (`take`) and has neither
returned from `select` nor failed in it since?  When both threads have come to rest this is the only healthy
situation — a rest with no select in progress (arguments never posted again) means no readiness will ever be
dispatched: the selector/loop pair is deadlocked even if nothing is ready right now. -/
def inSelect : Bool → List Ev → Bool
  | b, [] => b
  | _, .take _ :: es => inSelect true es
  | _, .selected _ :: es => inSelect false es
  | _, .ebadf :: es => inSelect false es
  | _, .report _ :: es => inSelect false es
  | _, .sexit :: es => inSelect false es
  | b, _ :: es => inSelect b es

structure Book where
  readers : List Fd := []
  writers : List Fd := []
  readyR : List Fd := []
  readyW : List Fd := []

def book (b : Book) : Ev → Book
  | .addReader fd => { b with readers := insertKey b.readers fd }
  | .addWriter fd => { b with writers := insertKey b.writers fd }
  | .removeReader fd _ => { b with readers := b.readers.filter (· != fd) }
  | .removeWriter fd _ => { b with writers := b.writers.filter (· != fd) }
  | .ready isW fd => if isW then { b with readyW := insertKey b.readyW fd } else { b with readyR := insertKey b.readyR fd }
  | .unready isW fd => if isW then { b with readyW := b.readyW.filter (· != fd) } else { b with readyR := b.readyR.filter (· != fd) }
  | _ => b

/-- candidates (registered ∧ ready) that stay so and are never dispatched along `es` -/
def survive (candR candW : List Fd) : Book → List Ev → List Fd × List Fd
  | _, [] => (candR, candW)
  | b, e :: es =>
    let b' := book b e
    let keepR := fun fd => b'.readers.contains fd && b'.readyR.contains fd && e != .dispatch false fd
    let keepW := fun fd => b'.writers.contains fd && b'.readyW.contains fd && e != .dispatch true fd
    survive (candR.filter keepR) (candW.filter keepW) b' es

/-- fds registered and ready from index `k` to the end, never dispatched from `k` on -/
def lost (k : Nat) (tr : List Ev) : List Fd × List Fd :=
  let b := (tr.take k).foldl book {}
  survive (b.readers.filter b.readyR.contains) (b.writers.filter b.readyW.contains) b (tr.drop k)

/-- after `setClosing`: `sexit`, then `joined`, then `closed`, in this order -/
def closeOk (tr : List Ev) : Bool :=
  match tr.dropWhile (· != .setClosing) with
  | [] => true
  | _ :: rest =>
    match rest.dropWhile (· != .sexit) with
    | [] => false
    | _ :: r2 =>
      match r2.dropWhile (· != .joined) with
      | [] => false
      | _ :: r3 => r3.contains .closed

end TornadoModel.C40.Spec
