/- C24 driver: decode / check / spec / issue / pyint -/
import TornadoModel.Base.Wire
import TornadoModel.C24.Model
import TornadoModel.C24.Spec
namespace TornadoModel.C24.Drv
open TornadoModel TornadoModel.Wire TornadoModel.C24

def optStr (v : V) : Option (Option Str) := if v.isNone then some none else v.cps?.map some

def encOutcome : Outcome → V
  | .accept => .atom "accept"
  | .refuseMissing => .atom "refuse-missing"
  | .refuseFormat => .atom "refuse-format"
  | .refuseMismatch => .atom "refuse-mismatch"

def encExc : Exc → V
  | .unicodeEncode => .atom "UnicodeEncodeError"
  | .binascii => .atom "binascii.Error"
  | .valueError => .atom "ValueError"
  | .unknownVersion => .atom "Exception"

def handle (toks : List String) : String :=
  match toks.head?, (toks.drop 1).mapM V.parse with
  | some "decode", some [d, now, s] =>
    match d.bool?, now.int?, s.cps? with
    | some d, some now, some s =>
      match decode d now s with
      | some r => ok [.int r.version, V.ofByteNats r.token, .int r.timestamp]
      | none => ok [.none]
    | _, _, _ => err "bad-arg"
  | some "check", some [d, now, cookie, fresh, form, h1, h2] =>
    match d.bool?, now.int?, optStr cookie, fresh.byteNats?, optStr form, optStr h1, optStr h2 with
    | some d, some now, some cookie, some fresh, some form, some h1, some h2 =>
      ok [encOutcome (check d now cookie fresh form h1 h2)]
    | _, _, _, _, _, _, _ => err "bad-arg"
  | some "spec", some [d, cookie, form, h1, h2] =>
    match d.bool?, optStr cookie, optStr form, optStr h1, optStr h2 with
    | some d, some cookie, some form, some h1, some h2 => ok [V.ofBool (Spec.accepts d cookie form h1 h2)]
    | _, _, _, _, _ => err "bad-arg"
  | some "issue", some [d, ver, now, cookie, fresh, mask] =>
    match d.bool?, ver.nat?, now.int?, optStr cookie, fresh.byteNats?, mask.byteNats? with
    | some d, some ver, some now, some cookie, some fresh, some mask =>
      match xsrfToken d ver now cookie fresh mask with
      | .ok (t, sc) => ok [V.ofCps t, V.ofOpt V.ofCps sc]
      | .error e => ok [encExc e]
    | _, _, _, _, _, _ => err "bad-arg"
  | some "pyint", some [s] =>
    match s.cps? with
    | some s => ok [V.ofOpt V.int (pyInt s)]
    | none => err "bad-arg"
  | _, _ => err "bad-line"

end TornadoModel.C24.Drv
