/- C24 — helper lemmas: hex / utf-8 / split / int round trips used by the property theorems. -/
import TornadoModel.C24.Spec
namespace TornadoModel.C24

/-- every element is an octet -/
def IsBytes (l : List Nat) : Prop := ∀ b ∈ l, b < 256

theorem IsBytes.head {b : Nat} {l : List Nat} (h : IsBytes (b :: l)) : b < 256 := h b (List.mem_cons_self ..)
theorem IsBytes.tail {b : Nat} {l : List Nat} (h : IsBytes (b :: l)) : IsBytes l :=
  fun x hx => h x (List.mem_cons_of_mem _ hx)

/-- lower-case hex digit, as produced by `b2a_hex` -/
def isHexLower (c : Nat) : Prop := (48 ≤ c ∧ c ≤ 57) ∨ (97 ≤ c ∧ c ≤ 102)

theorem hexDigit_lower : ∀ n, n < 16 → isHexLower (hexDigit n) := by
  intro n hn; unfold hexDigit isHexLower; split <;> omega

theorem hexVal_hexDigit : ∀ n, n < 16 → hexVal (hexDigit n) = some n := by decide

theorem mem_hexOfBytes {bs : Bytes} (h : IsBytes bs) : ∀ c ∈ hexOfBytes bs, isHexLower c := by
  induction bs with
  | nil => intro c hc; simp [hexOfBytes] at hc
  | cons b bs ih =>
    intro c hc
    have hb := h.head
    simp only [hexOfBytes, List.mem_cons] at hc
    rcases hc with rfl | rfl | hc
    · exact hexDigit_lower _ (by omega)
    · exact hexDigit_lower _ (by omega)
    · exact ih h.tail c hc

theorem unhex_hexOfBytes {bs : Bytes} (h : IsBytes bs) : unhex (hexOfBytes bs) = .ok bs := by
  induction bs with
  | nil => rfl
  | cons b bs ih =>
    have hb := h.head
    simp only [hexOfBytes, unhex, hexVal_hexDigit (b / 16) (by omega), hexVal_hexDigit (b % 16) (by omega),
      ih h.tail]
    congr 2
    omega

theorem flatMap_utf8Char_ascii {s : Str} (h : ∀ c ∈ s, c < 128) : s.flatMap utf8Char = s := by
  induction s with
  | nil => rfl
  | cons c cs ih =>
    have hc := h c (List.mem_cons_self ..)
    simp only [List.flatMap_cons, utf8Char, hc, if_true]
    rw [ih (fun x hx => h x (List.mem_cons_of_mem _ hx))]
    rfl

theorem utf8_ascii {s : Str} (h : ∀ c ∈ s, c < 128) : utf8 s = .ok s := by
  have h1 : s.any isSurrogate = false := by
    rw [List.any_eq_false]
    intro c hc
    have := h c hc
    simp [isSurrogate]; omega
  simp [utf8, h1, flatMap_utf8Char_ascii h]

theorem unhexStr_hex {bs : Bytes} (h : IsBytes bs) : unhexStr (hexOfBytes bs) = .ok bs := by
  have ha : ∀ c ∈ hexOfBytes bs, c < 128 := by
    intro c hc
    have := mem_hexOfBytes h c hc
    unfold isHexLower at this; omega
  simp [unhexStr, utf8_ascii ha, bind, Except.bind, unhex_hexOfBytes h]

theorem versionMatch_no_bar (d : Bool) {s : Str} (h : ∀ c ∈ s, c ≠ 124) : versionMatch d s = none := by
  unfold versionMatch
  split
  · rename_i x xs tail h1 h2
    exfalso
    have hs : List.dropWhile isDigit s <:+ s := List.dropWhile_suffix _
    rw [h2] at hs
    exact h 124 (hs.subset (List.mem_cons_self ..)) rfl
  · rfl

theorem splitBar_no_bar {a : Str} (h : ∀ c ∈ a, c ≠ 124) : splitBar a = [a] := by
  induction a with
  | nil => rfl
  | cons c cs ih =>
    have hc := h c (List.mem_cons_self ..)
    simp [splitBar, hc, ih (fun x hx => h x (List.mem_cons_of_mem _ hx))]

theorem splitBar_append_bar {a : Str} (b : Str) (h : ∀ c ∈ a, c ≠ 124) :
    splitBar (a ++ 124 :: b) = a :: splitBar b := by
  induction a with
  | nil => simp [splitBar]
  | cons c cs ih =>
    have hc := h c (List.mem_cons_self ..)
    simp [splitBar, hc, ih (fun x hx => h x (List.mem_cons_of_mem _ hx))]

/-! ### masking is an involution -/

theorem xorFrom_involutive (mask : Bytes) (k : Nat) (l : Bytes) : xorFrom mask k (xorFrom mask k l) = l := by
  induction l generalizing k with
  | nil => rfl
  | cons b bs ih => simp only [xorFrom, ih]; rw [Nat.xor_assoc, Nat.xor_self, Nat.xor_zero]

theorem xorFrom_bytes {mask l : Bytes} (hm : IsBytes mask) (hl : IsBytes l) (k : Nat) : IsBytes (xorFrom mask k l) := by
  induction l generalizing k with
  | nil => intro b hb; simp [xorFrom] at hb
  | cons b bs ih =>
    intro x hx
    simp only [xorFrom, List.mem_cons] at hx
    rcases hx with rfl | hx
    · have hb := hl.head
      have hmk : mask.getD (k % 4) 0 < 256 := by
        rw [List.getD_eq_getElem?_getD]
        cases hq : mask[k % 4]? with
        | none => simp
        | some m => simpa using hm m (List.mem_of_getElem? hq)
      exact Nat.xor_lt_two_pow (n := 8) hb hmk
    · exact ih hl.tail (k + 1) x hx

/-! ### `int(str(n)) = n` -/

theorem digitsVal_append (l : List Nat) (d : Nat) : digitsVal (l ++ [d]) = digitsVal l * 10 + d := by
  simp [digitsVal, List.foldl_append]

theorem decRev_val (n : Nat) : digitsVal (decRev n).reverse = n := by
  induction n using Nat.strongRecOn with
  | _ n ih =>
    rw [decRev]
    split
    · simp [digitsVal]
    · rename_i h
      rw [List.reverse_cons, digitsVal_append, ih (n / 10) (by omega)]
      omega

theorem decRev_lt (n : Nat) : ∀ x ∈ decRev n, x < 10 := by
  induction n using Nat.strongRecOn with
  | _ n ih =>
    rw [decRev]
    split
    · intro x hx; simp at hx; omega
    · intro x hx
      simp only [List.mem_cons] at hx
      rcases hx with rfl | hx
      · omega
      · exact ih (n / 10) (by omega) x hx

theorem decRev_ne_nil (n : Nat) : decRev n ≠ [] := by
  rw [decRev]; split <;> simp

/-- the decimal digits of `n` as characters -/
def decChars (n : Nat) : Str := (decRev n).reverse.map (· + 48)

theorem decChars_digit (n : Nat) : ∀ c ∈ decChars n, isDigit c = true := by
  intro c hc
  simp only [decChars, List.mem_map, List.mem_reverse] at hc
  obtain ⟨x, hx, rfl⟩ := hc
  have := decRev_lt n x hx
  simp [isDigit]; omega

theorem digitsLoop_digits {l : Str} (h : ∀ c ∈ l, isDigit c = true) : digitsLoop l = some (l.map (· - 48)) := by
  induction l with
  | nil => rfl
  | cons c cs ih =>
    have hc := h c (List.mem_cons_self ..)
    have h95 : c ≠ 95 := by intro e; subst e; simp [isDigit] at hc
    have ih' := ih (fun x hx => h x (List.mem_cons_of_mem _ hx))
    unfold digitsLoop
    split
    · simp at *
    · rename_i heq; simp at heq; omega
    · rename_i heq; simp at heq; omega
    · rename_i c' rest _ _ _ heq
      simp only [List.cons.injEq] at heq
      obtain ⟨rfl, rfl⟩ := heq
      simp [hc, ih']

theorem dropWhile_none {p : Nat → Bool} {l : Str} (h : ∀ c ∈ l, p c = false) : l.dropWhile p = l := by
  cases l with
  | nil => rfl
  | cons c cs => simp [List.dropWhile, h c (List.mem_cons_self ..)]

theorem stripSpace_none {l : Str} (h : ∀ c ∈ l, isIntSpace c = false) : stripSpace l = l := by
  unfold stripSpace
  rw [dropWhile_none h, dropWhile_none (fun c hc => h c (List.mem_reverse.mp hc)), List.reverse_reverse]

theorem parseDigits_decChars (n : Nat) : parseDigits (decChars n) = some (decRev n).reverse := by
  have hne : decChars n ≠ [] := by
    simp [decChars, decRev_ne_nil]
  have hd := decChars_digit n
  cases hl : decChars n with
  | nil => exact absurd hl hne
  | cons c cs =>
    rw [hl] at hd
    have hc := hd c (List.mem_cons_self ..)
    have := digitsLoop_digits (fun x hx => hd x (List.mem_cons_of_mem _ hx))
    simp only [parseDigits, hc, if_true, this, Option.map_some]
    have e : (c - 48) :: cs.map (· - 48) = (c :: cs).map (· - 48) := rfl
    rw [e, ← hl, decChars, List.map_map]
    congr 1
    have : ((fun x => x - 48) ∘ fun x => x + 48) = id := by funext x; simp
    rw [this, List.map_id]

theorem space_of_digit {c : Nat} (h : isDigit c = true) : isIntSpace c = false := by
  simp [isDigit] at h; simp [isIntSpace]; omega

/-- `int(str(i)) == i` for every integer whose decimal form has at most 4300 digits -/
theorem pyInt_toDec (i : Int) (hlen : (decRev i.natAbs).length ≤ maxStrDigits) : pyInt (toDec i) = some i := by
  have hsp : ∀ c ∈ decChars i.natAbs, isIntSpace c = false :=
    fun c hc => space_of_digit (decChars_digit _ c hc)
  have hpd := parseDigits_decChars i.natAbs
  have hval := decRev_val i.natAbs
  have hl : ¬ ((decRev i.natAbs).reverse.length > maxStrDigits) := by simp; omega
  by_cases hneg : i < 0
  · have e : toDec i = 45 :: decChars i.natAbs := by simp [toDec, decChars, hneg]
    have hs : stripSpace (45 :: decChars i.natAbs) = 45 :: decChars i.natAbs :=
      stripSpace_none (by
        intro c hc
        simp only [List.mem_cons] at hc
        rcases hc with rfl | hc
        · decide
        · exact hsp c hc)
    rw [e]
    simp only [pyInt, hs, signSplit, hpd, hl, if_false, hval, if_true]
    congr 1
    omega
  · have e : toDec i = decChars i.natAbs := by simp [toDec, decChars, hneg]
    rw [e]
    have hs := stripSpace_none hsp
    have hne : decChars i.natAbs ≠ [] := by simp [decChars, decRev_ne_nil]
    have hsg : signSplit (decChars i.natAbs) = (false, decChars i.natAbs) := by
      cases hcs : decChars i.natAbs with
      | nil => exact absurd hcs hne
      | cons c cs =>
        have hc : isDigit c = true := decChars_digit _ c (by rw [hcs]; exact List.mem_cons_self ..)
        have h45 : c ≠ 45 := by intro e; subst e; simp [isDigit] at hc
        have h43 : c ≠ 43 := by intro e; subst e; simp [isDigit] at hc
        unfold signSplit
        split
        · rename_i heq; simp at heq; omega
        · rename_i heq; simp at heq; omega
        · rfl
    simp only [pyInt, hs, hsg, hpd, hl, if_false, hval]
    simp
    omega

end TornadoModel.C24
