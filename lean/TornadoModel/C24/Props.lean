import TornadoModel.C24.Spec
namespace TornadoModel.C24
theorem stub : pickInput none none none = none := rfl
end TornadoModel.C24
