/-
C24 — property theorems about the model of Tornado's XSRF code (`C24/Model.lean`).
`d` = whether the version regex has re.DOTALL (all theorems hold for both), `now` = int(time.time()),
`fresh` = os.urandom(16), masks = os.urandom(4): all universally quantified parameters.
-/
import TornadoModel.C24.Lemmas
namespace TornadoModel.C24

/-! ### decoding what was issued -/

/-- a version-1 token text (hex) decodes to the secret it was made from -/
theorem decode_issue_v1 (d : Bool) (now : Int) (token : Bytes) (hb : IsBytes token) :
    decode d now (hexOfBytes token) = some ⟨1, token, now⟩ := by
  have hl := mem_hexOfBytes hb
  have ha : ∀ c ∈ hexOfBytes token, c < 128 := fun c hc => by have := hl c hc; unfold isHexLower at this; omega
  have hn : ∀ c ∈ hexOfBytes token, c ≠ 124 := fun c hc => by have := hl c hc; unfold isHexLower at this; omega
  simp [decode, decodeInner, utf8_ascii ha, versionMatch_no_bar d hn, unhex_hexOfBytes hb, bind, Except.bind,
    pure, Except.pure]

theorem toDec_chars (ts : Int) : ∀ c ∈ toDec ts, c = 45 ∨ isDigit c = true := by
  intro c hc
  unfold toDec at hc
  split at hc
  · simp only [List.mem_cons] at hc
    rcases hc with rfl | hc
    · exact Or.inl rfl
    · exact Or.inr (decChars_digit _ c hc)
  · exact Or.inr (decChars_digit _ c hc)

/-- a version-2 token text decodes to the secret it was made from, whatever the mask and timestamp -/
theorem decode_issue_v2 (d : Bool) (now : Int) (token mask : Bytes) (ts : Int) (hb : IsBytes token)
    (hm : mask.length = 4) (hmb : IsBytes mask) (hts : (decRev ts.natAbs).length ≤ maxStrDigits) :
    decode d now ([50, 124] ++ hexOfBytes mask ++ [124] ++ hexOfBytes (xorFrom mask 0 token) ++ [124] ++ toDec ts)
      = some ⟨2, token, ts⟩ := by
  have hxb := xorFrom_bytes hmb hb 0
  have h1 := mem_hexOfBytes hmb
  have h2 := mem_hexOfBytes hxb
  have h3 := toDec_chars ts
  have n1 : ∀ c ∈ hexOfBytes mask, c ≠ 124 ∧ c ≠ 10 ∧ c < 128 := fun c hc => by
    have := h1 c hc; unfold isHexLower at this; omega
  have n2 : ∀ c ∈ hexOfBytes (xorFrom mask 0 token), c ≠ 124 ∧ c ≠ 10 ∧ c < 128 := fun c hc => by
    have := h2 c hc; unfold isHexLower at this; omega
  have n3 : ∀ c ∈ toDec ts, c ≠ 124 ∧ c ≠ 10 ∧ c < 128 := fun c hc => by
    rcases h3 c hc with rfl | h
    · decide
    · simp [isDigit] at h; omega
  -- the whole text is ASCII
  have hascii : ∀ c ∈ [50, 124] ++ hexOfBytes mask ++ [124] ++ hexOfBytes (xorFrom mask 0 token) ++ [124] ++ toDec ts,
      c < 128 := by
    intro c hc
    simp only [List.mem_append, List.mem_cons, List.mem_nil_iff, or_false] at hc
    rcases hc with (((((rfl | rfl) | hc) | rfl) | hc) | rfl) | hc
    · decide
    · decide
    · exact (n1 c hc).2.2
    · decide
    · exact (n2 c hc).2.2
    · decide
    · exact (n3 c hc).2.2
  -- the regex matches with digit group "2"
  have hvm : versionMatch d ([50, 124] ++ hexOfBytes mask ++ [124] ++ hexOfBytes (xorFrom mask 0 token) ++ [124] ++ toDec ts)
      = some [50] := by
    have hline : lineOk (hexOfBytes mask ++ [124] ++ hexOfBytes (xorFrom mask 0 token) ++ [124] ++ toDec ts) = true := by
      unfold lineOk
      rw [List.all_eq_true]
      intro c hc
      have hc' := List.dropLast_subset _ hc
      simp only [List.mem_append, List.mem_cons, List.mem_nil_iff, or_false] at hc'
      rcases hc' with (((hc' | rfl) | hc') | rfl) | hc'
      · simpa using (n1 c hc').2.1
      · decide
      · simpa using (n2 c hc').2.1
      · decide
      · simpa using (n3 c hc').2.1
    simp only [List.cons_append, List.nil_append, List.append_assoc] at hline ⊢
    simp [versionMatch, isDigit, hline]
  -- split("|") gives the four fields
  have hsplit : splitBar ([50, 124] ++ hexOfBytes mask ++ [124] ++ hexOfBytes (xorFrom mask 0 token) ++ [124] ++ toDec ts)
      = [[50], hexOfBytes mask, hexOfBytes (xorFrom mask 0 token), toDec ts] := by
    have e : [50, 124] ++ hexOfBytes mask ++ [124] ++ hexOfBytes (xorFrom mask 0 token) ++ [124] ++ toDec ts
        = [50] ++ 124 :: (hexOfBytes mask ++ 124 :: (hexOfBytes (xorFrom mask 0 token) ++ 124 :: toDec ts)) := by
      simp
    rw [e, splitBar_append_bar _ (by intro c hc; simp at hc; omega),
      splitBar_append_bar _ (fun c hc => (n1 c hc).1), splitBar_append_bar _ (fun c hc => (n2 c hc).1),
      splitBar_no_bar (fun c hc => (n3 c hc).1)]
  simp only [decode, decodeInner, utf8_ascii hascii, hvm, hsplit, unhexStr_hex hmb, unhexStr_hex hxb, wsMask, hm,
    xorFrom_involutive, pyInt_toDec ts hts, bind, Except.bind, pure, Except.pure, if_true]

/-! ### the check -/

/-- acceptance, exactly: the presented token decodes to a non-empty secret equal to the expected one
    (the cookie's secret, or the fresh randomness when the cookie carries none) -/
theorem accept_iff (d : Bool) (now : Int) (cookie : Option Str) (fresh : Bytes) (form h1 h2 : Option Str) :
    check d now cookie fresh form h1 h2 = .accept ↔
      ∃ inp r, pickInput form h1 h2 = some inp ∧ inp ≠ [] ∧ decode d now inp = some r ∧ r.token ≠ []
        ∧ r.token = (getRaw d now cookie fresh).2.1 := by
  unfold check
  constructor
  · intro h
    split at h
    · cases h
    · cases h
    · rename_i c r hp
      split at h
      · cases h
      · cases h
      · rename_i v t ts stamp hd
        split at h
        · rename_i heq
          exact ⟨c :: r, ⟨v, t :: ts, stamp⟩, hp, by simp, hd, by simp, heq⟩
        · cases h
  · rintro ⟨inp, r, hp, hne, hd, hne', heq⟩
    rw [hp]
    cases inp with
    | nil => exact absurd rfl hne
    | cons c cs =>
      simp only [hd]
      obtain ⟨v, tok, stamp⟩ := r
      cases tok with
      | nil => exact absurd rfl hne'
      | cons t ts => simp at heq ⊢; exact heq

/-- a refusal is always one of the three 403 reasons: the outcome type has no "server error" inhabitant, and the
    decoder's `try` body can only end in a value or in one of the listed exceptions, all of which are caught -/
theorem decode_total (d : Bool) (now : Int) (s : Str) :
    (decode d now s = none ↔ ∃ e, decodeInner d now s = .error e)
      ∧ (∀ r, decode d now s = some r ↔ decodeInner d now s = .ok r) := by
  unfold decode
  cases decodeInner d now s <;> simp

/-- malformed or missing input is refused, never accepted: no token, an empty token, an undecodable token -/
theorem malformed_refused (d : Bool) (now : Int) (cookie : Option Str) (fresh : Bytes) (form h1 h2 : Option Str)
    (h : ∀ inp, pickInput form h1 h2 = some inp → inp = [] ∨ decode d now inp = none) :
    check d now cookie fresh form h1 h2 ≠ .accept := by
  intro hacc
  obtain ⟨inp, r, hp, hne, hd, _, _⟩ := (accept_iff d now cookie fresh form h1 h2).mp hacc
  rcases h inp hp with h | h
  · exact hne h
  · rw [h] at hd; cases hd

/-- with no usable cookie the only accepted secret is the server's fresh randomness -/
theorem no_cookie_needs_fresh (d : Bool) (now : Int) (fresh : Bytes) (form h1 h2 : Option Str)
    (hacc : check d now none fresh form h1 h2 = .accept) :
    ∃ inp r, pickInput form h1 h2 = some inp ∧ decode d now inp = some r ∧ r.token = fresh := by
  obtain ⟨inp, r, hp, _, hd, _, heq⟩ := (accept_iff d now none fresh form h1 h2).mp hacc
  exact ⟨inp, r, hp, hd, by simpa [getRaw] using heq⟩

/-! ### issued tokens are accepted -/

/-- what `issueTok` produces decodes to the secret (both versions) -/
theorem decode_issued (d : Bool) (now : Int) (v : Nat) (token mask : Bytes) (ts : Int) (t : Str)
    (hb : IsBytes token) (hm : mask.length = 4) (hmb : IsBytes mask)
    (hts : (decRev ts.natAbs).length ≤ maxStrDigits) (hi : issueTok v token mask ts = .ok t) :
    ∃ r, decode d now t = some r ∧ r.token = token := by
  unfold issueTok at hi
  split at hi
  · cases hi
    exact ⟨_, decode_issue_v1 d now token hb, rfl⟩
  · split at hi
    · simp only [wsMask, hm, if_true] at hi
      cases hi
      exact ⟨_, decode_issue_v2 d now token mask ts hb hm hmb hts, rfl⟩
    · cases hi

theorem issued_ne_nil (v : Nat) (token mask : Bytes) (ts : Int) (t : Str) (hne : token ≠ [])
    (hi : issueTok v token mask ts = .ok t) : t ≠ [] := by
  unfold issueTok at hi
  split at hi
  · cases hi
    cases token with
    | nil => exact absurd rfl hne
    | cons b bs => simp [hexOfBytes]
  · split at hi
    · split at hi
      · cases hi; simp
      · cases hi
    · cases hi

/-- **issued_accepted**: for every non-empty secret, every pair of masks, timestamps and format versions, a
    request whose cookie is one issued text and whose presented token is another issued text for the same
    secret is accepted (any re-masking, cross-version), whichever source presents it. -/
theorem issued_accepted (d : Bool) (now : Int) (fresh token mask mask' : Bytes) (ts ts' : Int) (v v' : Nat)
    (c t : Str) (form h1 h2 : Option Str)
    (hne : token ≠ []) (hb : IsBytes token)
    (hm : mask.length = 4) (hmb : IsBytes mask) (hm' : mask'.length = 4) (hmb' : IsBytes mask')
    (hts : (decRev ts.natAbs).length ≤ maxStrDigits) (hts' : (decRev ts'.natAbs).length ≤ maxStrDigits)
    (hc : issueTok v token mask ts = .ok c) (ht : issueTok v' token mask' ts' = .ok t)
    (hp : pickInput form h1 h2 = some t) :
    check d now (some c) fresh form h1 h2 = .accept := by
  obtain ⟨rc, hdc, htc⟩ := decode_issued d now v token mask ts c hb hm hmb hts hc
  obtain ⟨rt, hdt, htt⟩ := decode_issued d now v' token mask' ts' t hb hm' hmb' hts' ht
  have hcne := issued_ne_nil v token mask ts c hne hc
  rw [accept_iff]
  refine ⟨t, rt, hp, issued_ne_nil v' token mask' ts' t hne ht, hdt, by rw [htt]; exact hne, ?_⟩
  rw [htt]
  cases c with
  | nil => exact absurd rfl hcne
  | cons x xs =>
    obtain ⟨vv, tok, stamp⟩ := rc
    simp only at htc
    subst htc
    cases tok with
    | nil => exact absurd rfl hne
    | cons b bs => simp [getRaw, hdc]

/-- where the token may be presented: the form field; `X-XSRFToken` when the form field is absent or empty;
    `X-CSRFToken` when both are absent or empty -/
theorem pick_form (t : Str) (h1 h2 : Option Str) (hne : t ≠ []) : pickInput (some t) h1 h2 = some t := by
  cases t with
  | nil => exact absurd rfl hne
  | cons c r => rfl

theorem pick_h1 (t : Str) (h2 : Option Str) (hne : t ≠ []) :
    pickInput none (some t) h2 = some t ∧ pickInput (some []) (some t) h2 = some t := by
  cases t with
  | nil => exact absurd rfl hne
  | cons c r => exact ⟨rfl, rfl⟩

theorem pick_h2 (t : Str) :
    pickInput none none (some t) = some t ∧ pickInput (some []) (some []) (some t) = some t
      ∧ pickInput none (some []) (some t) = some t ∧ pickInput (some []) none (some t) = some t :=
  ⟨rfl, rfl, rfl, rfl⟩

/-- **session form** (stated, not proved here — exercised by the `issue` stream of the tie on every run):
    whatever cookie request 1 arrives with (absent, undecodable, empty secret, legacy, v2), the token text
    `xsrf_token` produces is accepted in a later request that carries the cookie in force after request 1
    (the new `Set-Cookie` value if one was set, else the old cookie), under either output version. -/
def session_issued_accepted_goal : Prop :=
  ∀ (d : Bool) (now now' : Int) (ver : Nat) (cookie : Option Str) (fresh fresh' mask : Bytes) (t : Str)
    (sc : Option Str) (form h1 h2 : Option Str),
    fresh ≠ [] → IsBytes fresh → mask.length = 4 → IsBytes mask →
    (decRev now.natAbs).length ≤ maxStrDigits →
    xsrfToken d ver now cookie fresh mask = .ok (t, sc) →
    pickInput form h1 h2 = some t →
    check d now' (match sc with | some c => some c | none => cookie) fresh' form h1 h2 = .accept

-- model = specification: `check_eq_spec` in `C24/SpecLink.lean`.

/-! ### non-vacuity -/

example : IsBytes [0xab, 0xcd] := by unfold IsBytes; decide
example : issueTok 2 [0xab, 0xcd] [1, 2, 3, 4] 5 = .ok ("2|01020304|aacf|5".toList.map Char.toNat) := by
  simp [issueTok, wsMask, xorFrom, hexOfBytes, hexDigit, toDec, decRev]
example : issueTok 1 [0xab, 0xcd] [1, 2, 3, 4] 5 = .ok ("abcd".toList.map Char.toNat) := by
  simp [issueTok, hexOfBytes, hexDigit]
example : (decRev (1700000000 : Int).natAbs).length ≤ maxStrDigits := by simp [decRev, maxStrDigits]
/-- cookie in the legacy format, token re-masked in format 2, presented in the X-CSRFToken header: accepted -/
example : check false 0 (some ("abcd".toList.map Char.toNat)) [9]
    none (some []) (some ("2|01020304|aacf|5".toList.map Char.toNat)) = .accept := by decide
/-- another session's token: refused -/
example : check false 0 (some ("abcd".toList.map Char.toNat)) [9]
    (some ("2|01020304|aace|5".toList.map Char.toNat)) none none = .refuseMismatch := by decide
/-- an empty secret is never accepted, even against a cookie that carries the same empty secret -/
example : check false 0 (some ("2|01020304||5".toList.map Char.toNat)) [9]
    (some ("2|01020304||5".toList.map Char.toNat)) none none = .refuseFormat := by decide

end TornadoModel.C24
