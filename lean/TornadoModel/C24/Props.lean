/-
C24 — property theorems about the model of Tornado's XSRF code (`C24/Model.lean`).
`d` = whether the version regex has re.DOTALL (all theorems hold for both), `now` = int(time.time()),
`fresh` = os.urandom(16), masks = os.urandom(4): all universally quantified parameters.
-/
import TornadoModel.C24.Inv2
namespace TornadoModel.C24

/-! ### decoding what was issued -/

/-- a version-1 token text (hex) decodes to the secret it was made from -/
theorem decode_issue_v1 (d : Bool) (now : Int) (token : Bytes) (hb : IsBytes token) :
    decode d now (hexOfBytes token) = some ⟨1, token, now⟩ := by
  have hl := mem_hexOfBytes hb
  have ha : ∀ c ∈ hexOfBytes token, c < 128 := fun c hc => by have := hl c hc; unfold isHexLower at this; omega
  have hn : ∀ c ∈ hexOfBytes token, c ≠ 124 := fun c hc => by have := hl c hc; unfold isHexLower at this; omega
  simp [decode, decodeInner, utf8_ascii ha, versionMatch_no_bar d hn, unhex_hexOfBytes hb, bind, Except.bind,
    pure, Except.pure]

theorem toDec_chars (ts : Int) : ∀ c ∈ toDec ts, c = 45 ∨ isDigit c = true := by
  intro c hc
  unfold toDec at hc
  split at hc
  · simp only [List.mem_cons] at hc
    rcases hc with rfl | hc
    · exact Or.inl rfl
    · exact Or.inr (decChars_digit _ c hc)
  · exact Or.inr (decChars_digit _ c hc)

/-- a version-2 token text decodes to the secret it was made from, whatever the mask and timestamp -/
theorem decode_issue_v2 (d : Bool) (now : Int) (token mask : Bytes) (ts : Int) (hb : IsBytes token)
    (hm : mask.length = 4) (hmb : IsBytes mask) (hts : (decRev ts.natAbs).length ≤ maxStrDigits) :
    decode d now ([50, 124] ++ hexOfBytes mask ++ [124] ++ hexOfBytes (xorFrom mask 0 token) ++ [124] ++ toDec ts)
      = some ⟨2, token, ts⟩ := by
  have hxb := xorFrom_bytes hmb hb 0
  have h1 := mem_hexOfBytes hmb
  have h2 := mem_hexOfBytes hxb
  have h3 := toDec_chars ts
  have n1 : ∀ c ∈ hexOfBytes mask, c ≠ 124 ∧ c ≠ 10 ∧ c < 128 := fun c hc => by
    have := h1 c hc; unfold isHexLower at this; omega
  have n2 : ∀ c ∈ hexOfBytes (xorFrom mask 0 token), c ≠ 124 ∧ c ≠ 10 ∧ c < 128 := fun c hc => by
    have := h2 c hc; unfold isHexLower at this; omega
  have n3 : ∀ c ∈ toDec ts, c ≠ 124 ∧ c ≠ 10 ∧ c < 128 := fun c hc => by
    rcases h3 c hc with rfl | h
    · decide
    · simp [isDigit] at h; omega
  -- the whole text is ASCII
  have hascii : ∀ c ∈ [50, 124] ++ hexOfBytes mask ++ [124] ++ hexOfBytes (xorFrom mask 0 token) ++ [124] ++ toDec ts,
      c < 128 := by
    intro c hc
    simp only [List.mem_append, List.mem_cons, List.mem_nil_iff, or_false] at hc
    rcases hc with (((((rfl | rfl) | hc) | rfl) | hc) | rfl) | hc
    · decide
    · decide
    · exact (n1 c hc).2.2
    · decide
    · exact (n2 c hc).2.2
    · decide
    · exact (n3 c hc).2.2
  -- the regex matches with digit group "2"
  have hvm : versionMatch d ([50, 124] ++ hexOfBytes mask ++ [124] ++ hexOfBytes (xorFrom mask 0 token) ++ [124] ++ toDec ts)
      = some [50] := by
    have hline : lineOk (hexOfBytes mask ++ [124] ++ hexOfBytes (xorFrom mask 0 token) ++ [124] ++ toDec ts) = true := by
      unfold lineOk
      rw [List.all_eq_true]
      intro c hc
      have hc' := List.dropLast_subset _ hc
      simp only [List.mem_append, List.mem_cons, List.mem_nil_iff, or_false] at hc'
      rcases hc' with (((hc' | rfl) | hc') | rfl) | hc'
      · simpa using (n1 c hc').2.1
      · decide
      · simpa using (n2 c hc').2.1
      · decide
      · simpa using (n3 c hc').2.1
    simp only [List.cons_append, List.nil_append, List.append_assoc] at hline ⊢
    simp [versionMatch, isDigit, hline]
  -- split("|") gives the four fields
  have hsplit : splitBar ([50, 124] ++ hexOfBytes mask ++ [124] ++ hexOfBytes (xorFrom mask 0 token) ++ [124] ++ toDec ts)
      = [[50], hexOfBytes mask, hexOfBytes (xorFrom mask 0 token), toDec ts] := by
    have e : [50, 124] ++ hexOfBytes mask ++ [124] ++ hexOfBytes (xorFrom mask 0 token) ++ [124] ++ toDec ts
        = [50] ++ 124 :: (hexOfBytes mask ++ 124 :: (hexOfBytes (xorFrom mask 0 token) ++ 124 :: toDec ts)) := by
      simp
    rw [e, splitBar_append_bar _ (by intro c hc; simp at hc; omega),
      splitBar_append_bar _ (fun c hc => (n1 c hc).1), splitBar_append_bar _ (fun c hc => (n2 c hc).1),
      splitBar_no_bar (fun c hc => (n3 c hc).1)]
  simp only [decode, decodeInner, utf8_ascii hascii, hvm, hsplit, unhexStr_hex hmb, unhexStr_hex hxb, wsMask, hm,
    xorFrom_involutive, pyInt_toDec ts hts, bind, Except.bind, pure, Except.pure, if_true]

/-! ### the check -/

/-- acceptance, exactly: the presented token decodes to a non-empty secret equal to the expected one
    (the cookie's secret, or the fresh randomness when the cookie carries none) -/
theorem accept_iff (d : Bool) (now : Int) (cookie : Option Str) (fresh : Bytes) (form h1 h2 : Option Str) :
    check d now cookie fresh form h1 h2 = .accept ↔
      ∃ inp r, pickInput form h1 h2 = some inp ∧ inp ≠ [] ∧ decode d now inp = some r ∧ r.token ≠ []
        ∧ r.token = (getRaw d now cookie fresh).2.1 := by
  unfold check
  constructor
  · intro h
    split at h
    · cases h
    · cases h
    · rename_i c r hp
      split at h
      · cases h
      · cases h
      · rename_i v t ts stamp hd
        split at h
        · rename_i heq
          exact ⟨c :: r, ⟨v, t :: ts, stamp⟩, hp, by simp, hd, by simp, heq⟩
        · cases h
  · rintro ⟨inp, r, hp, hne, hd, hne', heq⟩
    rw [hp]
    cases inp with
    | nil => exact absurd rfl hne
    | cons c cs =>
      simp only [hd]
      obtain ⟨v, tok, stamp⟩ := r
      cases tok with
      | nil => exact absurd rfl hne'
      | cons t ts => simp at heq ⊢; exact heq

/-- a refusal is always one of the three 403 reasons: the outcome type has no "server error" inhabitant, and the
    decoder's `try` body can only end in a value or in one of the listed exceptions, all of which are caught -/
theorem decode_total (d : Bool) (now : Int) (s : Str) :
    (decode d now s = none ↔ ∃ e, decodeInner d now s = .error e)
      ∧ (∀ r, decode d now s = some r ↔ decodeInner d now s = .ok r) := by
  unfold decode
  cases decodeInner d now s <;> simp

/-- malformed or missing input is refused, never accepted: no token, an empty token, an undecodable token -/
theorem malformed_refused (d : Bool) (now : Int) (cookie : Option Str) (fresh : Bytes) (form h1 h2 : Option Str)
    (h : ∀ inp, pickInput form h1 h2 = some inp → inp = [] ∨ decode d now inp = none) :
    check d now cookie fresh form h1 h2 ≠ .accept := by
  intro hacc
  obtain ⟨inp, r, hp, hne, hd, _, _⟩ := (accept_iff d now cookie fresh form h1 h2).mp hacc
  rcases h inp hp with h | h
  · exact hne h
  · rw [h] at hd; cases hd

/-- with no usable cookie the only accepted secret is the server's fresh randomness -/
theorem no_cookie_needs_fresh (d : Bool) (now : Int) (fresh : Bytes) (form h1 h2 : Option Str)
    (hacc : check d now none fresh form h1 h2 = .accept) :
    ∃ inp r, pickInput form h1 h2 = some inp ∧ decode d now inp = some r ∧ r.token = fresh := by
  obtain ⟨inp, r, hp, _, hd, _, heq⟩ := (accept_iff d now none fresh form h1 h2).mp hacc
  exact ⟨inp, r, hp, hd, by simpa [getRaw] using heq⟩

/-! ### issued tokens are accepted -/

/-- what `issueTok` produces decodes to the secret (both versions) -/
theorem decode_issued (d : Bool) (now : Int) (v : Nat) (token mask : Bytes) (ts : Int) (t : Str)
    (hb : IsBytes token) (hm : mask.length = 4) (hmb : IsBytes mask)
    (hts : (decRev ts.natAbs).length ≤ maxStrDigits) (hi : issueTok v token mask ts = .ok t) :
    ∃ r, decode d now t = some r ∧ r.token = token := by
  unfold issueTok at hi
  split at hi
  · cases hi
    exact ⟨_, decode_issue_v1 d now token hb, rfl⟩
  · split at hi
    · simp only [wsMask, hm, if_true] at hi
      cases hi
      exact ⟨_, decode_issue_v2 d now token mask ts hb hm hmb hts, rfl⟩
    · cases hi

theorem issued_ne_nil (v : Nat) (token mask : Bytes) (ts : Int) (t : Str) (hne : token ≠ [])
    (hi : issueTok v token mask ts = .ok t) : t ≠ [] := by
  unfold issueTok at hi
  split at hi
  · cases hi
    cases token with
    | nil => exact absurd rfl hne
    | cons b bs => simp [hexOfBytes]
  · split at hi
    · split at hi
      · cases hi; simp
      · cases hi
    · cases hi

/-- **issued_accepted**: for every non-empty secret, every pair of masks, timestamps and format versions, a
    request whose cookie is one issued text and whose presented token is another issued text for the same
    secret is accepted (any re-masking, cross-version), whichever source presents it. -/
theorem issued_accepted (d : Bool) (now : Int) (fresh token mask mask' : Bytes) (ts ts' : Int) (v v' : Nat)
    (c t : Str) (form h1 h2 : Option Str)
    (hne : token ≠ []) (hb : IsBytes token)
    (hm : mask.length = 4) (hmb : IsBytes mask) (hm' : mask'.length = 4) (hmb' : IsBytes mask')
    (hts : (decRev ts.natAbs).length ≤ maxStrDigits) (hts' : (decRev ts'.natAbs).length ≤ maxStrDigits)
    (hc : issueTok v token mask ts = .ok c) (ht : issueTok v' token mask' ts' = .ok t)
    (hp : pickInput form h1 h2 = some t) :
    check d now (some c) fresh form h1 h2 = .accept := by
  obtain ⟨rc, hdc, htc⟩ := decode_issued d now v token mask ts c hb hm hmb hts hc
  obtain ⟨rt, hdt, htt⟩ := decode_issued d now v' token mask' ts' t hb hm' hmb' hts' ht
  have hcne := issued_ne_nil v token mask ts c hne hc
  rw [accept_iff]
  refine ⟨t, rt, hp, issued_ne_nil v' token mask' ts' t hne ht, hdt, by rw [htt]; exact hne, ?_⟩
  rw [htt]
  cases c with
  | nil => exact absurd rfl hcne
  | cons x xs =>
    obtain ⟨vv, tok, stamp⟩ := rc
    simp only at htc
    subst htc
    cases tok with
    | nil => exact absurd rfl hne
    | cons b bs => simp [getRaw, hdc]

/-- where the token may be presented: the form field; `X-XSRFToken` when the form field is absent or empty;
    `X-CSRFToken` when both are absent or empty -/
theorem pick_form (t : Str) (h1 h2 : Option Str) (hne : t ≠ []) : pickInput (some t) h1 h2 = some t := by
  cases t with
  | nil => exact absurd rfl hne
  | cons c r => rfl

theorem pick_h1 (t : Str) (h2 : Option Str) (hne : t ≠ []) :
    pickInput none (some t) h2 = some t ∧ pickInput (some []) (some t) h2 = some t := by
  cases t with
  | nil => exact absurd rfl hne
  | cons c r => exact ⟨rfl, rfl⟩

theorem pick_h2 (t : Str) :
    pickInput none none (some t) = some t ∧ pickInput (some []) (some []) (some t) = some t
      ∧ pickInput none (some []) (some t) = some t ∧ pickInput (some []) none (some t) = some t :=
  ⟨rfl, rfl, rfl, rfl⟩

/-! ### sessions -/

/-- what `issueTok` produces decodes to the secret, with the issue timestamp (format 2) or the clock (format 1) -/
theorem decode_issued_stamp (d : Bool) (now : Int) (v : Nat) (token mask : Bytes) (ts : Int) (t : Str)
    (hb : IsBytes token) (hm : mask.length = 4) (hmb : IsBytes mask)
    (hts : (decRev ts.natAbs).length ≤ maxStrDigits) (hi : issueTok v token mask ts = .ok t) :
    ∃ r, decode d now t = some r ∧ r.token = token ∧ (r.timestamp = now ∨ r.timestamp = ts) := by
  unfold issueTok at hi
  split at hi
  · cases hi
    exact ⟨_, decode_issue_v1 d now token hb, rfl, Or.inl rfl⟩
  · split at hi
    · simp only [wsMask, hm, if_true] at hi
      cases hi
      exact ⟨_, decode_issue_v2 d now token mask ts hb hm hmb hts, rfl, Or.inr rfl⟩
    · cases hi

/-- an issued text is a token for its secret … -/
theorem issued_tokenFor (d : Bool) (v : Nat) (token mask : Bytes) (ts : Int) (t : Str)
    (hne : token ≠ []) (hb : IsBytes token) (hm : mask.length = 4) (hmb : IsBytes mask) (hts : Printable ts)
    (hi : issueTok v token mask ts = .ok t) : TokenFor d t token :=
  ⟨issued_ne_nil v token mask ts t hne hi, fun now => decode_issued d now v token mask ts t hb hm hmb hts hi⟩

/-- … and, used as the `_xsrf` cookie, carries that secret -/
theorem issued_carries (d : Bool) (v : Nat) (token mask : Bytes) (ts : Int) (t : Str)
    (hne : token ≠ []) (hb : IsBytes token) (hm : mask.length = 4) (hmb : IsBytes mask) (hts : Printable ts)
    (hi : issueTok v token mask ts = .ok t) : Carries d t token := by
  refine ⟨issued_ne_nil v token mask ts t hne hi, hne, hb,
    fun now => decode_issued d now v token mask ts t hb hm hmb hts hi, ?_⟩
  intro now r hp hd
  obtain ⟨r', hd', _, hst⟩ := decode_issued_stamp d now v token mask ts t hb hm hmb hts hi
  rw [hd] at hd'
  cases hd'
  rcases hst with h | h <;> rw [h] <;> assumption

/-- a token for the secret the cookie carries is accepted — at any time, whatever the server's fresh randomness,
    from whichever source -/
theorem carried_token_accepted (d : Bool) (now' : Int) (c t : Str) (k fresh' : Bytes) (form h1 h2 : Option Str)
    (hc : Carries d c k) (ht : TokenFor d t k) (hp : pickInput form h1 h2 = some t) :
    check d now' (some c) fresh' form h1 h2 = .accept := by
  obtain ⟨v, stamp, hg, _⟩ := getRaw_carries d now' c k fresh' hc
  obtain ⟨r, hd, hr⟩ := ht.2 now'
  rw [accept_iff]
  exact ⟨t, r, hp, ht.1, hd, by rw [hr]; exact hc.2.1, by rw [hr, hg]⟩

/-- a request arriving with a cookie that carries a secret sets no cookie and returns a token for that secret -/
theorem issue_step_carried (d : Bool) (q : IssueReq) (c : Str) (k : Bytes) (t : Str) (sc : Option Str) (hq : q.Ok)
    (hcar : Carries d c k) (hx : xsrfToken d q.ver q.now (some c) q.fresh q.mask = .ok (t, sc)) :
    sc = none ∧ TokenFor d t k := by
  obtain ⟨_, _, hm, hmb, hnow⟩ := hq
  obtain ⟨v, stamp, hg, hst⟩ := getRaw_carries d q.now c k q.fresh hcar
  unfold xsrfToken at hx
  rw [hg] at hx
  simp only at hx
  cases hi : issueTok q.ver k q.mask stamp with
  | error e => rw [hi] at hx; cases hx
  | ok t' =>
    rw [hi] at hx
    simp only [Option.isNone_some, Bool.false_eq_true, if_false, Except.ok.injEq, Prod.mk.injEq] at hx
    obtain ⟨rfl, rfl⟩ := hx
    exact ⟨rfl, issued_tokenFor d _ _ _ _ _ hcar.2.1 hcar.2.2.1 hm hmb (hst hnow) hi⟩

/-- one request: whatever (textual) cookie it arrives with, if `xsrf_token` returns, the cookie in force afterwards
    carries some secret `k` and the returned text is a token for `k`; a cookie that already carried a secret is
    left alone (no `Set-Cookie`) and keeps its secret (`issue_step_carried`) -/
theorem issue_step (d : Bool) (q : IssueReq) (cookie : Option Str) (t : Str) (sc : Option Str) (hq : q.Ok)
    (hcookie : ∀ s, cookie = some s → IsText s)
    (hx : xsrfToken d q.ver q.now cookie q.fresh q.mask = .ok (t, sc)) :
    ∃ c k, cookieAfter cookie sc = some c ∧ Carries d c k ∧ TokenFor d t k := by
  obtain ⟨hfne, hfb, hm, hmb, hnow⟩ := hq
  unfold xsrfToken at hx
  rcases getRaw_cases d q.now cookie q.fresh with hg | ⟨s, v, b, bs, stamp, hck, hsne, hd, hg⟩
  · rw [hg] at hx
    simp only at hx
    cases hi : issueTok q.ver q.fresh q.mask q.now with
    | error e => rw [hi] at hx; cases hx
    | ok t' =>
      rw [hi] at hx
      simp only [Option.isNone_none, if_true, Except.ok.injEq, Prod.mk.injEq] at hx
      obtain ⟨rfl, rfl⟩ := hx
      exact ⟨t', q.fresh, rfl, issued_carries d _ _ _ _ _ hfne hfb hm hmb hnow hi,
        issued_tokenFor d _ _ _ _ _ hfne hfb hm hmb hnow hi⟩
  · rw [hg] at hx
    simp only at hx
    have hcar := carries_of_decode d q.now s v b bs stamp (hcookie s hck) hsne hnow hd
    have hst : Printable stamp := hcar.2.2.2.2 q.now _ hnow hd
    cases hi : issueTok q.ver (b :: bs) q.mask stamp with
    | error e => rw [hi] at hx; cases hx
    | ok t' =>
      rw [hi] at hx
      simp only [Option.isNone_some, Bool.false_eq_true, if_false, Except.ok.injEq, Prod.mk.injEq] at hx
      obtain ⟨rfl, rfl⟩ := hx
      exact ⟨s, b :: bs, by simp [cookieAfter, hck], hcar,
        issued_tokenFor d _ _ _ _ _ (by simp) hcar.2.2.1 hm hmb hst hi⟩

/-- **session form**, as first stated: whatever cookie request 1 arrives with (absent, undecodable, empty secret,
    legacy, v2), the token text `xsrf_token` produces is accepted in a later request that carries the cookie in
    force after request 1 (the new `Set-Cookie` value if one was set, else the old cookie), under either output
    version.  As written the cookie ranges over *all* lists of naturals, and for a "code point" ≥ 0x110000 the
    model's UTF-8 encoder yields a non-octet, so the statement is false for the model (`session_issued_accepted_refuted`);
    no Python `str` holds such a code point — `session_issued_accepted_partial` is the statement for every `str`. -/
def session_issued_accepted_goal : Prop :=
  ∀ (d : Bool) (now now' : Int) (ver : Nat) (cookie : Option Str) (fresh fresh' mask : Bytes) (t : Str)
    (sc : Option Str) (form h1 h2 : Option Str),
    fresh ≠ [] → IsBytes fresh → mask.length = 4 → IsBytes mask →
    (decRev now.natAbs).length ≤ maxStrDigits →
    xsrfToken d ver now cookie fresh mask = .ok (t, sc) →
    pickInput form h1 h2 = some t →
    check d now' (match sc with | some c => some c | none => cookie) fresh' form h1 h2 = .accept

/-- **session_issued_accepted** for every Python `str` cookie (code points < 0x110000 — decidable side condition):
    the token `xsrf_token` renders in request 1 — any cookie state, any output version, mask, time — is accepted in
    any later request (any time, any fresh randomness, any source) that carries the cookie then in force. -/
theorem session_issued_accepted_partial :
  ∀ (d : Bool) (now now' : Int) (ver : Nat) (cookie : Option Str) (fresh fresh' mask : Bytes) (t : Str)
    (sc : Option Str) (form h1 h2 : Option Str),
    (∀ s, cookie = some s → IsText s) →
    fresh ≠ [] → IsBytes fresh → mask.length = 4 → IsBytes mask →
    (decRev now.natAbs).length ≤ maxStrDigits →
    xsrfToken d ver now cookie fresh mask = .ok (t, sc) →
    pickInput form h1 h2 = some t →
    check d now' (match sc with | some c => some c | none => cookie) fresh' form h1 h2 = .accept := by
  intro d now now' ver cookie fresh fresh' mask t sc form h1 h2 hck hfne hfb hm hmb hnow hx hp
  obtain ⟨c, k, hca, hcar, htf⟩ :=
    issue_step d ⟨ver, now, fresh, mask⟩ cookie t sc ⟨hfne, hfb, hm, hmb, hnow⟩ hck hx
  change check d now' (cookieAfter cookie sc) fresh' form h1 h2 = .accept
  rw [hca]
  exact carried_token_accepted d now' c t k fresh' form h1 h2 hcar htf hp

/-- the statement over raw `List Nat` cookies fails in the model for a non-Unicode "code point": cookie `[0x400000]`
    → `utf8` gives the non-octet 256 → secret `[256,128,128,128]` → issued text "g0808080", which decodes to another
    secret.  An artefact of the model's unbounded code points, not of the code (a `str` cannot hold 0x400000). -/
theorem session_issued_accepted_refuted : ¬ session_issued_accepted_goal := by
  intro h
  have := h false 0 0 1 (some [0x400000]) [1] [1] [0, 0, 0, 0]
    [103, 48, 56, 48, 56, 48, 56, 48] none (some [103, 48, 56, 48, 56, 48, 56, 48]) none none
    (by decide) (by decide) (by decide) (by decide) (by simp [decRev, maxStrDigits]) (by rfl) (by decide)
  revert this
  decide

/-- **a whole session**: the browser starts with any (textual) cookie or none, makes any number of requests that
    render a token — each under its own output-version setting, mask, clock and fresh randomness — and keeps the
    cookie of the latest `Set-Cookie`.  Every token text issued anywhere in the session is accepted, at any later
    time and from any source, with the cookie in force at the end of the session. -/
theorem session_all_accepted (d : Bool) (cookie : Option Str) (qs : List IssueReq)
    (hck : ∀ s, cookie = some s → IsText s) (hqs : ∀ q ∈ qs, q.Ok)
    (t : Str) (ht : t ∈ (sessionRun d cookie qs).2)
    (now' : Int) (fresh' : Bytes) (form h1 h2 : Option Str) (hp : pickInput form h1 h2 = some t) :
    check d now' (sessionRun d cookie qs).1 fresh' form h1 h2 = .accept := by
  -- once the cookie carries a secret it is never replaced and every later token is for that secret
  have stable : ∀ (qs : List IssueReq) (c : Str) (k : Bytes), (∀ q ∈ qs, q.Ok) → Carries d c k →
      (sessionRun d (some c) qs).1 = some c ∧ ∀ t ∈ (sessionRun d (some c) qs).2, TokenFor d t k := by
    intro qs
    induction qs with
    | nil => intro c k _ _; exact ⟨rfl, fun t ht => by cases ht⟩
    | cons q qs ih =>
      intro c k hq hcar
      have ih' := ih c k (fun q' hq' => hq q' (List.mem_cons_of_mem _ hq')) hcar
      unfold sessionRun
      cases hx : xsrfToken d q.ver q.now (some c) q.fresh q.mask with
      | error e => exact ih'
      | ok p =>
        obtain ⟨t1, sc⟩ := p
        obtain ⟨rfl, htf⟩ := issue_step_carried d q c k t1 sc (hq q (List.mem_cons_self ..)) hcar hx
        simp only [cookieAfter]
        refine ⟨ih'.1, ?_⟩
        intro t ht
        simp only [List.mem_cons] at ht
        rcases ht with rfl | ht
        · exact htf
        · exact ih'.2 t ht
  induction qs generalizing cookie with
  | nil => cases ht
  | cons q qs ih =>
    have hq := hqs q (List.mem_cons_self ..)
    have hrest : ∀ q' ∈ qs, q'.Ok := fun q' hq' => hqs q' (List.mem_cons_of_mem _ hq')
    unfold sessionRun at ht ⊢
    cases hx : xsrfToken d q.ver q.now cookie q.fresh q.mask with
    | error e =>
      rw [hx] at ht
      exact ih cookie hck hrest ht
    | ok p =>
      obtain ⟨t1, sc⟩ := p
      rw [hx] at ht
      obtain ⟨c1, k1, hca, hcar, htf⟩ := issue_step d q cookie t1 sc hq hck hx
      simp only [hca] at ht ⊢
      obtain ⟨hfin, htoks⟩ := stable qs c1 k1 hrest hcar
      rw [hfin]
      simp only [List.mem_cons] at ht
      rcases ht with rfl | ht
      · exact carried_token_accepted d now' c1 _ k1 fresh' form h1 h2 hcar htf hp
      · exact carried_token_accepted d now' c1 t k1 fresh' form h1 h2 hcar (htoks t ht) hp

-- model = specification: `check_eq_spec` in `C24/SpecLink.lean`.

/-! ### non-vacuity -/

example : IsBytes [0xab, 0xcd] := by unfold IsBytes; decide
example : issueTok 2 [0xab, 0xcd] [1, 2, 3, 4] 5 = .ok ("2|01020304|aacf|5".toList.map Char.toNat) := by
  simp [issueTok, wsMask, xorFrom, hexOfBytes, hexDigit, toDec, decRev]
example : issueTok 1 [0xab, 0xcd] [1, 2, 3, 4] 5 = .ok ("abcd".toList.map Char.toNat) := by
  simp [issueTok, hexOfBytes, hexDigit]
example : (decRev (1700000000 : Int).natAbs).length ≤ maxStrDigits := by simp [decRev, maxStrDigits]
/-- cookie in the legacy format, token re-masked in format 2, presented in the X-CSRFToken header: accepted -/
example : check false 0 (some ("abcd".toList.map Char.toNat)) [9]
    none (some []) (some ("2|01020304|aacf|5".toList.map Char.toNat)) = .accept := by decide
/-- another session's token: refused -/
example : check false 0 (some ("abcd".toList.map Char.toNat)) [9]
    (some ("2|01020304|aace|5".toList.map Char.toNat)) none none = .refuseMismatch := by decide
/-- an empty secret is never accepted, even against a cookie that carries the same empty secret -/
example : check false 0 (some ("2|01020304||5".toList.map Char.toNat)) [9]
    (some ("2|01020304||5".toList.map Char.toNat)) none none = .refuseFormat := by decide

/-! ### non-vacuity of the session theorems -/

/-- a request that satisfies the side conditions (16 would do as well as 2 octets of randomness) -/
example : (⟨2, 5, [0xab, 0xcd], [1, 2, 3, 4]⟩ : IssueReq).Ok :=
  ⟨by decide, by decide, by decide, by decide, by simp [Printable, decRev, maxStrDigits]⟩
example : IsText ("2|00000000||0".toList.map Char.toNat) := by decide
/-- a session: the browser arrives with a cookie that carries the *empty* secret (the defect witness of docs/C24.md);
    request 1 (format 2) replaces it and renders a token; request 2 (format 1) renders the legacy form of the same
    secret; request 3 runs under an unknown version setting and raises.  Two tokens, one cookie in force. -/
example : sessionRun false (some ("2|00000000||0".toList.map Char.toNat))
      [⟨2, 5, [0xab, 0xcd], [1, 2, 3, 4]⟩, ⟨1, 7, [9], [0, 0, 0, 0]⟩, ⟨3, 7, [9], [0, 0, 0, 0]⟩]
    = (some ("2|01020304|aacf|5".toList.map Char.toNat),
       ["2|01020304|aacf|5".toList.map Char.toNat, "abcd".toList.map Char.toNat]) := by
  have h5 : toDec 5 = [53] := by simp [toDec, decRev]
  have h1 : xsrfToken false 2 5 (some ("2|00000000||0".toList.map Char.toNat)) [0xab, 0xcd] [1, 2, 3, 4]
      = .ok ("2|01020304|aacf|5".toList.map Char.toNat, some ("2|01020304|aacf|5".toList.map Char.toNat)) := by
    have : getRaw false 5 (some ("2|00000000||0".toList.map Char.toNat)) [0xab, 0xcd] = (none, [0xab, 0xcd], 5) := by
      decide
    simp only [xsrfToken, this, issueTok, wsMask, h5]
    rfl
  simp only [sessionRun, h1, cookieAfter]
  decide
/-- both are then accepted with that cookie (here: the legacy one, in the X-XSRFToken header, a year later) -/
example : check false 31536000 (some ("2|01020304|aacf|5".toList.map Char.toNat)) [7]
    none (some ("abcd".toList.map Char.toNat)) none = .accept := by decide
/-- the refutation witness is not a `str` -/
example : ¬ IsText [0x400000] := by decide

end TornadoModel.C24
