/-
C24 — executable model of Tornado's XSRF token code (tornado/web.py), as it is:
`RequestHandler.xsrf_token`, `_get_raw_xsrf_token`, `_decode_xsrf_token`, `check_xsrf_cookie`.

Python `str` = list of code points (`Str`), `bytes` = list of naturals < 256 (`Bytes`).  `os.urandom` (the fresh
16-byte token, the 4-byte mask) and `time.time()` are parameters.  `dotall` says whether the version regex
`_signed_value_version_re` is compiled with `re.DOTALL` (the harness reads the flag from the code under test):
without it `.` stops at a newline, so a value with an interior "\n" is not recognised as versioned.
Exceptions raised inside `_decode_xsrf_token` are explicit (`Exc`); the `except Exception` is `decode`.
-/
namespace TornadoModel.C24

abbrev Str := List Nat
abbrev Bytes := List Nat

inductive Exc where
  | unicodeEncode     -- utf8() of a str with a lone surrogate
  | binascii          -- binascii.Error (odd length / non-hex digit)
  | valueError        -- int(), tuple unpacking, websocket_mask with a mask that is not 4 bytes
  | unknownVersion    -- raise Exception("Unknown xsrf cookie version")
  deriving Repr, DecidableEq

/-! ### primitives -/

def isSurrogate (c : Nat) : Bool := 0xD800 ≤ c && c ≤ 0xDFFF

def utf8Char (c : Nat) : List Nat :=
  if c < 0x80 then [c]
  else if c < 0x800 then [0xC0 + c / 64, 0x80 + c % 64]
  else if c < 0x10000 then [0xE0 + c / 4096, 0x80 + c / 64 % 64, 0x80 + c % 64]
  else [0xF0 + c / 262144, 0x80 + c / 4096 % 64, 0x80 + c / 64 % 64, 0x80 + c % 64]

/-- `tornado.escape.utf8(s)` for a `str` -/
def utf8 (s : Str) : Except Exc Bytes :=
  if s.any isSurrogate then .error .unicodeEncode else .ok (s.flatMap utf8Char)

def isDigit (c : Nat) : Bool := 48 ≤ c && c ≤ 57

def hexDigit (n : Nat) : Nat := if n < 10 then 48 + n else 87 + n

/-- `binascii.b2a_hex` -/
def hexOfBytes : Bytes → Str
  | [] => []
  | b :: bs => hexDigit (b / 16) :: hexDigit (b % 16) :: hexOfBytes bs

def hexVal (c : Nat) : Option Nat :=
  if 48 ≤ c ∧ c ≤ 57 then some (c - 48)
  else if 97 ≤ c ∧ c ≤ 102 then some (c - 87)
  else if 65 ≤ c ∧ c ≤ 70 then some (c - 55)
  else none

/-- `binascii.a2b_hex` on a byte string -/
def unhex : Bytes → Except Exc Bytes
  | [] => .ok []
  | [_] => .error .binascii
  | a :: b :: rest =>
    match hexVal a, hexVal b, unhex rest with
    | some h, some l, .ok r => .ok ((h * 16 + l) :: r)
    | _, _, _ => .error .binascii

/-- `binascii.a2b_hex(utf8(s))` -/
def unhexStr (s : Str) : Except Exc Bytes := utf8 s >>= unhex

/-- byte `i` XOR key byte `i mod 4`, first byte having index `i` (RFC 6455 masking, see C18) -/
def xorFrom (mask : Bytes) : Nat → Bytes → Bytes
  | _, [] => []
  | i, b :: bs => (b ^^^ mask.getD (i % 4) 0) :: xorFrom mask (i + 1) bs

/-- `tornado.util._websocket_mask(mask, data)` -/
def wsMask (mask data : Bytes) : Except Exc Bytes :=
  if mask.length = 4 then .ok (xorFrom mask 0 data) else .error .valueError

/-- `str.split("|")` -/
def splitBar : Str → List Str
  | [] => [[]]
  | c :: rest =>
    if c = 124 then [] :: splitBar rest
    else match splitBar rest with
      | h :: t => (c :: h) :: t
      | [] => [[c]]

/-! ### `int(s)` for a `str` (code points < 256 exactly; see ASSUMPTIONS for the rest of Unicode) -/

def isIntSpace (c : Nat) : Bool := (9 ≤ c && c ≤ 13) || c = 32 || c = 0x85 || c = 0xA0

def stripSpace (s : Str) : Str := ((s.dropWhile isIntSpace).reverse.dropWhile isIntSpace).reverse

/-- digits with single underscores between digits → the digit values -/
def digitsLoop : Str → Option (List Nat)
  | [] => some []
  | [95] => none
  | 95 :: c :: rest => if isDigit c then (digitsLoop rest).map ((c - 48) :: ·) else none
  | c :: rest => if isDigit c then (digitsLoop rest).map ((c - 48) :: ·) else none

def parseDigits : Str → Option (List Nat)
  | [] => none
  | c :: rest => if isDigit c then (digitsLoop rest).map ((c - 48) :: ·) else none

def digitsVal (ds : List Nat) : Nat := ds.foldl (fun a d => a * 10 + d) 0

/-- sys.int_info.default_max_str_digits -/
def maxStrDigits : Nat := 4300

/-- optional sign: (negative?, rest) -/
def signSplit : Str → Bool × Str
  | 45 :: r => (true, r)
  | 43 :: r => (false, r)
  | r => (false, r)

def pyInt (s : Str) : Option Int :=
  let (neg, body) := signSplit (stripSpace s)
  match parseDigits body with
  | none => none
  | some ds =>
    if ds.length > maxStrDigits then none
    else some (if neg then -(digitsVal ds : Int) else (digitsVal ds : Int))

/-- least significant decimal digit first -/
def decRev (n : Nat) : List Nat :=
  if h : n < 10 then [n] else (n % 10) :: decRev (n / 10)
termination_by n
decreasing_by omega

/-- `str(n)` for an `int` -/
def toDec (i : Int) : Str :=
  let ds := (decRev i.natAbs).reverse.map (· + 48)
  if i < 0 then 45 :: ds else ds

/-! ### the version regex `^([1-9][0-9]*)\|(.*)$` (matched against the UTF-8 bytes; digits, `|` and "\n" are
ASCII, so matching the code points is the same) -/

/-- `(.*)$` without DOTALL: no newline except possibly as the very last character -/
def lineOk (tail : Str) : Bool := tail.dropLast.all (· ≠ 10)

/-- the digit group if the regex matches -/
def versionMatch (dotall : Bool) (s : Str) : Option Str :=
  match s.takeWhile isDigit, s.dropWhile isDigit with
  | d :: ds, 124 :: tail => if d ≠ 48 ∧ (dotall ∨ lineOk tail) then some (d :: ds) else none
  | _, _ => none

/-! ### `_decode_xsrf_token` -/

structure Raw where
  version : Nat
  token : Bytes
  timestamp : Int
  deriving Repr, DecidableEq

/-- the body of the `try:` -/
def decodeInner (dotall : Bool) (now : Int) (s : Str) : Except Exc Raw := do
  let b ← utf8 s
  match versionMatch dotall s with
  | some ds =>
    if ds = [50] then
      match splitBar s with
      | [_, maskStr, masked, tsStr] => do
        let mask ← unhexStr maskStr
        let body ← unhexStr masked
        let token ← wsMask mask body
        match pyInt tsStr with
        | some ts => pure ⟨2, token, ts⟩
        | none => throw .valueError
      | _ => throw .valueError
    else throw .unknownVersion
  | none =>
    match unhex b with
    | .ok t => pure ⟨1, t, now⟩
    | .error _ => pure ⟨1, b, now⟩

/-- `_decode_xsrf_token`: `except Exception: return None, None, None` -/
def decode (dotall : Bool) (now : Int) (s : Str) : Option Raw :=
  match decodeInner dotall now s with
  | .ok r => some r
  | .error _ => none

/-! ### `_get_raw_xsrf_token`, `xsrf_token`, `check_xsrf_cookie` -/

/-- (version or None, token, timestamp): the cookie's token, or fresh randomness when the cookie is absent,
    empty, undecodable, or decodes to an empty token (`if not token:` — after the `fix:` commit; before it an
    empty token was kept, and every token issued for such a cookie was refused) -/
def getRaw (dotall : Bool) (now : Int) (cookie : Option Str) (fresh : Bytes) : Option Nat × Bytes × Int :=
  match cookie with
  | some (c :: cs) =>
    match decode dotall now (c :: cs) with
    | some ⟨v, t :: ts, stamp⟩ => (some v, t :: ts, stamp)
    | _ => (none, fresh, now)
  | _ => (none, fresh, now)

/-- the token text for output version `ver` (`ValueError` for an unknown version) -/
def issueTok (ver : Nat) (token mask : Bytes) (ts : Int) : Except Exc Str :=
  if ver = 1 then .ok (hexOfBytes token)
  else if ver = 2 then
    match wsMask mask token with
    | .ok m => .ok ([50, 124] ++ hexOfBytes mask ++ [124] ++ hexOfBytes m ++ [124] ++ toDec ts)
    | .error e => .error e
  else .error .valueError

/-- `xsrf_token`: (token text, value of the `_xsrf` cookie set by this request if any) -/
def xsrfToken (dotall : Bool) (ver : Nat) (now : Int) (cookie : Option Str) (fresh mask : Bytes) :
    Except Exc (Str × Option Str) :=
  match getRaw dotall now cookie fresh with
  | (v, token, ts) =>
    match issueTok ver token mask ts with
    | .ok t => .ok (t, if v.isNone then some t else none)
    | .error e => .error e

/-- `a or b or c` over the form argument and the two headers -/
def pickInput (form h1 h2 : Option Str) : Option Str :=
  match form with
  | some (c :: r) => some (c :: r)
  | _ => match h1 with
    | some (c :: r) => some (c :: r)
    | _ => h2

inductive Outcome where
  | accept
  | refuseMissing      -- 403 "'_xsrf' argument missing from POST"
  | refuseFormat       -- 403 "'_xsrf' argument has invalid format"
  | refuseMismatch     -- 403 "XSRF cookie does not match POST argument"
  deriving Repr, DecidableEq

def check (dotall : Bool) (now : Int) (cookie : Option Str) (fresh : Bytes) (form h1 h2 : Option Str) : Outcome :=
  match pickInput form h1 h2 with
  | none => .refuseMissing
  | some [] => .refuseMissing
  | some (c :: r) =>
    match decode dotall now (c :: r) with
    | none => .refuseFormat
    | some ⟨_, [], _⟩ => .refuseFormat
    | some ⟨_, t :: ts, _⟩ =>
      if t :: ts = (getRaw dotall now cookie fresh).2.1 then .accept else .refuseMismatch

end TornadoModel.C24
