/-
C24 — the specification: the acceptance rule.

A token text *carries* the secret its decoder yields (`secret`; the text format — legacy hex/raw, or
`2|hex(mask)|hex(mask XOR secret)|timestamp` — is defined by `Model.decode`, version and timestamp ignored).
A state-changing request is let through to the handler exactly when its `_xsrf` cookie carries a non-empty
secret and the token it presents — the first non-empty of: `_xsrf` argument, `X-XSRFToken`, `X-CSRFToken` —
carries the same secret.  No cookie, an undecodable cookie or token, an empty secret: refused.
-/
import TornadoModel.C24.Model
namespace TornadoModel.C24.Spec
open TornadoModel.C24

def secret (dotall : Bool) (s : Str) : Option Bytes := (decode dotall 0 s).map (·.token)

def presented (form h1 h2 : Option Str) : Option Str :=
  [form, h1, h2].findSome? (fun o => match o with | some (c :: r) => some (c :: r) | _ => none)

def accepts (dotall : Bool) (cookie form h1 h2 : Option Str) : Bool :=
  match cookie, presented form h1 h2 with
  | some c, some t =>
    match secret dotall c, secret dotall t with
    | some a, some b => a ≠ [] && a == b
    | _, _ => false
  | _, _ => false

end TornadoModel.C24.Spec
