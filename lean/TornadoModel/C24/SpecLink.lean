/- C24 — the model's acceptance decision equals the specification (`Spec.accepts`). -/
import TornadoModel.C24.Props
namespace TornadoModel.C24

/-- the decoded secret does not depend on the clock -/
theorem decode_token_now (d : Bool) (now : Int) (s : Str) :
    (decode d now s).map (·.token) = (decode d 0 s).map (·.token) := by
  unfold decode decodeInner
  cases utf8 s with
  | error e => rfl
  | ok b =>
    simp only [bind, Except.bind]
    cases versionMatch d s with
    | some ds => rfl
    | none =>
      simp only []
      cases unhex b <;> rfl

theorem secret_eq (d : Bool) (now : Int) (s : Str) : Spec.secret d s = (decode d now s).map (·.token) := by
  unfold Spec.secret
  rw [decode_token_now d now s]

theorem presented_eq (form h1 h2 : Option Str) :
    Spec.presented form h1 h2 = (match pickInput form h1 h2 with | some (c :: r) => some (c :: r) | _ => none) := by
  rcases form with _ | _ | ⟨a, as⟩ <;> rcases h1 with _ | _ | ⟨b, bs⟩ <;> rcases h2 with _ | _ | ⟨c, cs⟩ <;> rfl

theorem decode_nil (d : Bool) (now : Int) : decode d now [] = some ⟨1, [], now⟩ := by
  cases d <;> rfl

/-- **model = specification**: unless the presented token decodes to the server's own fresh randomness
    (os.urandom is unpredictable), the model lets a request through exactly when `Spec.accepts` says so. -/
theorem check_eq_spec (d : Bool) (now : Int) (cookie : Option Str) (fresh : Bytes) (form h1 h2 : Option Str)
    (hfresh : ∀ inp r, pickInput form h1 h2 = some inp → decode d now inp = some r → r.token ≠ fresh) :
    check d now cookie fresh form h1 h2 = .accept ↔ Spec.accepts d cookie form h1 h2 = true := by
  rw [accept_iff]
  constructor
  · rintro ⟨inp, r, hp, hne, hd, hne', heq⟩
    have hnf := hfresh inp r hp hd
    cases inp with
    | nil => exact absurd rfl hne
    | cons x xs =>
      have hpres : Spec.presented form h1 h2 = some (x :: xs) := by rw [presented_eq, hp]
      have hst : Spec.secret d (x :: xs) = some r.token := by rw [secret_eq d now, hd]; rfl
      -- the cookie must carry the secret, otherwise the expected token is `fresh`
      rcases cookie with _ | _ | ⟨c, cs⟩
      · exact absurd (by simpa [getRaw] using heq) hnf
      · exact absurd (by simpa [getRaw] using heq) hnf
      · cases hdc : decode d now (c :: cs) with
        | none => exact absurd (by simpa [getRaw, hdc] using heq) hnf
        | some rc =>
          obtain ⟨v, tok, stamp⟩ := rc
          cases tok with
          | nil => exact absurd (by simpa [getRaw, hdc] using heq) hnf
          | cons t ts =>
            have hsc : Spec.secret d (c :: cs) = some (t :: ts) := by rw [secret_eq d now, hdc]; rfl
            have e : r.token = t :: ts := by simpa [getRaw, hdc] using heq
            simp [Spec.accepts, hpres, hsc, hst, e]
  · intro h
    unfold Spec.accepts at h
    rcases cookie with _ | c
    · simp at h
    · cases hpres : Spec.presented form h1 h2 with
      | none => simp [hpres] at h
      | some t =>
        rw [hpres] at h
        simp only at h
        cases hsc : Spec.secret d c with
        | none => simp [hsc] at h
        | some a =>
          cases hst : Spec.secret d t with
          | none => simp [hsc, hst] at h
          | some b =>
            simp only [hsc, hst, Bool.and_eq_true, decide_eq_true_eq, beq_iff_eq] at h
            obtain ⟨hane, hab⟩ := h
            -- the presented token
            rw [presented_eq] at hpres
            have hp : ∃ x xs, pickInput form h1 h2 = some (x :: xs) ∧ t = x :: xs := by
              cases hq : pickInput form h1 h2 with
              | none => simp [hq] at hpres
              | some q =>
                cases q with
                | nil => simp [hq] at hpres
                | cons x xs => simp [hq] at hpres; exact ⟨x, xs, rfl, hpres.symm⟩
            obtain ⟨x, xs, hp, rfl⟩ := hp
            rw [secret_eq d now] at hsc hst
            cases hdt : decode d now (x :: xs) with
            | none => simp [hdt] at hst
            | some r =>
              rw [hdt] at hst
              simp only [Option.map_some, Option.some.injEq] at hst
              cases c with
              | nil => rw [decode_nil] at hsc; simp at hsc; exact absurd hsc hane
              | cons c0 cs =>
                cases hdc : decode d now (c0 :: cs) with
                | none => simp [hdc] at hsc
                | some rc =>
                  rw [hdc] at hsc
                  simp only [Option.map_some, Option.some.injEq] at hsc
                  obtain ⟨v, tok, stamp⟩ := rc
                  simp only at hsc
                  subst hsc
                  cases tok with
                  | nil => exact absurd rfl hane
                  | cons t0 ts0 =>
                    refine ⟨x :: xs, r, hp, by simp, hdt, by rw [hst, ← hab]; simp, ?_⟩
                    simp [getRaw, hdc, hst, ← hab]

end TornadoModel.C24
