/- C24 — invariants of the decoder used by the session theorem: what `_decode_xsrf_token` returns is always a
   byte string (for a real Python `str`, i.e. code points < 0x110000), its timestamp always prints with at most
   4300 digits, and the secret does not depend on the clock. -/
import TornadoModel.C24.Lemmas
namespace TornadoModel.C24

/-- a Python `str`: every code point is below `sys.maxunicode + 1` -/
def IsText (s : Str) : Prop := ∀ c ∈ s, c < 0x110000

instance (s : Str) : Decidable (IsText s) := by unfold IsText; infer_instance
instance (l : List Nat) : Decidable (IsBytes l) := by unfold IsBytes; infer_instance

/-! ### the decoder yields octets -/

theorem hexVal_lt {c h : Nat} (hh : hexVal c = some h) : h < 16 := by
  unfold hexVal at hh
  split at hh
  · cases hh; omega
  · split at hh
    · cases hh; omega
    · split at hh
      · cases hh; omega
      · cases hh

theorem unhex_bytes : ∀ (b t : Bytes), unhex b = .ok t → IsBytes t
  | [], t, h => by
    simp only [unhex] at h; cases h; intro x hx; cases hx
  | [_], t, h => by simp [unhex] at h
  | a :: b :: rest, t, h => by
    unfold unhex at h
    split at h
    · rename_i hv lv r hh hl hr
      cases h
      have ih := unhex_bytes rest r hr
      intro x hx
      simp only [List.mem_cons] at hx
      rcases hx with rfl | hx
      · have := hexVal_lt hh; have := hexVal_lt hl; omega
      · exact ih x hx
    · cases h

theorem utf8Char_bytes {c : Nat} (hc : c < 0x110000) : IsBytes (utf8Char c) := by
  intro x hx
  unfold utf8Char at hx
  split at hx
  · simp only [List.mem_cons, List.not_mem_nil, or_false] at hx; omega
  · split at hx
    · simp only [List.mem_cons, List.not_mem_nil, or_false] at hx; omega
    · split at hx
      · simp only [List.mem_cons, List.not_mem_nil, or_false] at hx; omega
      · simp only [List.mem_cons, List.not_mem_nil, or_false] at hx; omega

theorem utf8_bytes {s : Str} {b : Bytes} (hs : IsText s) (h : utf8 s = .ok b) : IsBytes b := by
  unfold utf8 at h
  split at h
  · cases h
  · cases h
    intro x hx
    simp only [List.mem_flatMap] at hx
    obtain ⟨c, hc, hx⟩ := hx
    exact utf8Char_bytes (hs c hc) x hx

theorem unhexStr_bytes {s : Str} {t : Bytes} (h : unhexStr s = .ok t) : IsBytes t := by
  unfold unhexStr at h
  cases hu : utf8 s with
  | error e => rw [hu] at h; cases h
  | ok b => rw [hu] at h; exact unhex_bytes b t h

/-! ### `len(str(int(s))) ≤ 4300` whenever `int(s)` succeeded -/

theorem decRev_length_le : ∀ (k n : Nat), 1 ≤ k → n < 10 ^ k → (decRev n).length ≤ k := by
  intro k
  induction k with
  | zero => intro n h; omega
  | succ k ih =>
    intro n _ hn
    rw [decRev]
    split
    · simp
    · rename_i h10
      have hk : 1 ≤ k := by
        rcases Nat.eq_zero_or_pos k with rfl | h
        · simp at hn; omega
        · exact h
      have : n / 10 < 10 ^ k := by
        rw [Nat.pow_succ] at hn
        omega
      have := ih (n / 10) hk this
      simp only [List.length_cons]
      omega

theorem foldl_digits_lt (ds : List Nat) (hd : ∀ x ∈ ds, x < 10) :
    ∀ a, ds.foldl (fun a d => a * 10 + d) a + 1 ≤ (a + 1) * 10 ^ ds.length := by
  induction ds with
  | nil => intro a; simp
  | cons x xs ih =>
    intro a
    have hx := hd x (List.mem_cons_self ..)
    have h1 := ih (fun y hy => hd y (List.mem_cons_of_mem _ hy)) (a * 10 + x)
    simp only [List.foldl_cons, List.length_cons]
    have h2 : (a * 10 + x + 1) * 10 ^ xs.length ≤ ((a + 1) * 10) * 10 ^ xs.length :=
      Nat.mul_le_mul_right _ (by omega)
    calc _ ≤ (a * 10 + x + 1) * 10 ^ xs.length := h1
      _ ≤ ((a + 1) * 10) * 10 ^ xs.length := h2
      _ = (a + 1) * 10 ^ (xs.length + 1) := by rw [Nat.pow_succ, Nat.mul_assoc, Nat.mul_comm 10]

theorem digitsVal_lt (ds : List Nat) (hd : ∀ x ∈ ds, x < 10) : digitsVal ds < 10 ^ ds.length := by
  have := foldl_digits_lt ds hd 0
  simp only [Nat.zero_add, Nat.one_mul] at this
  unfold digitsVal
  omega

theorem digitsLoop_lt : ∀ (s : Str) (ds : List Nat), digitsLoop s = some ds → ∀ x ∈ ds, x < 10 := by
  intro s
  induction s using digitsLoop.induct with
  | case1 => intro ds h; simp [digitsLoop] at h; subst h; intro x hx; cases hx
  | case2 => intro ds h; simp [digitsLoop] at h
  | case3 c rest hc ih =>
    intro ds h
    simp only [digitsLoop, hc, if_true, Option.map_eq_some_iff] at h
    obtain ⟨ds', h', rfl⟩ := h
    intro x hx
    simp only [List.mem_cons] at hx
    rcases hx with rfl | hx
    · simp [isDigit] at hc; omega
    · exact ih ds' h' x hx
  | case4 c rest hc => intro ds h; simp [digitsLoop, hc] at h
  | case5 c rest _ _ hc ih =>
    intro ds h
    rw [digitsLoop] at h
    · simp only [hc, if_true, Option.map_eq_some_iff] at h
      obtain ⟨ds', h', rfl⟩ := h
      intro x hx
      simp only [List.mem_cons] at hx
      rcases hx with rfl | hx
      · simp [isDigit] at hc; omega
      · exact ih ds' h' x hx
    all_goals assumption
  | case6 c rest _ _ hc =>
    intro ds h
    rw [digitsLoop] at h
    · simp [hc] at h
    all_goals assumption

theorem parseDigits_lt {s : Str} {ds : List Nat} (h : parseDigits s = some ds) :
    ds ≠ [] ∧ ∀ x ∈ ds, x < 10 := by
  unfold parseDigits at h
  split at h
  · cases h
  · rename_i c rest
    split at h
    · rename_i hc
      simp only [Option.map_eq_some_iff] at h
      obtain ⟨ds', h', rfl⟩ := h
      refine ⟨by simp, ?_⟩
      intro x hx
      simp only [List.mem_cons] at hx
      rcases hx with rfl | hx
      · simp [isDigit] at hc; omega
      · exact digitsLoop_lt rest ds' h' x hx
    · cases h

/-- whatever `int(s)` returns prints with at most 4300 digits -/
theorem pyInt_digits {s : Str} {i : Int} (h : pyInt s = some i) :
    (decRev i.natAbs).length ≤ maxStrDigits := by
  unfold pyInt at h
  simp only at h
  split at h
  · cases h
  · rename_i ds hp
    obtain ⟨hne, hlt⟩ := parseDigits_lt hp
    split at h
    · cases h
    · rename_i hlen
      have hv := digitsVal_lt ds hlt
      have h1 : 1 ≤ ds.length := by
        cases ds with
        | nil => exact absurd rfl hne
        | cons _ _ => simp
      have hb := decRev_length_le ds.length (digitsVal ds) h1 hv
      have hn : i.natAbs = digitsVal ds := by
        cases h
        split <;> simp
      rw [hn]
      omega

/-! ### the decoder, case by case -/

/-- the secret does not depend on the clock (request 1 and request 2 read the same cookie at different times) -/
theorem decode_token_clock (d : Bool) (now now' : Int) (s : Str) :
    (decode d now s).map (·.token) = (decode d now' s).map (·.token) := by
  unfold decode decodeInner
  cases utf8 s with
  | error e => rfl
  | ok b =>
    simp only [bind, Except.bind]
    cases versionMatch d s with
    | some ds => rfl
    | none =>
      simp only []
      cases unhex b <;> rfl

/-- what the decoder returns: octets, and a timestamp that is either the clock or a parsed `int` -/
theorem decode_inv (d : Bool) (now : Int) (s : Str) (r : Raw) (hs : IsText s)
    (hnow : (decRev now.natAbs).length ≤ maxStrDigits) (h : decode d now s = some r) :
    IsBytes r.token ∧ (decRev r.timestamp.natAbs).length ≤ maxStrDigits := by
  unfold decode at h
  cases hi : decodeInner d now s with
  | error e => rw [hi] at h; cases h
  | ok r' =>
    rw [hi] at h
    cases h
    unfold decodeInner at hi
    cases hu : utf8 s with
    | error e => rw [hu] at hi; cases hi
    | ok b =>
      rw [hu] at hi
      simp only [bind, Except.bind] at hi
      have hbb := utf8_bytes hs hu
      split at hi
      · -- versioned
        split at hi
        · split at hi
          · rename_i maskStr masked tsStr _
            cases hm : unhexStr maskStr with
            | error e => rw [hm] at hi; cases hi
            | ok mask =>
              rw [hm] at hi
              simp only at hi
              cases hb : unhexStr masked with
              | error e => rw [hb] at hi; cases hi
              | ok body =>
                rw [hb] at hi
                simp only at hi
                cases hw : wsMask mask body with
                | error e => rw [hw] at hi; cases hi
                | ok token =>
                  rw [hw] at hi
                  simp only at hi
                  cases hp : pyInt tsStr with
                  | none => rw [hp] at hi; cases hi
                  | some ts =>
                    rw [hp] at hi
                    cases hi
                    refine ⟨?_, pyInt_digits hp⟩
                    unfold wsMask at hw
                    split at hw
                    · cases hw
                      exact xorFrom_bytes (unhexStr_bytes hm) (unhexStr_bytes hb) 0
                    · cases hw
          · cases hi
        · cases hi
      · -- legacy
        cases hx : unhex b with
        | ok t =>
          rw [hx] at hi
          cases hi
          exact ⟨unhex_bytes b t hx, hnow⟩
        | error e =>
          rw [hx] at hi
          cases hi
          exact ⟨hbb, hnow⟩

/-! ### `_get_raw_xsrf_token`, case by case -/

/-- either the cookie is unusable (absent, empty, undecodable, empty secret) and the server takes fresh randomness
    and the current time, or the cookie decodes to a non-empty secret, which is kept with its own timestamp -/
theorem getRaw_cases (d : Bool) (now : Int) (cookie : Option Str) (fresh : Bytes) :
    getRaw d now cookie fresh = (none, fresh, now) ∨
    ∃ s v t ts stamp, cookie = some s ∧ s ≠ [] ∧ decode d now s = some ⟨v, t :: ts, stamp⟩
      ∧ getRaw d now cookie fresh = (some v, t :: ts, stamp) := by
  unfold getRaw
  split
  · rename_i c cs
    split
    · rename_i v t ts stamp hd
      exact Or.inr ⟨c :: cs, v, t, ts, stamp, rfl, by simp, hd, rfl⟩
    · exact Or.inl rfl
  · exact Or.inl rfl

/-- a cookie that decodes to a non-empty secret at one time yields the same expected secret at any other time -/
theorem getRaw_token_clock (d : Bool) (now now' : Int) (s : Str) (fresh' : Bytes) (v : Nat) (t : Nat) (ts : Bytes)
    (stamp : Int) (hne : s ≠ []) (hd : decode d now s = some ⟨v, t :: ts, stamp⟩) :
    (getRaw d now' (some s) fresh').2.1 = t :: ts := by
  have hc := decode_token_clock d now' now s
  rw [hd] at hc
  cases hd' : decode d now' s with
  | none => rw [hd'] at hc; cases hc
  | some r' =>
    rw [hd'] at hc
    simp only [Option.map_some, Option.some.injEq] at hc
    obtain ⟨v', tok', stamp'⟩ := r'
    simp only at hc
    subst hc
    cases s with
    | nil => exact absurd rfl hne
    | cons c cs => simp [getRaw, hd']

/-! ### sessions: the cookie in force carries a secret; a token text is a token for a secret -/

/-- decimal form has at most 4300 digits (`str(int)` works) -/
def Printable (i : Int) : Prop := (decRev i.natAbs).length ≤ maxStrDigits

/-- the cookie text `c` carries the non-empty secret `k`: at every time it decodes to `k`, and (when the clock is
    printable) to a printable timestamp -/
def Carries (d : Bool) (c : Str) (k : Bytes) : Prop :=
  c ≠ [] ∧ k ≠ [] ∧ IsBytes k ∧ (∀ now, ∃ r, decode d now c = some r ∧ r.token = k) ∧
    (∀ now r, Printable now → decode d now c = some r → Printable r.timestamp)

/-- the token text `t` is a token for the secret `k` -/
def TokenFor (d : Bool) (t : Str) (k : Bytes) : Prop :=
  t ≠ [] ∧ ∀ now, ∃ r, decode d now t = some r ∧ r.token = k

/-- one token-issuing request of a session: output version setting, clock, os.urandom(16), os.urandom(4) -/
structure IssueReq where
  ver : Nat
  now : Int
  fresh : Bytes
  mask : Bytes

def IssueReq.Ok (q : IssueReq) : Prop :=
  q.fresh ≠ [] ∧ IsBytes q.fresh ∧ q.mask.length = 4 ∧ IsBytes q.mask ∧ Printable q.now

/-- the cookie in force after a request that arrived with `cookie` and whose `xsrf_token` set `sc` -/
def cookieAfter (cookie sc : Option Str) : Option Str := match sc with | some c => some c | none => cookie

/-- a browser session: every request calls `xsrf_token` (an unknown version setting raises and issues nothing);
    the browser keeps the cookie of the latest `Set-Cookie`.  Result: cookie in force at the end, all token texts
    issued on the way. -/
def sessionRun (d : Bool) (cookie : Option Str) : List IssueReq → Option Str × List Str
  | [] => (cookie, [])
  | q :: qs =>
    match xsrfToken d q.ver q.now cookie q.fresh q.mask with
    | .ok (t, sc) => let r := sessionRun d (cookieAfter cookie sc) qs; (r.1, t :: r.2)
    | .error _ => sessionRun d cookie qs

/-- a usable cookie carries its secret -/
theorem carries_of_decode (d : Bool) (now : Int) (s : Str) (v t : Nat) (ts : Bytes) (stamp : Int) (hs : IsText s)
    (hne : s ≠ []) (hnow : Printable now) (hd : decode d now s = some ⟨v, t :: ts, stamp⟩) :
    Carries d s (t :: ts) := by
  refine ⟨hne, by simp, (decode_inv d now s _ hs hnow hd).1, ?_, ?_⟩
  · intro now'
    have hc := decode_token_clock d now' now s
    rw [hd] at hc
    cases hd' : decode d now' s with
    | none => rw [hd'] at hc; cases hc
    | some r' =>
      rw [hd'] at hc
      simp only [Option.map_some, Option.some.injEq] at hc
      exact ⟨r', rfl, hc⟩
  · intro now' r hp hd'
    exact (decode_inv d now' s r hs hp hd').2

theorem getRaw_carries (d : Bool) (now' : Int) (c : Str) (k fresh' : Bytes) (h : Carries d c k) :
    ∃ v stamp, getRaw d now' (some c) fresh' = (some v, k, stamp) ∧ (Printable now' → Printable stamp) := by
  obtain ⟨hne, hk, _, hdec, hpr⟩ := h
  obtain ⟨r, hd, hr⟩ := hdec now'
  obtain ⟨v, tok, stamp⟩ := r
  simp only at hr
  subst hr
  cases c with
  | nil => exact absurd rfl hne
  | cons x xs =>
    cases tok with
    | nil => exact absurd rfl hk
    | cons b bs =>
      exact ⟨v, stamp, by simp [getRaw, hd], fun hp => hpr now' _ hp hd⟩

end TornadoModel.C24
