/- C46 — the code as it was BEFORE the two fix commits (kept only to state the refutations). -/
import TornadoModel.C46.Spec
namespace TornadoModel.C46.Old
open TornadoModel.C46

/-- `friendly_number` before fix 1470d98: the sign was grouped together with the digits. -/
def friendlyNumber (value : Int) : Str := joinWith [cComma] (groups (intStr value))

/-- the clamp condition of `format_date` before fix b9430ab: `(date - now).seconds < 60`
    (`.seconds` is the remainder modulo one day). -/
def clampOld (now date : Int) (relative : Bool) : Bool :=
  decide (date > now) && relative && decide (((date - now) % usPerDay) / usPerSec < 60)

end TornadoModel.C46.Old
