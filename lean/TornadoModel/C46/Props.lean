import TornadoModel.C46.Spec
namespace TornadoModel.C46
theorem stub : (1:Nat) = 1 := rfl
end TornadoModel.C46
