/- C46 — property theorems. -/
import TornadoModel.C46.Lemmas
import TornadoModel.C46.Old
namespace TornadoModel.C46
open Spec

/-! ## friendly_number -/

/-- what `friendlyStr` returns on `str(n)`, by sign -/
theorem friendlyStr_nat (n : Nat) :
    friendlyStr (natDigits n) = joinWith [cComma] (groups (natDigits n)) := by
  cases h : natDigits n with
  | nil => exact absurd h (natDigits_ne_nil n)
  | cons c r =>
    have hc := natDigits_all_digits n c (by simp [h])
    have : c ≠ cMinus := by simp [cMinus]; omega
    simp [friendlyStr, this]

theorem friendlyStr_neg (s : Str) : friendlyStr (cMinus :: s) = cMinus :: joinWith [cComma] (groups s) := by
  simp [friendlyStr]

theorem comma_not_in_groups (n : Nat) : ∀ g ∈ groups (natDigits n), cComma ∉ g := by
  intro g hg hc
  have := natDigits_all_digits n cComma (mem_of_mem_groups _ g hg _ hc)
  simp [cComma] at this

theorem readDigits_natDigits (n : Nat) : readDigits (natDigits n) = some n := by
  have h1 : (natDigits n).isEmpty = false := by
    cases h : natDigits n with
    | nil => exact absurd h (natDigits_ne_nil n)
    | cons => rfl
  simp [readDigits, h1, all_isDigit_of _ (natDigits_all_digits n), digitsVal_natDigits]

/-- **Reads back**: for every integer, dropping the commas of the English grouped form and reading
    an optionally signed decimal gives the integer back. -/
theorem friendly_reads_back (code : Str) (hc : isEnglish code = true) (n : Int) :
    readBack (friendlyNumber code n) = some n := by
  simp only [friendlyNumber, hc, if_true]
  cases n with
  | ofNat n =>
    simp only [intStr, friendlyStr_nat, readBack]
    rw [filter_joinWith cComma _ (comma_not_in_groups n), groups_flatten]
    cases h : natDigits n with
    | nil => exact absurd h (natDigits_ne_nil n)
    | cons c r =>
      have hd := natDigits_all_digits n c (by simp [h])
      have : c ≠ cMinus := by simp [cMinus]; omega
      simp only [this, if_false]
      rw [← h, readDigits_natDigits]; rfl
  | negSucc n =>
    simp only [intStr, friendlyStr_neg, readBack]
    have : (cMinus :: joinWith [cComma] (groups (natDigits (n + 1)))).filter (· != cComma)
        = cMinus :: natDigits (n + 1) := by
      rw [List.filter_cons]
      simp only [show (cMinus != cComma) = true by decide, if_true]
      rw [filter_joinWith cComma _ (comma_not_in_groups (n + 1)), groups_flatten]
    rw [this]
    simp only [if_true, readDigits_natDigits, Option.map_some]
    rfl

theorem wellGrouped_of_digits (s : Str) (hne : s ≠ []) (hd : ∀ c ∈ s, 48 ≤ c ∧ c ≤ 57) (pre : Str)
    (hpre : dropSign (pre ++ joinWith [cComma] (groups s)) = joinWith [cComma] (groups s)) :
    wellGrouped (pre ++ joinWith [cComma] (groups s)) = true := by
  obtain ⟨g, rest, he, h1, h2, h3⟩ := groups_shape s hne
  have hno : ∀ x ∈ groups s, cComma ∉ x := by
    intro x hx hc
    have := hd cComma (mem_of_mem_groups _ x hx _ hc)
    simp [cComma] at this
  have hdig : ∀ x ∈ groups s, x.all isDigit = true := fun x hx =>
    all_isDigit_of x (fun c hc => hd c (mem_of_mem_groups _ x hx _ hc))
  unfold wellGrouped
  rw [hpre, splitOnC_joinWith cComma _ (by simp [he]) hno, he]
  have hg := hdig g (by simp [he])
  have hrest : rest.all (fun h => h.length == 3 && h.all isDigit) = true := by
    simp only [List.all_eq_true]
    intro x hx
    simp [h3 x hx, hdig x (by simp [he, hx])]
  simp [hg, hrest, h2]
  omega

/-- **Grouping**: for every integer (negative ones included) the English form is an optional `-`,
    a first group of one to three digits and then groups of exactly three digits. -/
theorem friendly_well_grouped (code : Str) (hc : isEnglish code = true) (n : Int) :
    wellGrouped (friendlyNumber code n) = true := by
  simp only [friendlyNumber, hc, if_true]
  cases n with
  | ofNat n =>
    simp only [intStr, friendlyStr_nat]
    have := wellGrouped_of_digits (natDigits n) (natDigits_ne_nil n) (natDigits_all_digits n) [] ?_
    · simpa using this
    · -- the joined string starts with a digit, so `dropSign` leaves it alone
      obtain ⟨g, rest, he, h1, _, _⟩ := groups_shape (natDigits n) (natDigits_ne_nil n)
      cases g with
      | nil => simp at h1
      | cons c g' =>
        have hcd := natDigits_all_digits n c (mem_of_mem_groups _ (c :: g') (by simp [he]) c (by simp))
        have hne : c ≠ cMinus := by simp [cMinus]; omega
        cases rest with
        | nil => simp [he, joinWith, dropSign, hne]
        | cons r rs => simp [he, joinWith, dropSign, hne]
  | negSucc n =>
    simp only [intStr, friendlyStr_neg]
    have := wellGrouped_of_digits (natDigits (n + 1)) (natDigits_ne_nil _) (natDigits_all_digits _) [cMinus]
      (by simp [dropSign])
    simpa using this

/-- both halves of the `friendly_number` clause, as the oracle applies them -/
theorem friendly_ok (code : Str) (hc : isEnglish code = true) (n : Int) :
    friendlyOk n (friendlyNumber code n) = true := by
  simp [friendlyOk, friendly_reads_back code hc n, friendly_well_grouped code hc n]

theorem friendly_non_english_is_str (code : Str) (hc : isEnglish code = false) (n : Int) :
    friendlyNumber code n = intStr n := by
  simp [friendlyNumber, hc]

-- non-vacuity / sanity on concrete values
example : friendlyNumber (lit "en_US") (-1234567) = lit "-1,234,567" := by decide +kernel
example : friendlyNumber (lit "en") (-123) = lit "-123" := by decide +kernel
example : isEnglish (lit "en_US") = true := by decide
example : readBack (lit "-1,234,567") = some (-1234567) := by decide

/-- the code before fix 1470d98 did not satisfy the clause: `friendly_number(-123) = "-,123"`. -/
theorem friendly_old_code_refuted : ¬ ∀ n : Int, friendlyOk n (Old.friendlyNumber n) = true := by
  intro h
  have := h (-123)
  revert this
  decide +kernel

/-! ## format_date -/

/-- `round` gives a nearest integer: `|q·r − p| ≤ q/2` -/
theorem roundHalfEven_nearest (p q : Nat) (hq : 0 < q) :
    2 * (q * roundHalfEven p q - p) ≤ q ∧ 2 * (p - q * roundHalfEven p q) ≤ q := by
  have hdm := Nat.div_add_mod p q
  have hlt := Nat.mod_lt p hq
  unfold roundHalfEven
  generalize hm : q * (p / q) = m at hdm
  have hs : q * (p / q + 1) = m + q := by rw [Nat.mul_add, hm]; simp
  simp only []
  split
  · rw [hm]; omega
  · split
    · rw [hs]; omega
    · split
      · rw [hm]; omega
      · rw [hs]; omega

/-- the parsed form of a result: the relative phrase, if it is one -/
def phraseOf : Out → Option (TUnit × Nat)
  | .rel u n => some (u, n)
  | .abs _ _ _ => none

theorem isFull_of_far_future (a : Args) (h : a.date - a.now > 60000000) : isFull a = true := by
  have h1 : decide (a.date > a.now) = true := by simp; omega
  have h2 : decide (a.date - a.now < 60 * usPerSec) = false := by
    rw [decide_eq_false_iff_not]; simp only [usPerSec]; omega
  simp [isFull, clamped, h1, h2]

theorem formatDate_rel_inv (a : Args) (u : TUnit) (n : Nat) (h : formatDate a = .rel u n) :
    isFull a = false ∧ a.relative = true ∧ (a.now - effDate a) / usPerDay = 0
      ∧ relPhrase (((a.now - effDate a) % usPerDay / usPerSec).toNat) = .rel u n := by
  unfold formatDate at h
  simp only [] at h
  split at h
  · rename_i hc
    simp only [Bool.and_eq_true, Bool.not_eq_true', beq_iff_eq] at hc
    exact ⟨hc.1.1, hc.1.2, hc.2, h⟩
  · cases h

/-- **No future as past**: a date more than a minute ahead of `now` is never rendered as a
    relative phrase ("… ago"), whatever the flags. -/
theorem no_future_as_past (a : Args) (h : a.date - a.now > 60000000) :
    ∀ u n, formatDate a ≠ .rel u n := by
  intro u n hrel
  have := (formatDate_rel_inv a u n hrel).1
  rw [isFull_of_far_future a h] at this
  cases this

example : (⟨0, 86430000000, 0, true, false, false⟩ : Args).date - (⟨0, 86430000000, 0, true, false, false⟩ : Args).now > 60000000 := by decide
example : formatDate ⟨0, 86430000000, 0, true, false, false⟩ = .abs .full false 86430000000 := by decide +kernel

theorem relPhrase_ok (S : Nat) (u : TUnit) (n : Nat) (h : relPhrase S = .rel u n) :
    relOk (S * 1000000) u n = true := by
  have e : S * 1000000 / 1000000 = S := by omega
  unfold relPhrase at h
  split at h
  · cases h; simp [relOk, e]
  · split at h
    · cases h
      have := roundHalfEven_nearest S 60 (by omega)
      simp [relOk, e]; omega
    · cases h
      have := roundHalfEven_nearest S 3600 (by omega)
      simp [relOk, e]; omega

theorem relOk_whole_seconds (E : Nat) (u : TUnit) (n : Nat) :
    relOk E u n = relOk (E / 1000000 * 1000000) u n := by
  have e : E / 1000000 * 1000000 / 1000000 = E / 1000000 := by omega
  simp [relOk, e]

/-- the `seconds` the relative branch uses are the whole elapsed seconds (0 for a clamped future date) -/
theorem relative_seconds_eq (a : Args) (hfull : isFull a = false)
    (hday : (a.now - effDate a) / usPerDay = 0) :
    ((a.now - effDate a) % usPerDay / usPerSec).toNat = elapsedUs a.now a.date / 1000000 := by
  simp only [usPerDay, usPerSec] at *
  by_cases hc : clamped a = true
  · have hfut : a.date > a.now := by
      simp only [clamped, Bool.and_eq_true, decide_eq_true_eq] at hc
      exact hc.1.1
    simp only [effDate, hc, if_true, elapsedUs]
    omega
  · have hc' : clamped a = false := by simpa using hc
    have hnf : ¬ a.date > a.now := by
      intro hgt
      simp [isFull, hc', hgt] at hfull
    simp only [effDate, hc', elapsedUs] at *
    simp only [Bool.false_eq_true, if_false] at *
    omega

/-- **Nearest**: whenever the result is a relative phrase, its number is the elapsed whole seconds
    (seconds phrase) or a nearest integer of them in minutes / hours. -/
theorem relative_number_is_nearest (a : Args) (u : TUnit) (n : Nat) (h : formatDate a = .rel u n) :
    relOk (elapsedUs a.now a.date) u n = true := by
  obtain ⟨hfull, _, hday, hp⟩ := formatDate_rel_inv a u n h
  rw [relative_seconds_eq a hfull hday] at hp
  rw [relOk_whole_seconds]
  exact relPhrase_ok _ u n hp

/-- a relative phrase is only used within one day of elapsed time -/
theorem relative_only_same_day (a : Args) (u : TUnit) (n : Nat) (h : formatDate a = .rel u n) :
    elapsedUs a.now a.date < 86400000000 := by
  obtain ⟨hfull, _, hday, _⟩ := formatDate_rel_inv a u n h
  simp only [usPerDay, usPerSec] at *
  by_cases hc : clamped a = true
  · have hfut : a.date > a.now := by
      simp only [clamped, Bool.and_eq_true, decide_eq_true_eq] at hc
      exact hc.1.1
    simp only [elapsedUs]; omega
  · have hc' : clamped a = false := by simpa using hc
    have hnf : ¬ a.date > a.now := by
      intro hgt
      simp [isFull, hc', hgt] at hfull
    simp only [effDate, hc', elapsedUs] at *
    simp only [Bool.false_eq_true, if_false] at *
    omega

/-- which unit is used: seconds below 50 s, minutes below 50 min, hours otherwise -/
theorem relative_unit_thresholds (a : Args) (u : TUnit) (n : Nat) (h : formatDate a = .rel u n) :
    (u = .second ↔ elapsedUs a.now a.date / 1000000 < 50)
      ∧ (u = .minute ↔ 50 ≤ elapsedUs a.now a.date / 1000000 ∧ elapsedUs a.now a.date / 1000000 < 3000)
      ∧ (u = .hour ↔ 3000 ≤ elapsedUs a.now a.date / 1000000) := by
  obtain ⟨hfull, _, hday, hp⟩ := formatDate_rel_inv a u n h
  rw [relative_seconds_eq a hfull hday] at hp
  generalize elapsedUs a.now a.date / 1000000 = S at hp ⊢
  unfold relPhrase at hp
  split at hp
  · cases hp; simp; omega
  · split at hp
    · cases hp; simp; omega
    · cases hp; simp; omega

/-- a date less than a minute ahead is treated as `now` in relative mode -/
theorem near_future_clamped_to_now (a : Args) (h1 : a.date > a.now) (h2 : a.date - a.now < 60000000)
    (hr : a.relative = true) (hf : a.fullFormat = false) : formatDate a = .rel .second 0 := by
  have hc : clamped a = true := by
    have e1 : decide (a.date > a.now) = true := by rw [decide_eq_true_iff]; exact h1
    have e2 : decide (a.date - a.now < 60 * usPerSec) = true := by
      rw [decide_eq_true_iff]; simp only [usPerSec]; omega
    simp [clamped, hr, e1, e2]
  simp [formatDate, isFull, effDate, hc, hr, hf, relPhrase, usPerDay, usPerSec]

/-- both date clauses, in the form the oracle applies to implementation outputs -/
theorem format_date_ok (a : Args) : dateOk a.now a.date (phraseOf (formatDate a)) = true := by
  cases h : formatDate a with
  | abs f s l => simp [phraseOf, dateOk]
  | rel u n =>
    have h1 := relative_number_is_nearest a u n h
    have h2 : futureOk a.now a.date true = true := by
      by_cases hgt : a.date - a.now > 60000000
      · exact absurd h (no_future_as_past a hgt u n)
      · simp [futureOk]; omega
    simp [phraseOf, dateOk, h1, h2]

-- non-vacuity: relative phrases do occur, with ties
example : formatDate ⟨150300000, 0, 0, true, false, false⟩ = .rel .minute 2 := by decide +kernel
example : formatDate ⟨90000000, 0, 0, true, false, false⟩ = .rel .minute 2 := by decide +kernel
example : formatDate ⟨5400000000, 0, 0, true, false, false⟩ = .rel .hour 2 := by decide +kernel
example : formatDate ⟨49999999, 0, 0, true, false, false⟩ = .rel .second 49 := by decide +kernel
example : formatDate ⟨0, 30000000, 0, true, false, false⟩ = .rel .second 0 := by decide +kernel

end TornadoModel.C46
