/-
C46 — specification side: what the property demands of the *strings* the helpers return.
Executable (the harness applies it to the implementation's outputs through the driver).
-/
import TornadoModel.C46.Model
namespace TornadoModel.C46.Spec
open TornadoModel.C46

def isDigit (c : Nat) : Bool := 48 ≤ c && c ≤ 57

/-- value of a string of decimal digits -/
def digitsVal (s : Str) : Nat := s.foldl (fun acc c => acc * 10 + (c - 48)) 0

/-- split at every `sep` (always at least one piece) -/
def splitOnC (sep : Nat) : Str → List Str
  | [] => [[]]
  | c :: cs =>
    if c = sep then [] :: splitOnC sep cs
    else match splitOnC sep cs with
      | [] => [[c]]          -- unreachable
      | w :: ws => (c :: w) :: ws

def readDigits (r : Str) : Option Nat :=
  if !r.isEmpty && r.all isDigit then some (digitsVal r) else none

/-- reading a grouped number back: drop the commas, optional `-`, then a non-empty digit string. -/
def readBack (s : Str) : Option Int :=
  match s.filter (· != cComma) with
  | [] => none
  | c :: r =>
    if c = cMinus then (readDigits r).map (fun v => -(Int.ofNat v))
    else (readDigits (c :: r)).map Int.ofNat

def dropSign (s : Str) : Str :=
  match s with
  | [] => []
  | c :: r => if c = cMinus then r else c :: r

/-- correct three-digit grouping: optional `-`, a first group of 1–3 digits, then groups of exactly 3. -/
def wellGrouped (s : Str) : Bool :=
  match splitOnC cComma (dropSign s) with
  | [] => false
  | g :: rest =>
    (1 ≤ g.length && g.length ≤ 3 && g.all isDigit)
      && rest.all (fun h => h.length == 3 && h.all isDigit)

/-- the property for `friendly_number` applied to an output string -/
def friendlyOk (n : Int) (out : Str) : Bool := readBack out == some n && wellGrouped out

/-- elapsed time in µs, `0` for dates in the future -/
def elapsedUs (now date : Int) : Nat := (now - date).toNat

/-- "the number in a relative phrase is the elapsed time in that phrase's unit rounded to a nearest
integer": the elapsed time is taken at the whole-second resolution of `timedelta.seconds`
(the seconds phrase reports the whole seconds elapsed); for minutes and hours the number is a
nearest integer (either neighbour on a tie) of those seconds in the unit. -/
def relOk (elapsed : Nat) (u : TUnit) (n : Nat) : Bool :=
  let s := elapsed / 1000000
  match u with
  | .second => n == s
  | .minute => decide (2 * (60 * n - s) ≤ 60 ∧ 2 * (s - 60 * n) ≤ 60)
  | .hour => decide (2 * (3600 * n - s) ≤ 3600 ∧ 2 * (s - 3600 * n) ≤ 3600)

/-- "never describes a date more than a minute in the future as a relative past time" -/
def futureOk (now date : Int) (isRelativePhrase : Bool) : Bool :=
  !(date - now > 60000000 && isRelativePhrase)

/-- both date clauses applied to a parsed output: `phrase = none` for an absolute rendering. -/
def dateOk (now date : Int) (phrase : Option (TUnit × Nat)) : Bool :=
  match phrase with
  | none => true
  | some (u, n) => futureOk now date true && relOk (elapsedUs now date) u n

end TornadoModel.C46.Spec
