/- C46 helper lemmas: decimal digits, grouping from the right, comma split/join. -/
import TornadoModel.C46.Spec
namespace TornadoModel.C46
open Spec

/-! ### natDigits -/

theorem natDigits_all_digits (n : Nat) : ∀ c ∈ natDigits n, 48 ≤ c ∧ c ≤ 57 := by
  fun_induction natDigits n with
  | case1 n h => intro c hc; simp at hc; omega
  | case2 n h ih =>
    intro c hc
    simp only [List.mem_append, List.mem_singleton] at hc
    rcases hc with hc | hc
    · exact ih c hc
    · omega

theorem natDigits_ne_nil (n : Nat) : natDigits n ≠ [] := by
  rw [natDigits]; split <;> simp

theorem digitsVal_append_single (a : Str) (c : Nat) :
    digitsVal (a ++ [c]) = digitsVal a * 10 + (c - 48) := by
  simp [digitsVal, List.foldl_append]

theorem digitsVal_natDigits (n : Nat) : digitsVal (natDigits n) = n := by
  fun_induction natDigits n with
  | case1 n h => simp [digitsVal]
  | case2 n h ih => rw [digitsVal_append_single, ih]; omega

theorem all_isDigit_of (s : Str) (h : ∀ c ∈ s, 48 ≤ c ∧ c ≤ 57) : s.all isDigit = true := by
  simp only [List.all_eq_true]
  intro c hc
  have := h c hc
  simp [isDigit]; omega

/-! ### grouping -/

theorem groupR_flatten (rs : Str) : ((groupR rs).reverse).flatten = rs.reverse := by
  fun_induction groupR rs with
  | case1 => simp
  | case2 a => simp
  | case3 a b => simp
  | case4 a b c rest ih => simp [ih]

theorem groups_flatten (s : Str) : (groups s).flatten = s := by
  simp [groups, groupR_flatten]

theorem groupR_shape (rs : Str) (h : rs ≠ []) :
    ∃ init g, groupR rs = init ++ [g] ∧ 1 ≤ g.length ∧ g.length ≤ 3 ∧ ∀ x ∈ init, x.length = 3 := by
  fun_induction groupR rs with
  | case1 => exact absurd rfl h
  | case2 a => exact ⟨[], [a], by simp⟩
  | case3 a b => exact ⟨[], [b, a], by simp⟩
  | case4 a b c rest ih =>
    by_cases hr : rest = []
    · subst hr; exact ⟨[], [c, b, a], by simp [groupR]⟩
    · obtain ⟨init, g, he, h1, h2, h3⟩ := ih hr
      refine ⟨[c, b, a] :: init, g, by simp [he], h1, h2, ?_⟩
      intro x hx
      simp only [List.mem_cons] at hx
      rcases hx with hx | hx
      · subst hx; rfl
      · exact h3 x hx

/-- shape of the groups of a non-empty string: a first group of 1–3 characters, then groups of exactly 3. -/
theorem groups_shape (s : Str) (h : s ≠ []) :
    ∃ g rest, groups s = g :: rest ∧ 1 ≤ g.length ∧ g.length ≤ 3 ∧ ∀ x ∈ rest, x.length = 3 := by
  have hr : s.reverse ≠ [] := by simpa using h
  obtain ⟨init, g, he, h1, h2, h3⟩ := groupR_shape s.reverse hr
  refine ⟨g, init.reverse, by simp [groups, he], h1, h2, ?_⟩
  intro x hx
  exact h3 x (by simpa using hx)

theorem mem_of_mem_groups (s : Str) (g : Str) (hg : g ∈ groups s) (c : Nat) (hc : c ∈ g) : c ∈ s := by
  have : c ∈ (groups s).flatten := List.mem_flatten.mpr ⟨g, hg, hc⟩
  simpa [groups_flatten] using this

/-! ### split / join / filter on a separator that does not occur in the pieces -/

theorem splitOnC_no_sep (sep : Nat) (g : Str) (h : sep ∉ g) : splitOnC sep g = [g] := by
  induction g with
  | nil => rfl
  | cons c cs ih =>
    have hc : c ≠ sep := fun e => h (by simp [e])
    have hcs : sep ∉ cs := fun e => h (by simp [e])
    simp [splitOnC, hc, ih hcs]

theorem splitOnC_append_sep (sep : Nat) (g t : Str) (h : sep ∉ g) :
    splitOnC sep (g ++ sep :: t) = g :: splitOnC sep t := by
  induction g with
  | nil => simp [splitOnC]
  | cons c cs ih =>
    have hc : c ≠ sep := fun e => h (by simp [e])
    have hcs : sep ∉ cs := fun e => h (by simp [e])
    simp [splitOnC, hc, ih hcs]

theorem splitOnC_joinWith (sep : Nat) (gs : List Str) (hne : gs ≠ []) (h : ∀ g ∈ gs, sep ∉ g) :
    splitOnC sep (joinWith [sep] gs) = gs := by
  induction gs with
  | nil => exact absurd rfl hne
  | cons g rest ih =>
    cases rest with
    | nil => simp [joinWith, splitOnC_no_sep sep g (h g (by simp))]
    | cons g2 rest2 =>
      have hg : sep ∉ g := h g (by simp)
      have := ih (by simp) (fun x hx => h x (by simp [hx]))
      simp only [joinWith, List.append_assoc, List.singleton_append]
      rw [splitOnC_append_sep sep g _ hg, this]

theorem filter_joinWith (sep : Nat) (gs : List Str) (h : ∀ g ∈ gs, sep ∉ g) :
    (joinWith [sep] gs).filter (· != sep) = gs.flatten := by
  have hf : ∀ g : Str, sep ∉ g → g.filter (· != sep) = g := by
    intro g hg
    apply List.filter_eq_self.mpr
    intro c hc
    have : c ≠ sep := fun e => hg (e ▸ hc)
    simpa using this
  induction gs with
  | nil => rfl
  | cons g rest ih =>
    cases rest with
    | nil => simp [joinWith, hf g (h g (by simp))]
    | cons g2 rest2 =>
      have := ih (fun x hx => h x (by simp [hx]))
      simp only [joinWith, List.filter_append, List.flatten_cons] at this ⊢
      rw [hf g (h g (by simp)), this]
      simp

end TornadoModel.C46
