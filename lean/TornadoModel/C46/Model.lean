/-
C46 — model of `tornado.locale.Locale.friendly_number`, `format_date`, `format_day`, `list`
(core Lean only), for `CSVLocale(code, {})`-style locales whose `translate` returns the English
message (singular when `count == 1`, plural otherwise).

Anchors: tornado/locale.py `Locale.friendly_number`, `Locale.format_date`, `Locale.format_day`,
`Locale.list`.  The model follows the code AFTER the two `fix:` commits of this property
(sign handled before grouping; future clamp compares the whole timedelta with 60 s).

Text is a list of code points (`List Nat`).  Instants are integers of microseconds since the
epoch; `datetime.timedelta` normalisation (`days`, `seconds`) is floor division on them.
The clock (`datetime.now`) is an input.
-/
namespace TornadoModel.C46

abbrev Str := List Nat

def lit (s : String) : Str := s.toList.map Char.toNat

def cMinus : Nat := 45
def cComma : Nat := 44

/-! ### `str(int)` -/

/-- decimal digits of a natural number, most significant first (`str(n)` for `n ≥ 0`). -/
def natDigits (n : Nat) : Str :=
  if n < 10 then [48 + n] else natDigits (n / 10) ++ [48 + n % 10]
termination_by n
decreasing_by omega

/-- `str(i)` for a Python int. -/
def intStr : Int → Str
  | .ofNat n => natDigits n
  | .negSucc n => cMinus :: natDigits (n + 1)

def joinWith (sep : Str) : List Str → Str
  | [] => []
  | [w] => w
  | w :: ws => w ++ sep ++ joinWith sep ws

/-! ### friendly_number -/

/-- the `while s: parts.append(s[-3:]); s = s[:-3]` loop, run on the *reversed* string:
    the result lists `parts` in the order the loop appends them (rightmost group first),
    each group in reading order. -/
def groupR : Str → List Str
  | [] => []
  | [a] => [[a]]
  | [a, b] => [[b, a]]
  | a :: b :: c :: rest => [c, b, a] :: groupR rest

/-- groups of a digit string, leftmost first (`reversed(parts)`). -/
def groups (s : Str) : List Str := (groupR s.reverse).reverse

def isEnglish (code : Str) : Bool := code == lit "en" || code == lit "en_US"

/-- the body of `friendly_number` on `s = str(value)`: an optional leading `-` is set aside,
    the rest is grouped from the right. -/
def friendlyStr (s : Str) : Str :=
  match s with
  | [] => joinWith [cComma] (groups [])
  | c :: r => if c = cMinus then cMinus :: joinWith [cComma] (groups r) else joinWith [cComma] (groups (c :: r))

/-- `Locale.friendly_number(value)` for an `int` value. -/
def friendlyNumber (code : Str) (value : Int) : Str :=
  if isEnglish code then friendlyStr (intStr value) else intStr value

/-! ### calendar arithmetic (proleptic Gregorian, as `datetime`) -/

def usPerSec : Int := 1000000
def usPerDay : Int := 86400000000

/-- days since 1970-01-01 → (year, month, day)  (Hinnant's `civil_from_days`). -/
def civil (z0 : Int) : Int × Int × Int :=
  let z := z0 + 719468
  let era := z / 146097
  let doe := z - era * 146097
  let yoe := (doe - doe / 1460 + doe / 36524 - doe / 146096) / 365
  let y := yoe + era * 400
  let doy := doe - (365 * yoe + yoe / 4 - yoe / 100)
  let mp := (5 * doy + 2) / 153
  let d := doy - (153 * mp + 2) / 5 + 1
  let m := if mp < 10 then mp + 3 else mp - 9
  (if m ≤ 2 then y + 1 else y, m, d)

structure Civil where
  year : Int
  month : Int
  day : Int
  hour : Int
  minute : Int
  weekday : Int   -- Monday = 0

def civilOf (us : Int) : Civil :=
  let days := us / usPerDay
  let rem := us % usPerDay
  let (y, m, d) := civil days
  { year := y, month := m, day := d,
    hour := rem / 3600000000, minute := (rem % 3600000000) / 60000000,
    weekday := (days + 3) % 7 }

def monthNames : List String :=
  ["January", "February", "March", "April", "May", "June", "July", "August", "September",
   "October", "November", "December"]
def weekdayNames : List String :=
  ["Monday", "Tuesday", "Wednesday", "Thursday", "Friday", "Saturday", "Sunday"]

def monthName (m : Int) : Str := lit (monthNames.getD (m - 1).toNat "?")
def weekdayName (w : Int) : Str := lit (weekdayNames.getD w.toNat "?")

def pad2 (n : Int) : Str := if n < 10 then 48 :: intStr n else intStr n

/-- `str_time` -/
def strTime (code : Str) (c : Civil) : Str :=
  if !(isEnglish code || code == lit "zh_CN") then
    intStr c.hour ++ [58] ++ pad2 c.minute
  else
    let h12 := if c.hour % 12 = 0 then 12 else c.hour % 12
    if code == lit "zh_CN" then
      (if c.hour ≥ 12 then [0x4e0b, 0x5348] else [0x4e0a, 0x5348]) ++ intStr h12 ++ [58] ++ pad2 c.minute
    else
      intStr h12 ++ [58] ++ pad2 c.minute ++ [32] ++ (if c.hour ≥ 12 then lit "pm" else lit "am")

/-! ### format_date -/

inductive TUnit where
  | second | minute | hour
  deriving DecidableEq, Repr

inductive Fmt where
  | time | yesterday | weekday | monthDay | full
  deriving DecidableEq, Repr

/-- structured result of `format_date` -/
inductive Out where
  | rel (u : TUnit) (n : Nat)            -- "<n> <unit>s ago"
  | abs (f : Fmt) (shorter : Bool) (localUs : Int)
  deriving DecidableEq, Repr

structure Args where
  now : Int          -- µs since the epoch (`datetime.now(utc)`)
  date : Int         -- µs since the epoch
  gmtOffset : Int    -- minutes
  relative : Bool
  shorter : Bool
  fullFormat : Bool

/-- Python `round(p / q)` for naturals `p`, `q > 0`: nearest integer, ties to even. -/
def roundHalfEven (p q : Nat) : Nat :=
  let k := p / q
  let r := p % q
  if 2 * r < q then k
  else if q < 2 * r then k + 1
  else if k % 2 = 0 then k else k + 1

/-- the relative phrase for `seconds = difference.seconds` (same day) -/
def relPhrase (seconds : Nat) : Out :=
  if seconds < 50 then .rel .second seconds
  else if seconds < 3000 then .rel .minute (roundHalfEven seconds 60)
  else .rel .hour (roundHalfEven seconds 3600)

/-- `date > now and relative and (date - now) < timedelta(seconds=60)`: the date is set to `now` -/
def clamped (a : Args) : Bool :=
  decide (a.date > a.now) && a.relative && decide (a.date - a.now < 60 * usPerSec)

/-- `date` after the clamp -/
def effDate (a : Args) : Int := if clamped a then a.now else a.date

/-- `full_format` after the future test -/
def isFull (a : Args) : Bool := a.fullFormat || (decide (a.date > a.now) && !clamped a)

def formatDate (a : Args) : Out :=
  let date := effDate a
  let full := isFull a
  let localDate := date - a.gmtOffset * 60 * usPerSec
  let localNow := a.now - a.gmtOffset * 60 * usPerSec
  let localYesterday := localNow - usPerDay
  let diff := a.now - date
  let days := diff / usPerDay
  let seconds := ((diff % usPerDay) / usPerSec).toNat
  if !full && a.relative && days == 0 then relPhrase seconds
  else
    let f : Fmt :=
      if full then .full
      else if days == 0 then .time
      else if days == 1 && (civilOf localDate).day == (civilOf localYesterday).day && a.relative then .yesterday
      else if days < 5 then .weekday
      else if days < 334 then .monthDay
      else .full
    .abs f a.shorter localDate

def unitName : TUnit → Str
  | .second => lit "second"
  | .minute => lit "minute"
  | .hour => lit "hour"

def render (code : Str) : Out → Str
  | .rel u n =>
    if n = 1 then lit "1 " ++ unitName u ++ lit " ago"
    else natDigits n ++ [32] ++ unitName u ++ lit "s ago"
  | .abs f shorter us =>
    let c := civilOf us
    let t := strTime code c
    let md := monthName c.month ++ [32] ++ intStr c.day
    match f, shorter with
    | .time, _ => t
    | .yesterday, true => lit "yesterday"
    | .yesterday, false => lit "yesterday at " ++ t
    | .weekday, true => weekdayName c.weekday
    | .weekday, false => weekdayName c.weekday ++ lit " at " ++ t
    | .monthDay, true => md
    | .monthDay, false => md ++ lit " at " ++ t
    | .full, true => md ++ lit ", " ++ intStr c.year
    | .full, false => md ++ lit ", " ++ intStr c.year ++ lit " at " ++ t

def formatDateStr (code : Str) (a : Args) : Str := render code (formatDate a)

/-- `format_day(date, gmt_offset, dow)` -/
def formatDay (date gmtOffset : Int) (dow : Bool) : Str :=
  let c := civilOf (date - gmtOffset * 60 * usPerSec)
  let md := monthName c.month ++ [32] ++ intStr c.day
  if dow then weekdayName c.weekday ++ lit ", " ++ md else md

/-- `Locale.list(parts)` for a list of strings -/
def listJoin (code : Str) (parts : List Str) : Str :=
  match parts with
  | [] => []
  | [p] => p
  | _ =>
    let comma := if (code.take 2) == lit "fa" then [32, 0x648, 32] else lit ", "
    joinWith comma parts.dropLast ++ lit " and " ++ (parts.getLast?.getD [])

end TornadoModel.C46
