/- C46 driver:
   `C46 friendly <code> <int>` · `C46 intstr <int>` ·
   `C46 date <code> <now> <date> <gmt> <relative> <shorter> <full>` ·
   `C46 day <date> <gmt> <dow>` · `C46 list <code> [parts]` ·
   `C46 specFriendly <int> <out>` · `C46 specDate <now> <date> <unit|~> <n>` -/
import TornadoModel.Base.Wire
import TornadoModel.C46.Spec
namespace TornadoModel.C46.Drv
open TornadoModel TornadoModel.Wire TornadoModel.C46

def decUnit : V → Option TUnit
  | .atom "second" => some .second
  | .atom "minute" => some .minute
  | .atom "hour" => some .hour
  | _ => none

def go (toks : List String) : Option String := do
  let args ← parseArgs toks.tail
  match toks.head?, args with
  | some "friendly", [c, n] => pure (ok [V.ofCps (friendlyNumber (← c.cps?) (← n.int?))])
  | some "intstr", [n] => pure (ok [V.ofCps (intStr (← n.int?))])
  | some "date", [c, now, date, gmt, rel, sh, full] =>
    let a : Args := { now := ← now.int?, date := ← date.int?, gmtOffset := ← gmt.int?,
                      relative := ← rel.bool?, shorter := ← sh.bool?, fullFormat := ← full.bool? }
    let o := formatDate a
    let tag := match o with
      | .rel .second n => V.list [.atom "second", .int n]
      | .rel .minute n => V.list [.atom "minute", .int n]
      | .rel .hour n => V.list [.atom "hour", .int n]
      | .abs _ _ _ => V.none
    pure (ok [V.ofCps (render (← c.cps?) o), tag])
  | some "day", [date, gmt, dow] =>
    pure (ok [V.ofCps (formatDay (← date.int?) (← gmt.int?) (← dow.bool?))])
  | some "list", [c, parts] =>
    pure (ok [V.ofCps (listJoin (← c.cps?) (← (← parts.list?).mapM V.cps?))])
  | some "specFriendly", [n, out] =>
    pure (ok [V.ofBool (Spec.friendlyOk (← n.int?) (← out.cps?))])
  | some "specDate", [now, date, u, n] =>
    let phrase ← if u.isNone then pure none else do pure (some ((← decUnit u), (← n.nat?)))
    pure (ok [V.ofBool (Spec.dateOk (← now.int?) (← date.int?) phrase)])
  | _, _ => none

def handle (toks : List String) : String := (go toks).getD (err "bad-request")

end TornadoModel.C46.Drv
