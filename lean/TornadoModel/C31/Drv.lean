/- C31 driver.  Rule trees, requests and the regex result table travel as wire values:

  matcher := [any] | [host,u…] | [dhost,u…] | [path,u…]
  target  := [h,n] | [r,[rule,…]] | [inert]
  rule    := [matcher,target,kw|~,name|~]
  req     := [hostName,path,T|F]
  table   := [[pattern,subject,~|[u…|~,…]],…]      results of CPython `re` (the parameter `m`)
  P       := [lit0,[[seg|digits,lit],…]]
-/
import TornadoModel.Base.Wire
import TornadoModel.C31.Spec
namespace TornadoModel.C31.Drv
open TornadoModel TornadoModel.Wire TornadoModel.C31

def decMatcher (v : V) : Option Matcher := do
  match ← v.list? with
  | [.atom "any"] => pure .any
  | [.atom "host", p] => pure (.host (← p.cps?))
  | [.atom "dhost", p] => pure (.defaultHost (← p.cps?))
  | [.atom "path", p] => pure (.path (← p.cps?))
  | _ => none

def decOptNat (v : V) : Option (Option Nat) :=
  if v.isNone then some none else v.nat?.map some

mutual
  partial def decTarget (v : V) : Option Target := do
    match ← v.list? with
    | [.atom "h", n] => pure (.handler (← n.nat?))
    | [.atom "r", rs] => pure (.router (← decRules rs))
    | [.atom "inert"] => pure .inert
    | _ => none
  partial def decRuleList : List V → Option Rules
    | [] => some .nil
    | r :: rest => do
      match ← r.list? with
      | [m, t, kw, name] =>
        pure (.cons (← decMatcher m) (← decTarget t) (← decOptNat kw) (← decOptNat name) (← decRuleList rest))
      | _ => none
  partial def decRules (v : V) : Option Rules := do decRuleList (← v.list?)
end

def decReq (v : V) : Option Req := do
  match ← v.list? with
  | [h, p, x] => pure { hostName := ← h.cps?, path := ← p.cps?, xRealIp := ← x.bool? }
  | _ => none

def decOptStr (v : V) : Option (Option Str) :=
  if v.isNone then some none else v.cps?.map some

def decGroups (v : V) : Option (Option Groups) :=
  if v.isNone then some none else do
    let l ← v.list?
    let gs ← l.mapM decOptStr
    pure (some gs)

def decTable (v : V) : Option (List (Str × Str × Option Groups)) := do
  (← v.list?).mapM (fun e => do
    match ← e.list? with
    | [p, s, g] => pure (← p.cps?, ← s.cps?, ← decGroups g)
    | _ => none)

def lookup (tbl : List (Str × Str × Option Groups)) (p s : Str) : Option Groups :=
  match tbl.find? (fun e => e.1 == p && e.2.1 == s) with
  | some e => e.2.2
  | none => none

def decNg (v : V) : Option (List (Str × Nat)) := do
  (← v.list?).mapM (fun e => do
    match ← e.list? with
    | [p, n] => pure (← p.cps?, ← n.nat?)
    | _ => none)

def lookupNg (tbl : List (Str × Nat)) (p : Str) : Nat :=
  match tbl.find? (fun e => e.1 == p) with
  | some e => e.2
  | none => 0

def decHostGroups (v : V) : Option (List (Str × Rules)) := do
  (← v.list?).mapM (fun e => do
    match ← e.list? with
    | [p, rs] => pure (← p.cps?, ← decRules rs)
    | _ => none)

def decG (v : V) : Option G :=
  match v with
  | .atom "seg" => some .seg
  | .atom "digits" => some .digits
  | _ => none

def decPat (v : V) : Option PatS := do
  match ← v.list? with
  | [l0, segs] =>
    let ss ← (← segs.list?).mapM (fun e => do
      match ← e.list? with
      | [g, l] => pure (← decG g, ← l.cps?)
      | _ => none)
    pure { lit0 := ← l0.cps?, segs := ss }
  | _ => none

def decArgs (v : V) : Option (List Bytes) := do (← v.list?).mapM V.byteNats?

def encOptBytes : Option Bytes → V
  | some b => V.ofByteNats b
  | none => .none

def encOptNat : Option Nat → V
  | some n => .int n
  | none => .none

def encHit (x : Hit) : V := .list [.atom "hit", .int x.h, encOptNat x.kw, .list (x.args.map encOptBytes)]

def encFind : Option Hit → V
  | some x => encHit x
  | none => .atom "none"

def encDispatch : Dispatch → V
  | .hit x => encHit x
  | .defaultHandler h => .list [.atom "default", .int h]
  | .notFound => .atom "notfound"

def encRErr : RErr → V
  | .valueError => .atom "ValueError"
  | .assertion => .atom "AssertionError"
  | .typeError => .atom "TypeError"

def encRev : Rev → V
  | .url u => .list [.atom "ok", V.ofCps u]
  | .err e => .list [.atom "err", encRErr e]
  | .none => .atom "none"

def encGroups : Option (List Str) → V
  | some gs => .list (gs.map V.ofCps)
  | none => .none

def decApp (hs hg dh dflt : V) : Option App := do
  pure { handlers := ← decRules hs, hostGroups := ← decHostGroups hg, defaultHost := ← decOptStr dh,
         defaultHandler := ← decOptNat dflt }

def handle (toks : List String) : String :=
  match toks with
  | cmd :: rest =>
    match parseArgs rest with
    | none => err "bad-arg"
    | some args =>
      match cmd, args with
      | "find", [rs, rq, dh, tbl] =>
        match decRules rs, decReq rq, decOptStr dh, decTable tbl with
        | some rs, some rq, some dh, some tbl => ok [encFind (findR { m := lookup tbl, defaultHost := dh } rq rs)]
        | _, _, _, _ => err "bad-arg"
      | "specfind", [rs, rq, dh, tbl] =>
        match decRules rs, decReq rq, decOptStr dh, decTable tbl with
        | some rs, some rq, some dh, some tbl => ok [encFind (Spec.find { m := lookup tbl, defaultHost := dh } rq rs)]
        | _, _, _, _ => err "bad-arg"
      | "app", [hs, hg, dh, dflt, rq, tbl] =>
        match decApp hs hg dh dflt, decReq rq, decTable tbl with
        | some a, some rq, some tbl => ok [encDispatch (a.find (lookup tbl) rq)]
        | _, _, _ => err "bad-arg"
      | "specapp", [hs, hg, dh, dflt, rq, tbl] =>
        match decApp hs hg dh dflt, decReq rq, decTable tbl with
        | some a, some rq, some tbl => ok [encDispatch (Spec.appFind a (lookup tbl) rq)]
        | _, _, _ => err "bad-arg"
      | "reverse", [p, n, as] =>
        match p.cps?, n.nat?, decArgs as with
        | some p, some n, some as =>
          match reverse p n as with
          | .ok u => ok [encRev (.url u)]
          | .error e => ok [encRev (.err e)]
        | _, _, _ => err "bad-arg"
      | "reverseurl", [rs, name, as, ng] =>
        match decRules rs, name.nat?, decArgs as, decNg ng with
        | some rs, some name, some as, some ng => ok [encRev (reverseUrl (lookupNg ng) name as rs)]
        | _, _, _, _ => err "bad-arg"
      | "appreverse", [hs, hg, dh, dflt, name, as, ng] =>
        match decApp hs hg dh dflt, name.nat?, decArgs as, decNg ng with
        | some a, some name, some as, some ng => ok [encRev (reverseUrl (lookupNg ng) name as a.rules)]
        | _, _, _, _ => err "bad-arg"
      | "matchpat", [p, s] =>
        match decPat p, s.cps? with
        | some p, some s => ok [encGroups (matchPat p s)]
        | _, _ => err "bad-arg"
      | "render", [p] =>
        match decPat p with
        | some p => ok [V.ofCps (render p)]
        | none => err "bad-arg"
      | "specreverse", [p, as] =>
        match decPat p, decArgs as with
        | some p, some as => ok [match Spec.reverse p as with | some u => V.ofCps u | none => .none]
        | _, _ => err "bad-arg"
      | "wf", [p, as] =>
        match decPat p, decArgs as with
        | some p, some as => ok [V.ofBool (Spec.wf p), V.ofBool (Spec.argsOk p.segs as)]
        | _, _ => err "bad-arg"
      | "unquote", [s] =>
        match s.cps? with
        | some s => ok [V.ofByteNats (unquote s)]
        | none => err "bad-arg"
      | "quote", [b] =>
        match b.byteNats? with
        | some b => ok [V.ofCps (quote b)]
        | none => err "bad-arg"
      | "reescape", [s] =>
        match s.cps? with
        | some s => ok [V.ofCps (reEscape s)]
        | none => err "bad-arg"
      | "reunescape", [s] =>
        match s.cps? with
        | some s => ok [match reUnescape s with | some u => V.ofCps u | none => .atom "ValueError"]
        | none => err "bad-arg"
      | _, _ => err "bad-cmd"
  | _ => err "bad-line"

end TornadoModel.C31.Drv
