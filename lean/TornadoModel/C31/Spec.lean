/-
C31 — the specification side.

Dispatch: flatten the rule tree depth-first into the list of its handler leaves, each with the chain of
matchers on the way from the root; the request goes to the FIRST leaf all of whose matchers accept, and the
handler receives the URL-unescaped groups of the leaf rule's own (last) matcher.  No recursion over routers,
no fall-through logic: one `findSome?` over a list.

Reverse: the reverse of `lit₀ (G) lit₁ … (G) litₙ` is `lit₀ ++ quote a₁ ++ lit₁ ++ … ++ quote aₙ ++ litₙ`.
-/
import TornadoModel.C31.Model
namespace TornadoModel.C31.Spec
open TornadoModel.C31

/-- one handler leaf of the rule tree -/
structure Entry where
  chain : List Matcher      -- matchers from the root rule down to the leaf rule (non-empty)
  last : Matcher            -- the leaf rule's own matcher (= last element of `chain`)
  kw : Option Nat
  h : Nat
  deriving Repr, BEq, DecidableEq

mutual
  /-- leaves below one rule `(m, t, kw)` -/
  def leavesT (m : Matcher) (kw : Option Nat) : Target → List Entry
    | .handler h => [{ chain := [m], last := m, kw := kw, h := h }]
    | .router rs => (flatten rs).map (fun e => { e with chain := m :: e.chain })
    | .inert => []
  /-- all handler leaves in depth-first rule order -/
  def flatten : Rules → List Entry
    | .nil => []
    | .cons m t kw _ rest => leavesT m kw t ++ flatten rest
end

def accepts (env : Env) (req : Req) (m : Matcher) : Bool := (matchM env req m).isSome

/-- the leaf takes the request iff every matcher of its chain accepts; the handler then gets the
    unescaped groups of the leaf rule's own matcher -/
def tryEntry (env : Env) (req : Req) (e : Entry) : Option Hit :=
  if e.chain.all (accepts env req) then
    (matchM env req e.last).map (fun args => { h := e.h, kw := e.kw, args := args })
  else none

/-- first matching leaf -/
def find (env : Env) (req : Req) (rules : Rules) : Option Hit :=
  (flatten rules).findSome? (tryEntry env req)

def appFind (a : App) (m : Str → Str → Option Groups) (req : Req) : Dispatch :=
  match find { m := m, defaultHost := a.defaultHost } req a.rules with
  | some x => .hit x
  | none => match a.defaultHandler with
    | some h => .defaultHandler h
    | none => .notFound

/-- the URL a reversible pattern denotes for given (already percent-encoded) arguments -/
def fillSegs : List (G × Str) → List Str → Option Str
  | [], [] => some []
  | (_, l) :: r, a :: as => (fillSegs r as).map (fun u => a ++ l ++ u)
  | _, _ => none

def reverse (P : PatS) (args : List Bytes) : Option Str :=
  (fillSegs P.segs (args.map quote)).map (fun u => P.lit0 ++ u)

/-- an argument a group can represent: non-empty, and after percent-encoding made of the group's characters
    (`/` is the one byte `quote` leaves alone that `[^/]+` refuses; `[0-9]+` takes digits only) -/
def representable : G → Bytes → Bool
  | .seg, a => !a.isEmpty && a.all (fun b => b < 256 && b != cSlash)
  | .digits, a => !a.isEmpty && a.all (fun b => 48 ≤ b && b ≤ 57)

def argsOk : List (G × Str) → List Bytes → Bool
  | [], [] => true
  | (g, _) :: r, a :: as => representable g a && argsOk r as
  | _, _ => false

/-- every literal *between* two groups contains a character the group before it cannot take
    (e.g. a `/`); otherwise `(G)x(G)` is ambiguous and no reverse can be a right inverse.
    Literals contain no parentheses (the code refuses to reverse such patterns). -/
def segsWf : List (G × Str) → Bool
  | [] => true
  | [(_, l)] => !l.contains cLpar && !l.contains cRpar
  | (g, l) :: r => l.any (fun c => !g.cls c) && !l.contains cLpar && !l.contains cRpar && segsWf r

def wf (P : PatS) : Bool := !P.lit0.contains cLpar && !P.lit0.contains cRpar && segsWf P.segs

/-! ### named rules (for `reverse_url`) -/

mutual
  def namedT (name : Nat) : Target → List Matcher
    | .router rs => namedIn name rs
    | .handler _ => []
    | .inert => []
  /-- the matchers of all rules carrying `name`, anywhere in the tree (nested routers included) -/
  def namedIn (name : Nat) : Rules → List Matcher
    | .nil => []
    | .cons m t _ n rest => (if n = some name then [m] else []) ++ namedT name t ++ namedIn name rest
end

end TornadoModel.C31.Spec
