/-
C31 — model of Tornado's rule-based routing (core Lean only).

Anchors: `routing.py` `RuleRouter.find_handler` / `get_target_delegate`, `AnyMatches`, `HostMatches`,
`DefaultHostMatches`, `PathMatches.__init__/match/reverse/_find_groups`, `_unquote_or_none`,
`ReversibleRuleRouter.reverse_url`; `web.py` `Application.__init__` (default/wildcard routers),
`add_handlers`, `find_handler`, `reverse_url`, `_ApplicationRouter.get_target_delegate`;
`util.py` `re_unescape`; `urllib.parse.unquote_to_bytes` / `quote(…, safe="/")`, `re.escape`.

Text is a list of code points (`List Nat`), byte strings are lists of naturals < 256.
The regular-expression engine is a *parameter*: `m pat s` stands for
`re.compile(pat).match(s)` mapped to `match.groups()`.  (For the reversible fragment the matcher is
defined in Lean, see `matchPat` below, and compared with CPython on every generated case.)

The model follows the code AFTER the `fix:` commit for D24 (a literal `%` in a pattern is escaped in the
reverse format string); `fillFmt` therefore never sees a format directive other than the `%s` slots.
-/
namespace TornadoModel.C31

abbrev Str := List Nat
abbrev Bytes := List Nat
/-- `match.groups()`: one entry per group, `none` for a group that did not take part in the match -/
abbrev Groups := List (Option Str)

def cPct : Nat := 37     -- '%'
def cLpar : Nat := 40    -- '('
def cRpar : Nat := 41    -- ')'
def cSlash : Nat := 47   -- '/'
def cBsl : Nat := 92     -- '\\'
def cCaret : Nat := 94   -- '^'
def cDollar : Nat := 36  -- '$'

/-! ### percent-encoding (`urllib.parse`) -/

/-- UTF-8 encoding of one scalar value (`str.encode("utf-8")`, lone surrogates are outside the domain) -/
def utf8 (c : Nat) : Bytes :=
  if c < 0x80 then [c]
  else if c < 0x800 then [0xC0 + c / 64, 0x80 + c % 64]
  else if c < 0x10000 then [0xE0 + c / 4096, 0x80 + c / 64 % 64, 0x80 + c % 64]
  else [0xF0 + c / 262144, 0x80 + c / 4096 % 64, 0x80 + c / 64 % 64, 0x80 + c % 64]

def hexVal (c : Nat) : Option Nat :=
  if 48 ≤ c ∧ c ≤ 57 then some (c - 48)
  else if 65 ≤ c ∧ c ≤ 70 then some (c - 55)
  else if 97 ≤ c ∧ c ≤ 102 then some (c - 87)
  else none

/-- the text after a `%`: two hex digits give one byte -/
def pctHead : Str → Option (Nat × Str)
  | a :: b :: rest =>
    match hexVal a, hexVal b with
    | some x, some y => some (16 * x + y, rest)
    | _, _ => none
  | _ => none

theorem pctHead_length {cs : Str} {b : Nat} {rest : Str} (h : pctHead cs = some (b, rest)) :
    rest.length + 2 = cs.length := by
  match cs with
  | [] => simp [pctHead] at h
  | [_] => simp [pctHead] at h
  | a :: c :: r =>
    simp only [pctHead] at h
    split at h
    · simp only [Option.some.injEq, Prod.mk.injEq] at h; simp [← h.2]
    · simp at h

/-- `urllib.parse.unquote_to_bytes(s)` for a `str` argument: `%XX` (two hex digits) becomes one byte,
    everything else is UTF-8 encoded.  (= `_unquote_or_none` on a matched group) -/
def unquote : Str → Bytes
  | [] => []
  | c :: cs =>
    if c = cPct then
      match h : pctHead cs with
      | some (b, rest) => b :: unquote rest
      | none => cPct :: unquote cs
    else utf8 c ++ unquote cs
termination_by s => s.length
decreasing_by
  · have := pctHead_length h; simp only [List.length_cons]; omega
  · simp
  · simp

def isAlnum (c : Nat) : Bool := (48 ≤ c && c ≤ 57) || (65 ≤ c && c ≤ 90) || (97 ≤ c && c ≤ 122)

/-- the bytes `quote(…, safe="/")` leaves alone: unreserved characters and `/` -/
def isSafe (b : Nat) : Bool := isAlnum b || b = 95 || b = 46 || b = 45 || b = 126 || b = cSlash

def hexU (n : Nat) : Nat := if n < 10 then 48 + n else 55 + n

/-- `url_escape(bytes, plus=False)` = `urllib.parse.quote(bytes)` -/
def quote : Bytes → Str
  | [] => []
  | b :: bs => if isSafe b then b :: quote bs else cPct :: hexU (b / 16) :: hexU (b % 16) :: quote bs

/-! ### `re.escape` / `re_unescape` -/

/-- characters `re.escape` prefixes with a backslash (CPython 3.7+) -/
def isReSpecial (c : Nat) : Bool :=
  [40, 41, 91, 93, 123, 125, 63, 42, 43, 45, 124, 94, 36, 92, 46, 38, 126, 35, 32, 9, 10, 13, 11, 12].contains c

def reEscape : Str → Str
  | [] => []
  | c :: cs => if isReSpecial c then cBsl :: c :: reEscape cs else c :: reEscape cs

/-- `tornado.util.re_unescape`: `\x` → `x`; `none` = `ValueError` (an escaped ASCII alphanumeric) -/
def reUnescape : Str → Option Str
  | [] => some []
  | c :: cs =>
    if c = cBsl then
      match cs with
      | d :: rest => if isAlnum d then none else (reUnescape rest).map (d :: ·)
      | [] => some [cBsl]
    else (reUnescape cs).map (c :: ·)

/-! ### `PathMatches` -/

/-- `if not pattern.endswith("$"): pattern += "$"` -/
def normDollar (p : Str) : Str := if p.getLast? = some cDollar then p else p ++ [cDollar]

def stripCaret (p : Str) : Str := match p with | c :: r => if c = cCaret then r else p | [] => []
def stripDollar (p : Str) : Str := if p.getLast? = some cDollar then p.dropLast else p

/-- `s.split(sep)` for a one-character separator: always at least one piece -/
def splitOnC (sep : Nat) : Str → List Str
  | [] => [[]]
  | c :: cs =>
    if c = sep then [] :: splitOnC sep cs
    else match splitOnC sep cs with
      | [] => [[c]]          -- unreachable
      | w :: ws => (c :: w) :: ws

/-- the part of `s` after the first `c`, if `c` occurs (`fragment[fragment.index(c)+1:]`) -/
def afterFirst (c : Nat) : Str → Option Str
  | [] => none
  | x :: xs => if x = c then some xs else afterFirst c xs

/-- one piece of the reverse format string: `slot` = it starts with `%s` -/
structure Piece where
  slot : Bool
  lit : Str
  deriving Repr, BEq, DecidableEq

def pieceOf (fragment : Str) : Option Piece :=
  match afterFirst cRpar fragment with
  | some rest => (reUnescape rest).map (fun l => { slot := true, lit := l })
  | none => (reUnescape fragment).map (fun l => { slot := false, lit := l })

/-- `PathMatches._find_groups`; `pat` = `regex.pattern` (already `$`-terminated), `ngroups` = `regex.groups`.
    `none` = `(None, None)` (not reversible). -/
def findGroups (pat : Str) (ngroups : Nat) : Option (List Piece) :=
  let p := stripDollar (stripCaret pat)
  if ngroups ≠ p.count cLpar then none
  else (splitOnC cLpar p).mapM pieceOf

inductive RErr where
  | valueError   -- "Cannot reverse url regex"
  | assertion    -- wrong number of arguments
  | typeError    -- the format string has a different number of `%s` slots than arguments
  deriving Repr, BEq, DecidableEq

/-- `fmt % tuple(args)` for a format string whose only directives are the `%s` of the slots and `%%` -/
def fillFmt : List Piece → List Str → Except RErr Str
  | [], [] => .ok []
  | [], _ :: _ => .error .typeError
  | p :: ps, args =>
    if p.slot then
      match args with
      | [] => .error .typeError
      | a :: as => (fillFmt ps as).map (fun r => a ++ p.lit ++ r)
    else (fillFmt ps args).map (fun r => p.lit ++ r)

/-- `PathMatches(pattern).reverse(*args)` with `args` already converted to bytes (`utf8(str(a))`) -/
def reverse (pattern : Str) (ngroups : Nat) (args : List Bytes) : Except RErr Str :=
  match findGroups (normDollar pattern) ngroups with
  | none => .error .valueError
  | some pieces =>
    if args.length ≠ ngroups then .error .assertion
    else fillFmt pieces (args.map quote)

/-! ### the reversible fragment: `lit₀ (G) lit₁ … (G) litₙ` -/

inductive G where
  | seg     -- `[^/]+`
  | digits  -- `[0-9]+`
  deriving Repr, BEq, DecidableEq

def G.src : G → Str
  | .seg => [91, 94, 47, 93, 43]          -- "[^/]+"
  | .digits => [91, 48, 45, 57, 93, 43]   -- "[0-9]+"

def G.cls : G → Nat → Bool
  | .seg, c => c != cSlash
  | .digits, c => 48 ≤ c && c ≤ 57

structure PatS where
  lit0 : Str
  segs : List (G × Str)
  deriving Repr, BEq, DecidableEq

def renderSegs : List (G × Str) → Str
  | [] => []
  | (g, l) :: r => cLpar :: g.src ++ cRpar :: reEscape l ++ renderSegs r

/-- the pattern source a user writes for `P` (literals through `re.escape`) -/
def render (P : PatS) : Str := reEscape P.lit0 ++ renderSegs P.segs

/-- backtracking over the length of one greedy group: longest first, as `re` does.
    `k` = candidate length; on success the group is `s.take k`. -/
def tryLens (lit : Str) (cont : Str → Option (List Str)) (s : Str) : Nat → Option (List Str)
  | 0 => none
  | k + 1 =>
    if lit.isPrefixOf (s.drop (k + 1)) then
      match cont (s.drop (k + 1 + lit.length)) with
      | some gs => some (s.take (k + 1) :: gs)
      | none => tryLens lit cont s k
    else tryLens lit cont s k

/-- match `(G) lit (G) lit … $` against the whole of `s` (no `\n` in `s`, so `$` = end of text) -/
def matchSegs : List (G × Str) → Str → Option (List Str)
  | [], s => if s.isEmpty then some [] else none
  | (g, lit) :: rest, s => tryLens lit (matchSegs rest) s (s.takeWhile g.cls).length

/-- `re.compile(render P + "$").match(s).groups()` for subjects without a line feed -/
def matchPat (P : PatS) (s : Str) : Option (List Str) :=
  if P.lit0.isPrefixOf s then matchSegs P.segs (s.drop P.lit0.length) else none

/-! ### rule trees -/

inductive Matcher where
  | any                      -- AnyMatches
  | host (pat : Str)         -- HostMatches(pat)
  | defaultHost (pat : Str)  -- DefaultHostMatches(application, HostMatches(pat).host_pattern)
  | path (pat : Str)         -- PathMatches(pat)
  deriving Repr, BEq, DecidableEq

mutual
  inductive Target where
    | handler (h : Nat)      -- a RequestHandler subclass / callable: always yields a delegate
    | router (rs : Rules)    -- a nested Router
    | inert                  -- anything else: `get_target_delegate` returns None
  inductive Rules where
    | nil
    | cons (m : Matcher) (t : Target) (kw : Option Nat) (name : Option Nat) (rest : Rules)
end

structure Req where
  hostName : Str     -- request.host_name
  path : Str         -- request.path
  xRealIp : Bool     -- "X-Real-Ip" in request.headers
  deriving Repr, BEq, DecidableEq

/-- the regex engine and the application's `default_host` -/
structure Env where
  m : Str → Str → Option Groups
  defaultHost : Option Str

/-- what reaches the handler: its identity, the rule's `target_kwargs` tag, the path arguments -/
structure Hit where
  h : Nat
  kw : Option Nat
  args : List (Option Bytes)
  deriving Repr, BEq, DecidableEq

/-- `Matcher.match(request)`: `none` = no match, `some args` = the `path_args` handed on (`[]` for `{}`) -/
def matchM (env : Env) (req : Req) : Matcher → Option (List (Option Bytes))
  | .any => some []
  | .host p => if (env.m (normDollar p) req.hostName).isSome then some [] else none
  | .defaultHost p =>
    if req.xRealIp then none
    else match env.defaultHost with
      | some dh => if (env.m (normDollar p) dh).isSome then some [] else none
      | none => none
  | .path p => (env.m (normDollar p) req.path).map (fun gs => gs.map (fun g => g.map unquote))

mutual
  /-- `get_target_delegate(rule.target, request, **target_params)` -/
  def delegate (env : Env) (req : Req) (kw : Option Nat) (args : List (Option Bytes)) : Target → Option Hit
    | .handler h => some { h := h, kw := kw, args := args }
    | .router rs => findR env req rs
    | .inert => none
  /-- `RuleRouter.find_handler` -/
  def findR (env : Env) (req : Req) : Rules → Option Hit
    | .nil => none
    | .cons m t kw _ rest =>
      match matchM env req m with
      | none => findR env req rest
      | some args =>
        match delegate env req kw args t with
        | some d => some d
        | none => findR env req rest
end

/-! ### `Application` -/

def Rules.append : Rules → Rules → Rules
  | .nil, ys => ys
  | .cons m t kw n rest, ys => .cons m t kw n (rest.append ys)

structure App where
  handlers : Rules                    -- Application(handlers)
  hostGroups : List (Str × Rules)     -- add_handlers(host_pattern, rules), in call order
  defaultHost : Option Str
  defaultHandler : Option Nat         -- settings["default_handler_class"]

def hostRules (mk : Str → Matcher) : List (Str × Rules) → Rules
  | [] => .nil
  | (p, rs) :: r => .cons (mk p) (.router rs) none none (hostRules mk r)

/-- `wildcard_router.rules` -/
def App.wildcard (a : App) : Rules :=
  a.handlers.append (if a.defaultHost.isSome then hostRules .defaultHost a.hostGroups else .nil)

/-- `default_router.rules`: host rules are inserted before the final `AnyMatches → wildcard_router` rule -/
def App.rules (a : App) : Rules :=
  (hostRules .host a.hostGroups).append (.cons .any (.router a.wildcard) none none .nil)

inductive Dispatch where
  | hit (x : Hit)
  | defaultHandler (h : Nat)   -- settings["default_handler_class"]
  | notFound                   -- ErrorHandler, status_code=404
  deriving Repr, BEq, DecidableEq

/-- `Application.find_handler` -/
def App.find (a : App) (m : Str → Str → Option Groups) (req : Req) : Dispatch :=
  match findR { m := m, defaultHost := a.defaultHost } req a.rules with
  | some x => .hit x
  | none => match a.defaultHandler with
    | some h => .defaultHandler h
    | none => .notFound

/-! ### `reverse_url` -/

/-- the rule registered under `name` at this level (`named_rules`: a later rule replaces an earlier one) -/
def namedAt (name : Nat) : Rules → Option Matcher
  | .nil => none
  | .cons m _ _ n rest =>
    match namedAt name rest with
    | some m' => some m'
    | none => if n = some name then some m else none

inductive Rev where
  | url (u : Str)
  | err (e : RErr)
  | none            -- `reverse_url` returned None (Application: KeyError)
  deriving Repr, BEq, DecidableEq

/-- `Matcher.reverse(*args)`; `ng p` = `regex.groups` of the compiled pattern -/
def reverseM (ng : Str → Nat) (args : List Bytes) : Matcher → Rev
  | .path p => match reverse p (ng (normDollar p)) args with
    | .ok u => .url u
    | .error e => .err e
  | _ => .none

mutual
  /-- `rule.target.reverse_url(name, *args)` for a nested (reversible) router target -/
  def reverseT (ng : Str → Nat) (name : Nat) (args : List Bytes) : Target → Rev
    | .router rs =>
      match namedAt name rs with
      | some m => reverseM ng args m
      | none => reverseNested ng name args rs
    | _ => .none
  /-- first nested router that knows the name -/
  def reverseNested (ng : Str → Nat) (name : Nat) (args : List Bytes) : Rules → Rev
    | .nil => .none
    | .cons _ t _ _ rest =>
      match reverseT ng name args t with
      | .none => reverseNested ng name args rest
      | r => r
end

/-- `ReversibleRuleRouter.reverse_url` -/
def reverseUrl (ng : Str → Nat) (name : Nat) (args : List Bytes) (rs : Rules) : Rev :=
  match namedAt name rs with
  | some m => reverseM ng args m
  | none => reverseNested ng name args rs

end TornadoModel.C31
