/- C31 — helper lemmas: the router recursion equals the flattened first-match specification. -/
import TornadoModel.C31.Spec
namespace TornadoModel.C31
open Spec

theorem tryEntry_cons_chain (env : Env) (req : Req) (m : Matcher) (e : Entry) :
    tryEntry env req { e with chain := m :: e.chain } =
      if accepts env req m then tryEntry env req e else none := by
  unfold tryEntry
  simp only [List.all_cons]
  by_cases h : accepts env req m = true
  · simp [h]
  · simp [h]

theorem findSome_prefix_accept (env : Env) (req : Req) (m : Matcher) (l : List Entry)
    (h : accepts env req m = true) :
    (l.map (fun e => { e with chain := m :: e.chain })).findSome? (tryEntry env req) =
      l.findSome? (tryEntry env req) := by
  induction l with
  | nil => rfl
  | cons e r ih =>
    simp only [List.map_cons, List.findSome?_cons, tryEntry_cons_chain, h, if_true, ih]

theorem findSome_prefix_reject (env : Env) (req : Req) (m : Matcher) (l : List Entry)
    (h : accepts env req m = false) :
    (l.map (fun e => { e with chain := m :: e.chain })).findSome? (tryEntry env req) = none := by
  induction l with
  | nil => rfl
  | cons e r ih =>
    simp only [List.map_cons, List.findSome?_cons, tryEntry_cons_chain, h, ih]
    simp

mutual
  theorem delegate_eq (env : Env) (req : Req) (m : Matcher) (kw : Option Nat) (args : List (Option Bytes))
      (hm : matchM env req m = some args) :
      (t : Target) → delegate env req kw args t = (leavesT m kw t).findSome? (tryEntry env req)
    | .handler h => by
      simp [delegate, leavesT, tryEntry, accepts, hm]
    | .router rs => by
      have hacc : accepts env req m = true := by simp [accepts, hm]
      simp only [delegate, leavesT]
      rw [findSome_prefix_accept env req m _ hacc]
      exact findR_eq env req rs
    | .inert => by simp [delegate, leavesT]
  theorem findR_eq (env : Env) (req : Req) : (rules : Rules) → findR env req rules = (flatten rules).findSome? (tryEntry env req)
    | .nil => by simp [findR, flatten]
    | .cons m t kw n rest => by
      simp only [findR, flatten, List.findSome?_append]
      cases hm : matchM env req m with
      | none =>
        have hrej : accepts env req m = false := by simp [accepts, hm]
        have : (leavesT m kw t).findSome? (tryEntry env req) = none := by
          cases t with
          | handler h => simp [leavesT, tryEntry, hrej]
          | router rs => simp only [leavesT]; exact findSome_prefix_reject env req m _ hrej
          | inert => simp [leavesT]
        simp only [this, Option.none_or]
        exact findR_eq env req rest
      | some args =>
        simp only
        rw [delegate_eq env req m kw args hm t]
        cases (leavesT m kw t).findSome? (tryEntry env req) with
        | some d => simp
        | none => simp only [Option.none_or]; exact findR_eq env req rest
end


theorem tryEntry_some_iff (env : Env) (req : Req) (e : Entry) (x : Hit) :
    tryEntry env req e = some x ↔
      (∀ m ∈ e.chain, (matchM env req m).isSome = true) ∧ x.h = e.h ∧ x.kw = e.kw ∧
        matchM env req e.last = some x.args := by
  unfold tryEntry
  by_cases hall : e.chain.all (accepts env req) = true
  · have hall' : ∀ m ∈ e.chain, (matchM env req m).isSome = true := by
      simpa [List.all_eq_true, accepts] using hall
    simp only [hall, if_true, Option.map_eq_some_iff]
    constructor
    · rintro ⟨args, hm, rfl⟩
      exact ⟨hall', rfl, rfl, hm⟩
    · rintro ⟨_, hh, hk, hm⟩
      refine ⟨x.args, hm, ?_⟩
      cases x; simp_all
  · have : ¬ ∀ m ∈ e.chain, (matchM env req m).isSome = true := by
      simpa [List.all_eq_true, accepts] using hall
    simp [hall, this]

theorem matchM_path_iff (env : Env) (req : Req) (p : Str) (args : List (Option Bytes)) :
    matchM env req (.path p) = some args ↔
      ∃ gs, env.m (normDollar p) req.path = some gs ∧ args = gs.map (fun g => g.map unquote) := by
  simp only [matchM, Option.map_eq_some_iff]
  constructor
  · rintro ⟨gs, h, rfl⟩; exact ⟨gs, h, rfl⟩
  · rintro ⟨gs, h, rfl⟩; exact ⟨gs, h, rfl⟩

mutual
  theorem leavesT_last (m : Matcher) (kw : Option Nat) :
      (t : Target) → ∀ e ∈ leavesT m kw t, e.chain.getLast? = some e.last
    | .handler h => by simp [leavesT]
    | .router rs => by
      intro e he
      simp only [leavesT, List.mem_map] at he
      obtain ⟨e', he', rfl⟩ := he
      have := flatten_last rs e' he'
      cases hc : e'.chain with
      | nil => simp [hc] at this
      | cons a r => simp only [hc] at this ⊢; rw [List.getLast?_cons_cons]; exact this
    | .inert => by simp [leavesT]
  theorem flatten_last : (rules : Rules) → ∀ e ∈ flatten rules, e.chain.getLast? = some e.last
    | .nil => by simp [flatten]
    | .cons m t kw n rest => by
      intro e he
      simp only [flatten, List.mem_append] at he
      cases he with
      | inl h => exact leavesT_last m kw t e h
      | inr h => exact flatten_last rest e h
end

end TornadoModel.C31
