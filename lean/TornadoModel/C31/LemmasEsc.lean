/- C31 — helper lemmas: percent-encoding and `re.escape` round trips. -/
import TornadoModel.C31.Spec
namespace TornadoModel.C31

theorem unquote_cons_ne (c : Nat) (cs : Str) (h : c ≠ cPct) : unquote (c :: cs) = utf8 c ++ unquote cs := by
  rw [unquote]; simp [h]

theorem unquote_pct_some (cs : Str) (b : Nat) (rest : Str) (h : pctHead cs = some (b, rest)) :
    unquote (cPct :: cs) = b :: unquote rest := by
  rw [unquote]
  simp only [if_true]
  split
  · rename_i b' rest' h'
    rw [h] at h'
    simp only [Option.some.injEq, Prod.mk.injEq] at h'
    rw [h'.1, h'.2]
  · rename_i h'; rw [h] at h'; simp at h'

theorem hexVal_hexU (n : Nat) (h : n < 16) : hexVal (hexU n) = some n := by
  unfold hexU hexVal
  split
  · have : 48 ≤ 48 + n ∧ 48 + n ≤ 57 := by omega
    simp [this]
  · have h1 : ¬ (48 ≤ 55 + n ∧ 55 + n ≤ 57) := by omega
    have h2 : 65 ≤ 55 + n ∧ 55 + n ≤ 70 := by omega
    simp [h1, h2]

theorem isSafe_lt (b : Nat) (h : isSafe b = true) : b < 128 ∧ b ≠ cPct := by
  unfold isSafe isAlnum cSlash at h
  unfold cPct
  simp only [Bool.or_eq_true, Bool.and_eq_true, decide_eq_true_eq] at h
  omega

/-- percent-decoding undoes percent-encoding, for every byte string -/
theorem unquote_quote_bytes : ∀ (bs : Bytes), (∀ b ∈ bs, b < 256) → unquote (quote bs) = bs
  | [], _ => by simp [quote, unquote]
  | b :: bs, h => by
    have hb : b < 256 := h b (by simp)
    have ih := unquote_quote_bytes bs (fun x hx => h x (by simp [hx]))
    unfold quote
    split
    · rename_i hs
      obtain ⟨h1, h2⟩ := isSafe_lt b hs
      rw [unquote_cons_ne _ _ h2, ih]
      simp [utf8, h1]
    · have hp : pctHead (hexU (b / 16) :: hexU (b % 16) :: quote bs) = some (16 * (b / 16) + b % 16, quote bs) := by
        simp [pctHead, hexVal_hexU (b / 16) (by omega), hexVal_hexU (b % 16) (by omega)]
      rw [unquote_pct_some _ _ _ hp, ih]
      congr 1
      omega

theorem isReSpecial_not_alnum (c : Nat) (h : isReSpecial c = true) : isAlnum c = false := by
  unfold isReSpecial at h
  simp only [List.contains_eq_mem, List.mem_cons, List.mem_nil_iff, or_false, decide_eq_true_eq] at h
  rcases h with h | h | h | h | h | h | h | h | h | h | h | h | h | h | h | h | h | h | h | h | h | h | h | h <;>
    subst h <;> decide

theorem not_isReSpecial_ne_bsl (c : Nat) (h : isReSpecial c = false) : c ≠ cBsl := by
  intro hc; subst hc; revert h; decide

/-- `re_unescape` undoes `re.escape` (and never refuses its output) -/
theorem reUnescape_reEscape : ∀ (s : Str), reUnescape (reEscape s) = some s
  | [] => by simp [reEscape, reUnescape]
  | c :: cs => by
    have ih := reUnescape_reEscape cs
    unfold reEscape
    split
    · rename_i hs
      have := isReSpecial_not_alnum c hs
      simp [reUnescape, this, ih]
    · rename_i hs
      have hs' : isReSpecial c = false := by simpa using hs
      have := not_isReSpecial_ne_bsl c hs'
      rw [reUnescape.eq_def]
      simp [this, ih]

end TornadoModel.C31
