/- C31 — helper lemmas about `reverse_url` (named lookup, nested routers) and routing over `pre ++ rule :: rest`. -/
import TornadoModel.C31.Lemmas
import TornadoModel.C31.LemmasRev
namespace TornadoModel.C31
open Spec

theorem findR_append (env : Env) (req : Req) :
    (pre ys : Rules) → findR env req (pre.append ys) = (findR env req pre).or (findR env req ys)
  | .nil, ys => by simp [Rules.append, findR]
  | .cons m t kw n rest, ys => by
    simp only [Rules.append, findR]
    cases matchM env req m with
    | none => simp only; exact findR_append env req rest ys
    | some args =>
      simp only
      cases delegate env req kw args t with
      | some d => simp
      | none => simp only; exact findR_append env req rest ys

theorem namedAt_append (name : Nat) :
    (pre ys : Rules) → namedAt name (pre.append ys) = (namedAt name ys).or (namedAt name pre)
  | .nil, ys => by simp [Rules.append, namedAt]
  | .cons m t kw n rest, ys => by
    simp only [Rules.append, namedAt, namedAt_append name rest ys]
    cases namedAt name ys with
    | some a => simp
    | none =>
      simp only [Option.none_or]

theorem Rules.append_nil : (rs : Rules) → rs.append .nil = rs
  | .nil => rfl
  | .cons m t kw n rest => by simp [Rules.append, Rules.append_nil rest]

theorem namedAt_mem (name : Nat) : (rs : Rules) → ∀ m, namedAt name rs = some m → m ∈ namedIn name rs
  | .nil => by simp [namedAt]
  | .cons m0 t kw n rest => by
    intro m h
    simp only [namedAt] at h
    simp only [namedIn, List.mem_append]
    cases hr : namedAt name rest with
    | some m' =>
      rw [hr] at h
      simp only [Option.some.injEq] at h
      exact Or.inr (namedAt_mem name rest m (h ▸ hr))
    | none =>
      rw [hr] at h
      simp only at h
      split at h
      · rename_i hn
        simp only [Option.some.injEq] at h
        exact Or.inl (Or.inl (by simp [hn, h]))
      · simp at h

theorem reverseM_ne_none (ng : Str → Nat) (args : List Bytes) (m : Matcher) (r : Rev)
    (h : reverseM ng args m = r) (hr : r ≠ .none) : ∃ p, m = .path p := by
  cases m with
  | path p => exact ⟨p, rfl⟩
  | any => simp [reverseM] at h; exact absurd h.symm hr
  | host p => simp [reverseM] at h; exact absurd h.symm hr
  | defaultHost p => simp [reverseM] at h; exact absurd h.symm hr

mutual
  theorem reverseT_sound (ng : Str → Nat) (name : Nat) (args : List Bytes) (r : Rev) (hr : r ≠ .none) :
      (t : Target) → reverseT ng name args t = r →
        ∃ p, Matcher.path p ∈ namedT name t ∧ reverseM ng args (.path p) = r
    | .router rs => by
      intro h
      simp only [reverseT] at h
      simp only [namedT]
      cases hn : namedAt name rs with
      | some m =>
        rw [hn] at h
        simp only at h
        obtain ⟨p, rfl⟩ := reverseM_ne_none ng args m r h hr
        exact ⟨p, namedAt_mem name rs _ hn, h⟩
      | none =>
        rw [hn] at h
        exact reverseNested_sound ng name args r hr rs h
    | .handler _ => by intro h; simp [reverseT] at h; exact absurd h.symm hr
    | .inert => by intro h; simp [reverseT] at h; exact absurd h.symm hr
  theorem reverseNested_sound (ng : Str → Nat) (name : Nat) (args : List Bytes) (r : Rev) (hr : r ≠ .none) :
      (rs : Rules) → reverseNested ng name args rs = r →
        ∃ p, Matcher.path p ∈ namedIn name rs ∧ reverseM ng args (.path p) = r
    | .nil => by intro h; simp [reverseNested] at h; exact absurd h.symm hr
    | .cons m t kw n rest => by
      intro h
      simp only [reverseNested] at h
      simp only [namedIn, List.mem_append]
      cases ht : reverseT ng name args t with
      | none =>
        rw [ht] at h
        obtain ⟨p, hp, hv⟩ := reverseNested_sound ng name args r hr rest h
        exact ⟨p, Or.inr hp, hv⟩
      | url u =>
        rw [ht] at h
        simp only at h
        obtain ⟨p, hp, hv⟩ := reverseT_sound ng name args (.url u) (by simp) t ht
        exact ⟨p, Or.inl (Or.inr hp), h ▸ hv⟩
      | err e =>
        rw [ht] at h
        simp only at h
        obtain ⟨p, hp, hv⟩ := reverseT_sound ng name args (.err e) (by simp) t ht
        exact ⟨p, Or.inl (Or.inr hp), h ▸ hv⟩
end

end TornadoModel.C31
