/- C31 — property theorems (see docs/C31.md).  Model: C31/Model.lean, specification: C31/Spec.lean. -/
import TornadoModel.C31.Lemmas
import TornadoModel.C31.LemmasRev
import TornadoModel.C31.LemmasUrl
namespace TornadoModel.C31
open Spec

/-! ## dispatch -/

/-- **first match wins**, for ANY regular-expression engine `env.m` and any rule tree (host rules, path
    rules, nested routers, inert targets): the router's fall-through recursion returns exactly the first
    handler leaf, in depth-first rule order, all of whose matchers accept the request. -/
theorem first_match_wins (env : Env) (req : Req) (rules : Rules) :
    findR env req rules = Spec.find env req rules := findR_eq env req rules

/-- the same for `Application.find_handler` (host groups before the wildcard router, `default_host`
    rules after the application's own handlers, then the default handler / 404) -/
theorem app_first_match_wins (a : App) (m : Str → Str → Option Groups) (req : Req) :
    a.find m req = Spec.appFind a m req := by
  unfold App.find Spec.appFind
  rw [first_match_wins]
  cases Spec.find { m := m, defaultHost := a.defaultHost } req a.rules with
  | some x => rfl
  | none => cases a.defaultHandler <;> rfl

/-- "first": the leaf that serves the request accepts it, and every leaf before it refuses it -/
theorem first_match_characterised (env : Env) (req : Req) (rules : Rules) (x : Hit) :
    findR env req rules = some x ↔
      ∃ pre e post, flatten rules = pre ++ e :: post ∧ (∀ e' ∈ pre, tryEntry env req e' = none) ∧
        tryEntry env req e = some x := by
  rw [first_match_wins, Spec.find, List.findSome?_eq_some_iff]
  constructor
  · rintro ⟨l₁, a, l₂, h1, h2, h3⟩; exact ⟨l₁, a, l₂, h1, h3, h2⟩
  · rintro ⟨l₁, a, l₂, h1, h2, h3⟩; exact ⟨l₁, a, l₂, h1, h3, h2⟩

/-- no leaf accepts ⇔ the router yields nothing; the application then uses its default handler, else 404 -/
theorem no_match_default (a : App) (m : Str → Str → Option Groups) (req : Req) :
    (findR { m := m, defaultHost := a.defaultHost } req a.rules = none ↔
      ∀ e ∈ flatten a.rules, tryEntry { m := m, defaultHost := a.defaultHost } req e = none) ∧
    (findR { m := m, defaultHost := a.defaultHost } req a.rules = none →
      a.find m req = match a.defaultHandler with | some h => .defaultHandler h | none => .notFound) := by
  constructor
  · rw [first_match_wins, Spec.find, List.findSome?_eq_none_iff]
  · intro h
    simp only [App.find, h]
    cases a.defaultHandler <;> rfl

/-- the handler receives the groups of the leaf rule's own path pattern, each percent-decoded
    (`None` for a group that did not take part), and nothing for host/any rules -/
theorem groups_unescaped (env : Env) (req : Req) (rules : Rules) (x : Hit)
    (h : findR env req rules = some x) :
    ∃ e ∈ flatten rules, x.h = e.h ∧ x.kw = e.kw ∧ e.chain.getLast? = some e.last ∧
      (∀ m ∈ e.chain, (matchM env req m).isSome = true) ∧
      (∀ p, e.last = .path p →
        ∃ gs, env.m (normDollar p) req.path = some gs ∧ x.args = gs.map (fun g => g.map unquote)) ∧
      ((∀ p, e.last ≠ .path p) → x.args = []) := by
  obtain ⟨pre, e, post, hfl, _, hte⟩ := (first_match_characterised env req rules x).mp h
  have hmem : e ∈ flatten rules := by rw [hfl]; simp
  obtain ⟨hall, hh, hkw, hlast⟩ := (tryEntry_some_iff env req e x).mp hte
  refine ⟨e, hmem, hh, hkw, flatten_last rules e hmem, hall, ?_, ?_⟩
  · intro p hp
    rw [hp] at hlast
    exact (matchM_path_iff env req p x.args).mp hlast
  · intro hnp
    cases hl : e.last with
    | path p => exact absurd hl (hnp p)
    | any => rw [hl] at hlast; simp [matchM] at hlast; exact hlast
    | host p =>
      rw [hl] at hlast; simp only [matchM] at hlast
      split at hlast <;> simp at hlast; exact hlast
    | defaultHost p =>
      rw [hl] at hlast; simp only [matchM] at hlast
      split at hlast
      · simp at hlast
      · split at hlast
        · split at hlast <;> simp at hlast; exact hlast
        · simp at hlast

/-- percent-decoding is the inverse of percent-encoding on every byte string -/
theorem unquote_quote (bs : Bytes) (h : ∀ b ∈ bs, b < 256) : unquote (quote bs) = bs :=
  unquote_quote_bytes bs h

/-- `re_unescape` is the inverse of `re.escape` -/
theorem re_unescape_escape (s : Str) : reUnescape (reEscape s) = some s := reUnescape_reEscape s

/-! ## reverse -/

/-- for a fragment pattern `lit₀ (G) lit₁ … (G) litₙ $` (literals through `re.escape`, no parentheses in
    literals) `_find_groups` + `reverse` produce exactly `lit₀ ++ quote a₁ ++ lit₁ ++ … ++ quote aₙ ++ litₙ`
    — whatever the literals contain, a `%` included (D24, fixed) -/
theorem reverse_eq_spec (P : PatS) (args : List Bytes) (h : wf P = true) (hlen : args.length = P.segs.length) :
    ∃ u, Spec.reverse P args = some u ∧ reverse (render P ++ [cDollar]) P.segs.length args = .ok u :=
  reverse_render P args h hlen

/-- **reverse then match**: for a well-formed fragment pattern and arguments representable in its groups,
    the reversed url is matched by the pattern (greedy, backtracking matcher `matchPat`, tied to CPython `re`
    by the correspondence stream) and the groups percent-decode to the original arguments. -/
theorem reverse_then_match (P : PatS) (args : List Bytes) (h : wf P = true) (hargs : argsOk P.segs args = true) :
    ∃ u, reverse (render P ++ [cDollar]) P.segs.length args = .ok u ∧
      (matchPat P u).map (fun gs => gs.map unquote) = some args := by
  obtain ⟨u, hu, hm⟩ := matchPat_reverse P args h hargs
  obtain ⟨u', hu', hr⟩ := reverse_render P args h (argsOk_length P.segs args hargs)
  rw [hu] at hu'
  cases hu'
  exact ⟨u, hr, by rw [hm]; simp [argsOk_unquote P.segs args hargs]⟩

/-- **reverse urls route back**: if the regex engine agrees with `matchPat` on the rule's pattern, the url
    `reverse` returns for a rule is dispatched to that rule's handler with the same arguments (the rule
    standing first; rules before it are covered by `first_match_characterised`). -/
theorem reverse_routes_back (P : PatS) (args : List Bytes) (h : wf P = true) (hargs : argsOk P.segs args = true)
    (env : Env) (hm : ∀ s, env.m (render P ++ [cDollar]) s = (matchPat P s).map (fun gs => gs.map some))
    (hd : Nat) (kw name : Option Nat) (rest : Rules) (host : Str) (x : Bool) :
    ∃ u, reverse (render P ++ [cDollar]) P.segs.length args = .ok u ∧
      findR env { hostName := host, path := u, xRealIp := x }
        (.cons (.path (render P ++ [cDollar])) (.handler hd) kw name rest)
        = some { h := hd, kw := kw, args := args.map some } := by
  obtain ⟨u, hr, hmatch⟩ := reverse_then_match P args h hargs
  refine ⟨u, hr, ?_⟩
  cases hp : matchPat P u with
  | none => simp [hp] at hmatch
  | some gs =>
    simp only [hp, Option.map_some, Option.some.injEq] at hmatch
    simp [findR, matchM, normDollar_concat, hm, hp, delegate, ← hmatch]


/-! ## reverse through `reverse_url` (named lookup, nested routers, Application) -/

/-- whatever `ReversibleRuleRouter.reverse_url(name, *args)` returns (a url or an error) is `PathMatches.reverse(*args)` of a
    path rule that carries that name somewhere in the tree (nested routers included) — for ANY patterns. -/
theorem reverse_url_sound (ng : Str → Nat) (name : Nat) (args : List Bytes) (rs : Rules) (r : Rev)
    (h : reverseUrl ng name args rs = r) (hr : r ≠ .none) :
    ∃ p, Matcher.path p ∈ namedIn name rs ∧
      r = (match reverse p (ng (normDollar p)) args with | .ok u => .url u | .error e => .err e) := by
  unfold reverseUrl at h
  cases hn : namedAt name rs with
  | some m =>
    rw [hn] at h
    simp only at h
    obtain ⟨p, rfl⟩ := reverseM_ne_none ng args m r h hr
    exact ⟨p, namedAt_mem name rs _ hn, by rw [← h]; rfl⟩
  | none =>
    rw [hn] at h
    obtain ⟨p, hp, hv⟩ := reverseNested_sound ng name args r hr rs h
    exact ⟨p, hp, by rw [← hv]; rfl⟩

/-- **reverse_url routes back** (fragment patterns): the rule registered under `name` (no later rule of that name at its
    level) standing ANYWHERE in a router's rule list, `regex.groups` = number of groups, the regex engine agreeing with
    `matchPat` on its pattern.  Then `reverse_url(name, *args)` succeeds, the rule's own matcher takes the url back with the
    same arguments, and — unless an earlier rule of the list takes the url (shadowing) — `find_handler` dispatches the url
    to that rule's handler with the same arguments. -/
theorem reverse_url_routes_back (P : PatS) (args : List Bytes) (h : wf P = true) (hargs : argsOk P.segs args = true)
    (env : Env) (hm : ∀ s, env.m (render P ++ [cDollar]) s = (matchPat P s).map (fun gs => gs.map some))
    (ng : Str → Nat) (hng : ng (render P ++ [cDollar]) = P.segs.length)
    (hd : Nat) (kw : Option Nat) (name : Nat) (pre rest : Rules) (hlast : namedAt name rest = none)
    (host : Str) (x : Bool) :
    ∃ u, reverseUrl ng name args (pre.append (.cons (.path (render P ++ [cDollar])) (.handler hd) kw (some name) rest))
          = .url u ∧
      matchM env { hostName := host, path := u, xRealIp := x } (.path (render P ++ [cDollar])) = some (args.map some) ∧
      (findR env { hostName := host, path := u, xRealIp := x } pre = none →
        findR env { hostName := host, path := u, xRealIp := x }
          (pre.append (.cons (.path (render P ++ [cDollar])) (.handler hd) kw (some name) rest))
          = some { h := hd, kw := kw, args := args.map some }) := by
  obtain ⟨u, hr, hback⟩ := reverse_routes_back P args h hargs env hm hd kw (some name) rest host x
  refine ⟨u, ?_, ?_, ?_⟩
  · simp [reverseUrl, namedAt_append, namedAt, hlast, reverseM, normDollar_concat, hng, hr]
  · simp only [findR] at hback
    cases hmm : matchM env { hostName := host, path := u, xRealIp := x } (.path (render P ++ [cDollar])) with
    | none =>
      rw [hmm] at hback
      -- the rule refuses: then the hit would have to come from `rest`, but `hback` was derived for every `rest`
      have := reverse_routes_back P args h hargs env hm hd kw (some name) .nil host x
      obtain ⟨u', hr', hb'⟩ := this
      rw [hr] at hr'
      cases hr'
      simp [findR, hmm] at hb'
    | some a =>
      rw [hmm] at hback
      simp only [delegate, Option.some.injEq, Hit.mk.injEq, true_and] at hback
      rw [hback]
  · intro hpre
    rw [findR_append, hpre, Option.none_or]
    exact hback

/-- the same through `Application.reverse_url` / `Application.find_handler` for an application without host groups:
    the named rule stands anywhere in the handler list given to `Application(...)`. -/
theorem app_reverse_url_routes_back (P : PatS) (args : List Bytes) (h : wf P = true) (hargs : argsOk P.segs args = true)
    (m : Str → Str → Option Groups)
    (hm : ∀ s, m (render P ++ [cDollar]) s = (matchPat P s).map (fun gs => gs.map some))
    (ng : Str → Nat) (hng : ng (render P ++ [cDollar]) = P.segs.length)
    (hd : Nat) (kw : Option Nat) (name : Nat) (pre rest : Rules) (hlast : namedAt name rest = none)
    (dh : Option Str) (dflt : Option Nat) (host : Str) (x : Bool) :
    let a : App := { handlers := pre.append (.cons (.path (render P ++ [cDollar])) (.handler hd) kw (some name) rest),
                     hostGroups := [], defaultHost := dh, defaultHandler := dflt }
    ∃ u, reverseUrl ng name args a.rules = .url u ∧
      (findR { m := m, defaultHost := dh } { hostName := host, path := u, xRealIp := x } pre = none →
        a.find m { hostName := host, path := u, xRealIp := x } = .hit { h := hd, kw := kw, args := args.map some }) := by
  intro a
  obtain ⟨u, hu, _, hroute⟩ := reverse_url_routes_back P args h hargs { m := m, defaultHost := dh } hm ng hng hd kw name
    pre rest hlast host x
  have hw : a.wildcard = a.handlers := by
    simp only [App.wildcard]
    cases a.defaultHost.isSome <;> simp [a, hostRules, Rules.append_nil]
  have hrules : a.rules = .cons .any (.router a.handlers) none none .nil := by
    simp [App.rules, a, hostRules, Rules.append, hw, App.wildcard, Rules.append_nil]
  refine ⟨u, ?_, ?_⟩
  · rw [hrules]
    simp only [reverseUrl, namedAt, reverseNested, reverseT]
    unfold reverseUrl at hu
    cases hn : namedAt name a.handlers with
    | some mm =>
      simp only [a] at hn
      rw [hn] at hu
      simp only [a, hn]
      simp only at hu
      rw [hu]
      simp
    | none =>
      simp only [a] at hn
      simp [namedAt_append, namedAt, hlast] at hn
  · intro hpre
    have := hroute hpre
    simp only [App.find, hrules, findR, matchM, delegate, a]
    rw [this]

/-! ## non-vacuity -/

/-- `/a%b/([^/]+)/x/([0-9]+)` with arguments `"p q"`, `"42"` -/
def exP : PatS := { lit0 := [47, 97, 37, 98, 47], segs := [(.seg, [47, 120, 47]), (.digits, [])] }
def exArgs : List Bytes := [[112, 32, 113], [52, 50]]

example : wf exP = true ∧ argsOk exP.segs exArgs = true := by decide
example : (match reverse (render exP ++ [cDollar]) 2 exArgs with
    | .ok u => u == [47, 97, 37, 98, 47, 112, 37, 50, 48, 113, 47, 120, 47, 52, 50]
    | .error _ => false) = true := by decide
example : matchPat exP [47, 97, 37, 98, 47, 112, 37, 50, 48, 113, 47, 120, 47, 52, 50]
    = some [[112, 37, 50, 48, 113], [52, 50]] := by decide

/-- a tree where the first rule's nested router yields nothing and the second rule serves the request -/
def exRules : Rules :=
  .cons (.path [47, 97]) (.router (.cons (.host [120]) (.handler 1) none none .nil)) none none
    (.cons (.path [47, 97]) (.handler 2) (some 5) none .nil)
def exEnv : Env := { m := fun p s => if p = [47, 97, 36] ∧ s = [47, 97] then some [] else none, defaultHost := none }
example : findR exEnv { hostName := [121], path := [47, 97], xRealIp := false } exRules
    = some { h := 2, kw := some 5, args := [] } := by decide

/-- hypotheses of `reverse_url_routes_back` are satisfiable: a host rule and an unrelated path rule in front of the named rule,
    the engine = `matchPat` on the rule's pattern; `reverse_url` through the named lookup gives the expected url -/
def exEnv2 : Env :=
  { m := fun p s => if p = render exP ++ [cDollar] then (matchPat exP s).map (fun gs => gs.map some) else none,
    defaultHost := none }
def exPre : Rules := .cons (.host [120]) (.handler 1) none (some 3) (.cons (.path [47, 98]) (.handler 4) none none .nil)
example : ∀ s, exEnv2.m (render exP ++ [cDollar]) s = (matchPat exP s).map (fun gs => gs.map some) := by
  intro s; simp [exEnv2]
example : namedAt 3 Rules.nil = none := rfl
example : reverseUrl (fun _ => 2) 3 exArgs
    (exPre.append (.cons (.path (render exP ++ [cDollar])) (.handler 2) (some 5) (some 3) .nil))
    = .url [47, 97, 37, 98, 47, 112, 37, 50, 48, 113, 47, 120, 47, 52, 50] := by decide
def exUrl : Str := [47, 97, 37, 98, 47, 112, 37, 50, 48, 113, 47, 120, 47, 52, 50]
def exReq : Req := { hostName := [121], path := exUrl, xRealIp := false }
example : findR exEnv2 exReq exPre = none := by decide

end TornadoModel.C31
