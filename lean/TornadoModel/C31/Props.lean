/- C31 — property theorems (see docs/C31.md). -/
import TornadoModel.C31.Lemmas
namespace TornadoModel.C31

/-- **first match wins**, for ANY regular-expression engine `env.m` and any rule tree: the router's
    fall-through recursion returns exactly the first handler leaf (depth-first rule order) all of whose
    matchers accept the request. -/
theorem first_match_wins (env : Env) (req : Req) (rules : Rules) :
    findR env req rules = Spec.find env req rules := findR_eq env req rules

end TornadoModel.C31
