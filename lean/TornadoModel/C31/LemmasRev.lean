/- C31 — helper lemmas: `_find_groups`/`reverse` on rendered fragment patterns, and the Lean matcher on reversed urls. -/
import TornadoModel.C31.LemmasEsc
namespace TornadoModel.C31
open Spec

/-! ### list facts -/

theorem takeWhile_append_all {p : Nat → Bool} : ∀ (a b : List Nat), (∀ x ∈ a, p x = true) →
    (a ++ b).takeWhile p = a ++ b.takeWhile p
  | [], b, _ => by simp
  | x :: a, b, h => by
    have hx : p x = true := h x (by simp)
    simp only [List.cons_append, List.takeWhile_cons, hx, if_true]
    rw [takeWhile_append_all a b (fun y hy => h y (by simp [hy]))]

theorem takeWhile_append_stop {p : Nat → Bool} : ∀ (l w : List Nat), (l.any (fun c => !p c) = true) →
    (l ++ w).takeWhile p = l.takeWhile p
  | [], w, h => by simp at h
  | x :: l, w, h => by
    simp only [List.cons_append, List.takeWhile_cons]
    by_cases hx : p x = true
    · simp only [hx, if_true]
      have : l.any (fun c => !p c) = true := by simpa [List.any_cons, hx] using h
      rw [takeWhile_append_stop l w this]
    · simp [hx]

theorem takeWhile_drop {p : Nat → Bool} : ∀ (s : List Nat) (k : Nat), k ≤ (s.takeWhile p).length →
    (s.drop k).takeWhile p = (s.takeWhile p).drop k
  | s, 0, _ => by simp
  | [], k + 1, _ => by simp
  | x :: s, k + 1, h => by
    by_cases hx : p x = true
    · simp only [List.takeWhile_cons, hx, if_true, List.length_cons] at h
      simp only [List.drop_succ_cons, List.takeWhile_cons, hx, if_true]
      exact takeWhile_drop s k (by omega)
    · simp [List.takeWhile_cons, hx] at h

theorem isPrefixOf_length {a b : List Nat} (h : a.isPrefixOf b = true) : a.length ≤ b.length := by
  rw [List.isPrefixOf_iff_prefix] at h
  exact h.length_le

/-! ### the backtracking loop -/

theorem tryLens_hit (lit : Str) (cont : Str → Option (List Str)) (s : Str) (k0 : Nat) (gs : List Str)
    (hk0 : 0 < k0)
    (hpre : lit.isPrefixOf (s.drop k0) = true)
    (hcont : cont (s.drop (k0 + lit.length)) = some gs) :
    ∀ K, k0 ≤ K → (∀ k, k0 < k → k ≤ K → lit.isPrefixOf (s.drop k) = false) →
      tryLens lit cont s K = some (s.take k0 :: gs)
  | 0, h, _ => by omega
  | K + 1, h, hfail => by
    by_cases hk : k0 = K + 1
    · subst hk
      simp [tryLens, hpre, hcont]
    · have h1 : lit.isPrefixOf (s.drop (K + 1)) = false := hfail (K + 1) (by omega) (by omega)
      simp only [tryLens, h1]
      exact tryLens_hit lit cont s k0 gs hk0 hpre hcont K (by omega) (fun k a b => hfail k a (by omega))

/-! ### quoted arguments stay inside their group's class -/

theorem hexU_ne_slash (n : Nat) (h : n < 16) : (hexU n != cSlash) = true := by
  unfold hexU cSlash; split <;> simp <;> omega

theorem quote_seg_cls : ∀ (a : Bytes), (a.all (fun b => decide (b < 256) && (b != cSlash)) = true) →
    ∀ x ∈ quote a, G.cls .seg x = true
  | [], _ => by simp [quote]
  | b :: a, h => by
    simp only [List.all_cons, Bool.and_eq_true, decide_eq_true_eq] at h
    obtain ⟨⟨hb, hs⟩, ha⟩ := h
    have ih := quote_seg_cls a ha
    intro x hx
    unfold quote at hx
    split at hx
    · simp only [List.mem_cons] at hx
      rcases hx with rfl | hx
      · simpa [G.cls] using hs
      · exact ih x hx
    · simp only [List.mem_cons] at hx
      rcases hx with rfl | rfl | rfl | hx
      · simp [G.cls, cPct, cSlash]
      · simpa [G.cls] using hexU_ne_slash (b / 16) (by omega)
      · simpa [G.cls] using hexU_ne_slash (b % 16) (by omega)
      · exact ih x hx

theorem quote_digits : ∀ (a : Bytes), (a.all (fun b => decide (48 ≤ b) && decide (b ≤ 57)) = true) → quote a = a
  | [], _ => by simp [quote]
  | b :: a, h => by
    simp only [List.all_cons, Bool.and_eq_true, decide_eq_true_eq] at h
    obtain ⟨⟨h1, h2⟩, ha⟩ := h
    have hs : isSafe b = true := by
      simp only [isSafe, isAlnum, Bool.or_eq_true, Bool.and_eq_true, decide_eq_true_eq]
      omega
    simp [quote, hs, quote_digits a ha]

theorem quote_ne_nil : ∀ (a : Bytes), a ≠ [] → quote a ≠ []
  | [], h => by simp at h
  | b :: a, _ => by unfold quote; split <;> simp

theorem quote_cls (g : G) (a : Bytes) (h : representable g a = true) :
    quote a ≠ [] ∧ ∀ x ∈ quote a, g.cls x = true := by
  cases g with
  | seg =>
    simp only [representable, Bool.and_eq_true, Bool.not_eq_true', List.isEmpty_eq_false_iff] at h
    exact ⟨quote_ne_nil a h.1, quote_seg_cls a h.2⟩
  | digits =>
    simp only [representable, Bool.and_eq_true, Bool.not_eq_true', List.isEmpty_eq_false_iff] at h
    have hq := quote_digits a h.2
    refine ⟨quote_ne_nil a h.1, ?_⟩
    rw [hq]
    intro x hx
    have := List.all_eq_true.mp h.2 x hx
    simpa [G.cls] using this

theorem representable_lt (g : G) (a : Bytes) (h : representable g a = true) : ∀ b ∈ a, b < 256 := by
  intro b hb
  cases g with
  | seg =>
    simp only [representable, Bool.and_eq_true] at h
    have := List.all_eq_true.mp h.2 b hb
    simp only [Bool.and_eq_true, decide_eq_true_eq] at this
    exact this.1
  | digits =>
    simp only [representable, Bool.and_eq_true] at h
    have := List.all_eq_true.mp h.2 b hb
    simp only [Bool.and_eq_true, decide_eq_true_eq] at this
    omega


/-! ### the Lean matcher takes a reversed url back -/

theorem segsWf_tail (g : G) (l : Str) (rest : List (G × Str)) (h : segsWf ((g, l) :: rest) = true) :
    segsWf rest = true := by
  cases rest with
  | nil => simp [segsWf]
  | cons x r =>
    simp only [segsWf, Bool.and_eq_true] at h
    exact h.2

theorem segsWf_inner (g : G) (l : Str) (x : G × Str) (r : List (G × Str))
    (h : segsWf ((g, l) :: x :: r) = true) : l.any (fun c => !g.cls c) = true := by
  simp only [segsWf, Bool.and_eq_true] at h
  exact h.1.1.1

theorem matchSegs_fill : ∀ (segs : List (G × Str)) (args : List Bytes),
    segsWf segs = true → argsOk segs args = true →
    ∃ u, fillSegs segs (args.map quote) = some u ∧ matchSegs segs u = some (args.map quote)
  | [], [], _, _ => ⟨[], by simp [fillSegs], by simp [matchSegs]⟩
  | [], _ :: _, _, h => by simp [argsOk] at h
  | (g, lit) :: rest, [], _, h => by simp [argsOk] at h
  | (g, lit) :: rest, a :: as, hwf, hargs => by
    simp only [argsOk, Bool.and_eq_true] at hargs
    obtain ⟨hrep, has⟩ := hargs
    obtain ⟨u', hfill, hmatch⟩ := matchSegs_fill rest as (segsWf_tail g lit rest hwf) has
    obtain ⟨hne, hcls⟩ := quote_cls g a hrep
    refine ⟨quote a ++ lit ++ u', by simp [fillSegs, hfill], ?_⟩
    have hk0 : 0 < (quote a).length := List.length_pos_iff.mpr hne
    have hdrop1 : (quote a ++ lit ++ u').drop (quote a).length = lit ++ u' := by
      rw [List.append_assoc]; exact List.drop_left' rfl
    have hdrop2 : (quote a ++ lit ++ u').drop ((quote a).length + lit.length) = u' := by
      exact List.drop_left' (by simp)
    have htake : (quote a ++ lit ++ u').take (quote a).length = quote a := by
      rw [List.append_assoc]; exact List.take_left' rfl
    have hK : ((quote a ++ lit ++ u').takeWhile g.cls).length
        = (quote a).length + ((lit ++ u').takeWhile g.cls).length := by
      rw [List.append_assoc, takeWhile_append_all _ _ hcls, List.length_append]
    have hpre : lit.isPrefixOf ((quote a ++ lit ++ u').drop (quote a).length) = true := by
      rw [hdrop1, List.isPrefixOf_iff_prefix]; exact List.prefix_append _ _
    have key := tryLens_hit lit (matchSegs rest) (quote a ++ lit ++ u') (quote a).length (as.map quote) hk0 hpre
      (by rw [hdrop2]; exact hmatch) ((quote a ++ lit ++ u').takeWhile g.cls).length (by omega)
    simp only [matchSegs, List.map_cons]
    rw [key, htake]
    -- every longer candidate fails
    intro k hk1 hk2
    cases hpk : lit.isPrefixOf ((quote a ++ lit ++ u').drop k) with
    | false => rfl
    | true =>
      exfalso
      cases rest with
      | nil =>
        -- last group: the rest of the text is too short for the literal
        cases as with
        | cons _ _ => simp [argsOk] at has
        | nil =>
          simp only [fillSegs, List.map_nil, Option.some.injEq] at hfill
          subst hfill
          have := isPrefixOf_length hpk
          have hle : ((lit ++ []).takeWhile g.cls).length ≤ (lit ++ []).length :=
            (List.takeWhile_sublist g.cls).length_le
          simp only [List.length_drop, List.length_append, List.length_nil] at this hle
          omega
      | cons x r =>
        -- inner group: the literal holds a character the group refuses, which pins the group's end
        have hany := segsWf_inner g lit x r hwf
        have hK' : ((lit ++ u').takeWhile g.cls).length = (lit.takeWhile g.cls).length := by
          rw [takeWhile_append_stop lit u' hany]
        rw [List.isPrefixOf_iff_prefix] at hpk
        obtain ⟨w, hw⟩ := hpk
        have h1 := takeWhile_drop (p := g.cls) (quote a ++ lit ++ u') k hk2
        rw [← hw, takeWhile_append_stop lit w hany] at h1
        have h2 := congrArg List.length h1
        simp only [List.length_drop] at h2
        omega

/-! ### `_find_groups` on a rendered fragment pattern -/

def fragOf (x : G × Str) : Str := x.1.src ++ cRpar :: reEscape x.2
def pieceOfSeg (x : G × Str) : Piece := { slot := true, lit := x.2 }
/-- the reverse format string of `P` -/
def piecesOf (P : PatS) : List Piece := { slot := false, lit := P.lit0 } :: P.segs.map pieceOfSeg

theorem not_mem_reEscape (c : Nat) (hc : c ≠ cBsl) : ∀ (l : Str), c ∉ l → c ∉ reEscape l
  | [], _ => by simp [reEscape]
  | x :: l, h => by
    have hx : c ≠ x := fun e => h (by simp [e])
    have hl : c ∉ l := fun e => h (by simp [e])
    have ih := not_mem_reEscape c hc l hl
    unfold reEscape
    split <;> simp [hc, hx, ih]

theorem splitOnC_no (sep : Nat) : ∀ (a : Str), sep ∉ a → splitOnC sep a = [a]
  | [], _ => by simp [splitOnC]
  | x :: a, h => by
    have hx : x ≠ sep := fun e => h (by simp [e])
    have ih := splitOnC_no sep a (fun e => h (by simp [e]))
    simp [splitOnC, hx, ih]

theorem splitOnC_append (sep : Nat) (b : Str) : ∀ (a : Str), sep ∉ a →
    splitOnC sep (a ++ sep :: b) = a :: splitOnC sep b
  | [], _ => by simp [splitOnC]
  | x :: a, h => by
    have hx : x ≠ sep := fun e => h (by simp [e])
    have ih := splitOnC_append sep b a (fun e => h (by simp [e]))
    simp [splitOnC, hx, ih]

theorem lpar_not_mem_src (g : G) : cLpar ∉ g.src := by cases g <;> decide
theorem rpar_not_mem_src (g : G) : cRpar ∉ g.src := by cases g <;> decide

theorem lpar_not_mem_frag (x : G × Str) (h : cLpar ∉ x.2) : cLpar ∉ fragOf x := by
  have := not_mem_reEscape cLpar (by decide) x.2 h
  have h2 := lpar_not_mem_src x.1
  simp only [fragOf, List.mem_append, List.mem_cons, not_or]
  exact ⟨h2, by decide, this⟩

theorem renderSegs_cons (x : G × Str) (r : List (G × Str)) :
    renderSegs (x :: r) = cLpar :: (fragOf x ++ renderSegs r) := by
  obtain ⟨g, l⟩ := x
  simp [renderSegs, fragOf]

theorem splitOnC_render : ∀ (segs : List (G × Str)) (a : Str), (∀ x ∈ segs, cLpar ∉ x.2) → cLpar ∉ a →
    splitOnC cLpar (a ++ renderSegs segs) = a :: segs.map fragOf
  | [], a, _, ha => by simp [renderSegs, splitOnC_no cLpar a ha]
  | x :: r, a, h, ha => by
    rw [renderSegs_cons, splitOnC_append cLpar _ a ha]
    rw [splitOnC_render r (fragOf x) (fun y hy => h y (by simp [hy])) (lpar_not_mem_frag x (h x (by simp)))]
    simp

theorem count_render : ∀ (segs : List (G × Str)) (a : Str), (∀ x ∈ segs, cLpar ∉ x.2) → cLpar ∉ a →
    (a ++ renderSegs segs).count cLpar = segs.length
  | [], a, _, ha => by simp [renderSegs, List.count_eq_zero.mpr ha]
  | x :: r, a, h, ha => by
    rw [renderSegs_cons, List.count_append, List.count_cons_self, List.count_eq_zero.mpr ha]
    rw [count_render r (fragOf x) (fun y hy => h y (by simp [hy])) (lpar_not_mem_frag x (h x (by simp)))]
    simp

theorem afterFirst_no (c : Nat) : ∀ (a : Str), c ∉ a → afterFirst c a = none
  | [], _ => by simp [afterFirst]
  | x :: a, h => by
    have hx : x ≠ c := fun e => h (by simp [e])
    simp [afterFirst, hx, afterFirst_no c a (fun e => h (by simp [e]))]

theorem afterFirst_append (c : Nat) (b : Str) : ∀ (a : Str), c ∉ a → afterFirst c (a ++ c :: b) = some b
  | [], _ => by simp [afterFirst]
  | x :: a, h => by
    have hx : x ≠ c := fun e => h (by simp [e])
    simp [afterFirst, hx, afterFirst_append c b a (fun e => h (by simp [e]))]

theorem pieceOf_lit0 (l : Str) (h : cRpar ∉ l) : pieceOf (reEscape l) = some { slot := false, lit := l } := by
  have := not_mem_reEscape cRpar (by decide) l h
  simp [pieceOf, afterFirst_no cRpar _ this, reUnescape_reEscape]

theorem pieceOf_frag (x : G × Str) : pieceOf (fragOf x) = some (pieceOfSeg x) := by
  simp [pieceOf, fragOf, afterFirst_append cRpar _ _ (rpar_not_mem_src x.1), reUnescape_reEscape, pieceOfSeg]

theorem mapM_frags : ∀ (segs : List (G × Str)), (segs.map fragOf).mapM pieceOf = some (segs.map pieceOfSeg)
  | [] => by simp
  | x :: r => by simp [List.mapM_cons, pieceOf_frag, mapM_frags r]

theorem segsWf_noparen : ∀ (segs : List (G × Str)), segsWf segs = true → ∀ x ∈ segs, cLpar ∉ x.2 ∧ cRpar ∉ x.2
  | [], _ => by simp
  | [(g, l)], h => by
    simp only [segsWf, Bool.and_eq_true, Bool.not_eq_true', List.contains_eq_mem, decide_eq_false_iff_not] at h
    simpa using h
  | (g, l) :: y :: r, h => by
    have ih := segsWf_noparen (y :: r) (segsWf_tail g l _ h)
    simp only [segsWf, Bool.and_eq_true, Bool.not_eq_true', List.contains_eq_mem, decide_eq_false_iff_not] at h
    intro x hx
    simp only [List.mem_cons] at hx
    rcases hx with rfl | hx
    · exact ⟨h.1.1.2, h.1.2⟩
    · exact ih x (by simpa using hx)

theorem head_reEscape_ne_caret : ∀ (l : Str) (t : Str), stripCaret (reEscape l ++ t) = reEscape l ++ t ∨ l = []
  | [], _ => Or.inr rfl
  | c :: l, t => by
    left
    unfold reEscape
    split
    · simp [stripCaret, cBsl, cCaret]
    · rename_i hs
      have : c ≠ cCaret := by
        intro e; subst e; revert hs; decide
      simp [stripCaret, this]

theorem stripCaret_render (P : PatS) : stripCaret (render P ++ [cDollar]) = render P ++ [cDollar] := by
  unfold render
  rcases head_reEscape_ne_caret P.lit0 (renderSegs P.segs ++ [cDollar]) with h | h
  · simpa [List.append_assoc] using h
  · rw [h]
    cases hs : P.segs with
    | nil => simp [reEscape, renderSegs, stripCaret, cDollar, cCaret]
    | cons x r => simp [reEscape, renderSegs_cons, stripCaret, cLpar, cCaret]

theorem findGroups_render (P : PatS) (h : wf P = true) :
    findGroups (render P ++ [cDollar]) P.segs.length = some (piecesOf P) := by
  simp only [wf, Bool.and_eq_true, Bool.not_eq_true', List.contains_eq_mem, decide_eq_false_iff_not] at h
  obtain ⟨⟨hl, hr⟩, hsegs⟩ := h
  have hnp := segsWf_noparen P.segs hsegs
  have hl' := not_mem_reEscape cLpar (by decide) P.lit0 hl
  have hstrip : stripDollar (render P ++ [cDollar]) = render P := by
    simp [stripDollar]
  unfold findGroups
  simp only [stripCaret_render, hstrip]
  unfold render
  rw [count_render P.segs _ (fun x hx => (hnp x hx).1) hl', splitOnC_render P.segs _ (fun x hx => (hnp x hx).1) hl']
  have hm := mapM_frags P.segs
  rw [List.mapM_cons, pieceOf_lit0 P.lit0 hr, hm]
  simp [piecesOf]

theorem fillFmt_segs : ∀ (segs : List (G × Str)) (q : List Str) (u : Str), fillSegs segs q = some u →
    fillFmt (segs.map pieceOfSeg) q = .ok u
  | [], [], u, h => by simp [fillSegs] at h; simp [fillFmt, ← h]
  | [], _ :: _, u, h => by simp [fillSegs] at h
  | (g, l) :: r, [], u, h => by simp [fillSegs] at h
  | (g, l) :: r, a :: as, u, h => by
    simp only [fillSegs, Option.map_eq_some_iff] at h
    obtain ⟨u', hu', rfl⟩ := h
    simp [fillFmt, pieceOfSeg, fillFmt_segs r as u' hu', Except.map]

theorem fillSegs_some_of_length : ∀ (segs : List (G × Str)) (q : List Str), q.length = segs.length →
    ∃ u, fillSegs segs q = some u
  | [], [], _ => ⟨[], rfl⟩
  | [], _ :: _, h => by simp at h
  | _ :: _, [], h => by simp at h
  | (g, l) :: r, a :: as, h => by
    obtain ⟨u, hu⟩ := fillSegs_some_of_length r as (by simpa using h)
    exact ⟨a ++ l ++ u, by simp [fillSegs, hu]⟩

theorem normDollar_concat (p : Str) : normDollar (p ++ [cDollar]) = p ++ [cDollar] := by
  simp [normDollar]

/-- the code's `reverse` on a rendered pattern = the specification's interleaving -/
theorem reverse_render (P : PatS) (args : List Bytes) (h : wf P = true) (hlen : args.length = P.segs.length) :
    ∃ u, Spec.reverse P args = some u ∧ reverse (render P ++ [cDollar]) P.segs.length args = .ok u := by
  obtain ⟨u, hu⟩ := fillSegs_some_of_length P.segs (args.map quote) (by simpa using hlen)
  refine ⟨P.lit0 ++ u, by simp [Spec.reverse, hu], ?_⟩
  unfold reverse
  rw [normDollar_concat, findGroups_render P h]
  simp [hlen, piecesOf, fillFmt, fillFmt_segs P.segs _ u hu, Except.map]

theorem argsOk_length : ∀ (segs : List (G × Str)) (args : List Bytes), argsOk segs args = true →
    args.length = segs.length
  | [], [], _ => rfl
  | [], _ :: _, h => by simp [argsOk] at h
  | _ :: _, [], h => by simp [argsOk] at h
  | (g, l) :: r, a :: as, h => by
    simp only [argsOk, Bool.and_eq_true] at h
    simp [argsOk_length r as h.2]

theorem argsOk_unquote : ∀ (segs : List (G × Str)) (args : List Bytes), argsOk segs args = true →
    (args.map quote).map unquote = args
  | [], [], _ => rfl
  | [], _ :: _, h => by simp [argsOk] at h
  | _ :: _, [], h => by simp [argsOk] at h
  | (g, l) :: r, a :: as, h => by
    simp only [argsOk, Bool.and_eq_true] at h
    have := argsOk_unquote r as h.2
    simp only [List.map_cons, unquote_quote_bytes a (representable_lt g a h.1)]
    simpa using this

theorem matchPat_reverse (P : PatS) (args : List Bytes) (h : wf P = true) (hargs : argsOk P.segs args = true) :
    ∃ u, Spec.reverse P args = some u ∧ matchPat P u = some (args.map quote) := by
  simp only [wf, Bool.and_eq_true] at h
  obtain ⟨u, hu, hm⟩ := matchSegs_fill P.segs args h.2 hargs
  refine ⟨P.lit0 ++ u, by simp [Spec.reverse, hu], ?_⟩
  have hp : P.lit0.isPrefixOf (P.lit0 ++ u) = true := by
    rw [List.isPrefixOf_iff_prefix]; exact List.prefix_append _ _
  simp [matchPat, hp, hm]

end TornadoModel.C31
