/-
C26 — specification side: what "inside the root" means, in the simplest terms.

An absolute path denotes the list of names obtained by walking its `/`-separated pieces from the
filesystem root: empty pieces and `.` stay where they are, `..` goes one level up (and stays at
the root when already there), any other piece descends.  A path is inside `root` when the walk for
`root` is a prefix of the walk for the path.  (No symlinks; the number of leading slashes is ignored.)
-/
import TornadoModel.C26.Model
namespace TornadoModel.C26.Spec
open TornadoModel.C26

def step (st : List Str) (c : Str) : List Str :=
  if c = [] ∨ c = dot then st
  else if c = dotdot then st.dropLast
  else st ++ [c]

/-- the names from the filesystem root down to the object the absolute path `p` denotes -/
def resolve (p : Str) : List Str := (splitOn cSlash p).foldl step []

/-- `q` is `root` itself or lies below it -/
def inside (root q : Str) : Bool := (resolve root).isPrefixOf (resolve q)

end TornadoModel.C26.Spec
