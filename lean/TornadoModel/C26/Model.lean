/-
C26 — model of `tornado.web.StaticFileHandler` path handling (core Lean only).

Anchors: `StaticFileHandler.get` (first four statements), `parse_url_path`, `get_absolute_path`,
`validate_absolute_path`; `RequestHandler._execute` (`decode_argument` of the captured group),
`_unquote_or_none`; CPython `posixpath.join / normpath / abspath`, `urllib.parse.unquote_to_bytes`,
the strict UTF-8 decoder.

Text is a list of code points (`List Nat`).  The filesystem is a parameter `fs : Str → Kind`
(what `os.path.isdir/exists/isfile` answer for exactly that string); every query the handler makes
is recorded in the result, so "which paths are looked at" is part of the model's output.

The model follows the tree with the D17 fix (`_is_same_site_path` in the directory redirect).
-/
namespace TornadoModel.C26

abbrev Str := List Nat

def cSlash : Nat := 47
def cBackslash : Nat := 92
def cDot : Nat := 46
def cQuestion : Nat := 63
def cPercent : Nat := 37
def dot : Str := [46]
def dotdot : Str := [46, 46]

/-! ### Python string primitives -/

/-- `s.split(sep)` for a one-character separator: always at least one piece. -/
def splitOn (sep : Nat) : Str → List Str
  | [] => [[]]
  | c :: cs =>
    if c = sep then [] :: splitOn sep cs
    else match splitOn sep cs with
      | [] => [[c]]          -- unreachable
      | w :: ws => (c :: w) :: ws

/-- `sep.join(ws)` for a one-character separator -/
def joinWith (sep : Nat) : List Str → Str
  | [] => []
  | [w] => w
  | w :: ws => w ++ sep :: joinWith sep ws

def startsWith (pre s : Str) : Bool := pre.isPrefixOf s
def endsWithSlash (s : Str) : Bool := s.getLast? == some cSlash

/-! ### posixpath -/

/-- `posixpath.join(a, b)` -/
def pjoin (a b : Str) : Str :=
  if b.head? = some cSlash then b
  else if a = [] ∨ a.getLast? = some cSlash then a ++ b
  else a ++ cSlash :: b

/-- the `initial_slashes` variable of `normpath`: 0, 1, or 2 (exactly two leading slashes) -/
def initialSlashes : Str → Nat
  | 47 :: 47 :: 47 :: _ => 1
  | 47 :: 47 :: _ => 2
  | 47 :: _ => 1
  | _ => 0

/-- one iteration of the component loop of `normpath`; the stack is kept reversed (top = head) -/
def normStep (init : Nat) (acc : List Str) (comp : Str) : List Str :=
  if comp = [] ∨ comp = dot then acc
  else if comp ≠ dotdot ∨ (init = 0 ∧ acc = []) ∨ acc.head? = some dotdot then comp :: acc
  else acc.tail

def normComps (init : Nat) (comps : List Str) : List Str :=
  (comps.foldl (normStep init) []).reverse

/-- `k` slashes followed by the components joined with `/` -/
def render (k : Nat) (comps : List Str) : Str := List.replicate k cSlash ++ joinWith cSlash comps

/-- `posixpath.normpath` -/
def normpath (p : Str) : Str :=
  if p = [] then dot
  else
    let r := render (initialSlashes p) (normComps (initialSlashes p) (splitOn cSlash p))
    if r = [] then dot else r

def isAbs (p : Str) : Bool := p.head? == some cSlash

/-- `posixpath.abspath` for an absolute argument (`os.getcwd()` is not modelled) -/
def abspath (p : Str) : Str := normpath p

/-! ### percent-decoding and UTF-8 -/

def hexVal (c : Nat) : Option Nat :=
  if 48 ≤ c ∧ c ≤ 57 then some (c - 48)
  else if 97 ≤ c ∧ c ≤ 102 then some (c - 87)
  else if 65 ≤ c ∧ c ≤ 70 then some (c - 55)
  else none

/-- `str.encode("utf-8")` for code points below 0x800 (request targets are latin-1 text) -/
def utf8Enc (s : Str) : List Nat :=
  s.flatMap (fun c => if c < 0x80 then [c] else [0xC0 + c / 64, 0x80 + c % 64])

/-- `urllib.parse.unquote_to_bytes` on bytes -/
def unquoteBytes : List Nat → List Nat
  | [] => []
  | 37 :: a :: b :: rest =>
    match hexVal a, hexVal b with
    | some x, some y => (16 * x + y) :: unquoteBytes rest
    | _, _ => 37 :: unquoteBytes (a :: b :: rest)
  | c :: rest => c :: unquoteBytes rest

def isCont (b : Nat) : Bool := 0x80 ≤ b && b ≤ 0xBF

/-- CPython's strict UTF-8 decoder (`bytes.decode("utf-8")`); `none` = `UnicodeDecodeError` -/
def utf8DecodeF : Nat → List Nat → Option Str
  | 0, _ => none
  | _ + 1, [] => some []
  | f + 1, b0 :: rest =>
    if b0 < 0x80 then (utf8DecodeF f rest).map (b0 :: ·)
    else if 0xC2 ≤ b0 ∧ b0 ≤ 0xDF then
      match rest with
      | b1 :: r => if isCont b1 then (utf8DecodeF f r).map (((b0 - 0xC0) * 64 + (b1 - 0x80)) :: ·) else none
      | _ => none
    else if 0xE0 ≤ b0 ∧ b0 ≤ 0xEF then
      match rest with
      | b1 :: b2 :: r =>
        let lo := if b0 = 0xE0 then 0xA0 else 0x80
        let hi := if b0 = 0xED then 0x9F else 0xBF
        if lo ≤ b1 ∧ b1 ≤ hi ∧ isCont b2 then
          (utf8DecodeF f r).map (((b0 - 0xE0) * 4096 + (b1 - 0x80) * 64 + (b2 - 0x80)) :: ·)
        else none
      | _ => none
    else if 0xF0 ≤ b0 ∧ b0 ≤ 0xF4 then
      match rest with
      | b1 :: b2 :: b3 :: r =>
        let lo := if b0 = 0xF0 then 0x90 else 0x80
        let hi := if b0 = 0xF4 then 0x8F else 0xBF
        if lo ≤ b1 ∧ b1 ≤ hi ∧ isCont b2 ∧ isCont b3 then
          (utf8DecodeF f r).map
            (((b0 - 0xF0) * 262144 + (b1 - 0x80) * 4096 + (b2 - 0x80) * 64 + (b3 - 0x80)) :: ·)
        else none
      | _ => none
    else none

def utf8Decode (bs : List Nat) : Option Str := utf8DecodeF (bs.length + 1) bs

/-- `_unquote_or_none` followed by `decode_argument`: `none` = HTTP 400 -/
def decodeArg (s : Str) : Option Str := utf8Decode (unquoteBytes (utf8Enc s))

/-! ### the handler -/

inductive Kind where
  | absent | file | dir
  deriving Repr, BEq, DecidableEq

structure Cfg where
  root : Str
  defaultFile : Option Str := none
  deriving Repr

inductive Resp where
  | notRouted                -- 404 from the router
  | badRequest               -- 400: captured group is not UTF-8
  | forbidden                -- HTTPError(403)
  | notFound                 -- HTTPError(404)
  | redirect (loc : Str)     -- 301 with this Location
  | served (path : Str)      -- the file at this absolute path is opened and sent
  deriving Repr, BEq, DecidableEq

/-- a filesystem query: `os.path.isdir / exists / isfile` of this exact string -/
inductive Q where
  | isdir (p : Str) | exists (p : Str) | isfile (p : Str)
  deriving Repr, BEq, DecidableEq

def Q.path : Q → Str
  | .isdir p => p | .exists p => p | .isfile p => p

/-- `_is_same_site_path` (D17 fix) -/
def sameSitePath (p : Str) : Bool :=
  match p with
  | 47 :: 47 :: _ => false
  | 47 :: 92 :: _ => false
  | 47 :: _ => true
  | _ => false

/-- `root` as compared in `validate_absolute_path`: `abspath(root)` with the separator added -/
def rootSep (root : Str) : Str :=
  let r := abspath root
  if endsWithSlash r then r else r ++ [cSlash]

/-- the string test of `validate_absolute_path` -/
def prefixTest (root absPath : Str) : Bool := startsWith (rootSep root) (absPath ++ [cSlash])

/-- the `exists` / `isfile` tail of `validate_absolute_path` -/
def existsFile (fs : Str → Kind) (a : Str) (qs : List Q) : Resp × List Q :=
  if fs a = .absent then (.notFound, qs ++ [.exists a])
  else if fs a ≠ .file then (.forbidden, qs ++ [.exists a, .isfile a])
  else (.served a, qs ++ [.exists a, .isfile a])

/-- `validate_absolute_path(root, absolute_path)`; `reqPath` is `self.request.path` -/
def validate (cfg : Cfg) (reqPath absPath : Str) (fs : Str → Kind) : Resp × List Q :=
  if ¬ prefixTest cfg.root absPath then (.forbidden, [])
  else
    match cfg.defaultFile with
    | some d =>
      if fs absPath = .dir then
        if ¬ endsWithSlash reqPath then
          if ¬ sameSitePath reqPath then (.forbidden, [.isdir absPath])
          else (.redirect (reqPath ++ [cSlash]), [.isdir absPath])
        else existsFile fs (pjoin absPath d) [.isdir absPath]
      else existsFile fs absPath [.isdir absPath]
    | none => existsFile fs absPath [.isdir absPath]

/-- `get_absolute_path(root, path)` -/
def absolutePath (root path : Str) : Str := abspath (pjoin root path)

/-- `StaticFileHandler.get` up to the point where the file is opened, given the decoded group -/
def serve (cfg : Cfg) (reqPath urlPath : Str) (fs : Str → Kind) : Resp × List Q :=
  validate cfg reqPath (absolutePath cfg.root urlPath) fs

/-- URL patterns used by the checks: the captured group of `<prefix>(.*)`, `(.*)`, `/(.*)`, `/*(.*)` -/
inductive Pat where
  | pre (p : Str) | all | slash | slashes
  deriving Repr

def capture (pat : Pat) (path : Str) : Option Str :=
  match pat with
  | .pre p => if startsWith p path then some (path.drop p.length) else none
  | .all => some path
  | .slash => match path with | 47 :: r => some r | _ => none
  | .slashes => some (path.dropWhile (· == cSlash))

/-- `uri.partition("?")[0]` -/
def pathOfTarget (target : Str) : Str := target.takeWhile (· != cQuestion)

/-- `field-vchar` of the request-line grammar (`httputil._ABNF.request_target` = `[\x21-\x7e\x80-\xff]+`) -/
def vchar (c : Nat) : Bool := (0x21 ≤ c && c ≤ 0x7e) || (0x80 ≤ c && c ≤ 0xff)

/-- the request line `GET <target> HTTP/1.1` is accepted by `parse_request_start_line`; otherwise the connection answers 400 -/
def validTarget (t : Str) : Bool := !t.isEmpty && t.all vchar

/-- a whole GET request: request line, routing, argument decoding, `StaticFileHandler.get` -/
def handle (cfg : Cfg) (pat : Pat) (target : Str) (fs : Str → Kind) : Resp × List Q :=
  if ¬ validTarget target then (.badRequest, [])
  else
    let path := pathOfTarget target
    match capture pat path with
    | none => (.notRouted, [])
    | some g =>
      match decodeArg g with
      | none => (.badRequest, [])
      | some p => serve cfg path p fs

end TornadoModel.C26
