/-
C26 — helper lemmas for the property theorems (components produced by `normpath` are proper names).
-/
import TornadoModel.C26.Spec
namespace TornadoModel.C26

/-- a proper path component: non-empty, not `.`, not `..`, contains no `/` -/
def Good (c : Str) : Prop := c ≠ [] ∧ c ≠ dot ∧ c ≠ dotdot ∧ cSlash ∉ c

theorem splitOn_no_sep (sep : Nat) (s : Str) : ∀ c ∈ splitOn sep s, sep ∉ c := by
  induction s with
  | nil => intro c hc; simp [splitOn] at hc; subst hc; simp
  | cons x t ih =>
    intro c hc
    unfold splitOn at hc
    split at hc
    · simp only [List.mem_cons] at hc
      rcases hc with hc | hc
      · subst hc; simp
      · exact ih c hc
    · rename_i hx
      split at hc
      · simp at hc; subst hc; simp; exact fun h => hx h.symm
      · rename_i w ws hw
        simp only [List.mem_cons] at hc
        rcases hc with hc | hc
        · subst hc
          have := ih w (by rw [hw]; simp)
          simp only [List.mem_cons, not_or]
          exact ⟨fun h => hx h.symm, this⟩
        · exact ih c (by rw [hw]; simp [hc])

theorem normStep_good (init : Nat) (hinit : init ≠ 0) (acc : List Str) (comp : Str)
    (hacc : ∀ c ∈ acc, Good c) (hcomp : cSlash ∉ comp) : ∀ c ∈ normStep init acc comp, Good c := by
  unfold normStep
  split
  · exact hacc
  · rename_i h1
    simp only [not_or] at h1
    split
    · rename_i h2
      rcases h2 with h2 | h2 | h2
      · intro c hc
        simp only [List.mem_cons] at hc
        rcases hc with hc | hc
        · subst hc; exact ⟨h1.1, h1.2, h2, hcomp⟩
        · exact hacc c hc
      · exact absurd h2.1 hinit
      · -- the top of the stack would be `..`, which is not a Good component
        exfalso
        cases acc with
        | nil => simp at h2
        | cons a t =>
          simp at h2
          have := hacc a (by simp)
          exact this.2.2.1 h2
    · intro c hc
      exact hacc c (List.mem_of_mem_tail hc)

theorem foldl_normStep_good (init : Nat) (hinit : init ≠ 0) (comps : List Str) (hc : ∀ c ∈ comps, cSlash ∉ c) :
    ∀ acc, (∀ c ∈ acc, Good c) → ∀ c ∈ comps.foldl (normStep init) acc, Good c := by
  induction comps with
  | nil => intro acc h; exact h
  | cons x t ih =>
    intro acc h
    simp only [List.foldl_cons]
    apply ih (fun c hc' => hc c (by simp [hc']))
    exact normStep_good init hinit acc x h (hc x (by simp))

theorem initialSlashes_abs (p : Str) (h : isAbs p = true) : initialSlashes p = 1 ∨ initialSlashes p = 2 := by
  unfold initialSlashes
  split
  · simp
  · simp
  · simp
  · rename_i hx
    exfalso
    cases p with
    | nil => simp [isAbs] at h
    | cons a t =>
      have : a = 47 := by simpa [isAbs, cSlash] using h
      exact hx t (by rw [this])

end TornadoModel.C26
