/-
C26 — property theorems.
-/
import TornadoModel.C26.Inv3
namespace TornadoModel.C26

/-- **normpath_no_dotdot.**  For every absolute path `p` (in particular `join(root, url_path)` for an absolute root),
`normpath p` is one or two slashes followed by `/`-joined components none of which is empty, `.`, `..` or contains
a slash. -/
theorem normpath_no_dotdot (p : Str) (h : isAbs p = true) :
    ∃ k comps, (k = 1 ∨ k = 2) ∧ normpath p = render k comps ∧ ∀ c ∈ comps, Good c := by
  have hk := initialSlashes_abs p h
  refine ⟨initialSlashes p, normComps (initialSlashes p) (splitOn cSlash p), hk, ?_, ?_⟩
  · unfold normpath
    have hne : p ≠ [] := by intro hc; subst hc; simp [isAbs] at h
    simp only [if_neg hne]
    split
    · rename_i hr
      exfalso
      unfold render at hr
      rcases hk with hk | hk <;> rw [hk] at hr <;> simp [List.replicate] at hr
    · rfl
  · intro c hc
    unfold normComps at hc
    rw [List.mem_reverse] at hc
    exact foldl_normStep_good _ (by omega) _ (splitOn_no_sep cSlash p) [] (by simp) c hc

/-- `join(root, path)` is absolute whenever the root is -/
theorem pjoin_abs (root path : Str) (h : isAbs root = true) : isAbs (pjoin root path) = true := by
  unfold pjoin
  split
  · rename_i hb; simp [isAbs, hb]
  · split
    · rename_i h2
      rcases h2 with h2 | h2
      · subst h2; simp [isAbs] at h
      · cases root with
        | nil => simp [isAbs] at h
        | cons a t => simpa [isAbs] using h
    · cases root with
      | nil => simp [isAbs] at h
      | cons a t => simpa [isAbs] using h

/-- the path handed to `validate_absolute_path` is always normalized (no `..`), whatever the URL path -/
theorem absolutePath_normalized (root urlPath : Str) (h : isAbs root = true) :
    ∃ k comps, (k = 1 ∨ k = 2) ∧ absolutePath root urlPath = render k comps ∧ ∀ c ∈ comps, Good c :=
  normpath_no_dotdot _ (pjoin_abs root urlPath h)


/-- **outside_root_uniform_403.**  If the normalized path fails the root test, the answer is 403 and *no*
filesystem query is made — for every filesystem `fs`, so the answer cannot depend on (or reveal) whether
anything exists outside the root. -/
theorem outside_root_uniform_403 (cfg : Cfg) (reqPath urlPath : Str)
    (h : prefixTest cfg.root (absolutePath cfg.root urlPath) = false) :
    ∀ fs, serve cfg reqPath urlPath fs = (.forbidden, []) := by
  intro fs
  unfold serve validate
  simp [h]

theorem existsFile_paths (fs : Str → Kind) (a : Str) (qs : List Q) :
    (∀ q ∈ (existsFile fs a qs).2, q ∈ qs ∨ q.path = a) ∧ (∀ p, (existsFile fs a qs).1 = .served p → p = a) := by
  unfold existsFile
  split
  · refine ⟨?_, by simp⟩
    intro q hq; simp at hq; rcases hq with hq | hq
    · left; exact hq
    · right; subst hq; rfl
  · split
    · refine ⟨?_, by simp⟩
      intro q hq; simp at hq; rcases hq with hq | hq | hq
      · left; exact hq
      · right; subst hq; rfl
      · right; subst hq; rfl
    · refine ⟨?_, by intro p hp; simp at hp; exact hp.symm⟩
      intro q hq; simp at hq; rcases hq with hq | hq | hq
      · left; exact hq
      · right; subst hq; rfl
      · right; subst hq; rfl

theorem validate_inside (cfg : Cfg) (reqPath a : Str) (fs : Str → Kind) :
    (∀ q ∈ (validate cfg reqPath a fs).2, prefixTest cfg.root a = true ∧ (q.path = a ∨ ∃ d, cfg.defaultFile = some d ∧ q.path = pjoin a d))
    ∧ (∀ p, (validate cfg reqPath a fs).1 = .served p → prefixTest cfg.root a = true ∧ (p = a ∨ ∃ d, cfg.defaultFile = some d ∧ p = pjoin a d))
    ∧ (∀ loc, (validate cfg reqPath a fs).1 = .redirect loc → prefixTest cfg.root a = true ∧ fs a = .dir) := by
  by_cases hp : prefixTest cfg.root a = true
  · have hq0 : ∀ q ∈ [Q.isdir a], q.path = a := by intro q hq; simp at hq; subst hq; rfl
    have base : ∀ (x : Str), (x = a ∨ ∃ d, cfg.defaultFile = some d ∧ x = pjoin a d) →
        (∀ q ∈ (existsFile fs x [Q.isdir a]).2, prefixTest cfg.root a = true ∧ (q.path = a ∨ ∃ d, cfg.defaultFile = some d ∧ q.path = pjoin a d))
        ∧ (∀ p, (existsFile fs x [Q.isdir a]).1 = .served p → prefixTest cfg.root a = true ∧ (p = a ∨ ∃ d, cfg.defaultFile = some d ∧ p = pjoin a d))
        ∧ (∀ loc, (existsFile fs x [Q.isdir a]).1 = .redirect loc → prefixTest cfg.root a = true ∧ fs a = .dir) := by
      intro x hx
      have := existsFile_paths fs x [Q.isdir a]
      refine ⟨?_, ?_, ?_⟩
      · intro q hq
        rcases this.1 q hq with h | h
        · exact ⟨hp, Or.inl (hq0 q h)⟩
        · exact ⟨hp, by rw [h]; exact hx⟩
      · intro p hpp
        have := this.2 p hpp
        exact ⟨hp, by rw [this]; exact hx⟩
      · intro loc hl
        exfalso
        unfold existsFile at hl
        split at hl
        · cases hl
        · split at hl <;> cases hl
    unfold validate
    rw [if_neg (by simp [hp])]
    split
    · rename_i d hd
      split
      · rename_i hdir
        split
        · split
          · refine ⟨?_, by simp, by simp⟩
            intro q hq; exact ⟨hp, Or.inl (hq0 q hq)⟩
          · refine ⟨?_, by simp, ?_⟩
            · intro q hq; exact ⟨hp, Or.inl (hq0 q hq)⟩
            · intro loc _; exact ⟨hp, hdir⟩
        · exact base _ (Or.inr ⟨d, hd, rfl⟩)
      · exact base _ (Or.inl rfl)
    · exact base _ (Or.inl rfl)
  · unfold validate
    rw [if_pos (by simpa using hp)]
    simp

/-- **served_inside_root.**  Whenever the handler asks the filesystem anything (`isdir`, `exists`, `isfile`), opens
a file or redirects, the normalized request path `a = abspath(join(root, url_path))` has passed the root test, and the
path looked at is `a` itself or `join(a, default_filename)`. -/
theorem served_inside_root (cfg : Cfg) (reqPath urlPath : Str) (fs : Str → Kind) :
    (∀ q ∈ (serve cfg reqPath urlPath fs).2, prefixTest cfg.root (absolutePath cfg.root urlPath) = true
        ∧ (q.path = absolutePath cfg.root urlPath
           ∨ ∃ d, cfg.defaultFile = some d ∧ q.path = pjoin (absolutePath cfg.root urlPath) d))
    ∧ (∀ p, (serve cfg reqPath urlPath fs).1 = .served p → prefixTest cfg.root (absolutePath cfg.root urlPath) = true
        ∧ (p = absolutePath cfg.root urlPath ∨ ∃ d, cfg.defaultFile = some d ∧ p = pjoin (absolutePath cfg.root urlPath) d))
    ∧ (∀ loc, (serve cfg reqPath urlPath fs).1 = .redirect loc →
        prefixTest cfg.root (absolutePath cfg.root urlPath) = true ∧ fs (absolutePath cfg.root urlPath) = .dir) :=
  validate_inside cfg reqPath (absolutePath cfg.root urlPath) fs

/-- **outcome_cases.**  Everything that is not a served file or a directory redirect is 403 or 404 (after routing and
argument decoding, which answer 404 / 400 before the handler runs). -/
theorem outcome_cases (cfg : Cfg) (reqPath urlPath : Str) (fs : Str → Kind) :
    (∃ p, (serve cfg reqPath urlPath fs).1 = .served p) ∨ (∃ l, (serve cfg reqPath urlPath fs).1 = .redirect l)
    ∨ (serve cfg reqPath urlPath fs).1 = .forbidden ∨ (serve cfg reqPath urlPath fs).1 = .notFound := by
  have key : ∀ a qs, (∃ p, (existsFile fs a qs).1 = .served p) ∨ (∃ l, (existsFile fs a qs).1 = .redirect l)
      ∨ (existsFile fs a qs).1 = .forbidden ∨ (existsFile fs a qs).1 = .notFound := by
    intro a qs
    unfold existsFile
    split
    · simp
    · split <;> simp
  unfold serve validate
  split
  · simp
  · split
    · split
      · split
        · split <;> simp
        · exact key _ _
      · exact key _ _
    · exact key _ _

/-- the whole request: the handler's queries come from `serve`; routing failures and undecodable paths touch nothing -/
theorem handle_inside_root (cfg : Cfg) (pat : Pat) (target : Str) (fs : Str → Kind) :
    (handle cfg pat target fs).2 = [] ∨
    ∃ g p, capture pat (pathOfTarget target) = some g ∧ decodeArg g = some p ∧
      handle cfg pat target fs = serve cfg (pathOfTarget target) p fs := by
  unfold handle
  simp only []
  split
  · left; rfl
  split
  · left; rfl
  · rename_i g hg
    split
    · left; rfl
    · rename_i p hp
      right; exact ⟨g, p, hg, hp, rfl⟩

/-- **sibling_excluded.**  A path that continues the root's *name* (`…/root2`, `…/rootx/…`) instead of descending
into it fails the root test: after the common text `r` the root test demands a `/`. -/
theorem sibling_excluded (r rest : Str) (x : Nat) (hx : x ≠ cSlash) :
    startsWith (r ++ [cSlash]) (r ++ x :: rest) = false := by
  unfold startsWith
  induction r with
  | nil => simp [List.isPrefixOf]; exact fun h => hx h.symm
  | cons a t ih => simpa [List.isPrefixOf] using ih

/-- the join with a plain default file name appends `/name` -/
theorem pjoin_simple (a d : Str) (ha : a ≠ []) (hs : a.getLast? ≠ some cSlash) (hd : d.head? ≠ some cSlash) :
    pjoin a d = a ++ cSlash :: d := by
  unfold pjoin
  simp [hd, ha, hs]

/-- **prefix_is_containment.**  For an absolute root other than `/` and any absolute path `p`, the string test of
`validate_absolute_path` on the normalized path — `(normpath(p) + "/").startswith(abspath(root) + "/")` — passes
exactly when `p` lies inside `root` component-wise (`Spec.inside`: the walk of `root` is a list prefix of the walk of
`p`) and both have the same kind of beginning (one slash, or exactly two — POSIX keeps `//x` apart from `/x`).
This is what excludes `..` escapes *and* sibling directories that merely share the root's name as a text prefix. -/
theorem prefix_is_containment (root p : Str) (hr : isAbs root = true) (hp : isAbs p = true)
    (hne : Spec.resolve root ≠ []) :
    (prefixTest root (normpath p) = true ↔ (initialSlashes root = initialSlashes p ∧ Spec.inside root p = true)) :=
  prefixTest_iff root p hr hp hne

/-- the form used by the handler: the root test on `abspath(join(root, url_path))` is containment in the root -/
theorem root_test_is_containment (root urlPath : Str) (hr : isAbs root = true) (hne : Spec.resolve root ≠ []) :
    (prefixTest root (absolutePath root urlPath) = true
      ↔ (initialSlashes root = initialSlashes (pjoin root urlPath) ∧ Spec.inside root (pjoin root urlPath) = true)) :=
  prefixTest_iff root (pjoin root urlPath) hr (pjoin_abs root urlPath hr) hne

/-! ### the default file of a directory, and containment stated on the looked-at path itself (review S2-a) -/

/-- **served_inside_spec.**  For an absolute root other than `/` and a configured `default_filename` that is a plain file name
(`Good`: non-empty, not `.`/`..`, no `/`): every path the handler asks the filesystem about, and the file it opens — the
normalized request path *or the default file joined to it* — lies inside the root component-wise (`Spec.inside`), and a
directory redirect is only issued for a directory inside the root. -/
theorem served_inside_spec (cfg : Cfg) (reqPath urlPath : Str) (fs : Str → Kind)
    (hr : isAbs cfg.root = true) (hne : Spec.resolve cfg.root ≠ [])
    (hd : ∀ d, cfg.defaultFile = some d → Good d) :
    (∀ q ∈ (serve cfg reqPath urlPath fs).2, Spec.inside cfg.root q.path = true)
    ∧ (∀ p, (serve cfg reqPath urlPath fs).1 = .served p → Spec.inside cfg.root p = true)
    ∧ (∀ loc, (serve cfg reqPath urlPath fs).1 = .redirect loc →
        Spec.inside cfg.root (absolutePath cfg.root urlPath) = true ∧ fs (absolutePath cfg.root urlPath) = .dir) := by
  have h := served_inside_root cfg reqPath urlPath fs
  have hp := pjoin_abs cfg.root urlPath hr
  have hg : Good [97] := by simp [Good, dot, dotdot, cSlash]
  have key : prefixTest cfg.root (absolutePath cfg.root urlPath) = true →
      ∀ x, (x = absolutePath cfg.root urlPath ∨ ∃ d, cfg.defaultFile = some d ∧ x = pjoin (absolutePath cfg.root urlPath) d) →
        Spec.inside cfg.root x = true := by
    intro ht x hx
    rcases hx with hx | ⟨d, hdd, hx⟩
    · subst hx
      exact (join_name_inside cfg.root (pjoin cfg.root urlPath) [97] hr hp hne hg ht).1
    · subst hx
      exact (join_name_inside cfg.root (pjoin cfg.root urlPath) d hr hp hne (hd d hdd) ht).2.1
  refine ⟨?_, ?_, ?_⟩
  · intro q hq
    have := h.1 q hq
    exact key this.1 _ this.2
  · intro p hpp
    have := h.2.1 p hpp
    exact key this.1 _ this.2
  · intro loc hl
    have := h.2.2 loc hl
    exact ⟨key this.1 _ (Or.inl rfl), this.2⟩

/-- the default file that is served is the entry `default_filename` of the directory the URL denotes -/
theorem default_file_denotes (cfg : Cfg) (urlPath d : Str) (hr : isAbs cfg.root = true) (hne : Spec.resolve cfg.root ≠ [])
    (hd : Good d) (ht : prefixTest cfg.root (absolutePath cfg.root urlPath) = true) :
    Spec.resolve (pjoin (absolutePath cfg.root urlPath) d) = Spec.resolve (pjoin cfg.root urlPath) ++ [d] :=
  (join_name_inside cfg.root (pjoin cfg.root urlPath) d hr (pjoin_abs cfg.root urlPath hr) hne hd ht).2.2

/-- the same for a whole request (routing, argument decoding, handler) -/
theorem handle_inside_spec (cfg : Cfg) (pat : Pat) (target : Str) (fs : Str → Kind)
    (hr : isAbs cfg.root = true) (hne : Spec.resolve cfg.root ≠ [])
    (hd : ∀ d, cfg.defaultFile = some d → Good d) :
    (∀ q ∈ (handle cfg pat target fs).2, Spec.inside cfg.root q.path = true)
    ∧ (∀ p, (handle cfg pat target fs).1 = .served p → Spec.inside cfg.root p = true) := by
  unfold handle
  simp only []
  split
  · simp
  split
  · simp
  · split
    · simp
    · rename_i p _
      have := served_inside_spec cfg (pathOfTarget target) p fs hr hne hd
      exact ⟨this.1, this.2.1⟩

/-- a whole request redirects only for a directory inside the root (the directory the decoded URL path denotes) -/
theorem handle_redirect_inside_spec (cfg : Cfg) (pat : Pat) (target : Str) (fs : Str → Kind)
    (hr : isAbs cfg.root = true) (hne : Spec.resolve cfg.root ≠ [])
    (hd : ∀ d, cfg.defaultFile = some d → Good d) (loc : Str)
    (h : (handle cfg pat target fs).1 = .redirect loc) :
    ∃ g p, capture pat (pathOfTarget target) = some g ∧ decodeArg g = some p ∧
      Spec.inside cfg.root (absolutePath cfg.root p) = true ∧ fs (absolutePath cfg.root p) = .dir := by
  unfold handle at h
  simp only [] at h
  split at h
  · cases h
  split at h
  · cases h
  · rename_i g hg
    split at h
    · cases h
    · rename_i p hp
      have := (served_inside_spec cfg (pathOfTarget target) p fs hr hne hd).2.2 loc h
      exact ⟨g, p, hg, hp, this.1, this.2⟩

/-- **handle_outcome_cases.**  A whole request ends in: a served file, a directory redirect, 403, 404 (from the handler or
because the URL pattern did not match) — or 400, and that only when the request line is malformed (the target is empty or
has a character outside `[\x21-\x7e\x80-\xff]`: rejected by the HTTP parser) or the captured group is not percent-encoded
UTF-8, which `RequestHandler._execute` rejects before `StaticFileHandler.get` runs; no filesystem query is made then. -/
theorem handle_outcome_cases (cfg : Cfg) (pat : Pat) (target : Str) (fs : Str → Kind) :
    (∃ p, (handle cfg pat target fs).1 = .served p) ∨ (∃ l, (handle cfg pat target fs).1 = .redirect l)
    ∨ (handle cfg pat target fs).1 = .forbidden ∨ (handle cfg pat target fs).1 = .notFound
    ∨ ((handle cfg pat target fs) = (.notRouted, []) ∧ capture pat (pathOfTarget target) = none)
    ∨ ((handle cfg pat target fs) = (.badRequest, []) ∧
        (validTarget target = false ∨ ∃ g, capture pat (pathOfTarget target) = some g ∧ decodeArg g = none)) := by
  unfold handle
  simp only []
  split
  · rename_i hv
    right; right; right; right; right
    exact ⟨rfl, Or.inl (by simpa using hv)⟩
  split
  · rename_i hc; simp [hc]
  · rename_i g hg
    split
    · rename_i hdec
      right; right; right; right; right
      exact ⟨rfl, Or.inr ⟨g, hg, hdec⟩⟩
    · rename_i p _
      rcases outcome_cases cfg (pathOfTarget target) p fs with h | h | h | h
      · exact Or.inl h
      · exact Or.inr (Or.inl h)
      · exact Or.inr (Or.inr (Or.inl h))
      · exact Or.inr (Or.inr (Or.inr (Or.inl h)))

/-! ### non-vacuity -/
def exRoot : Str := [47, 119, 47, 114]                          -- "/w/r"
def exFs (p : Str) : Kind := if p = [47, 119, 47, 114, 47, 97] then .file else if p = [47, 119, 47, 115] then .file else .absent
-- "/w/r" + "a"  → served "/w/r/a";   "../s" → 403 without a query although "/w/s" exists;  "../r2/x" (sibling) → 403
example : serve { root := exRoot } [47, 97] [97] exFs = (.served [47, 119, 47, 114, 47, 97],
    [.isdir [47, 119, 47, 114, 47, 97], .exists [47, 119, 47, 114, 47, 97], .isfile [47, 119, 47, 114, 47, 97]]) := by decide
example : prefixTest exRoot (absolutePath exRoot [46, 46, 47, 115]) = false := by decide
example : serve { root := exRoot } [] [46, 46, 47, 115] exFs = (.forbidden, []) := by decide
example : absolutePath exRoot [46, 46, 47, 114, 50, 47, 120] = [47, 119, 47, 114, 50, 47, 120] := by decide
example : prefixTest exRoot (absolutePath exRoot [46, 46, 47, 114, 50, 47, 120]) = false := by decide
example : isAbs exRoot = true := by decide
example : Spec.resolve exRoot ≠ [] := by decide
-- "/w/r" contains "/w/x/../r/a" and not its sibling "/w/r2/a"
example : Spec.inside exRoot [47, 119, 47, 120, 47, 46, 46, 47, 114, 47, 97] = true := by decide
example : prefixTest exRoot (normpath [47, 119, 47, 120, 47, 46, 46, 47, 114, 47, 97]) = true := by decide
example : Spec.inside exRoot [47, 119, 47, 114, 50, 47, 97] = false := by decide
example : normpath [47, 47, 97, 47, 46, 46, 47, 47, 98, 47, 46, 47] = [47, 47, 98] := by decide   -- "//a/..//b/./" → "//b"

-- the default file: root "/w/r", directory "/w/r/d" with "i" inside; `Good` is needed: with default "../s" the joined path leaves the root
def exFs2 (p : Str) : Kind := if p = [47, 119, 47, 114, 47, 100] then .dir else if p = [47, 119, 47, 114, 47, 100, 47, 105] then .file else .absent
example : serve { root := exRoot, defaultFile := some [105] } [47, 100, 47] [100, 47] exFs2 = (.served [47, 119, 47, 114, 47, 100, 47, 105],
    [.isdir [47, 119, 47, 114, 47, 100], .exists [47, 119, 47, 114, 47, 100, 47, 105], .isfile [47, 119, 47, 114, 47, 100, 47, 105]]) := by decide
example : Good [105] := by simp [Good, dot, dotdot, cSlash]
example : Spec.inside exRoot (pjoin (absolutePath exRoot []) [46, 46, 47, 115]) = false := by decide   -- default "../s": not a plain name

end TornadoModel.C26
