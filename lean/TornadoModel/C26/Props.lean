import TornadoModel.C26.Spec
namespace TornadoModel.C26
end TornadoModel.C26
