/-
C26 — the string test of `validate_absolute_path` is component-wise containment.

* `normComps_eq_resolve`: for an absolute path the component stack of `normpath` is the walk `Spec.resolve`.
* `term_prefix`: for slash-free components, text prefix of `c₁/c₂/…/` ⇔ list prefix of the components.
* `prefixTest_iff`: the combination used by `prefix_is_containment`.
-/
import TornadoModel.C26.Lemmas
namespace TornadoModel.C26

/-! ### `normpath`'s stack = `Spec.resolve` -/

theorem normStep_step (init : Nat) (hinit : init ≠ 0) (acc : List Str) (hacc : dotdot ∉ acc) (comp : Str) :
    (normStep init acc comp).reverse = Spec.step acc.reverse comp ∧ dotdot ∉ normStep init acc comp := by
  unfold normStep Spec.step
  by_cases h1 : comp = [] ∨ comp = dot
  · simp only [if_pos h1]; exact ⟨trivial, hacc⟩
  · simp only [if_neg h1]
    by_cases h2 : comp = dotdot
    · have hhead : acc.head? ≠ some dotdot := by
        intro hh
        cases acc with
        | nil => simp at hh
        | cons a t => simp at hh; subst hh; simp at hacc
      have hcond : ¬ (comp ≠ dotdot ∨ (init = 0 ∧ acc = []) ∨ acc.head? = some dotdot) := by
        intro hc
        rcases hc with hc | hc | hc
        · exact hc h2
        · exact hinit hc.1
        · exact hhead hc
      simp only [if_neg hcond, if_pos h2]
      refine ⟨?_, fun hm => hacc (List.mem_of_mem_tail hm)⟩
      cases acc with
      | nil => rfl
      | cons a t => simp
    · have hcond : comp ≠ dotdot ∨ (init = 0 ∧ acc = []) ∨ acc.head? = some dotdot := Or.inl h2
      simp only [if_pos hcond, if_neg h2]
      refine ⟨by simp, ?_⟩
      intro hm
      simp only [List.mem_cons] at hm
      rcases hm with hm | hm
      · exact h2 hm.symm
      · exact hacc hm

theorem foldl_normStep_step (init : Nat) (hinit : init ≠ 0) (comps : List Str) :
    ∀ acc, dotdot ∉ acc →
      (comps.foldl (normStep init) acc).reverse = comps.foldl Spec.step acc.reverse := by
  induction comps with
  | nil => intro acc _; rfl
  | cons x t ih =>
    intro acc hacc
    simp only [List.foldl_cons]
    have := normStep_step init hinit acc hacc x
    rw [ih _ this.2, this.1]

/-- the component list computed by `normpath` (for 1 or 2 initial slashes) is the walk of the spec -/
theorem normComps_eq_resolve (init : Nat) (hinit : init ≠ 0) (p : Str) :
    normComps init (splitOn cSlash p) = Spec.resolve p := by
  unfold normComps Spec.resolve
  exact foldl_normStep_step init hinit _ [] (by simp)

theorem resolve_good (p : Str) : ∀ c ∈ Spec.resolve p, Good c := by
  rw [← normComps_eq_resolve 1 (by omega) p]
  intro c hc
  unfold normComps at hc
  rw [List.mem_reverse] at hc
  exact foldl_normStep_good _ (by omega) _ (splitOn_no_sep cSlash p) [] (by simp) c hc

/-- `normpath` of an absolute path, explicitly -/
theorem normpath_abs (p : Str) (h : isAbs p = true) :
    normpath p = render (initialSlashes p) (Spec.resolve p) := by
  have hk := initialSlashes_abs p h
  have hne : p ≠ [] := by intro hc; subst hc; simp [isAbs] at h
  unfold normpath
  simp only [if_neg hne]
  rw [normComps_eq_resolve _ (by omega) p]
  split
  · rename_i hr
    exfalso
    unfold render at hr
    rcases hk with hk | hk <;> rw [hk] at hr <;> simp [List.replicate] at hr
  · rfl

/-! ### text prefix ⇔ component prefix -/

/-- every component followed by a `/` -/
def term : List Str → Str
  | [] => []
  | a :: A => a ++ cSlash :: term A

theorem comp_prefix (a : Str) : ∀ (b X Y : Str), cSlash ∉ a → cSlash ∉ b →
    ((a ++ cSlash :: X) <+: (b ++ cSlash :: Y) ↔ a = b ∧ X <+: Y) := by
  induction a with
  | nil =>
    intro b X Y _ hb
    cases b with
    | nil => simp [List.cons_prefix_cons]
    | cons y b' =>
      simp only [List.mem_cons, not_or] at hb
      simp only [List.nil_append, List.cons_append, List.cons_prefix_cons]
      constructor
      · intro h; exact absurd h.1 hb.1
      · intro h; exact absurd h.1 (by simp)
  | cons x a' ih =>
    intro b X Y ha hb
    simp only [List.mem_cons, not_or] at ha
    cases b with
    | nil =>
      simp only [List.nil_append, List.cons_append, List.cons_prefix_cons]
      constructor
      · intro h; exact absurd h.1.symm ha.1
      · intro h; exact absurd h.1 (by simp)
    | cons y b' =>
      simp only [List.mem_cons, not_or] at hb
      simp only [List.cons_append, List.cons_prefix_cons, ih b' X Y ha.2 hb.2]
      constructor
      · rintro ⟨h1, h2, h3⟩; exact ⟨by rw [h1, h2], h3⟩
      · rintro ⟨h1, h3⟩; injection h1 with h1 h2; exact ⟨h1, h2, h3⟩

theorem term_prefix (A : List Str) : ∀ (B : List Str), (∀ c ∈ A, cSlash ∉ c) → (∀ c ∈ B, cSlash ∉ c) →
    (term A <+: term B ↔ A <+: B) := by
  induction A with
  | nil => intro B _ _; simp [term]
  | cons a A' ih =>
    intro B hA hB
    cases B with
    | nil => simp [term]
    | cons b B' =>
      simp only [term, List.cons_prefix_cons]
      rw [comp_prefix a b _ _ (hA a (by simp)) (hB b (by simp)),
        ih B' (fun c hc => hA c (by simp [hc])) (fun c hc => hB c (by simp [hc]))]

theorem joinWith_term (A : List Str) (hA : A ≠ []) : joinWith cSlash A ++ [cSlash] = term A := by
  induction A with
  | nil => exact absurd rfl hA
  | cons w ws ih =>
    cases ws with
    | nil => simp [joinWith, term]
    | cons w' ws' =>
      have := ih (by simp)
      simp only [joinWith, term, List.append_assoc, List.cons_append] at this ⊢
      rw [this]

theorem render_term (k : Nat) (A : List Str) (hA : A ≠ []) :
    render k A ++ [cSlash] = List.replicate k cSlash ++ term A := by
  unfold render
  rw [List.append_assoc, joinWith_term A hA]

/-- the joined text of proper components does not end with a `/` -/
theorem joinWith_last (A : List Str) (hA : A ≠ []) (hg : ∀ c ∈ A, Good c) :
    ∃ i c, joinWith cSlash A = i ++ [c] ∧ c ≠ cSlash := by
  induction A with
  | nil => exact absurd rfl hA
  | cons w ws ih =>
    cases ws with
    | nil =>
      have hw := hg w (by simp)
      refine ⟨w.dropLast, w.getLast hw.1, ?_, ?_⟩
      · simp [joinWith, List.dropLast_concat_getLast]
      · intro hc
        exact hw.2.2.2 (hc ▸ List.getLast_mem hw.1)
    | cons w' ws' =>
      obtain ⟨i, c, hic, hc⟩ := ih (by simp) (fun c hc => hg c (by simp [hc]))
      refine ⟨w ++ cSlash :: i, c, ?_, hc⟩
      simp only [joinWith] at hic ⊢
      rw [hic]; simp

theorem render_not_endsWithSlash (k : Nat) (A : List Str) (hA : A ≠ []) (hg : ∀ c ∈ A, Good c) :
    endsWithSlash (render k A) = false := by
  obtain ⟨i, c, hic, hc⟩ := joinWith_last A hA hg
  unfold endsWithSlash render
  rw [hic, ← List.append_assoc, List.getLast?_concat]
  simp [hc]

theorem term_head (A : List Str) (hA : A ≠ []) (hg : ∀ c ∈ A, Good c) :
    ∃ x S, term A = x :: S ∧ x ≠ cSlash := by
  cases A with
  | nil => exact absurd rfl hA
  | cons a A' =>
    have ha := hg a (by simp)
    cases a with
    | nil => exact absurd rfl ha.1
    | cons x a' =>
      refine ⟨x, a' ++ cSlash :: term A', rfl, ?_⟩
      intro hc
      exact ha.2.2.2 (by simp [hc])

/-- one or two slashes in front of texts that do not start with a slash -/
theorem slashes_prefix (k k' : Nat) (hk : k = 1 ∨ k = 2) (hk' : k' = 1 ∨ k' = 2) (s t : Nat) (S T : Str)
    (hs : s ≠ cSlash) (ht : t ≠ cSlash) :
    ((List.replicate k cSlash ++ s :: S) <+: (List.replicate k' cSlash ++ t :: T)
      ↔ k = k' ∧ (s :: S) <+: (t :: T)) := by
  have hs' : ¬ cSlash = s := fun h => hs h.symm
  have ht' : ¬ cSlash = t := fun h => ht h.symm
  rcases hk with rfl | rfl <;> rcases hk' with rfl | rfl <;>
    simp [List.replicate, List.cons_prefix_cons, hs, ht']

/-- … and never a prefix of a run of slashes -/
theorem slashes_not_prefix (k k' : Nat) (hk : k = 1 ∨ k = 2) (hk' : k' = 1 ∨ k' = 2) (s : Nat) (S : Str)
    (hs : s ≠ cSlash) :
    ¬ ((List.replicate k cSlash ++ s :: S) <+: (List.replicate k' cSlash ++ [cSlash])) := by
  rcases hk with rfl | rfl <;> rcases hk' with rfl | rfl <;>
    simp [List.replicate, List.cons_prefix_cons, hs]

/-- the string test on rendered normal forms -/
theorem render_prefix (k k' : Nat) (hk : k = 1 ∨ k = 2) (hk' : k' = 1 ∨ k' = 2) (A B : List Str)
    (hA : A ≠ []) (hgA : ∀ c ∈ A, Good c) (hgB : ∀ c ∈ B, Good c) :
    ((render k A ++ [cSlash]) <+: (render k' B ++ [cSlash]) ↔ k = k' ∧ A <+: B) := by
  obtain ⟨x, S, hxS, hx⟩ := term_head A hA hgA
  rw [render_term k A hA]
  by_cases hB : B = []
  · subst hB
    have : render k' [] ++ [cSlash] = List.replicate k' cSlash ++ [cSlash] := by simp [render, joinWith]
    rw [this, hxS]
    constructor
    · intro h; exact absurd h (slashes_not_prefix k k' hk hk' x S hx)
    · intro h
      exfalso
      have := List.prefix_nil.mp h.2
      exact hA this
  · obtain ⟨y, T, hyT, hy⟩ := term_head B hB hgB
    rw [render_term k' B hB]
    have key := slashes_prefix k k' hk hk' x y S T hx hy
    rw [← hxS, ← hyT] at key
    rw [key, term_prefix A B (fun c hc => (hgA c hc).2.2.2) (fun c hc => (hgB c hc).2.2.2)]

/-- the root test of `validate_absolute_path`, for an absolute root other than `/` and a normalized path -/
theorem prefixTest_iff (root p : Str) (hr : isAbs root = true) (hp : isAbs p = true)
    (hne : Spec.resolve root ≠ []) :
    (prefixTest root (normpath p) = true
      ↔ (initialSlashes root = initialSlashes p ∧ Spec.inside root p = true)) := by
  have hgA := resolve_good root
  have hgB := resolve_good p
  have hsep : rootSep root = render (initialSlashes root) (Spec.resolve root) ++ [cSlash] := by
    unfold rootSep abspath
    simp only [normpath_abs root hr, render_not_endsWithSlash _ _ hne hgA]
    simp
  unfold prefixTest startsWith Spec.inside
  rw [hsep, normpath_abs p hp, List.isPrefixOf_iff_prefix, List.isPrefixOf_iff_prefix]
  exact render_prefix _ _ (initialSlashes_abs root hr) (initialSlashes_abs p hp) _ _ hne hgA hgB

end TornadoModel.C26
