/- C26 driver:
   `C26 handle <root> <default|~> <pat> <target> [[path,kind],…]`  → `ok <resp> [[q,path],…]`
   `C26 validTarget <t>` `C26 normpath <p>` `C26 join <a> <b>` `C26 decode <s>` `C26 inside <root> <q>` `C26 resolve <p>` -/
import TornadoModel.Base.Wire
import TornadoModel.C26.Spec
namespace TornadoModel.C26.Drv
open TornadoModel TornadoModel.Wire TornadoModel.C26

def decKind : V → Option Kind
  | .atom "file" => some .file
  | .atom "dir" => some .dir
  | .atom "absent" => some .absent
  | _ => none

def decFs (v : V) : Option (List (Str × Kind)) := do
  let l ← v.list?
  l.mapM (fun e => do
    match ← e.list? with
    | [p, k] => pure (← p.cps?, ← decKind k)
    | _ => none)

def lookupFs (tab : List (Str × Kind)) (p : Str) : Kind :=
  match tab.find? (fun e => e.1 == p) with
  | some e => e.2
  | none => .absent

def decPat : V → Option Pat
  | .atom "all" => some .all
  | .atom "slash" => some .slash
  | .atom "slashes" => some .slashes
  | v => v.cps?.map Pat.pre

def encResp : Resp → V
  | .notRouted => .list [.atom "notRouted"]
  | .badRequest => .list [.atom "badRequest"]
  | .forbidden => .list [.atom "forbidden"]
  | .notFound => .list [.atom "notFound"]
  | .redirect l => .list [.atom "redirect", V.ofCps l]
  | .served p => .list [.atom "served", V.ofCps p]

def encQ : Q → V
  | .isdir p => .list [.atom "isdir", V.ofCps p]
  | .exists p => .list [.atom "exists", V.ofCps p]
  | .isfile p => .list [.atom "isfile", V.ofCps p]

def optStr (v : V) : Option (Option Str) :=
  if v.isNone then some none else v.cps?.map some

def handle (toks : List String) : String :=
  match toks.tail.mapM V.parse, toks.head? with
  | some args, some cmd =>
    match cmd, args with
    | "handle", [root, dflt, pat, target, fs] =>
      match root.cps?, optStr dflt, decPat pat, target.cps?, decFs fs with
      | some root, some d, some pat, some t, some tab =>
        let (r, qs) := C26.handle { root := root, defaultFile := d } pat t (lookupFs tab)
        ok [encResp r, .list (qs.map encQ)]
      | _, _, _, _, _ => err "bad-arg"
    | "validTarget", [t] => match t.cps? with
      | some t => ok [V.ofBool (validTarget t)]
      | none => err "bad-arg"
    | "normpath", [p] => match p.cps? with
      | some p => ok [V.ofCps (normpath p)]
      | none => err "bad-arg"
    | "join", [a, b] => match a.cps?, b.cps? with
      | some a, some b => ok [V.ofCps (pjoin a b)]
      | _, _ => err "bad-arg"
    | "decode", [s] => match s.cps? with
      | some s => ok [V.ofOpt V.ofCps (decodeArg s)]
      | none => err "bad-arg"
    | "inside", [r, q] => match r.cps?, q.cps? with
      | some r, some q => ok [V.ofBool (Spec.inside r q)]
      | _, _ => err "bad-arg"
    | "resolve", [p] => match p.cps? with
      | some p => ok [.list ((Spec.resolve p).map V.ofCps)]
      | none => err "bad-arg"
    | _, _ => err "bad-cmd"
  | _, _ => err "bad-line"

end TornadoModel.C26.Drv
