/-
C26 — the default file of a directory: `join(a, default_filename)` for a normalized path `a` inside the root and a
plain file name stays inside the root (review item S2-a).

* `splitOn_append_sep`, `splitOn_noSep`: `split("/")` of `a + "/" + d`.
* `resolve_render`: the walk of a rendered normal form is its component list (so `resolve (normpath p) = resolve p`).
* `resolve_join_name`: the walk of `a + "/" + d` for a plain name `d` is the walk of `a` followed by `d`.
-/
import TornadoModel.C26.Inv2
namespace TornadoModel.C26

theorem splitOn_ne_nil (sep : Nat) (s : Str) : splitOn sep s ≠ [] := by
  cases s with
  | nil => simp [splitOn]
  | cons c t =>
    unfold splitOn
    split
    · simp
    · split <;> simp

theorem splitOn_append_sep (sep : Nat) (a b : Str) :
    splitOn sep (a ++ sep :: b) = splitOn sep a ++ splitOn sep b := by
  induction a with
  | nil => simp [splitOn]
  | cons c t ih =>
    by_cases hc : c = sep
    · simp only [List.cons_append]
      rw [splitOn, if_pos hc, ih]
      conv => rhs; rw [splitOn, if_pos hc]
      rfl
    · simp only [List.cons_append]
      rw [splitOn, if_neg hc, ih]
      conv => rhs; rw [splitOn, if_neg hc]
      cases h : splitOn sep t with
      | nil => exact absurd h (splitOn_ne_nil sep t)
      | cons w ws => rfl

theorem splitOn_noSep (sep : Nat) (s : Str) (h : sep ∉ s) : splitOn sep s = [s] := by
  induction s with
  | nil => rfl
  | cons c t ih =>
    simp only [List.mem_cons, not_or] at h
    rw [splitOn, if_neg (fun hc => h.1 hc.symm), ih h.2]

theorem step_good (st : List Str) (c : Str) (hc : Good c) : Spec.step st c = st ++ [c] := by
  unfold Spec.step
  rw [if_neg (by intro h; rcases h with h | h; exact hc.1 h; exact hc.2.1 h), if_neg hc.2.2.1]

theorem foldl_step_good (A : List Str) (hg : ∀ c ∈ A, Good c) : ∀ acc, A.foldl Spec.step acc = acc ++ A := by
  induction A with
  | nil => intro acc; simp
  | cons a A' ih =>
    intro acc
    simp only [List.foldl_cons]
    rw [step_good acc a (hg a (by simp)), ih (fun c hc => hg c (by simp [hc]))]
    simp

/-- walking the `/`-joined text of proper components appends exactly those components -/
theorem foldl_step_joinWith (A : List Str) (hg : ∀ c ∈ A, Good c) :
    ∀ acc, (splitOn cSlash (joinWith cSlash A)).foldl Spec.step acc = acc ++ A := by
  induction A with
  | nil => intro acc; simp [joinWith, splitOn, Spec.step]
  | cons w ws ih =>
    intro acc
    have hw := hg w (by simp)
    cases ws with
    | nil =>
      simp only [joinWith]
      rw [splitOn_noSep cSlash w hw.2.2.2]
      simp [step_good acc w hw]
    | cons w' ws' =>
      simp only [joinWith]
      rw [splitOn_append_sep, splitOn_noSep cSlash w hw.2.2.2, List.foldl_append]
      simp only [List.foldl_cons, List.foldl_nil]
      rw [step_good acc w hw, ih (fun c hc => hg c (by simp [hc]))]
      simp

theorem resolve_cons_slash (s : Str) : Spec.resolve (cSlash :: s) = Spec.resolve s := by
  unfold Spec.resolve
  rw [splitOn, if_pos rfl]
  simp [Spec.step]

/-- the walk of a rendered normal form (`k` slashes, proper components) is its component list -/
theorem resolve_render (k : Nat) (A : List Str) (hg : ∀ c ∈ A, Good c) : Spec.resolve (render k A) = A := by
  induction k with
  | zero =>
    unfold render Spec.resolve
    simpa using foldl_step_joinWith A hg []
  | succ k ih =>
    have : render (k + 1) A = cSlash :: render k A := by simp [render, List.replicate_succ]
    rw [this, resolve_cons_slash, ih]

/-- normalizing an absolute path does not change what it denotes -/
theorem resolve_normpath (p : Str) (hp : isAbs p = true) : Spec.resolve (normpath p) = Spec.resolve p := by
  rw [normpath_abs p hp, resolve_render _ _ (resolve_good p)]

/-- the walk of `a + "/" + d` for a plain name `d` is the walk of `a` followed by `d` -/
theorem resolve_join_name (a d : Str) (hd : Good d) :
    Spec.resolve (a ++ cSlash :: d) = Spec.resolve a ++ [d] := by
  unfold Spec.resolve
  rw [splitOn_append_sep, splitOn_noSep cSlash d hd.2.2.2, List.foldl_append]
  simp [step_good _ d hd]

theorem good_head (d : Str) (hd : Good d) : d.head? ≠ some cSlash := by
  cases d with
  | nil => simp
  | cons x t =>
    intro h
    simp at h
    exact hd.2.2.2 (by simp [h])

/-- **the default file stays inside.**  For an absolute root other than `/`, an absolute `p` whose normal form passes the
root test, and a plain file name `d`: both `normpath p` and `join(normpath p, d)` lie inside the root (component-wise), and
the joined path denotes exactly "the object `p` denotes, then `d`". -/
theorem join_name_inside (root p d : Str) (hr : isAbs root = true) (hp : isAbs p = true)
    (hne : Spec.resolve root ≠ []) (hd : Good d) (ht : prefixTest root (normpath p) = true) :
    Spec.inside root (normpath p) = true ∧ Spec.inside root (pjoin (normpath p) d) = true
      ∧ Spec.resolve (pjoin (normpath p) d) = Spec.resolve p ++ [d] := by
  have hin := ((prefixTest_iff root p hr hp hne).mp ht).2
  unfold Spec.inside at hin
  rw [List.isPrefixOf_iff_prefix] at hin
  have hpne : Spec.resolve p ≠ [] := by
    intro h
    rw [h] at hin
    exact hne (List.prefix_nil.mp hin)
  have hk := initialSlashes_abs p hp
  have hj : pjoin (normpath p) d = normpath p ++ cSlash :: d := by
    have hnot := render_not_endsWithSlash (initialSlashes p) _ hpne (resolve_good p)
    rw [← normpath_abs p hp] at hnot
    unfold pjoin
    rw [if_neg (good_head d hd), if_neg]
    intro h
    rcases h with h | h
    · rw [normpath_abs p hp] at h
      unfold render at h
      rcases hk with hk | hk <;> rw [hk] at h <;> simp [List.replicate] at h
    · unfold endsWithSlash at hnot
      rw [h] at hnot
      simp at hnot
  refine ⟨?_, ?_, ?_⟩
  · unfold Spec.inside
    rw [resolve_normpath p hp, List.isPrefixOf_iff_prefix]
    exact hin
  · unfold Spec.inside
    rw [hj, resolve_join_name _ d hd, resolve_normpath p hp, List.isPrefixOf_iff_prefix]
    exact hin.trans (List.prefix_append _ _)
  · rw [hj, resolve_join_name _ d hd, resolve_normpath p hp]

end TornadoModel.C26
