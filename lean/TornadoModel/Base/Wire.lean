/-
Wire values for the driver line protocol (core Lean only).

  token ::= int | 'x' hex* | 'u' hex* | '~' | atom | '[' (token (',' token)*)? ']'
  int   ::= '-'? digit+
  atom  ::= [A-Za-z_][A-Za-z0-9_.:/+-]*      (enum names, T / F)

`x` is a byte string (two lowercase hex digits per byte), `u` is text (hex of its UTF-8 bytes),
`~` is None.  A request line is `<topic> <op> <token>*`, a reply line `ok <token>*` or `err <Kind>`.
The Python side (`harness/core/wire.py`) implements exactly the same grammar.
-/
namespace TornadoModel.Wire

inductive V where
  | int (i : Int)
  | bytes (b : List UInt8)
  | str (s : String)
  | none
  | atom (s : String)
  | list (l : List V)
  deriving Repr, BEq, Inhabited

def hexDigit (n : Nat) : Char :=
  if n < 10 then Char.ofNat (48 + n) else Char.ofNat (87 + n)

def hexOfBytes (bs : List UInt8) : String :=
  String.ofList (bs.foldr (fun b acc => hexDigit (b.toNat / 16) :: hexDigit (b.toNat % 16) :: acc) [])

def hexVal (c : Char) : Option Nat :=
  if '0' ≤ c ∧ c ≤ '9' then some (c.toNat - 48)
  else if 'a' ≤ c ∧ c ≤ 'f' then some (c.toNat - 87)
  else if 'A' ≤ c ∧ c ≤ 'F' then some (c.toNat - 55)
  else Option.none

def bytesOfHex : List Char → Option (List UInt8)
  | [] => some []
  | a :: b :: rest => do
      let h ← hexVal a
      let l ← hexVal b
      let r ← bytesOfHex rest
      pure (UInt8.ofNat (h * 16 + l) :: r)
  | [_] => Option.none

def isAtomStart (c : Char) : Bool := c.isAlpha || c == '_'
def isAtomChar (c : Char) : Bool :=
  c.isAlphanum || c == '_' || c == '.' || c == ':' || c == '/' || c == '+' || c == '-'

partial def renderV : V → String
  | .int i => toString i
  | .bytes b => "x" ++ hexOfBytes b
  | .str s => "u" ++ hexOfBytes s.toUTF8.toList
  | .none => "~"
  | .atom s => s
  | .list l => "[" ++ ",".intercalate (l.map renderV) ++ "]"

def V.render (v : V) : String := renderV v

/-- split the scalar token at the front of `cs` (up to `,` or `]`). -/
def takeScalar : List Char → List Char × List Char
  | [] => ([], [])
  | c :: cs =>
    if c == ',' || c == ']' then ([], c :: cs)
    else let (a, b) := takeScalar cs; (c :: a, b)

def parseScalar (tok : List Char) : Option V :=
  match tok with
  | [] => Option.none
  | ['~'] => some .none
  | 'x' :: rest =>
      if rest.all (fun c => (hexVal c).isSome) then (bytesOfHex rest).map V.bytes
      else if tok.all isAtomChar then some (.atom (String.ofList tok)) else Option.none
  | 'u' :: rest =>
      match bytesOfHex rest with
      | some bs =>
        match String.fromUTF8? (ByteArray.mk bs.toArray) with
        | some s => some (.str s)
        | Option.none => Option.none
      | Option.none => if tok.all isAtomChar then some (.atom (String.ofList tok)) else Option.none
  | c :: rest =>
      if c.isDigit then
        if tok.all Char.isDigit then some (.int (String.ofList tok).toNat!) else Option.none
      else if c == '-' && !rest.isEmpty && rest.all Char.isDigit then
        some (.int (-(Int.ofNat (String.ofList rest).toNat!)))
      else if isAtomStart c && tok.all isAtomChar then some (.atom (String.ofList tok))
      else Option.none

mutual
  /-- parse one value from the front of the character list (fuel = remaining length + 1). -/
  def parseVal : Nat → List Char → Option (V × List Char)
    | 0, _ => Option.none
    | fuel + 1, cs =>
      match cs with
      | '[' :: ']' :: rest => some (.list [], rest)
      | '[' :: rest => (parseItems fuel rest).map (fun (l, r) => (.list l, r))
      | _ =>
        let (tok, rest) := takeScalar cs
        (parseScalar tok).map (fun v => (v, rest))
  def parseItems : Nat → List Char → Option (List V × List Char)
    | 0, _ => Option.none
    | fuel + 1, cs =>
      match parseVal fuel cs with
      | some (v, ',' :: rest) => (parseItems fuel rest).map (fun (l, r) => (v :: l, r))
      | some (v, ']' :: rest) => some ([v], rest)
      | _ => Option.none
end

def V.parse (s : String) : Option V :=
  let cs := s.toList
  match parseVal (cs.length + 1) cs with
  | some (v, []) => some v
  | _ => Option.none

/-! accessors used by the per-property drivers -/
def V.int? : V → Option Int | .int i => some i | _ => Option.none
def V.nat? : V → Option Nat | .int i => if 0 ≤ i then some i.toNat else Option.none | _ => Option.none
def V.bytes? : V → Option (List UInt8) | .bytes b => some b | _ => Option.none
def V.str? : V → Option String | .str s => some s | _ => Option.none
def V.atom? : V → Option String | .atom s => some s | _ => Option.none
def V.list? : V → Option (List V) | .list l => some l | _ => Option.none
def V.bool? : V → Option Bool | .atom "T" => some true | .atom "F" => some false | _ => Option.none
def V.isNone : V → Bool | .none => true | _ => false
def V.ofBool (b : Bool) : V := .atom (if b then "T" else "F")
def V.ofNat (n : Nat) : V := .int n
def V.ofOpt {α} (f : α → V) : Option α → V | some a => f a | Option.none => .none
def V.chars (cs : List Char) : V := .str (String.ofList cs)

/-- Unicode scalar values only (no surrogates, ≤ 0x10FFFF) -/
def isScalar (n : Nat) : Bool := n < 0xD800 || (0xDFFF < n && n ≤ 0x10FFFF)

/-- Python `str` as a list of code points: `u…` when every element is a scalar value, else `[int,…]`. -/
def V.ofCps (cs : List Nat) : V :=
  if cs.all isScalar then .str (String.ofList (cs.map Char.ofNat)) else .list (cs.map (fun n => V.int (Int.ofNat n)))
def V.cps? : V → Option (List Nat)
  | .str s => some (s.toList.map Char.toNat)
  | .list l => l.mapM V.nat?
  | _ => Option.none
/-- byte strings as `List Nat` -/
def V.ofByteNats (bs : List Nat) : V := .bytes (bs.map UInt8.ofNat)
def V.byteNats? : V → Option (List Nat) | .bytes b => some (b.map UInt8.toNat) | _ => Option.none

def ok (vs : List V) : String := " ".intercalate ("ok" :: vs.map V.render)
def err (kind : String) : String := "err " ++ kind

/-- parse all argument tokens of a request line -/
def parseArgs (toks : List String) : Option (List V) := toks.mapM V.parse

end TornadoModel.Wire
