/-
C01 — the machine agrees with the batch reader on everything the application sees: finished requests WITH their
bodies, the body bytes delivered for the unfinished/rejected message, and how the stream ends (closed or not).

`view` folds a trace into what the application delegate has seen (`headers_received` opens a request, `data_received`
appends to its body, `finish` completes it); it is insensitive to how `data` deliveries were cut.
-/
import TornadoModel.C01.Refine
namespace TornadoModel.C01
open Spec

/-- finished requests (oldest first) and the request in progress -/
abbrev View := List Req × Option Req

def addBody (b : Str) (r : Req) : Req := { r with body := r.body ++ b }

def addData (v : View) (b : Str) : View := (v.1, v.2.map (addBody b))

/-- the application's view after one more event -/
def absorb (v : View) : Ev → View
  | .req m t ver h => (v.1, some { m := m, t := t, v := ver, h := h, body := [] })
  | .data _ b => addData v b
  | .fin =>
    match v.2 with
    | some r => (v.1 ++ [r], none)
    | none => v
  | _ => v

/-- the application's view of a (newest-first) trace -/
def view (out : List Ev) : View := out.foldr (fun e acc => absorb acc e) ([], none)

/-- body bytes delivered for the message in progress -/
def partialOf (v : View) : Str :=
  match v.2 with
  | none => []
  | some r => r.body

/-- the body bytes the batch reader extracts for the message at which it stops -/
def Spec.Tail.body : Tail → Str
  | .pending p => p
  | .reject p => p
  | .stop => []

/-- does the batch reader say the connection is over? -/
def Spec.Tail.closes : Tail → Bool
  | .pending _ => false
  | _ => true

@[simp] theorem view_nil : view [] = ([], none) := rfl
theorem view_cons (e : Ev) (r : List Ev) : view (e :: r) = absorb (view r) e := rfl

theorem addBody_nil (r : Req) : addBody [] r = r := by cases r; simp [addBody]

theorem addData_nil (v : View) : addData v [] = v := by
  obtain ⟨d, c⟩ := v
  cases c <;> simp [addData, addBody_nil]

theorem addData_addData (v : View) (a b : Str) : addData (addData v a) b = addData v (a ++ b) := by
  obtain ⟨d, c⟩ := v
  cases c <;> simp [addData, addBody]

theorem view_pushEv (r : List Ev) (e : Ev) : view (pushEv r e) = absorb (view r) e := by
  unfold pushEv
  split
  · next i b j a r' =>
    split
    · simp only [view_cons, absorb, addData_addData]
    · rfl
  · rfl

theorem view_fold (r : List Ev) (es : List Ev) : view (es.foldl pushEv r) = es.foldl absorb (view r) := by
  induction es generalizing r with
  | nil => rfl
  | cons e es ih => simp only [List.foldl_cons, ih, view_pushEv]

theorem view_emit (s : St) (es : List Ev) : view (s.emit es).out = es.foldl absorb (view s.out) := view_fold _ _

theorem view_deliver (s : St) (b : Str) : view (s.deliver b).out = addData (view s.out) b := by
  simp only [St.deliver, view_pushEv, absorb]

theorem view_dataOut (r : List Ev) (i : Nat) (b : Str) : view (dataOut r i b) = addData (view r) b := by
  unfold dataOut
  split
  · next h => rw [h, addData_nil]
  · simp only [view_pushEv, absorb]

theorem view_reject400 (s : St) (r : Bool) : view (reject400 s r).out = view s.out := by
  cases r <;> simp [reject400, view_emit, absorb]

theorem view_closeSilent (s : St) (r : Bool) : view (closeSilent s r).out = view s.out := by
  cases r <;> simp [closeSilent, view_emit, absorb]

theorem view_finishReq (s : St) (d : List Req) (r : Req) (h : view s.out = (d, some r)) :
    view (finishReq s).out = (d ++ [r], none) := by
  unfold finishReq
  split <;> simp [view_emit, absorb, h]

theorem partialOf_addData (v : View) (b : Str) (h : v.2 ≠ none) : partialOf (addData v b) = partialOf v ++ b := by
  obtain ⟨d, c⟩ := v
  cases c with
  | none => exact absurd rfl h
  | some r => simp [partialOf, addData, addBody]

theorem drain_stop {cfg : Cfg} {s : St} (h : s.buf = []) : drain cfg s = s := drain_of_none (step_nil h)

/-! ### the machine follows the batch chunked decoder also when the body is NOT complete / malformed -/

/-- what the machine does, given the batch decoder's verdict on the buffer -/
def Follows (cfg : Cfg) (s : St) : CRes → Prop
  | .ok _ _ => True
  | .bad p => (drain cfg s).phase = .closed ∧ view (drain cfg s).out = addData (view s.out) p
  | .more p => (drain cfg s).phase ≠ .closed ∧ view (drain cfg s).out = addData (view s.out) p

theorem follows_prepend {cfg : Cfg} {s s' : St} {d : Str} {res : CRes} (hd : drain cfg s = drain cfg s')
    (hv : view s'.out = addData (view s.out) d) (h : Follows cfg s' res) : Follows cfg s (res.prepend d) := by
  cases res with
  | ok b r => trivial
  | bad p =>
    simp only [CRes.prepend, Follows] at h ⊢
    rw [hd, h.2, hv, addData_addData]; exact ⟨h.1, rfl⟩
  | more p =>
    simp only [CRes.prepend, Follows] at h ⊢
    rw [hd, h.2, hv, addData_addData]; exact ⟨h.1, rfl⟩

/-- a closing step ends the run -/
theorem follows_bad {cfg : Cfg} {s T : St} (hs : step cfg s = some T) (hb : T.buf = []) (hp : T.phase = .closed)
    (hv : view T.out = view s.out) : Follows cfg s (.bad []) := by
  simp only [Follows]
  rw [drain_of_some hs, drain_stop hb, addData_nil]
  exact ⟨hp, hv⟩

/-- size line and the chunk's data are consumed by two resumptions (whatever follows the data) -/
theorem drain_chunk_data (cfg : Cfg) (s : St) (total loc n : Nat) (d tl : Str)
    (hp : s.phase = .chunkSize total) (hloc : findCrlf s.buf = some loc) (hshort : ¬ loc + 2 > chunkLineMax)
    (hsz : parseHexInt (s.buf.take loc) = some (n + 1)) (hfit : ¬ total + (n + 1) > s.limit)
    (hr0 : s.buf.drop (loc + 2) = d ++ tl) (hd : d.length = n + 1) :
    drain cfg s = drain cfg { (s.deliver d) with buf := tl, phase := .chunkCrlf (total + (n + 1)) } := by
  have s1 : step cfg s = some { s with buf := d ++ tl, phase := .chunkData (n + 1) (total + (n + 1)) } := by
    simp [step, hp, stepChunkSize, hloc, hshort, hsz, hfit, hr0]
  rw [drain_of_some s1]
  have hne : d ≠ [] := by
    intro e; rw [e] at hd; simp at hd
  have s2 : step cfg { s with buf := d ++ tl, phase := .chunkData (n + 1) (total + (n + 1)) }
      = some { (s.deliver d) with buf := tl, phase := .chunkCrlf (total + (n + 1)) } := by
    have h1 : n + 1 ≤ (d ++ tl).length := by simp; omega
    have h2 : (d ++ tl).take (n + 1) = d := List.take_left' hd
    have h3 : (d ++ tl).drop (n + 1) = tl := List.drop_left' hd
    have h4 : (d ++ tl).isEmpty = false := by
      cases d with
      | nil => exact absurd rfl hne
      | cons _ _ => rfl
    simp only [step, stepChunkData, h4, takeBody, h2, h3, if_pos h1]
    simp [St.deliver]
  rw [drain_of_some s2]

theorem drain_follows (cfg : Cfg) : ∀ (fuel total : Nat) (s : St), s.phase = .chunkSize total → s.buf.length < fuel →
    Follows cfg s (decodeChunks s.limit fuel total s.buf) := by
  intro fuel
  induction fuel with
  | zero => intro total s _ h; omega
  | succ fuel ih =>
    intro total s hp hlen
    rw [decodeChunks]
    cases hloc : findCrlf s.buf with
    | none =>
      simp only []
      by_cases hl : s.buf.length > chunkLineMax
      · rw [if_pos hl]
        exact follows_bad (T := closeSilent s true) (by simp [step, hp, stepChunkSize, hloc, hl]) rfl rfl
          (view_closeSilent s true)
      · rw [if_neg hl]
        have hn : step cfg s = none := by simp [step, hp, stepChunkSize, hloc, hl]
        simp only [Follows]
        rw [drain_of_none hn, addData_nil]
        exact ⟨by rw [hp]; simp, rfl⟩
    | some loc =>
      simp only []
      have hlb := findCrlf_bounds hloc
      by_cases hlong : loc + 2 > chunkLineMax
      · rw [if_pos hlong]
        exact follows_bad (T := closeSilent s true) (by simp [step, hp, stepChunkSize, hloc, hlong]) rfl rfl
          (view_closeSilent s true)
      · rw [if_neg hlong]
        cases hsz : parseHexInt (s.buf.take loc) with
        | none =>
          simp only []
          exact follows_bad (T := reject400 s true) (by simp [step, hp, stepChunkSize, hloc, hlong, hsz]) rfl rfl
            (view_reject400 s true)
        | some sz =>
          cases sz with
          | zero =>
            simp only []
            have s1 : step cfg s = some { s with buf := s.buf.drop (loc + 2), phase := .lastCrlf } := by
              simp [step, hp, stepChunkSize, hloc, hlong, hsz]
            generalize hr0 : s.buf.drop (loc + 2) = r0 at s1
            split
            · trivial
            · next a b tl hnot =>
              have hab : ¬ (a = 13 ∧ b = 10) := by
                rintro ⟨rfl, rfl⟩
                exact hnot rfl rfl
              have s2 : step cfg { s with buf := a :: b :: tl, phase := .lastCrlf }
                  = some (reject400 { s with buf := a :: b :: tl, phase := .lastCrlf } true) := by
                simp [step, stepLastCrlf, hab]
              simp only [Follows]
              rw [drain_of_some s1, drain_of_some s2, drain_stop (by rfl), addData_nil]
              exact ⟨rfl, view_reject400 _ true⟩
            · next h1 h2 =>
              have s2 : step cfg { s with buf := r0, phase := .lastCrlf } = none := by
                match r0, h2 with
                | [], _ => simp [step, stepLastCrlf]
                | [_], _ => simp [step, stepLastCrlf]
                | a :: b :: tl, h2 => exact absurd rfl (h2 a b tl)
              simp only [Follows]
              rw [drain_of_some s1, drain_of_none s2, addData_nil]
              exact ⟨by simp, rfl⟩
          | succ n =>
            simp only []
            by_cases hbig : total + (n + 1) > s.limit
            · rw [if_pos hbig]
              exact follows_bad (T := reject400 s true)
                (by simp [step, hp, stepChunkSize, hloc, hlong, hsz, hbig]) rfl rfl (view_reject400 s true)
            · rw [if_neg hbig]
              generalize hr0 : s.buf.drop (loc + 2) = r0
              have hr0l : r0.length < fuel := by
                have := congrArg List.length hr0
                simp only [List.length_drop] at this
                omega
              by_cases hshortd : r0.length < n + 1
              · rw [if_pos hshortd]
                -- the chunk's data is incomplete: whatever is buffered is delivered
                have s1 : step cfg s = some { s with buf := r0, phase := .chunkData (n + 1) (total + (n + 1)) } := by
                  simp [step, hp, stepChunkSize, hloc, hlong, hsz, hbig, hr0]
                simp only [Follows]
                rw [drain_of_some s1]
                cases hr : r0 with
                | nil =>
                  have s2 : step cfg { s with buf := [], phase := .chunkData (n + 1) (total + (n + 1)) } = none :=
                    step_nil rfl
                  rw [drain_of_none s2, addData_nil]
                  exact ⟨by simp, rfl⟩
                | cons c cs =>
                  rw [hr] at hshortd
                  have hnle : ¬ n + 1 ≤ (c :: cs).length := by omega
                  have s2 : step cfg { s with buf := c :: cs, phase := .chunkData (n + 1) (total + (n + 1)) }
                      = some { (takeBody { s with buf := c :: cs, phase := .chunkData (n + 1) (total + (n + 1)) }
                          (c :: cs).length) with phase := .chunkData (n + 1 - (c :: cs).length) (total + (n + 1)) } := by
                    simp only [step, stepChunkData, List.isEmpty_cons, Bool.false_or, if_neg hnle]
                    simp
                  rw [drain_of_some s2, drain_stop (by simp [takeBody])]
                  refine ⟨by simp, ?_⟩
                  simp only [takeBody, List.take_length]
                  exact view_deliver _ _
              · rw [if_neg hshortd]
                have hd : (r0.take (n + 1)).length = n + 1 := by rw [List.length_take]; omega
                have hsplit : r0 = r0.take (n + 1) ++ r0.drop (n + 1) := (List.take_append_drop _ _).symm
                have hdc := drain_chunk_data cfg s total loc n (r0.take (n + 1)) (r0.drop (n + 1)) hp hloc hlong hsz hbig
                  (hr0.trans hsplit) hd
                split
                · next rest' heq =>
                  -- a complete chunk: recurse
                  have s3 : step cfg { (s.deliver (r0.take (n + 1))) with buf := r0.drop (n + 1), phase := .chunkCrlf (total + (n + 1)) }
                      = some { (s.deliver (r0.take (n + 1))) with buf := rest', phase := .chunkSize (total + (n + 1)) } := by
                    simp [step, stepChunkCrlf, heq]
                  have hrl : rest'.length < fuel := by
                    have := congrArg List.length heq
                    simp only [List.length_drop, List.length_cons] at this
                    omega
                  have := ih (total + (n + 1))
                    { (s.deliver (r0.take (n + 1))) with buf := rest', phase := .chunkSize (total + (n + 1)) } rfl hrl
                  exact follows_prepend (hdc.trans (drain_of_some s3)) (view_deliver s _) this
                · next a b tl hnot heq =>
                  have hab : ¬ (a = 13 ∧ b = 10) := by
                    rintro ⟨rfl, rfl⟩
                    exact hnot rfl rfl
                  have s3 : step cfg { (s.deliver (r0.take (n + 1))) with buf := r0.drop (n + 1), phase := .chunkCrlf (total + (n + 1)) }
                      = some (reject400 { (s.deliver (r0.take (n + 1))) with buf := r0.drop (n + 1), phase := .chunkCrlf (total + (n + 1)) } true) := by
                    simp [step, stepChunkCrlf, heq, hab]
                  simp only [Follows]
                  rw [hdc, drain_of_some s3, drain_stop (by rfl)]
                  exact ⟨rfl, by rw [view_reject400]; exact view_deliver s _⟩
                · next h1 h2 =>
                  have s3 : step cfg { (s.deliver (r0.take (n + 1))) with buf := r0.drop (n + 1), phase := .chunkCrlf (total + (n + 1)) } = none := by
                    revert h2
                    generalize List.drop (n + 1) r0 = r1
                    intro h2
                    match r1, h2 with
                    | [], _ => simp [step, stepChunkCrlf]
                    | [_], _ => simp [step, stepChunkCrlf]
                    | a :: b :: tl, h2 => exact absurd rfl (h2 a b tl)
                  simp only [Follows]
                  rw [hdc, drain_of_none s3]
                  exact ⟨by simp, view_deliver s _⟩

/-- `_read_fixed_body` with fewer bytes buffered than owed: all of them are delivered, the connection stays open -/
theorem drain_fixed_partial (cfg : Cfg) (S : St) (rem : Nat) (hp : S.phase = .fixed rem) (hlt : S.buf.length < rem) :
    (drain cfg S).phase ≠ .closed ∧ view (drain cfg S).out = addData (view S.out) S.buf := by
  cases hb : S.buf with
  | nil =>
    rw [drain_stop hb, addData_nil]
    exact ⟨by rw [hp]; simp, rfl⟩
  | cons c cs =>
    rw [hb] at hlt
    have hnle : ¬ rem ≤ (c :: cs).length := by omega
    have hr0 : (rem == 0) = false := by
      cases rem with
      | zero => simp at hlt
      | succ r => rfl
    have s2 : step cfg S = some { (takeBody S S.buf.length) with phase := .fixed (rem - S.buf.length) } := by
      simp only [step, hp, stepFixed, hb, List.isEmpty_cons, Bool.false_or, hr0, if_neg hnle]
      simp
    rw [drain_of_some s2, drain_stop (by simp [takeBody])]
    refine ⟨by simp, ?_⟩
    simp only [takeBody, List.take_length]
    rw [← hb]
    exact view_deliver _ _

/-! ### the whole run: machine vs batch reader -/

/-- the machine state `T` shows the application exactly what the batch reader's result `res` says, on top of the
    finished requests `v0.1` seen before -/
structure Agrees (v0 : View) (res : List Req × Tail) (T : St) : Prop where
  done : (view T.out).1 = v0.1 ++ res.1
  part : partialOf (view T.out) = res.2.body
  closed : T.phase = .closed ↔ res.2.closes = true

/-- a closing step on a message the batch reader rejects -/
theorem agrees_reject {cfg : Cfg} {s T : St} (v0 : View) (p : Str) (hs : step cfg s = some T) (hb : T.buf = [])
    (hp : T.phase = .closed) (h1 : (view T.out).1 = v0.1) (h2 : partialOf (view T.out) = p) :
    Agrees v0 ([], .reject p) (drain cfg s) := by
  rw [drain_of_some hs, drain_stop hb]
  exact ⟨by simp [h1], h2, by simp [hp, Spec.Tail.closes]⟩

theorem agrees_pending_of (v0 : View) (r : Req) (p : Str) (T : St) (h1 : T.phase ≠ .closed)
    (h2 : view T.out = addData (v0.1, some r) p) (hr : r.body = []) : Agrees v0 ([], .pending p) T :=
  ⟨by rw [h2]; simp [addData], by rw [h2]; simp [addData, addBody, partialOf, Spec.Tail.body, hr],
    ⟨fun h => absurd h h1, fun h => by simp [Spec.Tail.closes] at h⟩⟩

theorem agrees_reject_of (v0 : View) (r : Req) (p : Str) (T : St) (h1 : T.phase = .closed)
    (h2 : view T.out = addData (v0.1, some r) p) (hr : r.body = []) : Agrees v0 ([], .reject p) T :=
  ⟨by rw [h2]; simp [addData], by rw [h2]; simp [addData, addBody, partialOf, Spec.Tail.body, hr],
    ⟨fun _ => rfl, fun _ => h1⟩⟩

theorem full_finish (cfg : Cfg) (fuel : Nat)
    (ih : ∀ s : St, s.phase = .headers → s.buf.length < fuel → (view s.out).2 = none →
      Agrees (view s.out) (readAllF cfg fuel s.idx s.buf) (drain cfg s))
    (v0 : View) (r : Req) (T : St) (ka : Bool) (idx : Nat)
    (hv : view T.out = (v0.1, some r)) (hka : T.ka = ka) (hidx : T.idx = idx) (hb : T.buf.length < fuel) :
    Agrees v0 (if ka = true then (r :: (readAllF cfg fuel idx T.buf).1, (readAllF cfg fuel idx T.buf).2)
        else ([r], Tail.stop)) (drain cfg (finishReq T)) := by
  have hvf := view_finishReq T v0.1 r hv
  subst hka hidx
  by_cases hk : T.ka = true
  · simp only [hk, if_true]
    have e : finishReq T = { (T.emit [.fin, .w200]) with phase := .headers } := by simp [finishReq, hk]
    have h := ih (finishReq T) (by rw [e]) (by rw [e]; exact hb) (by rw [hvf])
    rw [hvf] at h
    have e1 : (finishReq T).idx = T.idx := by rw [e]; rfl
    have e2 : (finishReq T).buf = T.buf := by rw [e]; rfl
    rw [e1, e2] at h
    exact ⟨by rw [h.done]; simp, h.part, h.closed⟩
  · simp only [hk]
    have e : finishReq T = { (T.emit [.fin, .w200, .closed]) with phase := .closed, buf := [] } := by
      simp [finishReq, hk]
    rw [drain_stop (by rw [e])]
    refine ⟨by rw [hvf]; simp, by rw [hvf]; rfl, ?_⟩
    rw [e]; simp [Spec.Tail.closes]

theorem view_headDone (cfg : Cfg) (s : St) (k : Nat) (m t v : Str) (h : Hdrs) (ka : Bool) :
    view (headDone cfg s k m t v h ka).out = ((view s.out).1, some ⟨m, t, v, hAll h, []⟩) := by
  unfold headDone
  rw [view_emit]
  split <;> simp [absorb]

theorem refine_full (cfg : Cfg) : ∀ (fuel : Nat) (s : St), s.phase = .headers → s.buf.length < fuel →
    (view s.out).2 = none → Agrees (view s.out) (readAllF cfg fuel s.idx s.buf) (drain cfg s) := by
  intro fuel
  induction fuel with
  | zero => intro s _ h; omega
  | succ fuel ih =>
    intro s hp hlen hv
    have hpart : partialOf (view s.out) = [] := by simp [partialOf, hv]
    rw [readAllF]
    cases hfe : findHeadEnd s.buf with
    | none =>
      simp only []
      by_cases hl : s.buf.length > cfg.maxHeader
      · rw [if_pos hl]
        exact agrees_reject (T := closeSilent s false) _ _ (by simp [step, hp, stepHeaders, hfe, hl]) rfl rfl
          (by rw [view_closeSilent]) (by rw [view_closeSilent]; exact hpart)
      · rw [if_neg hl]
        have hn : step cfg s = none := by simp [step, hp, stepHeaders, hfe, hl]
        rw [drain_of_none hn]
        exact ⟨by simp, hpart, by simp [hp, Spec.Tail.closes]⟩
    | some k =>
      simp only []
      by_cases hk : k > cfg.maxHeader
      · rw [if_pos hk]
        exact agrees_reject (T := closeSilent s false) _ _ (by simp [step, hp, stepHeaders, hfe, hk]) rfl rfl
          (by rw [view_closeSilent]) (by rw [view_closeSilent]; exact hpart)
      · rw [if_neg hk]
        have hkb := findHeadEnd_bounds hfe
        cases hph : parseHead (s.buf.take k) with
        | none =>
          simp only []
          exact agrees_reject (T := reject400 { s with buf := s.buf.drop k } false) _ _
            (by simp only [step, hp, stepHeaders, hfe, hk, if_false, onHead, hph]) rfl rfl
            (by rw [view_reject400]) (by rw [view_reject400]; exact hpart)
        | some p =>
          obtain ⟨⟨m, t, v⟩, h⟩ := p
          simp only []
          cases hka : canKeepAlive cfg.noKeepAlive m v h with
          | none =>
            simp only []
            exact agrees_reject (T := reject400 { s with buf := s.buf.drop k } false) _ _
              (by simp only [step, hp, stepHeaders, hfe, hk, if_false, onHead, hph, hka]) rfl rfl
              (by rw [view_reject400]) (by rw [view_reject400]; exact hpart)
          | some ka =>
            cases hho : hostCheck v h with
            | none =>
              simp only []
              exact agrees_reject (T := reject400 { s with buf := s.buf.drop k } true) _ _
                (by simp only [step, hp, stepHeaders, hfe, hk, if_false, onHead, hph, hka, hho]) rfl rfl
                (by rw [view_reject400]) (by rw [view_reject400]; exact hpart)
            | some host =>
              have hVH := view_headDone cfg s k m t v h ka
              cases hbk : bodyKind (effLimit cfg s.idx) h with
              | none =>
                simp only []
                exact agrees_reject (T := reject400 (headDone cfg s k m t v h ka) true) _ _
                  (by simp only [step, hp, stepHeaders, hfe, hk, if_false, onHead, hph, hka, hho, startReq, hbk,
                    headDone, startBody]) rfl rfl
                  (by rw [view_reject400, hVH]) (by rw [view_reject400, hVH]; rfl)
              | some kind =>
                simp only []
                have s1 : step cfg s = some (startBody (headDone cfg s k m t v h ka) (some kind)) := by
                  simp only [step, hp, stepHeaders, hfe, hk, if_false, onHead, hph, hka, hho, startReq, hbk, headDone]
                have hd := drain_of_some s1
                have hdl : (s.buf.drop k).length < fuel := by
                  simp only [List.length_drop]; omega
                cases kind with
                | none =>
                  rw [hd]
                  exact full_finish cfg fuel ih (view s.out) ⟨m, t, v, hAll h, []⟩
                    (headDone cfg s k m t v h ka) ka (s.idx + 1) hVH rfl rfl hdl
                | fixed n =>
                  simp only []
                  by_cases hl : (s.buf.drop k).length < n
                  · rw [if_pos hl, hd]
                    obtain ⟨n', rfl⟩ : ∃ n', n = n' + 1 := ⟨n - 1, by omega⟩
                    show Agrees _ _ (drain cfg { (headDone cfg s k m t v h ka) with phase := .fixed (n' + 1) })
                    have hfp := drain_fixed_partial cfg { (headDone cfg s k m t v h ka) with phase := .fixed (n' + 1) }
                      (n' + 1) rfl hl
                    have hvS : view ({ (headDone cfg s k m t v h ka) with phase := .fixed (n' + 1) } : St).out
                        = ((view s.out).1, some ⟨m, t, v, hAll h, []⟩) := hVH
                    have hbS : ({ (headDone cfg s k m t v h ka) with phase := .fixed (n' + 1) } : St).buf = s.buf.drop k := rfl
                    rw [hvS, hbS] at hfp
                    exact agrees_pending_of (view s.out) ⟨m, t, v, hAll h, []⟩ _ _ hfp.1 hfp.2 rfl
                  · rw [if_neg hl, hd]
                    cases n with
                    | zero =>
                      have := full_finish cfg fuel ih (view s.out) ⟨m, t, v, hAll h, []⟩
                        (headDone cfg s k m t v h ka) ka (s.idx + 1) hVH rfl rfl hdl
                      simpa [startBody] using this
                    | succ n =>
                      have s2 : step cfg (startBody (headDone cfg s k m t v h ka) (some (.fixed (n + 1))))
                          = some (finishReq (takeBody { (headDone cfg s k m t v h ka) with phase := .fixed (n + 1) } (n + 1))) :=
                        step_fixed_done cfg { (headDone cfg s k m t v h ka) with phase := .fixed (n + 1) } n rfl
                          (by show n + 1 ≤ (s.buf.drop k).length; omega)
                      rw [drain_of_some s2]
                      refine full_finish cfg fuel ih (view s.out) ⟨m, t, v, hAll h, (s.buf.drop k).take (n + 1)⟩
                        (takeBody { (headDone cfg s k m t v h ka) with phase := .fixed (n + 1) } (n + 1)) ka (s.idx + 1)
                        ?_ rfl rfl ?_
                      · show view (St.deliver _ _).out = _
                        rw [view_deliver]
                        show addData (view (headDone cfg s k m t v h ka).out) _ = _
                        rw [hVH]; simp [addData, addBody]
                      · show (List.drop (n + 1) (s.buf.drop k)).length < fuel
                        simp only [List.length_drop] at hdl ⊢; omega
                | chunked =>
                  simp only []
                  have hfol := drain_follows cfg ((s.buf.drop k).length + 1) 0
                    { (headDone cfg s k m t v h ka) with phase := .chunkSize 0 } rfl (Nat.lt_succ_self _)
                  have hvC : view ({ (headDone cfg s k m t v h ka) with phase := .chunkSize 0 } : St).out
                      = ((view s.out).1, some ⟨m, t, v, hAll h, []⟩) := hVH
                  cases hdc : decodeChunks (effLimit cfg s.idx) ((s.buf.drop k).length + 1) 0 (s.buf.drop k) with
                  | bad p =>
                    simp only []
                    rw [hd]
                    have hf : Follows cfg { (headDone cfg s k m t v h ka) with phase := .chunkSize 0 } (.bad p) := by
                      rw [← hdc]; exact hfol
                    simp only [Follows] at hf
                    rw [hvC] at hf
                    exact agrees_reject_of (view s.out) ⟨m, t, v, hAll h, []⟩ _ _ hf.1 hf.2 rfl
                  | more p =>
                    simp only []
                    rw [hd]
                    have hf : Follows cfg { (headDone cfg s k m t v h ka) with phase := .chunkSize 0 } (.more p) := by
                      rw [← hdc]; exact hfol
                    simp only [Follows] at hf
                    rw [hvC] at hf
                    exact agrees_pending_of (view s.out) ⟨m, t, v, hAll h, []⟩ _ _ hf.1 hf.2 rfl
                  | ok body rest' =>
                    simp only []
                    rw [hd]
                    have hrl := decodeChunks_ok_length _ _ _ _ _ _ hdc
                    have hdd := drain_decode_ok cfg ((s.buf.drop k).length + 1) 0
                      { (headDone cfg s k m t v h ka) with phase := .chunkSize 0 } body rest' rfl hdc
                    show Agrees _ _ (drain cfg { (headDone cfg s k m t v h ka) with phase := .chunkSize 0 })
                    rw [hdd]
                    unfold bodyDone
                    refine full_finish cfg fuel ih (view s.out) ⟨m, t, v, hAll h, body⟩
                      { ({ (headDone cfg s k m t v h ka) with phase := .chunkSize 0 } : St) with
                        buf := rest'
                        got := (headDone cfg s k m t v h ka).got + body.length
                        out := dataOut (headDone cfg s k m t v h ka).out ((headDone cfg s k m t v h ka).idx - 1) body }
                      ka (s.idx + 1) ?_ ?_ ?_ ?_
                    · show view (dataOut _ _ _) = _
                      rw [view_dataOut, hVH]; simp [addData, addBody]
                    · rfl
                    · rfl
                    · show rest'.length < fuel
                      omega

/-! ### a closed connection has the `closed` event in its trace -/

def ClosedInv (s : St) : Prop := s.phase = .closed → Ev.closed ∈ s.out

theorem closedInv_reject400 (s : St) (r : Bool) : ClosedInv (reject400 s r) := by
  intro _; cases r <;> simp [reject400, St.emit, pushEv]

theorem closedInv_closeSilent (s : St) (r : Bool) : ClosedInv (closeSilent s r) := by
  intro _; cases r <;> simp [closeSilent, St.emit, pushEv]

theorem closedInv_finishReq (s : St) : ClosedInv (finishReq s) := by
  unfold finishReq
  split
  · intro h; simp at h
  · intro _; simp [St.emit, pushEv]

theorem closedInv_startBody (s : St) (k : Option BodyKind) (h : ClosedInv s) : ClosedInv (startBody s k) := by
  unfold startBody
  split
  · exact closedInv_reject400 s true
  · exact closedInv_finishReq s
  · exact closedInv_finishReq s
  · intro h; simp at h
  · intro h; simp at h

theorem closedInv_step {cfg : Cfg} {s s' : St} (hs : step cfg s = some s') (hi : ClosedInv s) : ClosedInv s' := by
  have hx := ext_step hs
  intro hc
  by_cases hsc : s.phase = .closed
  · simp [step, hsc] at hs
  · -- the step closed the connection: look at which transition it was
    unfold step at hs
    cases hp : s.phase with
    | headers =>
      simp only [hp, stepHeaders] at hs
      split at hs
      · split at hs
        · cases hs; exact closedInv_closeSilent s false hc
        · cases hs
          revert hc
          unfold onHead
          split
          · exact closedInv_reject400 _ false
          · split
            · exact closedInv_reject400 _ false
            · split
              · exact closedInv_reject400 _ true
              · unfold startReq
                apply closedInv_startBody
                intro h; simp [hp] at h
      · split at hs
        · cases hs; exact closedInv_closeSilent s false hc
        · cases hs
    | fixed rem =>
      simp only [hp, stepFixed] at hs
      split at hs
      · cases hs
      · split at hs
        · cases hs; exact closedInv_finishReq _ hc
        · cases hs; simp at hc
    | chunkSize total =>
      simp only [hp, stepChunkSize] at hs
      split at hs
      · split at hs
        · cases hs; exact closedInv_closeSilent s true hc
        · split at hs
          · cases hs; exact closedInv_reject400 s true hc
          · cases hs; simp at hc
          · split at hs
            · cases hs; exact closedInv_reject400 s true hc
            · cases hs; simp at hc
      · split at hs
        · cases hs; exact closedInv_closeSilent s true hc
        · cases hs
    | chunkData rem total =>
      simp only [hp, stepChunkData] at hs
      split at hs
      · cases hs
      · split at hs
        · cases hs; simp at hc
        · cases hs; simp at hc
    | chunkCrlf total =>
      simp only [hp, stepChunkCrlf] at hs
      split at hs
      · split at hs
        · cases hs; simp at hc
        · cases hs; exact closedInv_reject400 s true hc
      · cases hs
    | lastCrlf =>
      simp only [hp, stepLastCrlf] at hs
      split at hs
      · split at hs
        · cases hs; exact closedInv_finishReq _ hc
        · cases hs; exact closedInv_reject400 s true hc
      · cases hs
    | closed => exact absurd hp hsc

theorem closedInv_drain (cfg : Cfg) (s : St) (hi : ClosedInv s) : ClosedInv (drain cfg s) := by
  generalize hn : s.buf.length = n
  induction n using Nat.strongRecOn generalizing s with
  | _ n ih =>
    cases hs : step cfg s with
    | none => rw [drain_of_none hs]; exact hi
    | some s' =>
      rw [drain_of_some hs]
      exact ih _ (by have := step_lt hs; omega) s' (closedInv_step hs hi) rfl

theorem closedInv_feed (cfg : Cfg) (s : St) (c : Str) (hi : ClosedInv s) : ClosedInv (feed cfg s c) := by
  apply closedInv_drain
  intro h
  rw [app_out]
  exact hi (by simpa using h)

theorem closedInv_run (cfg : Cfg) (s : St) (segs : List Str) (hi : ClosedInv s) : ClosedInv (run cfg s segs) := by
  induction segs generalizing s with
  | nil => exact hi
  | cons a rest ih => exact ih _ (closedInv_feed cfg s a hi)

theorem run_closed_absorbs (cfg : Cfg) (s : St) (segs : List Str) (h : s.phase = .closed) : run cfg s segs = s := by
  induction segs with
  | nil => rfl
  | cons a rest ih =>
    have : feed cfg s a = s := by
      unfold feed
      rw [app_of_closed a h]
      exact drain_of_none (by simp [step, h])
    simp only [run, this, ih]

end TornadoModel.C01
