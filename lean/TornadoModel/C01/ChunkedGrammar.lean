/-
C01 — an independent (declarative) characterisation of the chunked-body grammar the batch decoder `decodeChunks`
accepts (and hence, by `drain_decode_ok` / `delivered_eq_spec`, the machine):

  chunked-body = *chunk last-chunk CRLF
  chunk        = 1*HEXDIG CRLF chunk-data CRLF      (value of the hex digits = length of chunk-data > 0)
  last-chunk   = 1*HEXDIG CRLF                      (value 0)
  no chunk extensions, no trailers; every size line (with its CRLF) is at most 64 bytes
-/
import TornadoModel.C01.RoundTrip
namespace TornadoModel.C01
open Spec

/-- `Chunked inp body rest`: `inp` is a complete chunked body decoding to `body`, followed by `rest` -/
inductive Chunked : Str → Str → Str → Prop
  | last (z rest : Str) : z ≠ [] → z.all isHexDigit = true → hexVal z = 0 → z.length + 2 ≤ 64 →
      Chunked (z ++ 13 :: 10 :: 13 :: 10 :: rest) [] rest
  | chunk (hx d inp body rest : Str) : hx ≠ [] → hx.all isHexDigit = true → hexVal hx = d.length → d ≠ [] →
      hx.length + 2 ≤ 64 → Chunked inp body rest →
      Chunked (hx ++ 13 :: 10 :: (d ++ 13 :: 10 :: inp)) (d ++ body) rest

theorem findCrlf_take_drop {b : Str} {l : Nat} (h : findCrlf b = some l) :
    b = b.take l ++ 13 :: 10 :: b.drop (l + 2) := by
  induction b generalizing l with
  | nil => simp [findCrlf] at h
  | cons c cs ih =>
    unfold findCrlf at h
    by_cases hc : crlfHere (c :: cs) = true
    · rw [if_pos hc] at h
      cases h
      unfold crlfHere at hc
      split at hc
      · next heq => simp at heq; obtain ⟨rfl, rfl⟩ := heq; simp
      · cases hc
    · rw [if_neg hc] at h
      cases hr : findCrlf cs with
      | none => simp [hr] at h
      | some l' =>
        simp [hr] at h
        subst h
        have := ih hr
        simp only [List.take_succ_cons, List.drop_succ_cons, List.cons_append]
        rw [← this]

theorem parseHexInt_some {s : Str} {v : Nat} (h : parseHexInt s = some v) :
    s ≠ [] ∧ s.all isHexDigit = true ∧ hexVal s = v := by
  unfold parseHexInt at h
  by_cases hc : (!s.isEmpty && s.all isHexDigit) = true
  · rw [if_pos hc] at h
    simp only [Bool.and_eq_true, Bool.not_eq_true', List.isEmpty_eq_false_iff] at hc
    exact ⟨hc.1, hc.2, by simpa using h⟩
  · rw [if_neg hc] at h; cases h

/-- **soundness**: whatever the strict decoder accepts is a chunked body of the declarative grammar, and the running
    total never exceeded the limit -/
theorem decodeChunks_ok_sound (limit : Nat) : ∀ (fuel total : Nat) (inp body rest : Str),
    total ≤ limit → decodeChunks limit fuel total inp = .ok body rest →
    Chunked inp body rest ∧ total + body.length ≤ limit := by
  intro fuel
  induction fuel with
  | zero => intro total inp body rest _ h; simp [decodeChunks] at h
  | succ fuel ih =>
    intro total inp body rest htl h
    simp only [decodeChunks] at h
    cases hloc : findCrlf inp with
    | none => simp only [hloc] at h; split at h <;> cases h
    | some loc =>
      simp only [hloc] at h
      have hsplit := findCrlf_take_drop hloc
      have hlb := findCrlf_bounds hloc
      by_cases hlong : loc + 2 > chunkLineMax
      · rw [if_pos hlong] at h; cases h
      · rw [if_neg hlong] at h
        have hlen : (inp.take loc).length + 2 ≤ 64 := by
          rw [List.length_take]; simp only [chunkLineMax] at hlong; omega
        generalize hr0 : inp.drop (loc + 2) = r0 at h hsplit
        cases hsz : parseHexInt (inp.take loc) with
        | none => simp only [hsz] at h; cases h
        | some sz =>
          obtain ⟨hne, hall, hval⟩ := parseHexInt_some hsz
          cases sz with
          | zero =>
            simp only [hsz] at h
            split at h
            case _ rest' =>
              cases h
              refine ⟨?_, by simp only [List.length_nil]; omega⟩
              rw [hsplit]
              exact .last _ _ hne hall hval hlen
            all_goals cases h
          | succ n =>
            simp only [hsz] at h
            by_cases hbig : total + (n + 1) > limit
            · rw [if_pos hbig] at h; cases h
            · rw [if_neg hbig] at h
              by_cases hshort : r0.length < n + 1
              · rw [if_pos hshort] at h; cases h
              · rw [if_neg hshort] at h
                split at h
                case _ rest' heq =>
                  cases hrec : decodeChunks limit fuel (total + (n + 1)) rest' with
                  | bad p => rw [hrec] at h; cases h
                  | more p => rw [hrec] at h; cases h
                  | ok b r =>
                    rw [hrec] at h
                    simp only [CRes.prepend, CRes.ok.injEq] at h
                    obtain ⟨rfl, rfl⟩ := h
                    obtain ⟨hch, htot⟩ := ih _ _ _ _ (by omega) hrec
                    have hd : (r0.take (n + 1)).length = n + 1 := by rw [List.length_take]; omega
                    have hr0s : r0 = r0.take (n + 1) ++ 13 :: 10 :: rest' := by
                      rw [← heq, List.take_append_drop]
                    refine ⟨?_, by simp only [List.length_append, hd]; omega⟩
                    have e : inp = inp.take loc ++ 13 :: 10 :: (r0.take (n + 1) ++ 13 :: 10 :: rest') := by
                      rw [← hr0s]; exact hsplit
                    have key : Chunked (inp.take loc ++ 13 :: 10 :: (r0.take (n + 1) ++ 13 :: 10 :: rest'))
                        (r0.take (n + 1) ++ b) r :=
                      .chunk _ _ _ _ _ hne hall (by rw [hval, hd]) (by intro e0; rw [e0] at hd; simp at hd) hlen hch
                    rw [e]; exact key
                all_goals cases h

/-- **completeness**: every chunked body of the declarative grammar within the body limit is accepted, decoding to its
    body and leaving exactly `rest` -/
theorem decodeChunks_complete (limit : Nat) {inp body rest : Str} (hc : Chunked inp body rest) :
    ∀ (fuel total : Nat), inp.length < fuel → total + body.length ≤ limit →
      decodeChunks limit fuel total inp = .ok body rest := by
  induction hc with
  | last z rest hne hall hval hlen =>
    intro fuel total hf _
    obtain ⟨f, rfl⟩ : ∃ f, fuel = f + 1 := ⟨fuel - 1, by omega⟩
    have h1 := findCrlf_hex z (13 :: 10 :: rest) hall
    have h2 : ¬ z.length + 2 > chunkLineMax := by simp only [chunkLineMax]; omega
    have h3 : parseHexInt z = some 0 := by
      unfold parseHexInt
      have : z.isEmpty = false := by cases z with | nil => exact absurd rfl hne | cons _ _ => rfl
      simp [this, hall, hval]
    have h4 : List.take z.length (z ++ 13 :: 10 :: 13 :: 10 :: rest) = z := by simp
    have h5 : List.drop (z.length + 2) (z ++ 13 :: 10 :: 13 :: 10 :: rest) = 13 :: 10 :: rest := by
      rw [← List.drop_drop]; simp
    rw [decodeChunks]
    simp only [h1, h2, h4, h5, h3, if_false]
  | chunk hx d inp body rest hne hall hval hdne hlen _ ih =>
    intro fuel total hf htot
    obtain ⟨f, rfl⟩ : ∃ f, fuel = f + 1 := ⟨fuel - 1, by omega⟩
    obtain ⟨n, hn⟩ : ∃ n, d.length = n + 1 := by
      cases d with
      | nil => exact absurd rfl hdne
      | cons a as => exact ⟨as.length, rfl⟩
    have hv : parseHexInt hx = some (n + 1) := by
      unfold parseHexInt
      have : hx.isEmpty = false := by cases hx with | nil => exact absurd rfl hne | cons _ _ => rfl
      simp [this, hall, hval, hn]
    simp only [List.length_append, List.length_cons] at hf htot
    rw [decodeChunks_chunk limit f total n hx d inp hall (by simp only [chunkLineMax]; omega) hv hn (by omega)]
    rw [ih f (total + (n + 1)) (by omega) (by omega)]
    rfl

/-- the strict decoder accepts exactly the declarative chunked bodies that stay within the body limit -/
theorem decodeChunks_ok_iff (limit : Nat) (inp body rest : Str) :
    decodeChunks limit (inp.length + 1) 0 inp = .ok body rest ↔ Chunked inp body rest ∧ body.length ≤ limit := by
  constructor
  · intro h
    have := decodeChunks_ok_sound limit _ _ _ _ _ (Nat.zero_le _) h
    exact ⟨this.1, by omega⟩
  · rintro ⟨hc, hl⟩
    exact decodeChunks_complete limit hc _ 0 (Nat.lt_succ_self _) (by omega)

-- non-vacuity: `3␍␊abc␍␊0␍␊␍␊` is a chunked body for `abc`; a chunk extension is not accepted
example : Chunked [51, 13, 10, 97, 98, 99, 13, 10, 48, 13, 10, 13, 10] [97, 98, 99] [] :=
  .chunk [51] [97, 98, 99] _ [] [] (by decide) (by decide) (by decide) (by decide) (by decide)
    (.last [48] [] (by decide) (by decide) (by decide) (by decide))
example : decodeChunks 100 20 0 [51, 59, 120, 13, 10, 97, 98, 99, 13, 10, 48, 13, 10, 13, 10] = .bad [] := by decide

end TornadoModel.C01
