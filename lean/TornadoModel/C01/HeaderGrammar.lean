/-
C01 — an independent (declarative) characterisation of the header-block grammar that `hParseLine` / `hParse` /
`parseHead` accept.  Nothing here is defined through the parser's helpers (`splitAt1`, `stripWs`, `hAdd`,
`splitOnC`, `dropOneCr`): lines are described by existential decompositions over the `_ABNF` character classes.

  field-line   = token ":" OWS field-value OWS
  obs-fold     = 1*( SP / HTAB ) field-value OWS          (continuation of the previous field)
  a line ends at LF; ONE optional CR before the LF is dropped (bare-LF leniency); empty lines are skipped
-/
import TornadoModel.C01.Lemmas
namespace TornadoModel.C01

/-- optional whitespace: SP / HTAB only -/
def OWS (o : Str) : Prop := ∀ c ∈ o, c = 32 ∨ c = 9

/-- field-line = token ":" OWS field-value OWS -/
def FieldLine (l n v : Str) : Prop :=
  ∃ o1 o2, l = n ++ 58 :: (o1 ++ v ++ o2) ∧ isToken n = true ∧ OWS o1 ∧ OWS o2 ∧ isFieldValue v = true

/-- obs-fold continuation line = 1*(SP / HTAB) field-value OWS -/
def ContLine (l b : Str) : Prop :=
  ∃ o1 o2, l = o1 ++ b ++ o2 ∧ o1 ≠ [] ∧ OWS o1 ∧ OWS o2 ∧ isFieldValue b = true

/-- the multimap insertion performed for an accepted field line (names are normalised, values of a repeated
    name are collected in order) -/
def addField (h : Hdrs) (n v : Str) : Hdrs :=
  match dget (normalize n) h.m with
  | some vs => { m := dset (normalize n) (vs ++ [v]) h.m, last := some (normalize n) }
  | none => { m := dset (normalize n) [v] h.m, last := some (normalize n) }

/-- one header line (terminator removed) takes the header map `h` to `h'` -/
inductive LineStep : Hdrs → Str → Hdrs → Prop
  | blank (h : Hdrs) : LineStep h [] h
  | field (h : Hdrs) (l n v : Str) : FieldLine l n v → LineStep h l (addField h n v)
  | cont (h : Hdrs) (l b k : Str) (vs : List Str) : ContLine l b → h.last = some k → dget k h.m = some vs →
      LineStep h l { h with m := dset k (appendToLast vs (32 :: b)) h.m }

/-! ### whitespace -/

theorem isWs_iff (c : Nat) : isWs c = true ↔ c = 32 ∨ c = 9 := by
  unfold isWs cSp cTab
  simp only [Bool.or_eq_true, decide_eq_true_eq]

theorem mem_takeWhile_sat {p : Nat → Bool} {l : Str} {c : Nat} (h : c ∈ l.takeWhile p) : p c = true := by
  induction l with
  | nil => simp at h
  | cons x xs ih =>
    rw [List.takeWhile_cons] at h
    split at h
    · next hx =>
      simp only [List.mem_cons] at h
      rcases h with rfl | h
      · exact hx
      · exact ih h
    · simp at h

theorem ows_iff (o : Str) : OWS o ↔ ∀ c ∈ o, isWs c = true := by
  simp only [OWS, isWs_iff]

theorem fieldVchar_not_ws {c : Nat} (h : isFieldVchar c = true) : isWs c = false := by
  cases hw : isWs c with
  | false => rfl
  | true =>
    rw [isWs_iff] at hw
    rcases hw with rfl | rfl <;> revert h <;> decide

theorem tchar_not_ws {c : Nat} (h : isTchar c = true) : isWs c = false := by
  cases hw : isWs c with
  | false => rfl
  | true =>
    rw [isWs_iff] at hw
    rcases hw with rfl | rfl <;> revert h <;> decide

theorem tchar_ne_colon {c : Nat} (h : isTchar c = true) : c ≠ 58 := by
  intro e; subst e; revert h; decide

theorem token_no_colon {n : Str} (h : isToken n = true) : 58 ∉ n := by
  simp only [isToken, Bool.and_eq_true, List.all_eq_true] at h
  intro hm
  exact tchar_ne_colon (h.2 _ hm) rfl

theorem token_head {n : Str} (h : isToken n = true) : ∃ c cs, n = c :: cs ∧ isWs c = false := by
  cases n with
  | nil => simp [isToken] at h
  | cons c cs =>
    simp only [isToken, Bool.and_eq_true, List.all_eq_true] at h
    exact ⟨c, cs, rfl, tchar_not_ws (h.2 c (by simp))⟩

theorem dropWhile_ws_append (o rest : Str) (ho : ∀ c ∈ o, isWs c = true) :
    (o ++ rest).dropWhile isWs = rest.dropWhile isWs := by
  induction o with
  | nil => rfl
  | cons c cs ih =>
    have hc : isWs c = true := ho c (by simp)
    simp only [List.cons_append, List.dropWhile_cons, hc, if_true]
    exact ih (fun x hx => ho x (by simp [hx]))

theorem dropWhile_ws_all (o : Str) (ho : ∀ c ∈ o, isWs c = true) : o.dropWhile isWs = [] := by
  have := dropWhile_ws_append o [] ho
  simpa using this

/-- `strip(" \t")` undoes optional whitespace around a field value -/
theorem stripWs_ows (o1 v o2 : Str) (h1 : OWS o1) (h2 : OWS o2) (hv : isFieldValue v = true) :
    stripWs (o1 ++ v ++ o2) = v := by
  rw [ows_iff] at h1 h2
  unfold stripWs lstripWs rstripWs
  rw [List.append_assoc, dropWhile_ws_append o1 _ h1]
  cases v with
  | nil =>
    rw [List.nil_append, dropWhile_ws_all o2 h2]; rfl
  | cons c cs =>
    simp only [isFieldValue, Bool.and_eq_true] at hv
    have hc : isWs c = false := fieldVchar_not_ws hv.1.1
    have e1 : ((c :: cs) ++ o2).dropWhile isWs = (c :: cs) ++ o2 := by
      simp [hc]
    rw [e1, List.reverse_append, dropWhile_ws_append o2.reverse _ (fun x hx => h2 x (by simpa using hx))]
    cases hr : (c :: cs).reverse with
    | nil => simp at hr
    | cons x r =>
      have hl : (c :: cs).getLast? = some x := by
        rw [← List.head?_reverse, hr]; rfl
      have hx : isWs x = false := by
        have := hv.2
        rw [hl] at this
        exact fieldVchar_not_ws this
      have e2 : (x :: r).dropWhile isWs = x :: r := by simp [hx]
      rw [e2, ← hr, List.reverse_reverse]

/-- conversely every string is optional whitespace around its stripped middle -/
theorem stripWs_decomp (s : Str) :
    s = s.takeWhile isWs ++ stripWs s ++ ((s.dropWhile isWs).reverse.takeWhile isWs).reverse := by
  have h1 : s.takeWhile isWs ++ s.dropWhile isWs = s := List.takeWhile_append_dropWhile
  have h2 : (s.dropWhile isWs).reverse.takeWhile isWs ++ (s.dropWhile isWs).reverse.dropWhile isWs
      = (s.dropWhile isWs).reverse := List.takeWhile_append_dropWhile
  have h3 : s.dropWhile isWs = ((s.dropWhile isWs).reverse.dropWhile isWs).reverse
      ++ ((s.dropWhile isWs).reverse.takeWhile isWs).reverse := by
    rw [← List.reverse_append, h2, List.reverse_reverse]
  unfold stripWs lstripWs rstripWs
  rw [List.append_assoc, ← h3, h1]

theorem ows_takeWhile (s : Str) : OWS (s.takeWhile isWs) := by
  rw [ows_iff]
  intro c hc
  exact mem_takeWhile_sat hc

theorem ows_reverse {o : Str} (h : OWS o) : OWS o.reverse := by
  intro c hc; exact h c (by simpa using hc)

/-! ### one line -/

theorem hAdd_eq (h : Hdrs) (n v : Str) (hn : isToken n = true) (hv : isFieldValue v = true) :
    hAdd h n v = some (addField h n v) := by
  unfold hAdd addField
  simp only [hn, hv, Bool.not_true, Bool.or_self, Bool.false_eq_true, if_false]
  cases hd : dget (normalize n) h.m <;> rfl

theorem hAdd_some {h h' : Hdrs} {n v : Str} (hh : hAdd h n v = some h') :
    isToken n = true ∧ isFieldValue v = true ∧ h' = addField h n v := by
  unfold hAdd at hh
  by_cases hc : (!isToken n || !isFieldValue v) = true
  · rw [if_pos hc] at hh; cases hh
  · have hn : isToken n = true := by
      cases hx : isToken n <;> simp [hx] at hc ⊢
    have hv : isFieldValue v = true := by
      cases hx : isFieldValue v <;> simp [hx] at hc ⊢
    have := hAdd_eq h n v hn hv
    unfold hAdd at this
    rw [this] at hh
    cases hh
    exact ⟨hn, hv, rfl⟩

/-- **one header line**: `HTTPHeaders.parse_line` accepts a line iff it is empty (skipped), a field line
    `token ":" OWS field-value OWS` (the field is added), or — when a field precedes it — an obs-fold continuation
    `1*(SP/HTAB) field-value OWS` (a single SP and the value are appended to the last field) -/
theorem hParseLine_iff (h h' : Hdrs) (l : Str) : hParseLine h l = some h' ↔ LineStep h l h' := by
  constructor
  · intro hp
    cases l with
    | nil =>
      simp only [hParseLine, Option.some.injEq] at hp
      subst hp; exact .blank h
    | cons c cs =>
      simp only [hParseLine] at hp
      by_cases hw : isWs c = true
      · rw [if_pos hw] at hp
        cases hlast : h.last with
        | none => simp [hlast] at hp
        | some k =>
          simp only [hlast] at hp
          by_cases hfv : isFieldValue (stripWs (c :: cs)) = true
          · simp only [hfv, Bool.not_true, Bool.false_eq_true, if_false] at hp
            cases hd : dget k h.m with
            | none => simp [hd] at hp
            | some vs =>
              simp only [hd, Option.some.injEq] at hp
              rw [← hp, ← hlast]
              refine .cont h (c :: cs) (stripWs (c :: cs)) k vs ?_ hlast hd
              refine ⟨(c :: cs).takeWhile isWs, (((c :: cs).dropWhile isWs).reverse.takeWhile isWs).reverse,
                stripWs_decomp _, ?_, ows_takeWhile _, ows_reverse (ows_takeWhile _), hfv⟩
              simp [hw]
          · simp [hfv] at hp
      · rw [if_neg hw] at hp
        cases hs : splitAt1 cColon (c :: cs) with
        | none => simp [hs] at hp
        | some p =>
          obtain ⟨name, value⟩ := p
          simp only [hs] at hp
          obtain ⟨hn, hv, rfl⟩ := hAdd_some hp
          obtain ⟨e, _⟩ := splitAt1_some hs
          refine .field h (c :: cs) name (stripWs value) ⟨value.takeWhile isWs,
            ((value.dropWhile isWs).reverse.takeWhile isWs).reverse, ?_, hn, ows_takeWhile _,
            ows_reverse (ows_takeWhile _), hv⟩
          rw [e, ← stripWs_decomp value]; rfl
  · intro hs
    rcases hs with _ | ⟨_, n, v, hf⟩ | ⟨_, b, k, vs, hc, hlast, hd⟩
    · rfl
    · obtain ⟨o1, o2, rfl, hn, h1, h2, hv⟩ := hf
      obtain ⟨c, cs, rfl, hc⟩ := token_head hn
      have hsp : splitAt1 cColon ((c :: cs) ++ 58 :: (o1 ++ v ++ o2)) = some (c :: cs, o1 ++ v ++ o2) :=
        splitAt1_app (token_no_colon hn)
      simp only [List.cons_append] at hsp
      simp only [List.cons_append, hParseLine, hc, Bool.false_eq_true, if_false, hsp, stripWs_ows o1 v o2 h1 h2 hv]
      exact hAdd_eq h (c :: cs) v hn hv
    · obtain ⟨o1, o2, rfl, hne, h1, h2, hv⟩ := hc
      cases o1 with
      | nil => exact absurd rfl hne
      | cons c cs =>
        have hw : isWs c = true := (isWs_iff c).mpr (h1 c (by simp))
        have hst := stripWs_ows (c :: cs) b o2 h1 h2 hv
        simp only [List.cons_append] at hst
        simp only [List.cons_append, hParseLine, hw, if_true, hlast, hst, hv, Bool.not_true, Bool.false_eq_true,
          if_false, hd]
        rfl

/-! ### the block: lines -/

/-- the lines of a text, declaratively: `LF`-free pieces whose `LF`-join is the text -/
theorem splitOnC_sound (sep : Nat) (s : Str) :
    splitOnC sep s ≠ [] ∧ s = joinWith [sep] (splitOnC sep s) ∧ ∀ l ∈ splitOnC sep s, sep ∉ l := by
  induction s with
  | nil => simp [splitOnC, joinWith]
  | cons c cs ih =>
    obtain ⟨h1, h2, h3⟩ := ih
    unfold splitOnC
    by_cases hc : c = sep
    · rw [if_pos hc]
      refine ⟨by simp, ?_, ?_⟩
      · cases hsp : splitOnC sep cs with
        | nil => exact absurd hsp h1
        | cons w ws =>
          rw [hsp] at h2
          simp [joinWith, hc, h2]
      · intro l hl
        simp only [List.mem_cons] at hl
        rcases hl with rfl | hl
        · simp
        · exact h3 l hl
    · rw [if_neg hc]
      cases hsp : splitOnC sep cs with
      | nil => exact absurd hsp h1
      | cons w ws =>
        rw [hsp] at h2 h3
        simp only []
        refine ⟨by simp, ?_, ?_⟩
        · cases ws with
          | nil => simp [joinWith] at h2 ⊢; exact h2
          | cons w2 ws2 => simp [joinWith] at h2 ⊢; exact h2
        · intro l hl
          simp only [List.mem_cons] at hl
          rcases hl with rfl | hl
          · have := h3 w (by simp)
            simp only [List.mem_cons, not_or]
            exact ⟨fun e => hc e.symm, this⟩
          · exact h3 l (by simp [hl])

/-- uniqueness: the split of a join of `sep`-free pieces gives the pieces back -/
theorem splitOnC_join (sep : Nat) (ls : List Str) (hne : ls ≠ []) (hfree : ∀ l ∈ ls, sep ∉ l) :
    splitOnC sep (joinWith [sep] ls) = ls := by
  have piece : ∀ (l : Str) (rest : Str), sep ∉ l →
      splitOnC sep (l ++ sep :: rest) = l :: splitOnC sep rest := by
    intro l rest hl
    induction l with
    | nil => simp [splitOnC]
    | cons c cs ih =>
      simp only [List.mem_cons, not_or] at hl
      have hc : ¬ c = sep := fun e => hl.1 e.symm
      simp only [List.cons_append, splitOnC, if_neg hc, ih hl.2]
  have last : ∀ (l : Str), sep ∉ l → splitOnC sep l = [l] := by
    intro l hl
    induction l with
    | nil => rfl
    | cons c cs ih =>
      simp only [List.mem_cons, not_or] at hl
      have hc : ¬ c = sep := fun e => hl.1 e.symm
      simp only [splitOnC, if_neg hc, ih hl.2]
  induction ls with
  | nil => exact absurd rfl hne
  | cons l rest ih =>
    cases rest with
    | nil => simpa [joinWith] using last l (hfree l (by simp))
    | cons l2 rest2 =>
      have := ih (by simp) (fun x hx => hfree x (by simp [hx]))
      simp only [joinWith, List.append_assoc, List.singleton_append]
      rw [piece l _ (hfree l (by simp)), this]

/-- `splitOnC` is *the* decomposition into `sep`-free pieces -/
theorem splitOnC_iff (sep : Nat) (s : Str) (ls : List Str) :
    splitOnC sep s = ls ↔ ls ≠ [] ∧ s = joinWith [sep] ls ∧ ∀ l ∈ ls, sep ∉ l := by
  constructor
  · rintro rfl; exact splitOnC_sound sep s
  · rintro ⟨h1, rfl, h3⟩; exact splitOnC_join sep ls h1 h3

theorem dropOneCr_snoc (r : Str) : dropOneCr (r ++ [13]) = r := by simp [dropOneCr]

theorem dropOneCr_other (l : Str) (h : l.getLast? ≠ some 13) : dropOneCr l = l := by
  unfold dropOneCr
  split
  · next r heq => exfalso; apply h; rw [← List.head?_reverse, heq]; rfl
  · rfl

/-- one optional CR at the end of a line is dropped — exactly one -/
theorem dropOneCr_iff (l l' : Str) : dropOneCr l = l' ↔ (l = l' ++ [13]) ∨ (l = l' ∧ l.getLast? ≠ some 13) := by
  constructor
  · intro h
    by_cases hc : l.getLast? = some 13
    · left
      obtain ⟨r, rfl⟩ : ∃ r, l = r ++ [13] := List.getLast?_eq_some_iff.mp hc
      rw [dropOneCr_snoc] at h; rw [h]
    · right; rw [dropOneCr_other l hc] at h; exact ⟨h, hc⟩
  · rintro (rfl | ⟨rfl, h⟩)
    · exact dropOneCr_snoc _
    · exact dropOneCr_other _ h

/-- a sequence of raw lines (each without its LF, possibly still with one CR) takes `h` to `h'` -/
inductive Lines : Hdrs → List Str → Hdrs → Prop
  | nil (h : Hdrs) : Lines h [] h
  | cons (h : Hdrs) (l l0 : Str) (h1 : Hdrs) (ls : List Str) (h2 : Hdrs) :
      (l = l0 ++ [13] ∨ (l = l0 ∧ l.getLast? ≠ some 13)) → LineStep h l0 h1 → Lines h1 ls h2 → Lines h (l :: ls) h2

theorem foldlM_lines (ls : List Str) (h h' : Hdrs) :
    ls.foldlM (fun acc l => hParseLine acc (dropOneCr l)) h = some h' ↔ Lines h ls h' := by
  induction ls generalizing h with
  | nil =>
    simp only [List.foldlM_nil]
    constructor
    · intro e
      have : h = h' := by simpa using e
      subst this; exact .nil h
    · intro hl; cases hl; rfl
  | cons l ls ih =>
    simp only [List.foldlM_cons]
    constructor
    · intro e
      cases hp : hParseLine h (dropOneCr l) with
      | none => simp [hp] at e
      | some h1 =>
        simp only [hp] at e
        have e' : List.foldlM (fun acc l => hParseLine acc (dropOneCr l)) h1 ls = some h' := by simpa using e
        exact .cons h l (dropOneCr l) h1 ls h' ((dropOneCr_iff l _).mp rfl) ((hParseLine_iff _ _ _).mp hp) ((ih h1).mp e')
    · intro hl
      cases hl with
      | cons _ _ l0 h1 _ _ hcr hst hrest =>
        have e0 : dropOneCr l = l0 := (dropOneCr_iff l l0).mpr hcr
        have hp : hParseLine h (dropOneCr l) = some h1 := by rw [e0]; exact (hParseLine_iff _ _ _).mpr hst
        rw [hp]
        have := (ih h1).mpr hrest
        simpa using this

/-- **the header block**: `HTTPHeaders.parse` accepts a text and yields `h` iff the text is a `LF`-separated sequence
    of lines — each with ONE optional CR before the LF (bare-LF leniency) — that are empty, field lines
    `token ":" OWS field-value OWS`, or obs-fold continuations of a preceding field, and `h` is the ordered multimap
    they build. -/
theorem hParse_iff (text : Str) (h : Hdrs) :
    hParse text = some h ↔
      ∃ ls : List Str, ls ≠ [] ∧ text = joinWith [10] ls ∧ (∀ l ∈ ls, 10 ∉ l) ∧ Lines {} ls h := by
  unfold hParse
  constructor
  · intro e
    obtain ⟨h1, h2, h3⟩ := splitOnC_sound cLf text
    exact ⟨splitOnC cLf text, h1, h2, h3, (foldlM_lines _ _ _).mp e⟩
  · rintro ⟨ls, h1, rfl, h3, hl⟩
    have : splitOnC cLf (joinWith [10] ls) = ls := splitOnC_join 10 ls h1 h3
    rw [this]
    exact (foldlM_lines _ _ _).mpr hl

/-! ### the head: leading blank lines, request line, header block -/

theorem rstripCr_decomp (s : Str) : ∃ crs, s = rstripCr s ++ crs ∧ ∀ c ∈ crs, c = 13 := by
  refine ⟨(s.reverse.takeWhile (· = cCr)).reverse, ?_, ?_⟩
  · unfold rstripCr
    have h2 : s.reverse.takeWhile (· = cCr) ++ s.reverse.dropWhile (· = cCr) = s.reverse :=
      List.takeWhile_append_dropWhile
    rw [← List.reverse_append, h2, List.reverse_reverse]
  · intro c hc
    have hc' : c ∈ s.reverse.takeWhile (· = cCr) := by simpa using hc
    exact of_decide_eq_true (mem_takeWhile_sat hc')

/-- **the head**: whatever `_parse_headers` + `parse_request_start_line` accept is: any leading CR/LF bytes (leading
    blank lines), then the request line up to the first LF with the CRs before that LF dropped, then a header block
    accepted by `hParse` (see `hParse_iff`). -/
theorem parseHead_sound (block : Str) (sl : Str × Str × Str) (h : Hdrs) (hp : parseHead block = some (sl, h)) :
    ∃ pre first crs rest, block = pre ++ first ++ crs ++ 10 :: rest ∧ (∀ c ∈ pre, c = 13 ∨ c = 10) ∧
      (∀ c ∈ crs, c = 13) ∧ 10 ∉ first ∧ parseRequestLine first = some sl ∧ hParse rest = some h := by
  unfold parseHead at hp
  simp only [] at hp
  cases hs : splitAt1 cLf (block.dropWhile isCrLf) with
  | none => simp [hs] at hp
  | some p =>
    obtain ⟨first, rest⟩ := p
    simp only [hs] at hp
    cases hr : parseRequestLine (rstripCr first) with
    | none => simp [hr] at hp
    | some sl' =>
      simp only [hr] at hp
      cases hh : hParse rest with
      | none => simp [hh] at hp
      | some h0 =>
        simp only [hh, Option.some.injEq, Prod.mk.injEq] at hp
        obtain ⟨rfl, rfl⟩ := hp
        obtain ⟨e, hfree⟩ := splitAt1_some hs
        obtain ⟨crs, e2, hcrs⟩ := rstripCr_decomp first
        refine ⟨block.takeWhile isCrLf, rstripCr first, crs, rest, ?_, ?_, hcrs, ?_, hr, hh⟩
        · have h1 : block.takeWhile isCrLf ++ block.dropWhile isCrLf = block := List.takeWhile_append_dropWhile
          have e3 : block.takeWhile isCrLf ++ rstripCr first ++ crs ++ 10 :: rest
              = block.takeWhile isCrLf ++ ((rstripCr first ++ crs) ++ cLf :: rest) := by simp [cLf]
          rw [e3, ← e2, ← e, h1]
        · intro c hc
          have := mem_takeWhile_sat hc
          unfold isCrLf at this
          rcases (Bool.or_eq_true _ _).mp this with h | h
          · exact Or.inl (of_decide_eq_true h)
          · exact Or.inr (of_decide_eq_true h)
        · intro hm
          apply hfree
          rw [e2]; exact List.mem_append_left _ hm

/-! ### non-vacuity -/

-- `Host: x␍␊ y␊␊` : a field line ended by CRLF, an obs-fold continuation ended by a bare LF, the blank line
example : hParse [72, 111, 115, 116, 58, 32, 120, 13, 10, 32, 121, 10, 10]
    = some { m := [([72, 111, 115, 116], [[120, 32, 121]])], last := some [72, 111, 115, 116] } := by decide
-- `X :1` (space before the colon) is rejected; a continuation with no field before it is rejected
example : hParse [88, 32, 58, 49] = none := by decide
example : hParse [32, 121, 10] = none := by decide
example : FieldLine [72, 111, 115, 116, 58, 32, 120] [72, 111, 115, 116] [120] :=
  ⟨[32], [], by decide, by decide, by intro c hc; simp at hc; simp [hc], by intro c hc; simp at hc, by decide⟩

end TornadoModel.C01
