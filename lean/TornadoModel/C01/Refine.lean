/-
C01 — the incremental machine refines the batch reader: every request the batch reader `Spec.readAllF` extracts is
accepted by the machine, in the same order, with the same head (induction over the batch reader's fuel; each clause of
the batch reader is matched with the corresponding phase of the machine).
-/
import TornadoModel.C01.RoundTrip
import TornadoModel.C01.Ext
namespace TornadoModel.C01
open Spec

def headOf (r : Spec.Req) : Str × Str × Str × List (Str × Str) := (r.m, r.t, r.v, r.h)

theorem reqsOf_emit (s : St) (es : List Ev) : reqsOf (s.emit es).out = reqsOf s.out ++ es.filterMap reqOf :=
  reqsOf_fold s.out es

theorem reqsOf_dataOut (r : List Ev) (i : Nat) (b : Str) : reqsOf (dataOut r i b) = reqsOf r := by
  unfold dataOut
  split
  · rfl
  · simp [reqsOf_pushEv, reqOf]

theorem reqsOf_deliver (s : St) (b : Str) : reqsOf (s.deliver b).out = reqsOf s.out := by
  simp [St.deliver, reqsOf_pushEv, reqOf]

@[simp] theorem emit_idx (s : St) (es : List Ev) : (s.emit es).idx = s.idx := rfl
@[simp] theorem emit_limit (s : St) (es : List Ev) : (s.emit es).limit = s.limit := rfl
@[simp] theorem emit_got (s : St) (es : List Ev) : (s.emit es).got = s.got := rfl

/-- what the batch decoder leaves over is a suffix no longer than its input -/
theorem decodeChunks_ok_length (limit : Nat) : ∀ (fuel total : Nat) (inp body rest : Str),
    decodeChunks limit fuel total inp = .ok body rest → rest.length ≤ inp.length := by
  intro fuel
  induction fuel with
  | zero => intro total inp body rest h; simp [decodeChunks] at h
  | succ fuel ih =>
    intro total inp body rest h
    simp only [decodeChunks] at h
    cases hloc : findCrlf inp with
    | none => simp only [hloc] at h; split at h <;> cases h
    | some loc =>
      simp only [hloc] at h
      by_cases hlong : loc + 2 > chunkLineMax
      · rw [if_pos hlong] at h; cases h
      · rw [if_neg hlong] at h
        have hr0l : (inp.drop (loc + 2)).length ≤ inp.length := by simp only [List.length_drop]; omega
        generalize inp.drop (loc + 2) = r0 at h hr0l
        cases hsz : parseHexInt (inp.take loc) with
        | none => simp only [hsz] at h; cases h
        | some sz =>
          cases sz with
          | zero =>
            simp only [hsz] at h
            split at h
            case _ rest' =>
              cases h
              simp only [List.length_cons] at hr0l
              omega
            all_goals cases h
          | succ n =>
            simp only [hsz] at h
            by_cases hbig : total + (n + 1) > limit
            · rw [if_pos hbig] at h; cases h
            · rw [if_neg hbig] at h
              by_cases hlen : r0.length < n + 1
              · rw [if_pos hlen] at h; cases h
              · rw [if_neg hlen] at h
                split at h
                case _ rest' heq =>
                  have hl2 : rest'.length ≤ r0.length := by
                    have := congrArg List.length heq
                    simp only [List.length_drop, List.length_cons] at this
                    omega
                  cases hrec : decodeChunks limit fuel (total + (n + 1)) rest' with
                  | bad p => rw [hrec] at h; cases h
                  | more p => rw [hrec] at h; cases h
                  | ok b r =>
                    rw [hrec] at h
                    simp only [CRes.prepend, CRes.ok.injEq] at h
                    obtain ⟨rfl, rfl⟩ := h
                    have := ih _ _ _ _ hrec
                    omega
                all_goals cases h

/-- shape of the batch reader's continuation -/
theorem next_fst (ka : Bool) (r : Req) (p : List Req × Tail) :
    (if ka = true then (r :: p.1, p.2) else ([r], Tail.stop)).1 = r :: (if ka = true then p.1 else []) := by
  cases ka <;> simp

/-- after a finished request: continue with the next one (persistent) or stop (closed) -/
theorem refine_next (cfg : Cfg) (fuel : Nat)
    (ih : ∀ s : St, s.phase = .headers → s.buf.length < fuel →
      (reqsOf s.out ++ (readAllF cfg fuel s.idx s.buf).1.map headOf) <+: reqsOf (drain cfg s).out)
    (t : St) (hb : t.buf.length < fuel) :
    (reqsOf t.out ++ (if t.ka = true then (readAllF cfg fuel t.idx t.buf).1.map headOf else []))
      <+: reqsOf (drain cfg (finishReq t)).out := by
  unfold finishReq
  by_cases hk : t.ka = true
  · simp only [hk, if_true]
    have := ih { (t.emit [.fin, .w200]) with phase := .headers } rfl hb
    have e : reqsOf (t.emit [.fin, .w200]).out = reqsOf t.out := by simp [reqsOf_emit, reqOf]
    simpa [e] using this
  · simp only [hk]
    rw [drain_of_none (by simp [step])]
    have e : reqsOf (t.emit [.fin, .w200, .closed]).out = reqsOf t.out := by simp [reqsOf_emit, reqOf]
    simp [e]

/-- the state after an accepted head, before `_read_body` -/
def headDone (cfg : Cfg) (s : St) (k : Nat) (m t v : Str) (h : Hdrs) (ka : Bool) : St :=
  ({ s with buf := s.buf.drop k, idx := s.idx + 1, ka := ka, limit := effLimit cfg s.idx, got := 0 } : St).emit
    (if hGet h kExpect = some k100Continue then [.req m t v (hAll h), .w100] else [.req m t v (hAll h)])

@[simp] theorem headDone_buf (cfg : Cfg) (s : St) (k : Nat) (m t v : Str) (h : Hdrs) (ka : Bool) :
    (headDone cfg s k m t v h ka).buf = s.buf.drop k := rfl
@[simp] theorem headDone_idx (cfg : Cfg) (s : St) (k : Nat) (m t v : Str) (h : Hdrs) (ka : Bool) :
    (headDone cfg s k m t v h ka).idx = s.idx + 1 := rfl
@[simp] theorem headDone_ka (cfg : Cfg) (s : St) (k : Nat) (m t v : Str) (h : Hdrs) (ka : Bool) :
    (headDone cfg s k m t v h ka).ka = ka := rfl
@[simp] theorem headDone_limit (cfg : Cfg) (s : St) (k : Nat) (m t v : Str) (h : Hdrs) (ka : Bool) :
    (headDone cfg s k m t v h ka).limit = effLimit cfg s.idx := rfl

theorem reqsOf_headDone (cfg : Cfg) (s : St) (k : Nat) (m t v : Str) (h : Hdrs) (ka : Bool) :
    reqsOf (headDone cfg s k m t v h ka).out = reqsOf s.out ++ [(m, t, v, hAll h)] := by
  unfold headDone
  rw [reqsOf_emit]
  split <;> simp [reqOf]

/-- the common last step: the request `r` finished in state `T` (same head count, same persistence), the rest of the
    input is `T.buf` -/
theorem refine_finish (cfg : Cfg) (fuel : Nat)
    (ih : ∀ s : St, s.phase = .headers → s.buf.length < fuel →
      (reqsOf s.out ++ (readAllF cfg fuel s.idx s.buf).1.map headOf) <+: reqsOf (drain cfg s).out)
    (base : List (Str × Str × Str × List (Str × Str))) (r : Req) (T : St) (ka : Bool) (idx : Nat)
    (hR : reqsOf T.out = base ++ [headOf r]) (hka : T.ka = ka) (hidx : T.idx = idx) (hb : T.buf.length < fuel) :
    (base ++ (if ka = true then (r :: (readAllF cfg fuel idx T.buf).1, (readAllF cfg fuel idx T.buf).2)
        else ([r], Tail.stop)).1.map headOf) <+: reqsOf (drain cfg (finishReq T)).out := by
  have := refine_next cfg fuel ih T hb
  rw [hR, hka, hidx] at this
  rw [next_fst]
  cases ka <;> simpa using this

theorem step_fixed_done (cfg : Cfg) (s : St) (n : Nat) (hp : s.phase = .fixed (n + 1)) (hl : n + 1 ≤ s.buf.length) :
    step cfg s = some (finishReq (takeBody s (n + 1))) := by
  have hne : s.buf.isEmpty = false := by
    cases hx : s.buf with
    | nil => rw [hx] at hl; simp at hl
    | cons _ _ => rfl
  simp [step, hp, stepFixed, hne, hl]

theorem refine_main (cfg : Cfg) : ∀ (fuel : Nat) (s : St), s.phase = .headers → s.buf.length < fuel →
    (reqsOf s.out ++ (readAllF cfg fuel s.idx s.buf).1.map headOf) <+: reqsOf (drain cfg s).out := by
  intro fuel
  induction fuel with
  | zero => intro s _ h; omega
  | succ fuel ih =>
    intro s hp hlen
    have mono : reqsOf s.out <+: reqsOf (drain cfg s).out := ext_reqs (ext_drain cfg s)
    have triv : ∀ {l : List Req}, l = [] →
        (reqsOf s.out ++ l.map headOf) <+: reqsOf (drain cfg s).out := by
      intro l hl; simpa [hl] using mono
    rw [readAllF]
    cases hfe : findHeadEnd s.buf with
    | none => simp only []; split <;> exact triv (by rfl)
    | some k =>
      simp only []
      by_cases hk : k > cfg.maxHeader
      · rw [if_pos hk]; exact triv (by rfl)
      · rw [if_neg hk]
        have hkb := findHeadEnd_bounds hfe
        cases hph : parseHead (s.buf.take k) with
        | none => simp only []; exact triv (by rfl)
        | some p =>
          obtain ⟨⟨m, t, v⟩, h⟩ := p
          simp only []
          cases hka : canKeepAlive cfg.noKeepAlive m v h with
          | none => simp only []; exact triv (by rfl)
          | some ka =>
            cases hho : hostCheck v h with
            | none => simp only []; exact triv (by rfl)
            | some host =>
              cases hbk : bodyKind (effLimit cfg s.idx) h with
              | none => simp only []; exact triv (by rfl)
              | some kind =>
                simp only []
                have s1 : step cfg s = some (startBody (headDone cfg s k m t v h ka) (some kind)) := by
                  simp only [step, hp, stepHeaders, hfe, hk, if_false, onHead, hph, hka, hho, startReq, hbk, headDone]
                have hd := drain_of_some s1
                have hR := reqsOf_headDone cfg s k m t v h ka
                have hdl : (s.buf.drop k).length < fuel := by
                  simp only [List.length_drop]; omega
                cases kind with
                | none =>
                  rw [hd]
                  exact refine_finish cfg fuel ih (reqsOf s.out) ⟨m, t, v, hAll h, []⟩
                    (headDone cfg s k m t v h ka) ka (s.idx + 1) hR rfl rfl hdl
                | fixed n =>
                  simp only []
                  by_cases hl : (s.buf.drop k).length < n
                  · rw [if_pos hl]; exact triv (by rfl)
                  · rw [if_neg hl, hd]
                    cases n with
                    | zero =>
                      have := refine_finish cfg fuel ih (reqsOf s.out) ⟨m, t, v, hAll h, []⟩
                        (headDone cfg s k m t v h ka) ka (s.idx + 1) hR rfl rfl hdl
                      simpa [startBody] using this
                    | succ n =>
                      have s2 : step cfg (startBody (headDone cfg s k m t v h ka) (some (.fixed (n + 1))))
                          = some (finishReq (takeBody { (headDone cfg s k m t v h ka) with phase := .fixed (n + 1) } (n + 1))) :=
                        step_fixed_done cfg { (headDone cfg s k m t v h ka) with phase := .fixed (n + 1) } n rfl
                          (by show n + 1 ≤ (s.buf.drop k).length; omega)
                      rw [drain_of_some s2]
                      refine refine_finish cfg fuel ih (reqsOf s.out) ⟨m, t, v, hAll h, (s.buf.drop k).take (n + 1)⟩
                        (takeBody { (headDone cfg s k m t v h ka) with phase := .fixed (n + 1) } (n + 1)) ka (s.idx + 1)
                        ?_ rfl rfl ?_
                      · show reqsOf (St.deliver _ _).out = _
                        rw [reqsOf_deliver]; exact hR
                      · show (List.drop (n + 1) (s.buf.drop k)).length < fuel
                        simp only [List.length_drop] at hdl ⊢; omega
                | chunked =>
                  simp only []
                  cases hdc : decodeChunks (effLimit cfg s.idx) ((s.buf.drop k).length + 1) 0 (s.buf.drop k) with
                  | bad p => simp only []; exact triv (by rfl)
                  | more p => simp only []; exact triv (by rfl)
                  | ok body rest' =>
                    simp only []
                    rw [hd]
                    have hrl := decodeChunks_ok_length _ _ _ _ _ _ hdc
                    have hdd := drain_decode_ok cfg ((s.buf.drop k).length + 1) 0
                      { (headDone cfg s k m t v h ka) with phase := .chunkSize 0 } body rest' rfl hdc
                    show _ <+: reqsOf (drain cfg { (headDone cfg s k m t v h ka) with phase := .chunkSize 0 }).out
                    rw [hdd]
                    unfold bodyDone
                    refine refine_finish cfg fuel ih (reqsOf s.out) ⟨m, t, v, hAll h, body⟩
                      { ({ (headDone cfg s k m t v h ka) with phase := .chunkSize 0 } : St) with
                        buf := rest'
                        got := (headDone cfg s k m t v h ka).got + body.length
                        out := dataOut (headDone cfg s k m t v h ka).out ((headDone cfg s k m t v h ka).idx - 1) body }
                      ka (s.idx + 1) ?_ ?_ ?_ ?_
                    · show reqsOf (dataOut _ _ _) = _
                      rw [reqsOf_dataOut]; exact hR
                    · rfl
                    · rfl
                    · show rest'.length < fuel
                      omega

end TornadoModel.C01
