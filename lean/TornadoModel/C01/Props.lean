import TornadoModel.C01.Spec
namespace TornadoModel.C01

theorem stub : parseRequestLine [] = none := by decide

end TornadoModel.C01
