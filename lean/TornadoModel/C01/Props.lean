/-
C01 — property theorems.
-/
import TornadoModel.C01.Full
import TornadoModel.C01.HeaderGrammar
import TornadoModel.C01.ChunkedGrammar
namespace TornadoModel.C01

/-! ## 1. request line: exactly `token SP target SP HTTP/1.d` -/

/-- `parse_request_start_line` accepts a line iff it is `method SP target SP version` with a token method, a
    target of visible/obs-text bytes and a version `HTTP/1.<digit>`; the groups are those three pieces. -/
theorem requestLine_iff (l m t v : Str) :
    parseRequestLine l = some (m, t, v) ↔
      l = m ++ [cSp] ++ t ++ [cSp] ++ v ∧ isToken m = true ∧ isTarget t = true ∧ isVersion1x v = true := by
  constructor
  · intro h
    unfold parseRequestLine at h
    cases h1 : splitAt1 cSp l with
    | none => simp [h1] at h
    | some p1 =>
      obtain ⟨m', rest⟩ := p1
      simp only [h1] at h
      cases h2 : splitAt1 cSp rest with
      | none => simp [h2] at h
      | some p2 =>
        obtain ⟨t', v'⟩ := p2
        simp only [h2] at h
        split at h
        · next hc =>
          simp only [Option.some.injEq, Prod.mk.injEq] at h
          obtain ⟨rfl, rfl, rfl⟩ := h
          simp only [Bool.and_eq_true] at hc
          obtain ⟨e1, _⟩ := splitAt1_some h1
          obtain ⟨e2, _⟩ := splitAt1_some h2
          refine ⟨?_, hc.1.1, hc.1.2, hc.2⟩
          simp [e1, e2]
        · simp at h
  · rintro ⟨rfl, hm, ht, hv⟩
    unfold parseRequestLine
    have e1 : splitAt1 cSp (m ++ cSp :: (t ++ cSp :: v)) = some (m, t ++ cSp :: v) :=
      splitAt1_app (token_no_sp hm)
    have e2 : splitAt1 cSp (t ++ cSp :: v) = some (t, v) := splitAt1_app (target_no_sp ht)
    simp only [List.append_assoc, List.singleton_append, List.cons_append, List.nil_append]
    rw [e1]; simp only []; rw [e2]; simp [hm, ht, hv]

/-- every other line is an `HTTPInputError` -/
theorem requestLine_strict (l : Str) :
    parseRequestLine l = none ↔
      ¬ ∃ m t v, l = m ++ [cSp] ++ t ++ [cSp] ++ v ∧ isToken m = true ∧ isTarget t = true ∧ isVersion1x v = true := by
  constructor
  · intro h ⟨m, t, v, hx⟩
    rw [(requestLine_iff l m t v).mpr hx] at h
    cases h
  · intro h
    cases hp : parseRequestLine l with
    | none => rfl
    | some p =>
      obtain ⟨m, t, v⟩ := p
      exact absurd ⟨m, t, v, (requestLine_iff l m t v).mp hp⟩ h

example : parseRequestLine [71, 69, 84, 32, 47, 32, 72, 84, 84, 80, 47, 49, 46, 49]
    = some ([71, 69, 84], [47], [72, 84, 84, 80, 47, 49, 46, 49]) := by decide
example : parseRequestLine [71, 69, 84, 32, 32, 47, 32, 72, 84, 84, 80, 47, 49, 46, 49] = none := by decide   -- two spaces
example : parseRequestLine [71, 69, 84, 32, 47, 32, 72, 84, 84, 80, 47, 50, 46, 48] = none := by decide       -- HTTP/2.0

/-! ## 3. body framing decision -/

theorem bodyKind_cl_te_conflict (limit : Nat) (h : Hdrs)
    (hcl : hHas h kContentLength = true) (hte : hHas h kTransferEncoding = true) : bodyKind limit h = none := by
  have : teChunked h = none := by
    unfold teChunked
    simp only [hHas, hGet] at *
    cases hg : dget kTransferEncoding h.m with
    | none => simp [hg] at hte
    | some vs => simp [hcl]
  unfold bodyKind
  cases contentLength limit h <;> simp [this]

theorem bodyKind_te_not_chunked (limit : Nat) (h : Hdrs) (v : Str)
    (hte : hGet h kTransferEncoding = some v) (hv : lower v ≠ kChunked) : bodyKind limit h = none := by
  have : teChunked h = none := by
    unfold teChunked
    simp only [hte]
    split <;> simp [hv]
  unfold bodyKind
  cases contentLength limit h <;> simp [this]

theorem bodyKind_cl_not_numeric (limit : Nat) (h : Hdrs) (v : Str)
    (hcl : hGet h kContentLength = some v) (hcomma : v.contains cComma = false)
    (hv : v = [] ∨ v.all isDigit = false) : bodyKind limit h = none := by
  have hp : parseInt v = none := by
    unfold parseInt
    rcases hv with rfl | hv
    · simp
    · simp [hv]
  have hc : cComma ∉ v := by simpa using hcomma
  have : contentLength limit h = none := by
    unfold contentLength
    simp [hcl, clPick, hc, hp]
  simp [bodyKind, this]

theorem bodyKind_cl_unequal (limit : Nat) (h : Hdrs) (v p : Str) (ps : List Str)
    (hcl : hGet h kContentLength = some v) (hcomma : v.contains cComma = true)
    (hsplit : splitCommaWs v = p :: ps) (hne : ps.all (· == p) = false) : bodyKind limit h = none := by
  have hc : cComma ∈ v := by simpa using hcomma
  have hne' : ¬ ∀ x, x ∈ ps → x = p := by
    intro hall
    have : ps.all (· == p) = true := by simpa using hall
    rw [this] at hne; cases hne
  have : contentLength limit h = none := by
    unfold contentLength
    simp [hcl, clPick, hc, hsplit, hne']
  simp [bodyKind, this]

theorem bodyKind_none (limit : Nat) (h : Hdrs)
    (hcl : hHas h kContentLength = false) (hte : hHas h kTransferEncoding = false) :
    bodyKind limit h = some .none := by
  simp only [hHas, Option.isSome_eq_false_iff, Option.isNone_iff_eq_none] at hcl hte
  have h1 : contentLength limit h = some none := by simp [contentLength, hGet, hcl]
  have h2 : teChunked h = some false := by simp [teChunked, hGet, hte]
  simp [bodyKind, h1, h2]

theorem bodyKind_chunked_iff (limit : Nat) (h : Hdrs) :
    bodyKind limit h = some .chunked ↔
      hHas h kContentLength = false ∧ ∃ v, hGet h kTransferEncoding = some v ∧ lower v = kChunked := by
  constructor
  · intro hb
    unfold bodyKind at hb
    cases hc : contentLength limit h with
    | none => simp [hc] at hb
    | some cl =>
      simp only [hc] at hb
      cases ht : teChunked h with
      | none => simp [ht] at hb
      | some b =>
        cases b with
        | false => cases cl <;> simp [ht] at hb
        | true =>
          unfold teChunked at ht
          cases hg : hGet h kTransferEncoding with
          | none => simp [hg] at ht
          | some v =>
            simp only [hg] at ht
            split at ht
            · simp at ht
            · next hn =>
              split at ht
              · next hl => exact ⟨by simpa using hn, v, rfl, hl⟩
              · simp at ht
  · rintro ⟨hcl, v, hv, hl⟩
    have h1 : contentLength limit h = some none := by
      simp only [hHas, Option.isSome_eq_false_iff, Option.isNone_iff_eq_none] at hcl
      simp [contentLength, hGet, hcl]
    have h2 : teChunked h = some true := by simp [teChunked, hv, hcl, hl]
    simp [bodyKind, h1, h2]

/-! ## 3b. Host -/

theorem host_missing_11 (v : Str) (h : Hdrs) (hh : hGet h kHost = none) (hv : v ≠ kHttp10) :
    hostCheck v h = none := by
  simp [hostCheck, hh, hv]

theorem host_default_10 (h : Hdrs) (hh : hGet h kHost = none) : hostCheck kHttp10 h = some kLocalhost := by
  have : isHost kLocalhost = true := by decide
  have h2 : cComma ∉ kLocalhost := by decide
  simp [hostCheck, hh, this, h2]

theorem host_invalid (v x : Str) (h : Hdrs) (hh : hGet h kHost = some x) (hx : isHost x = false) :
    hostCheck v h = none := by
  simp [hostCheck, hh, hx]

theorem host_comma (v x : Str) (h : Hdrs) (hh : hGet h kHost = some x) (hx : x.contains cComma = true) :
    hostCheck v h = none := by
  simp only [hostCheck, hh]
  split <;> simp [hx]


/-! ## 4. segmentation independence

`feed cfg s seg` appends `seg` to the stream's read buffer and resumes the connection coroutine until it blocks.
The trace (`St.out`) is part of the state, so the equalities below say: same delegate calls, same bytes
delivered (adjacent `data_received` pieces of one request concatenated), same responses, same final phase, same
unread buffer — however the peer's bytes were cut into TCP segments. -/

/-- `drain` (defined with fuel `buf.length + 1`) really runs until the coroutine blocks -/
theorem drain_unfold (cfg : Cfg) (s : St) :
    drain cfg s = match step cfg s with
      | none => s
      | some s' => drain cfg s' := drain_unfold' cfg s

/-- two segments one after the other = the same bytes in one segment -/
theorem feed_append (cfg : Cfg) (s : St) (a b : Str) : feed cfg (feed cfg s a) b = feed cfg s (a ++ b) :=
  feed_append' cfg s a b

/-- an empty segment changes nothing once the coroutine is blocked -/
theorem feed_nil (cfg : Cfg) (s : St) (a : Str) : feed cfg (feed cfg s a) [] = feed cfg s a :=
  feed_nil' cfg _ (step_feed cfg s a)

/-- any two segmentations of the same byte stream drive the connection into the same state with the same trace -/
theorem segmentation_independent (cfg : Cfg) (segs₁ segs₂ : List Str) (h : segs₁.flatten = segs₂.flatten) :
    run cfg init segs₁ = run cfg init segs₂ := by
  have h0 : step cfg init = none := step_nil rfl
  rw [run_eq_feed cfg init segs₁ h0, run_eq_feed cfg init segs₂ h0, h]

/-- in particular: delivering byte by byte equals delivering everything at once -/
theorem bytewise_eq_whole (cfg : Cfg) (bytes : Str) :
    run cfg init (bytes.map fun b => [b]) = run cfg init [bytes] := by
  apply segmentation_independent
  induction bytes with
  | nil => rfl
  | cons b bs ih => simp_all

-- non-vacuity: a chunked POST cut inside the size line, inside the data and inside the terminator
example :
    events (run {} init [[80, 79, 83, 84, 32, 47, 32, 72, 84, 84, 80, 47, 49, 46, 49, 13, 10, 72, 111, 115, 116, 58, 120, 13, 10,
        84, 69, 58, 120, 13], [10, 13, 10]])
      = [.req [80, 79, 83, 84] [47] [72, 84, 84, 80, 47, 49, 46, 49] [([72, 111, 115, 116], [120]), ([84, 101], [120])],
         .fin, .w200] := by decide

/-! ## 5. a rejection is final -/

/-- once the connection is closed (400 sent, unsatisfiable read, or non-persistent request answered) further
    bytes change nothing: no delegate call, no response, no state change -/
theorem reject_is_final (cfg : Cfg) (s : St) (seg : Str) (h : s.phase = .closed) : feed cfg s seg = s := by
  unfold feed
  rw [app_of_closed seg h]
  exact drain_of_none (by simp [step, h])

/-- an `HTTPInputError` ends in the closed phase, having written the 400 and closed the stream -/
theorem reject400_closed (s : St) (r : Bool) :
    (reject400 s r).phase = .closed ∧ Ev.w400 ∈ (reject400 s r).out ∧ Ev.closed ∈ (reject400 s r).out := by
  cases r <;> simp [reject400, St.emit, pushEv]

/-- an unsatisfiable read (header block or chunk-size line too long) closes without a response -/
theorem closeSilent_closed (s : St) (r : Bool) :
    (closeSilent s r).phase = .closed ∧ Ev.closed ∈ (closeSilent s r).out := by
  cases r <;> simp [closeSilent, St.emit, pushEv]


/-- whatever the peer sends and however it is segmented, the connection never records an uncaught exception:
    every rejection of peer input is `w400 + closed` (HTTPInputError) or `closed` (unsatisfiable read).
    (The model has the `uncaught` event; before the `fix:` commits two transitions produced it.) -/
theorem never_uncaught (cfg : Cfg) (segs : List Str) : Ev.uncaught ∉ (run cfg init segs).out := by
  intro h
  have := unc_run cfg init segs h
  simp [init] at this

theorem never_uncaught_eof (cfg : Cfg) (segs : List Str) : Ev.uncaught ∉ (eof (run cfg init segs)).out := by
  intro h
  apply never_uncaught cfg segs
  unfold eof at h
  split at h
  · exact h
  · exact unc_emit _ _ (by simp) h
  · exact unc_emit _ _ (by simp) h

/-! ## 2. chunked framing is strict (one step of the machine, any buffer) -/

/-- `parse_hex_int` accepts exactly the non-empty strings of hex digits -/
theorem parseHexInt_none_iff (l : Str) : parseHexInt l = none ↔ (l = [] ∨ l.all isHexDigit = false) := by
  unfold parseHexInt
  cases l with
  | nil => simp
  | cons c cs =>
    by_cases h : (c :: cs).all isHexDigit = true
    · simp [h]
    · simp only [Bool.not_eq_true] at h
      simp [h]

/-- a size line that is not `[0-9A-Fa-f]+` (empty, sign, `0x`, extension, space, non-ASCII …) ⇒ 400 + close -/
theorem chunked_strict_size (cfg : Cfg) (s : St) (total loc : Nat) (hp : s.phase = .chunkSize total)
    (hloc : findCrlf s.buf = some loc) (hshort : loc + 2 ≤ chunkLineMax)
    (hbad : parseHexInt (s.buf.take loc) = none) : step cfg s = some (reject400 s true) := by
  have : ¬ loc + 2 > chunkLineMax := by omega
  simp [step, hp, stepChunkSize, hloc, this, hbad]

/-- a size line (with its CRLF) longer than 64 bytes ⇒ the connection is closed -/
theorem chunked_size_line_too_long (cfg : Cfg) (s : St) (total loc : Nat) (hp : s.phase = .chunkSize total)
    (hloc : findCrlf s.buf = some loc) (hlong : loc + 2 > chunkLineMax) : step cfg s = some (closeSilent s true) := by
  simp [step, hp, stepChunkSize, hloc, hlong]

/-- chunk data not followed by CRLF ⇒ 400 + close (after the `fix:` commit; it was an `assert`) -/
theorem chunked_strict_terminator (cfg : Cfg) (s : St) (total a b : Nat) (rest : Str)
    (hp : s.phase = .chunkCrlf total) (hb : s.buf = a :: b :: rest) (hbad : ¬ (a = 13 ∧ b = 10)) :
    step cfg s = some (reject400 s true) := by
  simp [step, hp, stepChunkCrlf, hb, hbad]

/-- the last chunk `0 CRLF` not followed by CRLF (e.g. a trailer) ⇒ 400 + close -/
theorem chunked_strict_last_terminator (cfg : Cfg) (s : St) (a b : Nat) (rest : Str)
    (hp : s.phase = .lastCrlf) (hb : s.buf = a :: b :: rest) (hbad : ¬ (a = 13 ∧ b = 10)) :
    step cfg s = some (reject400 s true) := by
  simp [step, hp, stepLastCrlf, hb, hbad]

example : parseHexInt [49, 59, 120] = none := by decide      -- "1;x" (chunk extension)
example : parseHexInt [49, 97, 70] = some 0x1aF := by decide

/-! ## 2b. chunked round trip -/

/-- `parse_hex_int` inverts `"%x" % n` on every natural number -/
theorem parseHexInt_toHex_roundtrip (n : Nat) : parseHexInt (Spec.toHex n) = some n := parseHexInt_toHex n

/-- the *batch* strict decoder inverts the encoder: every list of non-empty chunks (each size line within the 64-byte
    line limit, i.e. chunk length < 16^62) whose total is within the body limit decodes to its concatenation, and
    whatever follows the last-chunk terminator is left over untouched -/
theorem chunked_roundtrip_spec (limit : Nat) (cs : List Str) (rest : Str)
    (hne : ∀ c ∈ cs, c ≠ [] ∧ c.length < 16 ^ 62) (hlim : cs.flatten.length ≤ limit) :
    Spec.decodeChunks limit ((Spec.encodeChunks cs ++ rest).length + 1) 0 (Spec.encodeChunks cs ++ rest)
      = .ok cs.flatten rest := by
  apply decodeChunks_encodeChunks limit cs rest _ 0 _ hne (by omega)
  have : ∀ l : List Str, l.length < (Spec.encodeChunks l).length := by
    intro l
    induction l with
    | nil => simp [Spec.encodeChunks]
    | cons c l ih => simp [Spec.encodeChunks]; omega
  have := this cs
  simp only [List.length_append]
  omega

/-- **chunked round trip through the machine**: for every request head that is accepted and announces
    `Transfer-Encoding: chunked` (and no Content-Length), and every list `cs` of non-empty chunks within the size
    limits, feeding `head ++ encodeChunks cs` makes the connection deliver: the request, (`100 Continue` if asked for),
    the body `cs.flatten` — all `data_received` pieces of one resumption are merged into one `data` event, none when
    there is no chunk —, then `finish()` and the response (and the close when the request is not persistent);
    nothing else. -/
theorem chunked_roundtrip (cfg : Cfg) (head m t v tev host : Str) (h : Hdrs) (ka : Bool) (cs : List Str)
    (hend : findHeadEnd head = some head.length) (hfit : head.length ≤ cfg.maxHeader)
    (hparse : parseHead head = some ((m, t, v), h))
    (hka : canKeepAlive cfg.noKeepAlive m v h = some ka) (hhost : hostCheck v h = some host)
    (hcl : hHas h kContentLength = false) (hte : hGet h kTransferEncoding = some tev) (hch : lower tev = kChunked)
    (hne : ∀ c ∈ cs, c ≠ [] ∧ c.length < 16 ^ 62) (hlim : cs.flatten.length ≤ effLimit cfg 0) :
    events (run cfg init [head ++ Spec.encodeChunks cs])
      = [.req m t v (hAll h)] ++ (if hGet h kExpect = some k100Continue then [.w100] else [])
        ++ (if cs.flatten = [] then [] else [.data 0 cs.flatten]) ++ [.fin, .w200]
        ++ (if ka = true then [] else [.closed]) := by
  have hbk : bodyKind (effLimit cfg 0) h = some .chunked := (bodyKind_chunked_iff _ h).mpr ⟨hcl, tev, hte, hch⟩
  rw [run_chunked_request cfg head m t v h ka host cs hend hfit hparse hka hhost hbk hne hlim]
  exact events_bodyDone_afterHead cfg m t v h ka _ _ _

/-- the instance for a concrete head, with the default configuration: *every* chunk list round-trips -/
theorem chunked_roundtrip_post (cs : List Str)
    (hne : ∀ c ∈ cs, c ≠ [] ∧ c.length < 16 ^ 62) (hlim : cs.flatten.length ≤ 104857600) :
    events (run {} init [postChunkedHead ++ Spec.encodeChunks cs])
      = [.req [80, 79, 83, 84] [47] kHttp11 [(kHost, [120]), (kTransferEncoding, kChunked)]]
        ++ (if cs.flatten = [] then [] else [.data 0 cs.flatten]) ++ [.fin, .w200] := by
  have hp : parseHead postChunkedHead = some (([80, 79, 83, 84], [47], kHttp11), postChunkedHdrs) := by decide
  have hx : hGet postChunkedHdrs kExpect = none := by decide
  have ha : hAll postChunkedHdrs = [(kHost, [120]), (kTransferEncoding, kChunked)] := by decide
  have := chunked_roundtrip {} postChunkedHead _ _ _ kChunked [120] _ true cs (by decide) (by decide) hp
    (by decide) (by decide) (by decide) (by decide) (by decide) hne (by simpa [effLimit] using hlim)
  rw [hx, ha] at this
  simpa using this

-- non-vacuity: hypotheses of `chunked_roundtrip` hold for the concrete head (above); a concrete chunk list
example : Spec.encodeChunks [[97, 98, 99], [100]] = [51, 13, 10, 97, 98, 99, 13, 10, 49, 13, 10, 100, 13, 10, 48, 13, 10, 13, 10] := by
  decide
example : events (run {} init [postChunkedHead ++ Spec.encodeChunks [[97, 98, 99], [100]]])
    = [.req [80, 79, 83, 84] [47] kHttp11 [(kHost, [120]), (kTransferEncoding, kChunked)], .data 0 [97, 98, 99, 100], .fin, .w200] := by
  decide

/-! ## 6. the machine agrees with the batch reader -/

/-- the machine refines the batch strict reader: the request heads the batch reader `Spec.readAll` extracts from the
    whole byte string are, in order, a prefix of the request heads the machine accepts (the machine may show one more
    head to the delegate: that of a request whose body is still pending or is rejected later) -/
theorem model_refines_spec (cfg : Cfg) (bytes : Str) :
    (Spec.readAll cfg bytes).1.map headOf <+: (events (run cfg init [bytes])).filterMap reqOf := by
  have h := refine_main cfg (bytes.length + 1) { init with buf := bytes } rfl (Nat.lt_succ_self _)
  have e1 : run cfg init [bytes] = drain cfg { init with buf := bytes } := by simp [run, feed, St.app, init]
  rw [e1]
  simpa [reqsOf, init, Spec.readAll, events] using h

/-- the incremental machine on the whole stream agrees with the batch reader `Spec.readAll` on the finished requests
    (formerly the tie-only goal `model_eq_spec_goal`; also checked on every generated case through impl = Model and
    impl ⊨ Spec). -/
theorem model_eq_spec :
  ∀ (cfg : Cfg) (bytes : Str),
    ((events (run cfg init [bytes])).filterMap reqOf).take (Spec.readAll cfg bytes).1.length
      = (Spec.readAll cfg bytes).1.map (fun r => (r.m, r.t, r.v, r.h)) := by
  intro cfg bytes
  have h := model_refines_spec cfg bytes
  rw [List.prefix_iff_eq_take] at h
  rw [List.length_map] at h
  exact h.symm

-- non-vacuity: two pipelined requests `GET / HTTP/1.1␍␊Host:x␍␊␍␊`, both extracted by the batch reader
example : (Spec.readAll {} (getHead ++ getHead)).1.length = 2 := by decide

/-! ## 7. everything the application sees: requests WITH bodies, the partial body, the end of the stream

`view out` folds a trace into the application's view: the finished requests (head *and* body — all `data_received`
pieces of one request concatenated — completed by `finish()`), and the request in progress.  `partialOf` = the body bytes
delivered for the message in progress.  `Tail.body` / `Tail.closes`: what the batch reader says about the message at which
it stops (`pending p | reject p | stop`). -/

/-- **full refinement, any segmentation**: however the stream is cut into segments, the application has been handed
    *exactly* the batch reader's finished requests (method, target, version, header fields, body bytes), in order and no
    others; the body bytes delivered for the unfinished / rejected message are exactly those the batch reader extracts
    for it; and the connection is closed iff the batch reader rejects the next message or the last request was not
    persistent. -/
theorem delivered_eq_spec (cfg : Cfg) (segs : List Str) :
    (view (run cfg init segs).out).1 = (Spec.readAll cfg segs.flatten).1 ∧
    partialOf (view (run cfg init segs).out) = (Spec.readAll cfg segs.flatten).2.body ∧
    ((run cfg init segs).phase = .closed ↔ (Spec.readAll cfg segs.flatten).2.closes = true) := by
  have hseg : run cfg init segs = run cfg init [segs.flatten] :=
    segmentation_independent cfg segs [segs.flatten] (by simp)
  have e1 : run cfg init [segs.flatten] = drain cfg { init with buf := segs.flatten } := by
    simp [run, feed, St.app, init]
  have h := refine_full cfg (segs.flatten.length + 1) { init with buf := segs.flatten } rfl (Nat.lt_succ_self _) rfl
  rw [hseg, e1]
  refine ⟨?_, h.part, h.closed⟩
  have := h.done
  simpa [init, Spec.readAll] using this

/-- **after the first rejected message (or a non-persistent request) nothing further is delivered**: if the batch reader
    stops at the end of `bytes` with `reject` or `stop`, then for every continuation `more` of the stream and every
    segmentation of `bytes ++ more` the connection ends in *the same state with the same trace* as on `bytes` alone — no
    later `headers_received` / `data_received` / `finish`, no later response —, the application has seen exactly the batch
    reader's requests, the connection is closed and the `closed` event (after the `400` when there is one) is in the trace. -/
theorem reject_delivers_nothing_further (cfg : Cfg) (bytes more : Str) (segs : List Str)
    (hcl : (Spec.readAll cfg bytes).2.closes = true) (hsegs : segs.flatten = bytes ++ more) :
    run cfg init segs = run cfg init [bytes] ∧
    (view (run cfg init segs).out).1 = (Spec.readAll cfg bytes).1 ∧
    partialOf (view (run cfg init segs).out) = (Spec.readAll cfg bytes).2.body ∧
    (run cfg init segs).phase = .closed ∧ Ev.closed ∈ (run cfg init segs).out := by
  have hb := delivered_eq_spec cfg [bytes]
  simp only [List.flatten_cons, List.flatten_nil, List.append_nil] at hb
  have hclosed : (run cfg init [bytes]).phase = .closed := hb.2.2.mpr hcl
  have e : run cfg init segs = run cfg init [bytes] := by
    rw [segmentation_independent cfg segs [bytes, more] (by simpa using hsegs)]
    show run cfg (feed cfg init bytes) [more] = run cfg (feed cfg init bytes) []
    exact run_closed_absorbs cfg _ [more] hclosed
  rw [e]
  exact ⟨rfl, hb.1, hb.2.1, hclosed, closedInv_run cfg init [bytes] (by intro h; simp [init] at h) hclosed⟩

/-- the same for a 400: whenever the machine answers 400 it closes, and that is final (trace level) -/
theorem closed_has_event (cfg : Cfg) (segs : List Str) (h : (run cfg init segs).phase = .closed) :
    Ev.closed ∈ (run cfg init segs).out :=
  closedInv_run cfg init segs (by intro h; simp [init] at h) h

-- non-vacuity: `GET / HTTP/1.1␍␊Host:x␍␊␍␊` followed by the malformed head `X␍␊␍␊`: one request, then reject
example : Spec.readAll {} (getHead ++ [88, 13, 10, 13, 10]) =
    ([⟨[71, 69, 84], [47], kHttp11, [(kHost, [120])], []⟩], .reject []) := by decide
-- a chunked POST whose second chunk has a bad terminator: no finished request, the first chunk's bytes, reject
example : Spec.readAll {} (postChunkedHead ++ [49, 13, 10, 97, 13, 10, 49, 13, 10, 98, 88, 89]) = ([], .reject [97, 98]) := by
  decide
example : view (run {} init [postChunkedHead ++ [49, 13, 10, 97, 13, 10, 49, 13], [10, 98, 88, 89, 71]]).out
    = ([], some ⟨[80, 79, 83, 84], [47], kHttp11, [(kHost, [120]), (kTransferEncoding, kChunked)], [97, 98]⟩) := by decide

end TornadoModel.C01
