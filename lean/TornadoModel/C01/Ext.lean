/-
C01 — the trace only ever grows by `pushEv`: `Ext a b` ("`b` is `a` with more events pushed"), preserved by every
step / drain / feed / run.  Consequences: non-`data` events persist; the sequence of `req` events only grows at the end.
-/
import TornadoModel.C01.Lemmas
namespace TornadoModel.C01

def Ext (a b : List Ev) : Prop := ∃ es : List Ev, b = es.foldl pushEv a

theorem Ext.refl (a : List Ev) : Ext a a := ⟨[], rfl⟩

theorem Ext.trans {a b c : List Ev} (h1 : Ext a b) (h2 : Ext b c) : Ext a c := by
  obtain ⟨e1, rfl⟩ := h1
  obtain ⟨e2, rfl⟩ := h2
  exact ⟨e1 ++ e2, by simp [List.foldl_append]⟩

theorem ext_emit (s : St) (es : List Ev) : Ext s.out (s.emit es).out := ⟨es, rfl⟩
theorem ext_deliver (s : St) (b : Str) : Ext s.out (s.deliver b).out := ⟨[.data (s.idx - 1) b], rfl⟩
theorem ext_takeBody (s : St) (k : Nat) : Ext s.out (takeBody s k).out := ext_deliver s _
theorem ext_reject400 (s : St) (r : Bool) : Ext s.out (reject400 s r).out := ext_emit s _
theorem ext_closeSilent (s : St) (r : Bool) : Ext s.out (closeSilent s r).out := ext_emit s _

theorem ext_finishReq (s : St) : Ext s.out (finishReq s).out := by
  unfold finishReq
  split
  · exact ext_emit s _
  · exact ext_emit s _

theorem ext_startBody (s : St) (k : Option BodyKind) : Ext s.out (startBody s k).out := by
  unfold startBody
  split
  · exact ext_reject400 s true
  · exact ext_finishReq s
  · exact ext_finishReq s
  · exact Ext.refl _
  · exact Ext.refl _

theorem ext_onHead (cfg : Cfg) (s : St) (blk : Str) : Ext s.out (onHead cfg s blk).out := by
  unfold onHead
  split
  · exact ext_reject400 s false
  · split
    · exact ext_reject400 s false
    · split
      · exact ext_reject400 s true
      · unfold startReq
        exact Ext.trans (ext_emit { s with idx := s.idx + 1, ka := _, limit := _, got := 0 } _) (ext_startBody _ _)

theorem ext_step {cfg : Cfg} {s s' : St} (hs : step cfg s = some s') : Ext s.out s'.out := by
  unfold step at hs
  cases hp : s.phase with
  | headers =>
    simp only [hp, stepHeaders] at hs
    split at hs
    · split at hs
      · cases hs; exact ext_closeSilent s false
      · cases hs; exact ext_onHead cfg { s with buf := _ } _
    · split at hs
      · cases hs; exact ext_closeSilent s false
      · cases hs
  | fixed rem =>
    simp only [hp, stepFixed] at hs
    split at hs
    · cases hs
    · split at hs
      · cases hs; exact Ext.trans (ext_takeBody s _) (ext_finishReq _)
      · cases hs; exact ext_takeBody s _
  | chunkSize total =>
    simp only [hp, stepChunkSize] at hs
    split at hs
    · split at hs
      · cases hs; exact ext_closeSilent s true
      · split at hs
        · cases hs; exact ext_reject400 s true
        · cases hs; exact Ext.refl _
        · split at hs
          · cases hs; exact ext_reject400 s true
          · cases hs; exact Ext.refl _
    · split at hs
      · cases hs; exact ext_closeSilent s true
      · cases hs
  | chunkData rem total =>
    simp only [hp, stepChunkData] at hs
    split at hs
    · cases hs
    · split at hs
      · cases hs; exact ext_takeBody s _
      · cases hs; exact ext_takeBody s _
  | chunkCrlf total =>
    simp only [hp, stepChunkCrlf] at hs
    split at hs
    · split at hs
      · cases hs; exact Ext.refl _
      · cases hs; exact ext_reject400 s true
    · cases hs
  | lastCrlf =>
    simp only [hp, stepLastCrlf] at hs
    split at hs
    · split at hs
      · cases hs; exact ext_finishReq { s with buf := _ }
      · cases hs; exact ext_reject400 s true
    · cases hs
  | closed => simp [hp] at hs

theorem ext_drain (cfg : Cfg) (s : St) : Ext s.out (drain cfg s).out := by
  generalize hn : s.buf.length = n
  induction n using Nat.strongRecOn generalizing s with
  | _ n ih =>
    cases hs : step cfg s with
    | none => rw [drain_of_none hs]; exact Ext.refl _
    | some s' =>
      rw [drain_of_some hs]
      exact Ext.trans (ext_step hs) (ih _ (by have := step_lt hs; omega) s' rfl)

theorem app_out (s : St) (c : Str) : (s.app c).out = s.out := by
  by_cases hp : s.phase = .closed
  · rw [app_of_closed c hp]
  · rw [app_of_open c hp]

theorem ext_feed (cfg : Cfg) (s : St) (c : Str) : Ext s.out (feed cfg s c).out := by
  have := ext_drain cfg (s.app c)
  rwa [app_out] at this

theorem ext_run (cfg : Cfg) (s : St) (segs : List Str) : Ext s.out (run cfg s segs).out := by
  induction segs generalizing s with
  | nil => exact Ext.refl _
  | cons a rest ih => exact Ext.trans (ext_feed cfg s a) (ih _)

/-! ### consequences -/

theorem mem_pushEv {r : List Ev} {e : Ev} (e' : Ev) (h : e ∈ r) (hnd : ∀ i x, e ≠ .data i x) : e ∈ pushEv r e' := by
  unfold pushEv
  split
  · next i b j a r' =>
    split
    · simp only [List.mem_cons] at h ⊢
      rcases h with h | h
      · exact absurd h (hnd j a)
      · exact Or.inr h
    · exact List.mem_cons_of_mem _ h
  · exact List.mem_cons_of_mem _ h

/-- events other than `data` are never removed from the trace -/
theorem ext_mem {a b : List Ev} (h : Ext a b) {e : Ev} (he : e ∈ a) (hnd : ∀ i x, e ≠ .data i x) : e ∈ b := by
  obtain ⟨es, rfl⟩ := h
  induction es generalizing a with
  | nil => exact he
  | cons x xs ih => exact ih (mem_pushEv x he hnd)

def reqOf : Ev → Option (Str × Str × Str × List (Str × Str))
  | .req m t v h => some (m, t, v, h)
  | _ => none

/-- the request heads of a (newest-first) trace, oldest first -/
def reqsOf (o : List Ev) : List (Str × Str × Str × List (Str × Str)) := o.reverse.filterMap reqOf

theorem reqsOf_cons (e : Ev) (r : List Ev) : reqsOf (e :: r) = reqsOf r ++ (reqOf e).toList := by
  simp only [reqsOf, List.reverse_cons, List.filterMap_append]
  cases h : reqOf e <;> simp [List.filterMap_cons, h]

theorem reqsOf_pushEv (r : List Ev) (e : Ev) : reqsOf (pushEv r e) = reqsOf r ++ (reqOf e).toList := by
  unfold pushEv
  split
  · next i b j a r' =>
    split
    · simp [reqsOf_cons, reqOf]
    · simp [reqsOf_cons, reqOf]
  · exact reqsOf_cons _ _

theorem reqsOf_fold (r : List Ev) (es : List Ev) : reqsOf (es.foldl pushEv r) = reqsOf r ++ es.filterMap reqOf := by
  induction es generalizing r with
  | nil => simp
  | cons e es ih =>
    rw [List.foldl_cons, ih, reqsOf_pushEv, List.append_assoc]
    congr 1
    cases h : reqOf e <;> simp [List.filterMap_cons, h]

/-- the sequence of accepted request heads only grows at its end -/
theorem ext_reqs {a b : List Ev} (h : Ext a b) : reqsOf a <+: reqsOf b := by
  obtain ⟨es, rfl⟩ := h
  rw [reqsOf_fold]
  exact List.prefix_append _ _

end TornadoModel.C01
