/-
C01 — the specification: a *batch* strict reader.  It looks at the complete byte string once, message by
message (no buffer, no phases, no resumption), and says which requests a strict RFC 9112 reader with Tornado's
three leniencies (bare LF line ends, obs-fold, leading blank line) extracts, and how the stream ends:

* `pending p`  — the input stops in the middle of a message (`p` = body bytes extracted so far);
* `reject p`   — the next message is malformed / over a limit: nothing further is delivered;
* `stop`       — the last request was not persistent (`Connection: close`, HTTP/1.0 without keep-alive):
                 the server closes after answering, later bytes are not requests.

The grammar-level decisions (request line, header lines, body framing, Host) are the functions of
`Grammar.lean`; they are characterised on their own by the theorems in `Props.lean`.
-/
import TornadoModel.C01.Model
namespace TornadoModel.C01.Spec
open TornadoModel.C01

structure Req where
  m : Str
  t : Str
  v : Str
  h : List (Str × Str)
  body : Str
  deriving Repr, BEq, DecidableEq

inductive Tail where
  | pending (p : Str)
  | reject (p : Str)
  | stop
  deriving Repr, BEq, DecidableEq

inductive CRes where
  | ok (body rest : Str)
  | bad (p : Str)
  | more (p : Str)
  deriving Repr, BEq, DecidableEq

def CRes.prepend (d : Str) : CRes → CRes
  | .ok b r => .ok (d ++ b) r
  | .bad p => .bad (d ++ p)
  | .more p => .more (d ++ p)

/-- strict chunked decoding of a complete string: `size-in-hex CRLF data CRLF … 0 CRLF CRLF`, no extensions, no
    trailers, size line (with its CRLF) at most 64 bytes, running total at most `limit`. -/
def decodeChunks (limit : Nat) : Nat → Nat → Str → CRes
  | 0, _, _ => .more []
  | fuel + 1, total, inp =>
    match findCrlf inp with
    | none => if inp.length > chunkLineMax then .bad [] else .more []
    | some loc =>
      if loc + 2 > chunkLineMax then .bad []
      else
        let rest := inp.drop (loc + 2)
        match parseHexInt (inp.take loc) with
        | none => .bad []
        | some 0 =>
          match rest with
          | 13 :: 10 :: rest' => .ok [] rest'
          | _ :: _ :: _ => .bad []
          | _ => .more []
        | some (n + 1) =>
          if total + (n + 1) > limit then .bad []
          else if rest.length < n + 1 then .more rest
          else
            let d := rest.take (n + 1)
            match rest.drop (n + 1) with
            | 13 :: 10 :: rest' => (decodeChunks limit fuel (total + (n + 1)) rest').prepend d
            | _ :: _ :: _ => .bad d
            | _ => .more d

/-- the batch reader -/
def readAllF (cfg : Cfg) : Nat → Nat → Str → List Req × Tail
  | 0, _, _ => ([], .pending [])
  | fuel + 1, idx, inp =>
    match findHeadEnd inp with
    | none => if inp.length > cfg.maxHeader then ([], .reject []) else ([], .pending [])
    | some k =>
      if k > cfg.maxHeader then ([], .reject [])
      else
        let rest := inp.drop k
        match parseHead (inp.take k) with
        | none => ([], .reject [])
        | some ((m, t, v), h) =>
          match canKeepAlive cfg.noKeepAlive m v h, hostCheck v h, bodyKind (effLimit cfg idx) h with
          | some ka, some _, some kind =>
            let next (body rest' : Str) : List Req × Tail :=
              let r : Req := { m := m, t := t, v := v, h := hAll h, body := body }
              if ka then
                let (rs, tl) := readAllF cfg fuel (idx + 1) rest'
                (r :: rs, tl)
              else ([r], .stop)
            match kind with
            | .none => next [] rest
            | .fixed n => if rest.length < n then ([], .pending rest) else next (rest.take n) (rest.drop n)
            | .chunked =>
              match decodeChunks (effLimit cfg idx) (rest.length + 1) 0 rest with
              | .ok body rest' => next body rest'
              | .bad p => ([], .reject p)
              | .more p => ([], .pending p)
          | _, _, _ => ([], .reject [])

def readAll (cfg : Cfg) (inp : Str) : List Req × Tail := readAllF cfg (inp.length + 1) 0 inp

/-! ### the chunked *encoder* (the inverse the round-trip theorem is stated against) -/

/-- one lower-case hex digit -/
def hexDigit (d : Nat) : Nat := if d < 10 then 48 + d else 87 + d

/-- hex digits of `n`, most significant first (fuel `f`: `n < f` is always enough) -/
def toHexF : Nat → Nat → Str
  | 0, _ => []
  | f + 1, n => if n < 16 then [hexDigit n] else toHexF f (n / 16) ++ [hexDigit (n % 16)]

/-- `"%x" % n` -/
def toHex (n : Nat) : Str := toHexF (n + 1) n

/-- the chunked transfer coding of a list of chunks: each chunk as `size-in-hex CRLF data CRLF`, then the last chunk
    `0 CRLF CRLF` (no extensions, no trailers).  (An empty chunk would *be* the last chunk, so the round-trip theorem
    asks for non-empty chunks.) -/
def encodeChunks : List Str → Str
  | [] => [48, 13, 10, 13, 10]
  | c :: cs => toHex c.length ++ 13 :: 10 :: (c ++ 13 :: 10 :: encodeChunks cs)

end TornadoModel.C01.Spec
