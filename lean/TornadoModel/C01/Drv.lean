/- C01 driver:
   `C01 run <cfg> [seg,…] <eof>`  → `ok [event,…] <phase> <got>`      (Model)
   `C01 spec <cfg> <bytes>`       → `ok [[m,t,v,[[k,v],…],body],…] <tail>`  (Spec)
   `C01 reqline <bytes>` `C01 head <bytes>` `C01 framing <limit> <head bytes>` `C01 host <head bytes>`  (grammar units)
   cfg = `[maxHeader,maxBody,[override|~,…],noKeepAlive]` -/
import TornadoModel.Base.Wire
import TornadoModel.C01.Spec
namespace TornadoModel.C01.Drv
open TornadoModel TornadoModel.Wire TornadoModel.C01

def decCfg (v : V) : Option Cfg := do
  match ← v.list? with
  | [mh, mb, ov, nk] =>
    let ovs ← (← ov.list?).mapM (fun x => if x.isNone then some none else x.nat?.map some)
    pure { maxHeader := ← mh.nat?, maxBody := ← mb.nat?, overrides := ovs, noKeepAlive := ← nk.bool? }
  | _ => none

def encB (b : Str) : V := V.ofByteNats b
def encPairs (ps : List (Str × Str)) : V := .list (ps.map (fun (k, v) => .list [encB k, encB v]))

def encEv : Ev → V
  | .req m t v h => .list [.atom "req", encB m, encB t, encB v, encPairs h]
  | .data i b => .list [.atom "data", .int i, encB b]
  | .fin => .atom "fin"
  | .w100 => .atom "w100"
  | .w200 => .atom "w200"
  | .w400 => .atom "w400"
  | .closed => .atom "closed"
  | .connClose => .atom "connClose"
  | .uncaught => .atom "uncaught"

def encPhase : Phase → V
  | .headers => .atom "headers"
  | .fixed n => .list [.atom "fixed", .int n]
  | .chunkSize t => .list [.atom "chunkSize", .int t]
  | .chunkData r t => .list [.atom "chunkData", .int r, .int t]
  | .chunkCrlf t => .list [.atom "chunkCrlf", .int t]
  | .lastCrlf => .atom "lastCrlf"
  | .closed => .atom "closed"

def encTail : Spec.Tail → V
  | .pending p => .list [.atom "pending", encB p]
  | .reject p => .list [.atom "reject", encB p]
  | .stop => .atom "stop"

def encReq (r : Spec.Req) : V := .list [encB r.m, encB r.t, encB r.v, encPairs r.h, encB r.body]

def encKind : BodyKind → V
  | .none => .atom "none"
  | .fixed n => .list [.atom "fixed", .int n]
  | .chunked => .atom "chunked"

def rej : V := .atom "HTTPInputError"

def handle (toks : List String) : String :=
  match toks.mapM V.parse with
  | none => err "bad-arg"
  | some args =>
    match args with
    | [.atom "run", c, segs, e] =>
      match decCfg c, segs.list? >>= (·.mapM V.byteNats?), e.bool? with
      | some cfg, some ss, some e =>
        let s := run cfg init ss
        let s := if e then eof s else s
        ok [.list ((events s).map encEv), encPhase s.phase, .int s.got]
      | _, _, _ => err "bad-run"
    | [.atom "spec", c, b] =>
      match decCfg c, b.byteNats? with
      | some cfg, some inp =>
        let (rs, tl) := Spec.readAll cfg inp
        ok [.list (rs.map encReq), encTail tl]
      | _, _ => err "bad-spec"
    | [.atom "reqline", b] =>
      match b.byteNats? with
      | some l => match parseRequestLine l with
        | some (m, t, v) => ok [.list [encB m, encB t, encB v]]
        | none => ok [rej]
      | none => err "bad-arg"
    | [.atom "head", b] =>
      match b.byteNats? with
      | some l => match parseHead l with
        | some ((m, t, v), h) => ok [.list [encB m, encB t, encB v, encPairs (hAll h)]]
        | none => ok [rej]
      | none => err "bad-arg"
    | [.atom "framing", lim, b] =>
      match lim.nat?, b.byteNats? with
      | some limit, some l => match parseHead l with
        | some (_, h) => match bodyKind limit h with
          | some k => ok [encKind k]
          | none => ok [rej]
        | none => ok [.atom "bad-head"]
      | _, _ => err "bad-arg"
    | [.atom "host", b] =>
      match b.byteNats? with
      | some l => match parseHead l with
        | some ((_, _, v), h) => match hostCheck v h with
          | some x => ok [encB x]
          | none => ok [rej]
        | none => ok [.atom "bad-head"]
      | none => err "bad-arg"
    | _ => err "bad-cmd"

end TornadoModel.C01.Drv
