/- C01 — helper lemmas (core Lean only) -/
import TornadoModel.C01.Spec
namespace TornadoModel.C01

/-! ### splitting at a separator -/

theorem splitAt1_some {sep : Nat} {l a b : Str} (h : splitAt1 sep l = some (a, b)) :
    l = a ++ sep :: b ∧ sep ∉ a := by
  induction l generalizing a b with
  | nil => simp [splitAt1] at h
  | cons c cs ih =>
    unfold splitAt1 at h
    split at h
    · next hc => cases h; simp [hc]
    · next hc =>
      cases hr : splitAt1 sep cs with
      | none => simp [hr] at h
      | some p =>
        obtain ⟨a', b'⟩ := p
        simp [hr] at h
        obtain ⟨rfl, rfl⟩ := h
        obtain ⟨h1, h2⟩ := ih hr
        refine ⟨by simp [h1], ?_⟩
        simp only [List.mem_cons, not_or]
        exact ⟨fun e => hc e.symm, h2⟩

theorem splitAt1_app {sep : Nat} {a b : Str} (h : sep ∉ a) : splitAt1 sep (a ++ sep :: b) = some (a, b) := by
  induction a with
  | nil => simp [splitAt1]
  | cons c cs ih =>
    simp only [List.mem_cons, not_or] at h
    have hc : ¬ c = sep := fun e => h.1 e.symm
    simp [splitAt1, hc, ih h.2]

theorem tchar_ne_sp {c : Nat} (h : isTchar c = true) : c ≠ cSp := by
  intro e; subst e; revert h; decide

theorem fieldVchar_ne_sp {c : Nat} (h : isFieldVchar c = true) : c ≠ cSp := by
  intro e; subst e; revert h; decide

theorem token_no_sp {m : Str} (h : isToken m = true) : cSp ∉ m := by
  simp only [isToken, Bool.and_eq_true, List.all_eq_true] at h
  intro hm
  exact tchar_ne_sp (h.2 _ hm) rfl

theorem target_no_sp {t : Str} (h : isTarget t = true) : cSp ∉ t := by
  simp only [isTarget, Bool.and_eq_true, List.all_eq_true] at h
  intro hm
  exact fieldVchar_ne_sp (h.2 _ hm) rfl


/-! ### searching the read buffer -/

theorem headEndHere_some {b : Str} {n : Nat} (h : headEndHere b = some n) : 2 ≤ n ∧ n ≤ b.length := by
  unfold headEndHere at h
  split at h <;> simp_all <;> omega

theorem headEndHere_app {b : Str} {n : Nat} (c : Str) (h : headEndHere b = some n) :
    headEndHere (b ++ c) = some n := by
  unfold headEndHere at h
  split at h <;> simp_all [headEndHere]

theorem headEndHere_long {b : Str} (c : Str) (h : 3 ≤ b.length) : headEndHere (b ++ c) = headEndHere b := by
  match b, h with
  | x :: y :: z :: r, _ =>
    simp only [List.cons_append]
    unfold headEndHere
    split <;> split <;> simp_all

theorem findHeadEnd_bounds {b : Str} {k : Nat} (h : findHeadEnd b = some k) : 2 ≤ k ∧ k ≤ b.length := by
  induction b generalizing k with
  | nil => simp [findHeadEnd] at h
  | cons x xs ih =>
    unfold findHeadEnd at h
    split at h
    · next n hn =>
      cases h
      exact headEndHere_some hn
    · next hn =>
      cases hr : findHeadEnd xs with
      | none => simp [hr] at h
      | some k' =>
        simp [hr] at h
        have := ih hr
        simp only [List.length_cons]
        omega

theorem findHeadEnd_app {b : Str} {k : Nat} (c : Str) (h : findHeadEnd b = some k) :
    findHeadEnd (b ++ c) = some k := by
  induction b generalizing k with
  | nil => simp [findHeadEnd] at h
  | cons x xs ih =>
    unfold findHeadEnd at h
    simp only [List.cons_append]
    unfold findHeadEnd
    split at h
    · next n hn =>
      cases h
      have := headEndHere_app c hn
      simp only [List.cons_append] at this
      simp [this]
    · next hn =>
      cases hr : findHeadEnd xs with
      | none => simp [hr] at h
      | some k' =>
        simp [hr] at h
        have hb := findHeadEnd_bounds hr
        have hl : 3 ≤ (x :: xs).length := by simp only [List.length_cons]; omega
        have := headEndHere_long c hl
        simp only [List.cons_append] at this
        rw [this, hn]
        simp [ih hr, h]

/-- a match that only appears after more bytes arrived ends beyond the old buffer -/
theorem findHeadEnd_new {b c : Str} {k : Nat} (h0 : findHeadEnd b = none) (h : findHeadEnd (b ++ c) = some k) :
    b.length < k := by
  induction b generalizing k with
  | nil => have := findHeadEnd_bounds h; simp; omega
  | cons x xs ih =>
    unfold findHeadEnd at h0
    simp only [List.cons_append] at h
    unfold findHeadEnd at h
    split at h0
    · simp at h0
    · next hn0 =>
      cases hr0 : findHeadEnd xs with
      | some k' => simp [hr0] at h0
      | none =>
        split at h
        · next n hn =>
          cases h
          -- the local match uses bytes of c, so it ends beyond the old buffer
          have hb := headEndHere_some hn
          by_cases hl : 3 ≤ (x :: xs).length
          · have := headEndHere_long c hl
            simp only [List.cons_append] at this
            rw [this, hn0] at hn; cases hn
          · simp only [List.length_cons] at hl ⊢
            -- xs has at most one element
            rcases xs with _ | ⟨y, _ | ⟨z, r⟩⟩
            · simp; omega
            · simp only [List.length_cons, List.length_nil]
              have : k ≠ 2 := by
                intro e; subst e
                unfold headEndHere at hn hn0
                simp only [List.cons_append, List.nil_append] at hn
                split at hn <;> simp_all [headEndHere]
              omega
            · simp only [List.length_cons] at hl; omega
        · next hn =>
          cases hr : findHeadEnd (xs ++ c) with
          | none => simp [hr] at h
          | some k' =>
            simp [hr] at h
            have := ih hr0 hr
            simp only [List.length_cons]; omega

theorem crlfHere_app {b : Str} (c : Str) (h : crlfHere b = true) : crlfHere (b ++ c) = true := by
  unfold crlfHere at h
  split at h <;> simp_all [crlfHere]

theorem crlfHere_long {b : Str} (c : Str) (h : 2 ≤ b.length) : crlfHere (b ++ c) = crlfHere b := by
  match b, h with
  | x :: y :: r, _ =>
    simp only [List.cons_append]
    unfold crlfHere
    split <;> split <;> simp_all

theorem findCrlf_bounds {b : Str} {l : Nat} (h : findCrlf b = some l) : l + 2 ≤ b.length := by
  induction b generalizing l with
  | nil => simp [findCrlf] at h
  | cons x xs ih =>
    unfold findCrlf at h
    split at h
    · next hc =>
      cases h
      unfold crlfHere at hc
      split at hc <;> simp_all
    · cases hr : findCrlf xs with
      | none => simp [hr] at h
      | some l' =>
        simp [hr] at h
        have := ih hr
        simp only [List.length_cons]; omega

theorem findCrlf_app {b : Str} {l : Nat} (c : Str) (h : findCrlf b = some l) : findCrlf (b ++ c) = some l := by
  induction b generalizing l with
  | nil => simp [findCrlf] at h
  | cons x xs ih =>
    unfold findCrlf at h
    simp only [List.cons_append]
    unfold findCrlf
    split at h
    · next hc =>
      cases h
      have := crlfHere_app c hc
      simp only [List.cons_append] at this
      simp [this]
    · next hc =>
      cases hr : findCrlf xs with
      | none => simp [hr] at h
      | some l' =>
        simp [hr] at h
        have hb := findCrlf_bounds hr
        have hl : 2 ≤ (x :: xs).length := by simp only [List.length_cons]; omega
        have := crlfHere_long c hl
        simp only [List.cons_append] at this
        rw [this]
        simp [hc, ih hr, h]

theorem findCrlf_new {b c : Str} {l : Nat} (h0 : findCrlf b = none) (h : findCrlf (b ++ c) = some l) :
    b.length < l + 2 := by
  induction b generalizing l with
  | nil => simp
  | cons x xs ih =>
    unfold findCrlf at h0
    simp only [List.cons_append] at h
    unfold findCrlf at h
    split at h0
    · simp at h0
    · next hc0 =>
      cases hr0 : findCrlf xs with
      | some l' => simp [hr0] at h0
      | none =>
        split at h
        · next hc =>
          cases h
          by_cases hl : 2 ≤ (x :: xs).length
          · have := crlfHere_long c hl
            simp only [List.cons_append] at this
            rw [this] at hc; exact absurd hc hc0
          · simp only [List.length_cons] at hl ⊢; omega
        · cases hr : findCrlf (xs ++ c) with
          | none => simp [hr] at h
          | some l' =>
            simp [hr] at h
            have := ih hr0 hr
            simp only [List.length_cons]; omega


/-! ### the machine: buffer bookkeeping -/

@[simp] theorem emit_buf (s : St) (es : List Ev) : (s.emit es).buf = s.buf := rfl
@[simp] theorem emit_phase (s : St) (es : List Ev) : (s.emit es).phase = s.phase := rfl
@[simp] theorem emit_ka (s : St) (es : List Ev) : (s.emit es).ka = s.ka := rfl
@[simp] theorem reject400_buf (s : St) (r : Bool) : (reject400 s r).buf = [] := rfl
@[simp] theorem reject400_phase (s : St) (r : Bool) : (reject400 s r).phase = .closed := rfl
@[simp] theorem closeSilent_buf (s : St) (r : Bool) : (closeSilent s r).buf = [] := rfl
@[simp] theorem closeSilent_phase (s : St) (r : Bool) : (closeSilent s r).phase = .closed := rfl
@[simp] theorem deliver_buf (s : St) (b : Str) : (s.deliver b).buf = s.buf := rfl
@[simp] theorem deliver_phase (s : St) (b : Str) : (s.deliver b).phase = s.phase := rfl
@[simp] theorem takeBody_buf (s : St) (k : Nat) : (takeBody s k).buf = s.buf.drop k := rfl

theorem finishReq_buf_le (s : St) : (finishReq s).buf.length ≤ s.buf.length := by
  unfold finishReq
  by_cases h : s.ka = true <;> simp [h]

theorem startBody_buf_le (s : St) (k : Option BodyKind) : (startBody s k).buf.length ≤ s.buf.length := by
  unfold startBody
  split
  · simp
  · exact finishReq_buf_le s
  · exact finishReq_buf_le s
  · exact Nat.le_refl _
  · exact Nat.le_refl _

theorem onHead_buf_le (cfg : Cfg) (s : St) (blk : Str) : (onHead cfg s blk).buf.length ≤ s.buf.length := by
  unfold onHead
  split
  · simp
  · split
    · simp
    · split
      · simp
      · unfold startReq
        exact startBody_buf_le _ _

theorem step_nil {cfg : Cfg} {s : St} (h : s.buf = []) : step cfg s = none := by
  unfold step
  split <;> simp [stepHeaders, stepFixed, stepChunkSize, stepChunkData, stepChunkCrlf, stepLastCrlf, h,
    findHeadEnd, findCrlf]

theorem stepHeaders_lt {cfg : Cfg} {s s' : St} (h : stepHeaders cfg s = some s') :
    s'.buf.length < s.buf.length := by
  unfold stepHeaders at h
  cases hk : findHeadEnd s.buf with
  | some k =>
    simp only [hk] at h
    have hb := findHeadEnd_bounds hk
    by_cases hm : k > cfg.maxHeader
    · simp only [hm, if_true, Option.some.injEq] at h
      subst h; simp; omega
    · simp only [hm, if_false, Option.some.injEq] at h
      subst h
      have := onHead_buf_le cfg { s with buf := s.buf.drop k } (s.buf.take k)
      simp only [List.length_drop] at this
      omega
  | none =>
    simp only [hk] at h
    by_cases hm : s.buf.length > cfg.maxHeader
    · simp only [hm, if_true, Option.some.injEq] at h
      subst h; simp; omega
    · simp [hm] at h

theorem stepFixed_lt {s s' : St} {rem : Nat} (h : stepFixed s rem = some s') : s'.buf.length < s.buf.length := by
  unfold stepFixed at h
  by_cases hc : (s.buf.isEmpty || rem == 0) = true
  · simp [hc] at h
  · simp only [hc] at h
    simp only [Bool.or_eq_true, List.isEmpty_iff, beq_iff_eq, not_or] at hc
    have hl : 0 < s.buf.length := List.length_pos_iff.mpr hc.1
    by_cases hr : rem ≤ s.buf.length
    · simp only [hr, if_true, Bool.false_eq_true, if_false, Option.some.injEq] at h
      subst h
      have := finishReq_buf_le (takeBody s rem)
      simp only [takeBody_buf, List.length_drop] at this
      omega
    · simp only [hr, if_false, Bool.false_eq_true, Option.some.injEq] at h
      subst h; simp; omega

theorem stepChunkData_lt {s s' : St} {rem total : Nat} (h : stepChunkData s rem total = some s') :
    s'.buf.length < s.buf.length := by
  unfold stepChunkData at h
  by_cases hc : (s.buf.isEmpty || rem == 0) = true
  · simp [hc] at h
  · simp only [hc] at h
    simp only [Bool.or_eq_true, List.isEmpty_iff, beq_iff_eq, not_or] at hc
    have hl : 0 < s.buf.length := List.length_pos_iff.mpr hc.1
    by_cases hr : rem ≤ s.buf.length
    · simp only [hr, if_true, Bool.false_eq_true, if_false, Option.some.injEq] at h
      subst h; simp; omega
    · simp only [hr, if_false, Bool.false_eq_true, Option.some.injEq] at h
      subst h; simp; omega

theorem stepChunkSize_lt {s s' : St} {total : Nat} (h : stepChunkSize s total = some s') :
    s'.buf.length < s.buf.length := by
  unfold stepChunkSize at h
  cases hk : findCrlf s.buf with
  | some loc =>
    simp only [hk] at h
    have hb := findCrlf_bounds hk
    by_cases hm : loc + 2 > chunkLineMax
    · simp only [hm, if_true, Option.some.injEq] at h
      subst h; simp; omega
    · simp only [hm, if_false] at h
      cases hp : parseHexInt (s.buf.take loc) with
      | none => simp only [hp, Option.some.injEq] at h; subst h; simp; omega
      | some n =>
        cases n with
        | zero => simp only [hp, Option.some.injEq] at h; subst h; simp; omega
        | succ n =>
          simp only [hp] at h
          by_cases hl : total + (n + 1) > s.limit
          · simp only [hl, if_true, Option.some.injEq] at h; subst h; simp; omega
          · simp only [hl, if_false, Option.some.injEq] at h; subst h; simp; omega
  | none =>
    simp only [hk] at h
    by_cases hm : s.buf.length > chunkLineMax
    · simp only [hm, if_true, Option.some.injEq] at h
      subst h; simp; omega
    · simp [hm] at h

theorem stepChunkCrlf_lt {s s' : St} {total : Nat} (h : stepChunkCrlf s total = some s') :
    s'.buf.length < s.buf.length := by
  unfold stepChunkCrlf at h
  rcases hb : s.buf with _ | ⟨a, _ | ⟨b, rest⟩⟩
  · simp [hb] at h
  · simp [hb] at h
  · simp only [hb] at h
    by_cases hc : a = 13 ∧ b = 10
    · simp only [hc, and_self, if_true, Option.some.injEq] at h; subst h; simp; omega
    · simp only [hc, if_false, Option.some.injEq] at h; subst h; simp

theorem stepLastCrlf_lt {s s' : St} (h : stepLastCrlf s = some s') : s'.buf.length < s.buf.length := by
  unfold stepLastCrlf at h
  rcases hb : s.buf with _ | ⟨a, _ | ⟨b, rest⟩⟩
  · simp [hb] at h
  · simp [hb] at h
  · simp only [hb] at h
    by_cases hc : a = 13 ∧ b = 10
    · simp only [hc, and_self, if_true, Option.some.injEq] at h; subst h
      have := finishReq_buf_le { s with buf := rest }
      simp only [List.length_cons] at this ⊢
      omega
    · simp only [hc, if_false, Option.some.injEq] at h; subst h; simp

theorem step_lt {cfg : Cfg} {s s' : St} (h : step cfg s = some s') : s'.buf.length < s.buf.length := by
  unfold step at h
  cases hp : s.phase with
  | headers => simp only [hp] at h; exact stepHeaders_lt h
  | fixed rem => simp only [hp] at h; exact stepFixed_lt h
  | chunkSize total => simp only [hp] at h; exact stepChunkSize_lt h
  | chunkData rem total => simp only [hp] at h; exact stepChunkData_lt h
  | chunkCrlf total => simp only [hp] at h; exact stepChunkCrlf_lt h
  | lastCrlf => simp only [hp] at h; exact stepLastCrlf_lt h
  | closed => simp [hp] at h

theorem drainF_fuel (cfg : Cfg) : ∀ (n m : Nat) (s : St), s.buf.length < n → s.buf.length < m →
    drainF cfg n s = drainF cfg m s := by
  intro n
  induction n with
  | zero => intro m s h; omega
  | succ n ih =>
    intro m s hn hm
    cases m with
    | zero => omega
    | succ m =>
      unfold drainF
      cases hs : step cfg s with
      | none => rfl
      | some s' =>
        have := step_lt hs
        exact ih m s' (by omega) (by omega)

/-- `drain` satisfies the fuel-free unfolding equation -/
theorem drain_unfold' (cfg : Cfg) (s : St) :
    drain cfg s = match step cfg s with
      | none => s
      | some s' => drain cfg s' := by
  cases hs : step cfg s with
  | none => simp [drain, drainF, hs]
  | some s' =>
    have hlt := step_lt hs
    have e : drainF cfg (s.buf.length + 1) s = drainF cfg s.buf.length s' := by
      rw [drainF]; simp only [hs]
    show drainF cfg (s.buf.length + 1) s = drainF cfg (s'.buf.length + 1) s'
    rw [e]
    exact drainF_fuel cfg _ _ s' (by omega) (by omega)

theorem drain_of_none {cfg : Cfg} {s : St} (h : step cfg s = none) : drain cfg s = s := by
  rw [drain_unfold', h]

theorem drain_of_some {cfg : Cfg} {s s' : St} (h : step cfg s = some s') : drain cfg s = drain cfg s' := by
  rw [drain_unfold', h]

/-- after `drain` the coroutine is blocked -/
theorem step_drain (cfg : Cfg) (s : St) : step cfg (drain cfg s) = none := by
  generalize hn : s.buf.length = n
  induction n using Nat.strongRecOn generalizing s with
  | _ n ih =>
    cases hs : step cfg s with
    | none => rw [drain_of_none hs]; exact hs
    | some s' =>
      rw [drain_of_some hs]
      exact ih _ (by have := step_lt hs; omega) s' rfl


/-! ### appending to the read buffer -/

theorem app_of_closed {s : St} (c : Str) (h : s.phase = .closed) : s.app c = s := by
  simp [St.app, h]

theorem app_of_open {s : St} (c : Str) (h : s.phase ≠ .closed) : s.app c = { s with buf := s.buf ++ c } := by
  cases hp : s.phase <;> simp_all [St.app]

theorem app_nil (s : St) : s.app [] = s := by
  obtain ⟨ph, bf, ix, lm, ka, gt, out⟩ := s
  cases ph <;> simp [St.app]

theorem app_app (s : St) (a b : Str) : (s.app a).app b = s.app (a ++ b) := by
  cases hp : s.phase <;> simp [St.app, hp]

@[simp] theorem app_phase (s : St) (c : Str) : (s.app c).phase = s.phase := by
  cases hp : s.phase <;> simp [St.app, hp]

theorem pushEv_data_data (r : List Ev) (i : Nat) (a b : Str) :
    pushEv (pushEv r (.data i a)) (.data i b) = pushEv r (.data i (a ++ b)) := by
  cases r with
  | nil => simp [pushEv]
  | cons e r' =>
    cases e <;> simp [pushEv]
    next j x =>
      by_cases hij : i = j
      · subst hij; simp [pushEv]
      · simp [hij, pushEv]

theorem finishReq_app {s : St} (c : Str) (h : s.phase ≠ .closed) : finishReq (s.app c) = (finishReq s).app c := by
  obtain ⟨ph, bf, ix, lm, ka, gt, out⟩ := s
  cases ph <;> cases ka <;> simp_all [St.app, finishReq, St.emit]

theorem reject400_app (s : St) (r : Bool) (c : Str) : reject400 (s.app c) r = (reject400 s r).app c := by
  obtain ⟨ph, bf, ix, lm, ka, gt, out⟩ := s
  cases ph <;> cases r <;> simp [St.app, reject400, St.emit]

theorem closeSilent_app (s : St) (r : Bool) (c : Str) : closeSilent (s.app c) r = (closeSilent s r).app c := by
  obtain ⟨ph, bf, ix, lm, ka, gt, out⟩ := s
  cases ph <;> cases r <;> simp [St.app, closeSilent, St.emit]

theorem reject400_app_self (s : St) (r : Bool) (c : Str) : (reject400 s r).app c = reject400 s r :=
  app_of_closed c rfl

theorem closeSilent_app_self (s : St) (r : Bool) (c : Str) : (closeSilent s r).app c = closeSilent s r :=
  app_of_closed c rfl

theorem startBody_app {s : St} (c : Str) (k : Option BodyKind) (h : s.phase ≠ .closed) :
    startBody (s.app c) k = (startBody s k).app c := by
  unfold startBody
  split
  · exact reject400_app s true c
  · exact finishReq_app c h
  · exact finishReq_app c h
  · rw [app_of_open c h, app_of_open c (by simp)]
  · rw [app_of_open c h, app_of_open c (by simp)]

theorem onHead_app {cfg : Cfg} {s : St} (c blk : Str) (h : s.phase ≠ .closed) :
    onHead cfg (s.app c) blk = (onHead cfg s blk).app c := by
  unfold onHead
  split
  · exact reject400_app s false c
  · split
    · exact reject400_app s false c
    · split
      · exact reject400_app s true c
      · unfold startReq
        rw [← startBody_app c _ (by simpa using h)]
        rw [app_of_open c h, app_of_open c (by simpa using h)]
        rfl

theorem stepHeaders_app {cfg : Cfg} {s s' : St} (c : Str) (hp : s.phase = .headers)
    (h : stepHeaders cfg s = some s') : stepHeaders cfg (s.app c) = some (s'.app c) := by
  have hop : s.phase ≠ .closed := by simp [hp]
  rw [app_of_open c hop]
  unfold stepHeaders at h ⊢
  simp only []
  cases hk : findHeadEnd s.buf with
  | some k =>
    simp only [hk] at h
    have hb := findHeadEnd_bounds hk
    rw [findHeadEnd_app c hk]
    by_cases hm : k > cfg.maxHeader
    · simp only [hm, if_true, Option.some.injEq] at h ⊢
      subst h
      rw [app_of_closed c (by simp)]; rfl
    · simp only [hm, if_false, Option.some.injEq] at h ⊢
      subst h
      rw [List.take_append_of_le_length hb.2, List.drop_append_of_le_length hb.2]
      rw [← onHead_app c _ (by simpa using hop)]
      rw [app_of_open c (by simpa using hop)]
  | none =>
    simp only [hk] at h
    by_cases hm : s.buf.length > cfg.maxHeader
    · simp only [hm, if_true, Option.some.injEq] at h
      subst h
      rw [app_of_closed c (by simp)]
      cases hk2 : findHeadEnd (s.buf ++ c) with
      | some k =>
        have := findHeadEnd_new hk hk2
        have hm2 : k > cfg.maxHeader := by omega
        simp only [hm2, if_true]; rfl
      | none =>
        have hm2 : (s.buf ++ c).length > cfg.maxHeader := by simp only [List.length_append]; omega
        simp only [hm2, if_true]; rfl
    · simp [hm] at h

theorem stepChunkSize_app {s s' : St} {total : Nat} (c : Str) (hp : s.phase = .chunkSize total)
    (h : stepChunkSize s total = some s') : stepChunkSize (s.app c) total = some (s'.app c) := by
  have hop : s.phase ≠ .closed := by simp [hp]
  rw [app_of_open c hop]
  unfold stepChunkSize at h ⊢
  simp only []
  cases hk : findCrlf s.buf with
  | some loc =>
    simp only [hk] at h
    have hb := findCrlf_bounds hk
    rw [findCrlf_app c hk]
    by_cases hm : loc + 2 > chunkLineMax
    · simp only [hm, if_true, Option.some.injEq] at h ⊢
      subst h
      rw [app_of_closed c (by simp)]; rfl
    · simp only [hm, if_false] at h ⊢
      rw [List.take_append_of_le_length (by omega), List.drop_append_of_le_length (by omega)]
      cases hx : parseHexInt (s.buf.take loc) with
      | none =>
        simp only [hx, Option.some.injEq] at h ⊢; subst h
        rw [app_of_closed c (by simp)]; rfl
      | some n =>
        cases n with
        | zero =>
          simp only [hx, Option.some.injEq] at h ⊢; subst h
          rw [app_of_open c (by simp)]
        | succ n =>
          simp only [hx] at h ⊢
          by_cases hl : total + (n + 1) > s.limit
          · simp only [hl, if_true, Option.some.injEq] at h ⊢; subst h
            rw [app_of_closed c (by simp)]; rfl
          · simp only [hl, if_false, Option.some.injEq] at h ⊢; subst h
            rw [app_of_open c (by simp)]
  | none =>
    simp only [hk] at h
    by_cases hm : s.buf.length > chunkLineMax
    · simp only [hm, if_true, Option.some.injEq] at h
      subst h
      rw [app_of_closed c (by simp)]
      cases hk2 : findCrlf (s.buf ++ c) with
      | some l =>
        have := findCrlf_new hk hk2
        have hm2 : l + 2 > chunkLineMax := by omega
        simp only [hm2, if_true]; rfl
      | none =>
        have hm2 : (s.buf ++ c).length > chunkLineMax := by simp only [List.length_append]; omega
        simp only [hm2, if_true]; rfl
    · simp [hm] at h

theorem stepChunkCrlf_app {s s' : St} {total : Nat} (c : Str) (hp : s.phase = .chunkCrlf total)
    (h : stepChunkCrlf s total = some s') : stepChunkCrlf (s.app c) total = some (s'.app c) := by
  have hop : s.phase ≠ .closed := by simp [hp]
  rw [app_of_open c hop]
  unfold stepChunkCrlf at h ⊢
  rcases hb : s.buf with _ | ⟨a, _ | ⟨b, rest⟩⟩
  · simp [hb] at h
  · simp [hb] at h
  · simp only [hb, List.cons_append] at h ⊢
    by_cases hc : a = 13 ∧ b = 10
    · simp only [hc, and_self, if_true, Option.some.injEq] at h ⊢; subst h
      rw [app_of_open c (by simp)]
    · simp only [hc, if_false, Option.some.injEq] at h ⊢; subst h
      rw [app_of_closed c (by simp)]; rfl

theorem stepLastCrlf_app {s s' : St} (c : Str) (hp : s.phase = .lastCrlf)
    (h : stepLastCrlf s = some s') : stepLastCrlf (s.app c) = some (s'.app c) := by
  have hop : s.phase ≠ .closed := by simp [hp]
  rw [app_of_open c hop]
  unfold stepLastCrlf at h ⊢
  rcases hb : s.buf with _ | ⟨a, _ | ⟨b, rest⟩⟩
  · simp [hb] at h
  · simp [hb] at h
  · simp only [hb, List.cons_append] at h ⊢
    by_cases hc : a = 13 ∧ b = 10
    · simp only [hc, and_self, if_true, Option.some.injEq] at h ⊢; subst h
      rw [← finishReq_app c (by simpa using hop), app_of_open c (by simpa using hop)]
    · simp only [hc, if_false, Option.some.injEq] at h ⊢; subst h
      rw [app_of_closed c (by simp)]; rfl


/-! ### body data: partial reads merge -/

theorem takeBody_app {s : St} (c : Str) {k : Nat} (h : s.phase ≠ .closed) (hk : k ≤ s.buf.length) :
    takeBody (s.app c) k = (takeBody s k).app c := by
  rw [app_of_open c h, app_of_open c (by simpa [takeBody] using h)]
  simp only [takeBody, St.deliver]
  rw [List.take_append_of_le_length hk, List.drop_append_of_le_length hk]

/-- delivering the buffered part first and the rest later = delivering both at once (all fields but `phase`) -/
theorem takeBody_merge (s : St) (c : Str) (k : Nat) (p1 p2 : Phase) (hk : s.buf.length ≤ k) :
    { takeBody { s with buf := s.buf ++ c } k with phase := p2 }
      = { takeBody { (takeBody s s.buf.length) with buf := c, phase := p1 } (k - s.buf.length) with phase := p2 } := by
  obtain ⟨ph, bf, ix, lm, ka, gt, out⟩ := s
  simp only [takeBody, St.deliver, List.take_length]
  have e1 : List.take k (bf ++ c) = bf ++ List.take (k - bf.length) c := by
    rw [List.take_append, List.take_of_length_le hk]
  have e2 : List.drop k (bf ++ c) = List.drop (k - bf.length) c := by
    rw [List.drop_append, List.drop_eq_nil_of_le hk, List.nil_append]
  rw [e1, e2, pushEv_data_data]
  simp only [List.length_append, Nat.add_assoc]

theorem finishReq_setphase (s : St) (p : Phase) : finishReq { s with phase := p } = finishReq s := by
  unfold finishReq
  by_cases hk : s.ka = true <;> simp [hk, St.emit]


theorem stepFixed_app {cfg : Cfg} {s s' : St} {rem : Nat} (c : Str) (hc : c ≠ []) (hp : s.phase = .fixed rem)
    (h : stepFixed s rem = some s') :
    step cfg (s.app c) = some (s'.app c) ∨
      (s'.buf = [] ∧ step cfg (s'.app c) ≠ none ∧ step cfg (s.app c) = step cfg (s'.app c)) := by
  have hop : s.phase ≠ .closed := by simp [hp]
  unfold stepFixed at h
  by_cases h0 : (s.buf.isEmpty || rem == 0) = true
  · simp [h0] at h
  · simp only [h0, Bool.false_eq_true, if_false] at h
    simp only [Bool.or_eq_true, List.isEmpty_iff, beq_iff_eq, not_or] at h0
    by_cases hr : rem ≤ s.buf.length
    · -- the whole rest of the body was buffered: same step, `c` stays behind
      left
      simp only [hr, if_true, Option.some.injEq] at h; subst h
      have e : step cfg (s.app c) = stepFixed (s.app c) rem := by simp [step, hp]
      rw [e, app_of_open c hop]
      unfold stepFixed
      have hne : ((s.buf ++ c).isEmpty || rem == 0) = false := by simp [h0.1, h0.2]
      have hr' : rem ≤ (s.buf ++ c).length := by simp only [List.length_append]; omega
      simp only [hne, Bool.false_eq_true, if_false, hr', if_true]
      rw [← app_of_open c hop, takeBody_app c hop hr, finishReq_app c (by simpa [takeBody] using hop)]
    · -- partial delivery: the later bytes join the same `data` event
      right
      simp only [hr, if_false, Option.some.injEq] at h; subst h
      have e : step cfg (s.app c) = stepFixed (s.app c) rem := by simp [step, hp]
      have e' : ∀ x : St, x.phase = .fixed (rem - s.buf.length) → step cfg x = stepFixed x (rem - s.buf.length) := by
        intro x hx; simp [step, hx]
      have hne1 : ((s.buf ++ c).isEmpty || rem == 0) = false := by simp [h0.1, h0.2]
      have hne2 : (c.isEmpty || rem - s.buf.length == 0) = false := by
        simp only [Bool.or_eq_false_iff, List.isEmpty_eq_false_iff, beq_eq_false_iff_ne]
        exact ⟨hc, by omega⟩
      refine ⟨by simp, ?_, ?_⟩
      · rw [e' _ (by simp), app_of_open c (by simp)]
        unfold stepFixed
        simp only [takeBody_buf, List.drop_length, List.nil_append, hne2, Bool.false_eq_true, if_false]
        split <;> simp
      rw [e, e' _ (by simp), app_of_open c hop, app_of_open c (by simp)]
      unfold stepFixed
      simp only [takeBody_buf, List.drop_length, List.nil_append, hne1, hne2, Bool.false_eq_true, if_false,
        List.length_append]
      have hle : s.buf.length ≤ rem := by omega
      by_cases hr2 : rem ≤ s.buf.length + c.length
      · have hr3 : rem - s.buf.length ≤ c.length := by omega
        simp only [hr2, hr3, if_true]
        rw [← finishReq_setphase (takeBody _ rem) .headers, ← finishReq_setphase (takeBody _ (rem - s.buf.length)) .headers]
        have := takeBody_merge s c rem (.fixed (rem - s.buf.length)) .headers hle
        simp only [takeBody_buf, List.drop_length, List.nil_append] at this ⊢
        rw [this]
      · have hr3 : ¬ rem - s.buf.length ≤ c.length := by omega
        simp only [hr2, hr3, if_false]
        have := takeBody_merge s c (s.buf.length + c.length) (.fixed (rem - s.buf.length))
          (.fixed (rem - (s.buf.length + c.length))) (by omega)
        simp only [takeBody_buf, List.drop_length, List.nil_append, Nat.add_sub_cancel_left] at this ⊢
        rw [show rem - s.buf.length - c.length = rem - (s.buf.length + c.length) by omega]
        rw [this]


theorem stepChunkData_app {cfg : Cfg} {s s' : St} {rem total : Nat} (c : Str) (hc : c ≠ [])
    (hp : s.phase = .chunkData rem total) (h : stepChunkData s rem total = some s') :
    step cfg (s.app c) = some (s'.app c) ∨
      (s'.buf = [] ∧ step cfg (s'.app c) ≠ none ∧ step cfg (s.app c) = step cfg (s'.app c)) := by
  have hop : s.phase ≠ .closed := by simp [hp]
  unfold stepChunkData at h
  by_cases h0 : (s.buf.isEmpty || rem == 0) = true
  · simp [h0] at h
  · simp only [h0, Bool.false_eq_true, if_false] at h
    simp only [Bool.or_eq_true, List.isEmpty_iff, beq_iff_eq, not_or] at h0
    by_cases hr : rem ≤ s.buf.length
    · left
      simp only [hr, if_true, Option.some.injEq] at h; subst h
      have e : step cfg (s.app c) = stepChunkData (s.app c) rem total := by simp [step, hp]
      rw [e, app_of_open c hop]
      unfold stepChunkData
      have hne : ((s.buf ++ c).isEmpty || rem == 0) = false := by simp [h0.1, h0.2]
      have hr' : rem ≤ (s.buf ++ c).length := by simp only [List.length_append]; omega
      simp only [hne, Bool.false_eq_true, if_false, hr', if_true]
      rw [← app_of_open c hop, takeBody_app c hop hr, app_of_open c (by simpa [takeBody] using hop),
        app_of_open c (by simp)]
    · right
      simp only [hr, if_false, Option.some.injEq] at h; subst h
      have e : step cfg (s.app c) = stepChunkData (s.app c) rem total := by simp [step, hp]
      have e' : ∀ x : St, x.phase = .chunkData (rem - s.buf.length) total →
          step cfg x = stepChunkData x (rem - s.buf.length) total := by
        intro x hx; simp [step, hx]
      have hne1 : ((s.buf ++ c).isEmpty || rem == 0) = false := by simp [h0.1, h0.2]
      have hne2 : (c.isEmpty || rem - s.buf.length == 0) = false := by
        simp only [Bool.or_eq_false_iff, List.isEmpty_eq_false_iff, beq_eq_false_iff_ne]
        exact ⟨hc, by omega⟩
      refine ⟨by simp, ?_, ?_⟩
      · rw [e' _ (by simp), app_of_open c (by simp)]
        unfold stepChunkData
        simp only [takeBody_buf, List.drop_length, List.nil_append, hne2, Bool.false_eq_true, if_false]
        split <;> simp
      rw [e, e' _ (by simp), app_of_open c hop, app_of_open c (by simp)]
      unfold stepChunkData
      simp only [takeBody_buf, List.drop_length, List.nil_append, hne1, hne2, Bool.false_eq_true, if_false,
        List.length_append]
      have hle : s.buf.length ≤ rem := by omega
      by_cases hr2 : rem ≤ s.buf.length + c.length
      · have hr3 : rem - s.buf.length ≤ c.length := by omega
        simp only [hr2, hr3, if_true]
        have := takeBody_merge s c rem (.chunkData (rem - s.buf.length) total) (.chunkCrlf total) hle
        simp only [takeBody_buf, List.drop_length, List.nil_append] at this ⊢
        rw [this]
      · have hr3 : ¬ rem - s.buf.length ≤ c.length := by omega
        simp only [hr2, hr3, if_false]
        have := takeBody_merge s c (s.buf.length + c.length) (.chunkData (rem - s.buf.length) total)
          (.chunkData (rem - (s.buf.length + c.length)) total) (by omega)
        simp only [takeBody_buf, List.drop_length, List.nil_append, Nat.add_sub_cancel_left] at this ⊢
        rw [show rem - s.buf.length - c.length = rem - (s.buf.length + c.length) by omega]
        rw [this]

/-- one step survives later arrivals: either it is literally the same step, or it was a partial body delivery whose
    continuation merges with it -/
theorem step_app {cfg : Cfg} {s s' : St} (c : Str) (h : step cfg s = some s') :
    step cfg (s.app c) = some (s'.app c) ∨
      (s'.buf = [] ∧ step cfg (s'.app c) ≠ none ∧ step cfg (s.app c) = step cfg (s'.app c)) := by
  by_cases hc : c = []
  · subst hc; left; rw [app_nil, app_nil]; exact h
  · have hs := h
    unfold step at h
    cases hp : s.phase with
    | headers =>
      simp only [hp] at h; left
      have := stepHeaders_app c hp h
      simpa [step, hp] using this
    | fixed rem => simp only [hp] at h; exact stepFixed_app c hc hp h
    | chunkSize total =>
      simp only [hp] at h; left
      have := stepChunkSize_app c hp h
      simpa [step, hp] using this
    | chunkData rem total => simp only [hp] at h; exact stepChunkData_app c hc hp h
    | chunkCrlf total =>
      simp only [hp] at h; left
      have := stepChunkCrlf_app c hp h
      simpa [step, hp] using this
    | lastCrlf =>
      simp only [hp] at h; left
      have := stepLastCrlf_app c hp h
      simpa [step, hp] using this
    | closed => simp [hp] at h

/-- draining, then receiving `c`, then draining = receiving `c` first -/
theorem drain_app (cfg : Cfg) (s : St) (c : Str) : drain cfg (s.app c) = drain cfg ((drain cfg s).app c) := by
  generalize hn : s.buf.length = n
  induction n using Nat.strongRecOn generalizing s with
  | _ n ih =>
    cases hs : step cfg s with
    | none => rw [drain_of_none hs]
    | some s' =>
      have hlt := step_lt hs
      rw [drain_of_some hs]
      rcases step_app c hs with hL | ⟨hnil, hsome, hR⟩
      · rw [drain_of_some hL]
        exact ih _ (by omega) s' rfl
      · rw [drain_of_none (step_nil hnil)]
        cases hq : step cfg (s'.app c) with
        | none => exact absurd hq hsome
        | some t => rw [drain_of_some (hR.trans hq), drain_of_some hq]

theorem feed_append' (cfg : Cfg) (s : St) (a b : Str) : feed cfg (feed cfg s a) b = feed cfg s (a ++ b) := by
  unfold feed
  rw [← app_app, drain_app cfg (s.app a) b]

theorem feed_nil' (cfg : Cfg) (s : St) (h : step cfg s = none) : feed cfg s [] = s := by
  unfold feed; rw [app_nil, drain_of_none h]

theorem step_feed (cfg : Cfg) (s : St) (a : Str) : step cfg (feed cfg s a) = none := step_drain cfg _

theorem run_eq_feed (cfg : Cfg) (s : St) (segs : List Str) (h : step cfg s = none) :
    run cfg s segs = feed cfg s segs.flatten := by
  induction segs generalizing s with
  | nil => simp [run, feed_nil' cfg s h]
  | cons a rest ih =>
    simp only [run, List.flatten_cons]
    rw [ih _ (step_feed cfg s a), feed_append']


/-! ### no step ever records an uncaught exception -/

theorem unc_pushEv {r : List Ev} {e : Ev} (h : Ev.uncaught ∈ pushEv r e) : Ev.uncaught ∈ r ∨ e = .uncaught := by
  unfold pushEv at h
  split at h
  · split at h <;> simp_all
  · simp only [List.mem_cons] at h
    rcases h with h | h
    · right; exact h.symm
    · left; exact h

theorem unc_emit (s : St) (es : List Ev) (hes : Ev.uncaught ∉ es) (h : Ev.uncaught ∈ (s.emit es).out) :
    Ev.uncaught ∈ s.out := by
  unfold St.emit at h
  simp only at h
  induction es generalizing s with
  | nil => exact h
  | cons e es ih =>
    simp only [List.foldl_cons] at h
    simp only [List.mem_cons, not_or] at hes
    have := ih { s with out := pushEv s.out e } hes.2 h
    rcases unc_pushEv this with h1 | h1
    · exact h1
    · exact absurd h1.symm hes.1

theorem unc_deliver (s : St) (b : Str) (h : Ev.uncaught ∈ (s.deliver b).out) : Ev.uncaught ∈ s.out := by
  rcases unc_pushEv (show Ev.uncaught ∈ pushEv s.out (.data (s.idx - 1) b) from h) with h1 | h1
  · exact h1
  · cases h1

theorem unc_reject400 (s : St) (r : Bool) (h : Ev.uncaught ∈ (reject400 s r).out) : Ev.uncaught ∈ s.out :=
  unc_emit s _ (by cases r <;> simp) h

theorem unc_closeSilent (s : St) (r : Bool) (h : Ev.uncaught ∈ (closeSilent s r).out) : Ev.uncaught ∈ s.out :=
  unc_emit s _ (by cases r <;> simp) h

theorem unc_finishReq (s : St) (h : Ev.uncaught ∈ (finishReq s).out) : Ev.uncaught ∈ s.out := by
  unfold finishReq at h
  by_cases hk : s.ka = true
  · simp only [hk, if_true] at h; exact unc_emit s _ (by simp) h
  · simp only [hk, if_false] at h; exact unc_emit s _ (by simp) h

theorem unc_startBody (s : St) (k : Option BodyKind) (h : Ev.uncaught ∈ (startBody s k).out) : Ev.uncaught ∈ s.out := by
  unfold startBody at h
  split at h
  · exact unc_reject400 s true h
  · exact unc_finishReq s h
  · exact unc_finishReq s h
  · exact h
  · exact h

theorem unc_onHead (cfg : Cfg) (s : St) (blk : Str) (h : Ev.uncaught ∈ (onHead cfg s blk).out) : Ev.uncaught ∈ s.out := by
  unfold onHead at h
  split at h
  · exact unc_reject400 s false h
  · split at h
    · exact unc_reject400 s false h
    · split at h
      · exact unc_reject400 s true h
      · unfold startReq at h
        have := unc_startBody _ _ h
        exact unc_emit _ _ (by split <;> simp) this

theorem unc_takeBody (s : St) (k : Nat) (h : Ev.uncaught ∈ (takeBody s k).out) : Ev.uncaught ∈ s.out :=
  unc_deliver s _ h

theorem unc_step {cfg : Cfg} {s s' : St} (hs : step cfg s = some s') (h : Ev.uncaught ∈ s'.out) : Ev.uncaught ∈ s.out := by
  unfold step at hs
  cases hp : s.phase with
  | headers =>
    simp only [hp, stepHeaders] at hs
    split at hs
    · split at hs
      · cases hs; exact unc_closeSilent s false h
      · cases hs; have := unc_onHead cfg _ _ h; exact this
    · split at hs
      · cases hs; exact unc_closeSilent s false h
      · cases hs
  | fixed rem =>
    simp only [hp, stepFixed] at hs
    split at hs
    · cases hs
    · split at hs
      · cases hs; exact unc_takeBody s _ (unc_finishReq _ h)
      · cases hs; exact unc_takeBody s _ h
  | chunkSize total =>
    simp only [hp, stepChunkSize] at hs
    split at hs
    · split at hs
      · cases hs; exact unc_closeSilent s true h
      · split at hs
        · cases hs; exact unc_reject400 s true h
        · cases hs; exact h
        · split at hs
          · cases hs; exact unc_reject400 s true h
          · cases hs; exact h
    · split at hs
      · cases hs; exact unc_closeSilent s true h
      · cases hs
  | chunkData rem total =>
    simp only [hp, stepChunkData] at hs
    split at hs
    · cases hs
    · split at hs
      · cases hs; exact unc_takeBody s _ h
      · cases hs; exact unc_takeBody s _ h
  | chunkCrlf total =>
    simp only [hp, stepChunkCrlf] at hs
    split at hs
    · split at hs
      · cases hs; exact h
      · cases hs; exact unc_reject400 s true h
    · cases hs
  | lastCrlf =>
    simp only [hp, stepLastCrlf] at hs
    split at hs
    · split at hs
      · cases hs; have := unc_finishReq _ h; exact this
      · cases hs; exact unc_reject400 s true h
    · cases hs
  | closed => simp [hp] at hs

theorem unc_drain (cfg : Cfg) (s : St) : Ev.uncaught ∈ (drain cfg s).out → Ev.uncaught ∈ s.out := by
  generalize hn : s.buf.length = n
  induction n using Nat.strongRecOn generalizing s with
  | _ n ih =>
    intro h
    cases hs : step cfg s with
    | none => rw [drain_of_none hs] at h; exact h
    | some s' =>
      rw [drain_of_some hs] at h
      exact unc_step hs (ih _ (by have := step_lt hs; omega) s' rfl h)

theorem unc_app (s : St) (c : Str) (h : Ev.uncaught ∈ (s.app c).out) : Ev.uncaught ∈ s.out := by
  by_cases hp : s.phase = .closed
  · rw [app_of_closed c hp] at h; exact h
  · rw [app_of_open c hp] at h; exact h

theorem unc_run (cfg : Cfg) (s : St) (segs : List Str) (h : Ev.uncaught ∈ (run cfg s segs).out) : Ev.uncaught ∈ s.out := by
  induction segs generalizing s with
  | nil => exact h
  | cons a rest ih => exact unc_app s a (unc_drain cfg _ (ih _ h))

end TornadoModel.C01
