/-
C01 — helper lemmas for the chunked round trip and for machine = batch reader:
hex encoder/decoder, `decodeChunks (encodeChunks cs) = cs.flatten`, and "the machine follows `decodeChunks`".
-/
import TornadoModel.C01.Lemmas
namespace TornadoModel.C01
open Spec

/-! ### hex -/

theorem hexDigit_isHex {d : Nat} (h : d < 16) : isHexDigit (hexDigit d) = true := by
  have : ∀ d < 16, isHexDigit (hexDigit d) = true := by decide
  exact this d h

theorem hexDigitVal_hexDigit {d : Nat} (h : d < 16) : hexDigitVal (hexDigit d) = d := by
  have : ∀ d < 16, hexDigitVal (hexDigit d) = d := by decide
  exact this d h

theorem hexVal_snoc (s : Str) (c : Nat) : hexVal (s ++ [c]) = hexVal s * 16 + hexDigitVal c := by
  simp [hexVal, List.foldl_append]

theorem toHexF_all (f n : Nat) : (toHexF f n).all isHexDigit = true := by
  induction f generalizing n with
  | zero => rfl
  | succ f ih =>
    unfold toHexF
    split
    · next h => simp [hexDigit_isHex h]
    · have h2 : n % 16 < 16 := Nat.mod_lt _ (by omega)
      simp [List.all_append, ih, hexDigit_isHex h2]

theorem toHexF_ne_nil (f n : Nat) : toHexF (f + 1) n ≠ [] := by
  unfold toHexF
  split <;> simp

theorem hexVal_toHexF (f n : Nat) (h : n < f) : hexVal (toHexF f n) = n := by
  induction f generalizing n with
  | zero => omega
  | succ f ih =>
    unfold toHexF
    split
    · next h1 => simp [hexVal, hexDigitVal_hexDigit h1]
    · next h1 =>
      have h2 : n % 16 < 16 := Nat.mod_lt _ (by omega)
      rw [hexVal_snoc, ih (n / 16) (by omega), hexDigitVal_hexDigit h2]
      omega

theorem toHexF_length (f n k : Nat) (hk : 1 ≤ k) (h : n < 16 ^ k) : (toHexF f n).length ≤ k := by
  induction f generalizing n k with
  | zero => simp [toHexF]
  | succ f ih =>
    unfold toHexF
    split
    · simpa using hk
    · next h1 =>
      obtain ⟨k', rfl⟩ : ∃ k', k = k' + 1 := ⟨k - 1, by omega⟩
      have hk' : 1 ≤ k' := by
        rcases Nat.eq_zero_or_pos k' with rfl | hp
        · simp at h; omega
        · exact hp
      have : n / 16 < 16 ^ k' := by
        rw [Nat.div_lt_iff_lt_mul (by omega)]
        rw [Nat.pow_succ] at h
        exact h
      have := ih (n / 16) k' hk' this
      simp only [List.length_append, List.length_singleton]
      omega

theorem toHex_all (n : Nat) : (toHex n).all isHexDigit = true := toHexF_all _ _
theorem toHex_ne_nil (n : Nat) : toHex n ≠ [] := toHexF_ne_nil _ _
theorem hexVal_toHex (n : Nat) : hexVal (toHex n) = n := hexVal_toHexF _ _ (by omega)
theorem toHex_length {n k : Nat} (hk : 1 ≤ k) (h : n < 16 ^ k) : (toHex n).length ≤ k := toHexF_length _ _ _ hk h

/-- the decoder inverts the encoder on every natural number -/
theorem parseHexInt_toHex (n : Nat) : parseHexInt (toHex n) = some n := by
  unfold parseHexInt
  have h1 : (toHex n).isEmpty = false := by
    cases h : toHex n with
    | nil => exact absurd h (toHex_ne_nil n)
    | cons _ _ => rfl
  simp [h1, toHex_all, hexVal_toHex]

theorem findCrlf_hex (l r : Str) (h : l.all isHexDigit = true) : findCrlf (l ++ 13 :: 10 :: r) = some l.length := by
  induction l with
  | nil => simp [findCrlf, crlfHere]
  | cons c cs ih =>
    simp only [List.all_cons, Bool.and_eq_true] at h
    have hc : c ≠ 13 := by
      intro e; subst e; exact absurd h.1 (by decide)
    have : crlfHere (c :: (cs ++ 13 :: 10 :: r)) = false := by
      unfold crlfHere
      split
      · next heq => simp at heq; exact absurd heq.1 hc
      · rfl
    simp [findCrlf, this, ih h.2]

/-! ### the batch decoder on an encoded chunk list -/

theorem decodeChunks_last (limit fuel total : Nat) (rest : Str) :
    decodeChunks limit (fuel + 1) total (48 :: 13 :: 10 :: 13 :: 10 :: rest) = .ok [] rest := by
  have h1 : findCrlf (48 :: 13 :: 10 :: 13 :: 10 :: rest) = some 1 := by simp [findCrlf, crlfHere]
  have h2 : parseHexInt [48] = some 0 := by decide
  simp [decodeChunks, h1, chunkLineMax, h2]

theorem decodeChunks_chunk (limit fuel total n : Nat) (hx d rest : Str)
    (hhex : hx.all isHexDigit = true) (hlen : hx.length + 2 ≤ chunkLineMax)
    (hv : parseHexInt hx = some (n + 1)) (hd : d.length = n + 1) (hfit : total + (n + 1) ≤ limit) :
    decodeChunks limit (fuel + 1) total (hx ++ 13 :: 10 :: (d ++ 13 :: 10 :: rest))
      = (decodeChunks limit fuel (total + (n + 1)) rest).prepend d := by
  have h1 := findCrlf_hex hx (d ++ 13 :: 10 :: rest) hhex
  have h2 : ¬ hx.length + 2 > chunkLineMax := by omega
  have h3 : ¬ total + (n + 1) > limit := by omega
  have h4 : List.take hx.length (hx ++ 13 :: 10 :: (d ++ 13 :: 10 :: rest)) = hx := by simp
  have h5 : List.drop (hx.length + 2) (hx ++ 13 :: 10 :: (d ++ 13 :: 10 :: rest)) = d ++ 13 :: 10 :: rest := by
    rw [← List.drop_drop]; simp
  have h6 : ¬ (d ++ 13 :: 10 :: rest).length < n + 1 := by simp; omega
  have h7 : List.take (n + 1) (d ++ 13 :: 10 :: rest) = d := by rw [← hd]; simp
  have h8 : List.drop (n + 1) (d ++ 13 :: 10 :: rest) = 13 :: 10 :: rest := by rw [← hd]; simp
  rw [decodeChunks]
  simp only [h1, h2, h4, h5, hv, h3, h6, h7, h8, if_false]

/-- **batch round trip**: the strict chunked decoder inverts the encoder on every list of non-empty chunks whose
    size lines fit the 64-byte line limit and whose total stays within the body limit -/
theorem decodeChunks_encodeChunks (limit : Nat) (cs : List Str) (rest : Str) :
    ∀ (fuel total : Nat), cs.length < fuel → (∀ c ∈ cs, c ≠ [] ∧ c.length < 16 ^ 62) →
      total + cs.flatten.length ≤ limit →
      decodeChunks limit fuel total (encodeChunks cs ++ rest) = .ok cs.flatten rest := by
  induction cs with
  | nil =>
    intro fuel total hf _ _
    obtain ⟨f, rfl⟩ : ∃ f, fuel = f + 1 := ⟨fuel - 1, by simp at hf; omega⟩
    exact decodeChunks_last limit f total rest
  | cons c cs ih =>
    intro fuel total hf hall hfit
    obtain ⟨f, rfl⟩ : ∃ f, fuel = f + 1 := ⟨fuel - 1, by simp at hf; omega⟩
    have hc := hall c (by simp)
    obtain ⟨n, hn⟩ : ∃ n, c.length = n + 1 := by
      cases c with
      | nil => exact absurd rfl hc.1
      | cons a as => exact ⟨as.length, rfl⟩
    simp only [List.flatten_cons, List.length_append] at hfit
    have hl : (toHex c.length).length + 2 ≤ chunkLineMax := by
      have := toHex_length (n := c.length) (k := 62) (by omega) hc.2
      simp [chunkLineMax]; omega
    have e : encodeChunks (c :: cs) ++ rest
        = toHex c.length ++ 13 :: 10 :: (c ++ 13 :: 10 :: (encodeChunks cs ++ rest)) := by
      simp [encodeChunks]
    rw [e, decodeChunks_chunk limit f total n (toHex c.length) c _ (toHex_all _) hl
      (by rw [parseHexInt_toHex, hn]) hn (by omega)]
    rw [ih f (total + (n + 1)) (by simp at hf; omega) (fun x hx => hall x (by simp [hx])) (by omega)]
    simp [CRes.prepend]

/-! ### the machine follows the batch decoder -/

/-- the trace after `data_received(b)` pieces summing to `b` (nothing when there was no data) -/
def dataOut (r : List Ev) (i : Nat) (b : Str) : List Ev := if b = [] then r else pushEv r (.data i b)

/-- the state in which a message whose body `body` has been delivered completely finishes (rest of the buffer `rest`) -/
def bodyDone (s : St) (body rest : Str) : St :=
  finishReq { s with buf := rest, got := s.got + body.length, out := dataOut s.out (s.idx - 1) body }

theorem finishReq_congr {s t : St} (hb : s.buf = t.buf) (hi : s.idx = t.idx) (hl : s.limit = t.limit)
    (hk : s.ka = t.ka) (hg : s.got = t.got) (ho : s.out = t.out) : finishReq s = finishReq t := by
  obtain ⟨p1, b1, i1, l1, k1, g1, o1⟩ := s
  obtain ⟨p2, b2, i2, l2, k2, g2, o2⟩ := t
  simp only at hb hi hl hk hg ho
  subst hb hi hl hk hg ho
  cases k1 <;> simp [finishReq, St.emit]

theorem bodyDone_congr {s t : St} {b1 b2 r : Str} (hi : s.idx = t.idx) (hl : s.limit = t.limit)
    (hk : s.ka = t.ka) (hg : s.got + b1.length = t.got + b2.length)
    (ho : dataOut s.out (s.idx - 1) b1 = dataOut t.out (t.idx - 1) b2) : bodyDone s b1 r = bodyDone t b2 r :=
  finishReq_congr rfl hi hl hk hg ho

theorem dataOut_push (r : List Ev) (i : Nat) (d b : Str) (hd : d ≠ []) :
    dataOut (pushEv r (.data i d)) i b = dataOut r i (d ++ b) := by
  unfold dataOut
  by_cases hb : b = []
  · subst hb; simp [hd]
  · simp [hb, hd, pushEv_data_data]

/-- one complete chunk in the buffer: size line, data, CRLF are consumed by three resumptions -/
theorem drain_chunk (cfg : Cfg) (s : St) (total loc n : Nat) (d rest : Str)
    (hp : s.phase = .chunkSize total) (hloc : findCrlf s.buf = some loc) (hshort : ¬ loc + 2 > chunkLineMax)
    (hsz : parseHexInt (s.buf.take loc) = some (n + 1)) (hfit : ¬ total + (n + 1) > s.limit)
    (hr0 : s.buf.drop (loc + 2) = d ++ 13 :: 10 :: rest) (hd : d.length = n + 1) :
    drain cfg s = drain cfg { (s.deliver d) with buf := rest, phase := .chunkSize (total + (n + 1)) } := by
  have s1 : step cfg s = some { s with buf := d ++ 13 :: 10 :: rest, phase := .chunkData (n + 1) (total + (n + 1)) } := by
    simp [step, hp, stepChunkSize, hloc, hshort, hsz, hfit, hr0]
  rw [drain_of_some s1]
  have hne : d ≠ [] := by
    intro e; rw [e] at hd; simp at hd
  have s2 : step cfg { s with buf := d ++ 13 :: 10 :: rest, phase := .chunkData (n + 1) (total + (n + 1)) }
      = some { (s.deliver d) with buf := 13 :: 10 :: rest, phase := .chunkCrlf (total + (n + 1)) } := by
    have h1 : n + 1 ≤ (d ++ 13 :: 10 :: rest).length := by simp; omega
    have h2 : (d ++ 13 :: 10 :: rest).take (n + 1) = d := List.take_left' hd
    have h3 : (d ++ 13 :: 10 :: rest).drop (n + 1) = 13 :: 10 :: rest := List.drop_left' hd
    have h4 : (d ++ 13 :: 10 :: rest).isEmpty = false := by
      cases d with
      | nil => exact absurd rfl hne
      | cons _ _ => rfl
    simp only [step, stepChunkData, h4, takeBody, h2, h3, if_pos h1]
    simp [St.deliver]
  rw [drain_of_some s2]
  have s3 : step cfg { (s.deliver d) with buf := 13 :: 10 :: rest, phase := .chunkCrlf (total + (n + 1)) }
      = some { (s.deliver d) with buf := rest, phase := .chunkSize (total + (n + 1)) } := by
    simp [step, stepChunkCrlf]
  rw [drain_of_some s3]

/-- **the machine follows the batch decoder**: whenever the strict decoder extracts a complete body from the buffer,
    the machine (started at a size line with the same running total and limit) delivers exactly that body, merged into
    one `data` event, and finishes the request with exactly the decoder's rest in the buffer -/
theorem drain_decode_ok (cfg : Cfg) : ∀ (fuel total : Nat) (s : St) (body rest : Str),
    s.phase = .chunkSize total → decodeChunks s.limit fuel total s.buf = .ok body rest →
    drain cfg s = drain cfg (bodyDone s body rest) := by
  intro fuel
  induction fuel with
  | zero => intro total s body rest _ h; simp [decodeChunks] at h
  | succ fuel ih =>
    intro total s body rest hp h
    simp only [decodeChunks] at h
    cases hloc : findCrlf s.buf with
    | none => simp only [hloc] at h; split at h <;> cases h
    | some loc =>
      simp only [hloc] at h
      by_cases hlong : loc + 2 > chunkLineMax
      · rw [if_pos hlong] at h; cases h
      · rw [if_neg hlong] at h
        generalize hr0 : s.buf.drop (loc + 2) = r0 at h
        cases hsz : parseHexInt (s.buf.take loc) with
        | none => simp only [hsz] at h; cases h
        | some sz =>
          cases sz with
          | zero =>
            simp only [hsz] at h
            have s1 : step cfg s = some { s with buf := r0, phase := .lastCrlf } := by
              simp [step, hp, stepChunkSize, hloc, hlong, hsz, hr0]
            rw [drain_of_some s1]
            split at h
            case _ rest' =>
              cases h
              have s2 : step cfg { s with buf := 13 :: 10 :: rest, phase := .lastCrlf }
                  = some (finishReq { s with buf := rest, phase := .lastCrlf }) := by
                simp [step, stepLastCrlf]
              rw [drain_of_some s2]
              congr 1
            all_goals cases h
          | succ n =>
            simp only [hsz] at h
            by_cases hbig : total + (n + 1) > s.limit
            · rw [if_pos hbig] at h; cases h
            · rw [if_neg hbig] at h
              by_cases hlen : r0.length < n + 1
              · rw [if_pos hlen] at h; cases h
              · rw [if_neg hlen] at h
                split at h
                case _ rest' heq =>
                  have hd : (r0.take (n + 1)).length = n + 1 := by rw [List.length_take]; omega
                  have hsplit : r0 = r0.take (n + 1) ++ 13 :: 10 :: rest' := by
                    rw [← heq, List.take_append_drop]
                  rw [drain_chunk cfg s total loc n (r0.take (n + 1)) rest' hp hloc hlong hsz hbig
                    (hr0.trans hsplit) hd]
                  cases hrec : decodeChunks s.limit fuel (total + (n + 1)) rest' with
                  | bad p => rw [hrec] at h; cases h
                  | more p => rw [hrec] at h; cases h
                  | ok b r =>
                    rw [hrec] at h
                    simp only [CRes.prepend, CRes.ok.injEq] at h
                    obtain ⟨rfl, rfl⟩ := h
                    have hne : r0.take (n + 1) ≠ [] := by
                      intro e; rw [e] at hd; simp at hd
                    rw [ih (total + (n + 1)) _ b r rfl hrec]
                    congr 1
                    refine bodyDone_congr (s := { (s.deliver (r0.take (n + 1))) with
                        buf := rest', phase := .chunkSize (total + (n + 1)) }) (t := s) rfl rfl rfl ?_ ?_
                    · simp only [St.deliver, List.length_append]; omega
                    · exact dataOut_push _ _ _ _ hne
                all_goals cases h

/-! ### a whole chunked request through the machine -/

/-- the state after the head of a chunked request has been accepted (`rest` = what follows the head) -/
def afterHead (cfg : Cfg) (m t v : Str) (h : Hdrs) (ka : Bool) (rest : Str) : St :=
  { (({ init with buf := rest, idx := 1, ka := ka, limit := effLimit cfg 0, got := 0 } : St).emit
      (if hGet h kExpect = some k100Continue then [.req m t v (hAll h), .w100] else [.req m t v (hAll h)]))
    with phase := .chunkSize 0 }

theorem step_head_chunked (cfg : Cfg) (head rest m t v : Str) (h : Hdrs) (ka : Bool) (host : Str)
    (hend : findHeadEnd head = some head.length) (hfit : head.length ≤ cfg.maxHeader)
    (hparse : parseHead head = some ((m, t, v), h))
    (hka : canKeepAlive cfg.noKeepAlive m v h = some ka) (hhost : hostCheck v h = some host)
    (hbk : bodyKind (effLimit cfg 0) h = some .chunked) :
    step cfg { init with buf := head ++ rest } = some (afterHead cfg m t v h ka rest) := by
  have hfe : findHeadEnd (head ++ rest) = some head.length := findHeadEnd_app rest hend
  have hk : ¬ head.length > cfg.maxHeader := by omega
  simp only [step, init, stepHeaders, hfe, hk, if_false, List.take_left', List.drop_left', onHead, hparse, hka, hhost,
    startReq, hbk, startBody, afterHead]

theorem run_chunked_request (cfg : Cfg) (head m t v : Str) (h : Hdrs) (ka : Bool) (host : Str) (cs : List Str)
    (hend : findHeadEnd head = some head.length) (hfit : head.length ≤ cfg.maxHeader)
    (hparse : parseHead head = some ((m, t, v), h))
    (hka : canKeepAlive cfg.noKeepAlive m v h = some ka) (hhost : hostCheck v h = some host)
    (hbk : bodyKind (effLimit cfg 0) h = some .chunked)
    (hne : ∀ c ∈ cs, c ≠ [] ∧ c.length < 16 ^ 62) (hlim : cs.flatten.length ≤ effLimit cfg 0) :
    run cfg init [head ++ encodeChunks cs] = bodyDone (afterHead cfg m t v h ka (encodeChunks cs)) cs.flatten [] := by
  have e1 : run cfg init [head ++ encodeChunks cs] = drain cfg { init with buf := head ++ encodeChunks cs } := by
    simp [run, feed, St.app, init]
  rw [e1, drain_of_some (step_head_chunked cfg head _ m t v h ka host hend hfit hparse hka hhost hbk)]
  have hdec : decodeChunks (afterHead cfg m t v h ka (encodeChunks cs)).limit ((encodeChunks cs).length + 1) 0
      (afterHead cfg m t v h ka (encodeChunks cs)).buf = .ok cs.flatten [] := by
    have := decodeChunks_encodeChunks (effLimit cfg 0) cs [] ((encodeChunks cs).length + 1) 0 ?_ hne (by omega)
    · show decodeChunks (effLimit cfg 0) _ 0 (encodeChunks cs) = _
      simpa using this
    · have : ∀ l : List Str, l.length < (encodeChunks l).length := by
        intro l
        induction l with
        | nil => simp [encodeChunks]
        | cons c l ih => simp [encodeChunks]; omega
      have := this cs
      omega
  rw [drain_decode_ok cfg _ 0 _ _ _ rfl hdec]
  apply drain_of_none
  apply step_nil
  unfold bodyDone finishReq
  split <;> rfl

theorem events_bodyDone_afterHead (cfg : Cfg) (m t v : Str) (h : Hdrs) (ka : Bool) (rest body rest' : Str) :
    events (bodyDone (afterHead cfg m t v h ka rest) body rest')
      = [.req m t v (hAll h)] ++ (if hGet h kExpect = some k100Continue then [.w100] else [])
        ++ (if body = [] then [] else [.data 0 body]) ++ [.fin, .w200] ++ (if ka = true then [] else [.closed]) := by
  unfold events bodyDone finishReq afterHead dataOut
  cases ka <;> by_cases he : hGet h kExpect = some k100Continue <;> by_cases hb : body = [] <;>
    simp [St.emit, pushEv, init, he, hb]

/-! ### concrete inputs for the non-vacuity examples in Props.lean -/

/-- the head `POST / HTTP/1.1␍␊Host:x␍␊Transfer-Encoding:chunked␍␊␍␊` -/
def postChunkedHead : Str :=
  [80, 79, 83, 84, 32, 47, 32, 72, 84, 84, 80, 47, 49, 46, 49, 13, 10, 72, 111, 115, 116, 58, 120, 13, 10,
   84, 114, 97, 110, 115, 102, 101, 114, 45, 69, 110, 99, 111, 100, 105, 110, 103, 58, 99, 104, 117, 110, 107, 101, 100,
   13, 10, 13, 10]

def postChunkedHdrs : Hdrs :=
  { m := [(kHost, [[120]]), (kTransferEncoding, [kChunked])], last := some kTransferEncoding }

/-- `GET / HTTP/1.1␍␊Host:x␍␊␍␊` -/
def getHead : Str := [71, 69, 84, 32, 47, 32, 72, 84, 84, 80, 47, 49, 46, 49, 13, 10, 72, 111, 115, 116, 58, 120, 13, 10, 13, 10]

end TornadoModel.C01
