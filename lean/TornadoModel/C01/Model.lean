/-
C01 / C04 — the server connection as a resumable machine over the stream's read buffer (core Lean only).

Anchors (tornado): `HTTP1ServerConnection._server_request_loop`, `HTTP1Connection._read_message`,
`_read_body`, `_read_fixed_body`, `_read_chunked_body`, the `except HTTPInputError` arm (400 + close), and the
lower layer `BaseIOStream.read_until_regex(b"\r?\n\r?\n", max_bytes=max_header_size)`,
`read_until(b"\r\n", max_bytes=64)`, `read_bytes(n, partial=True)`, `read_bytes(2)` as decided by
`_find_read_pos` / `_check_max_bytes` on the current read buffer.

The application side is the harness delegate: it answers every finished request at once with a bodiless 200 and
may call `set_max_body_size` in `headers_received` (the per-request override `Cfg.overrides`).

`feed s seg` = the bytes `seg` arrive and the connection coroutine runs until it blocks again.
The trace is kept newest-first in `St.out`; adjacent `data` deliveries of one request are merged when they are
pushed (the real code delivers whatever `read_bytes(partial=True)` returns, so the *cut points* of body data
depend on the segmentation, their concatenation does not).
-/
import TornadoModel.C01.Grammar
namespace TornadoModel.C01

structure Cfg where
  maxHeader : Nat := 65536          -- HTTP1ConnectionParameters.max_header_size
  maxBody : Nat := 104857600        -- max_body_size (or the stream's max_buffer_size)
  overrides : List (Option Nat) := []   -- request i ↦ `set_max_body_size` called by the delegate, if any
  noKeepAlive : Bool := false
  deriving Repr, BEq, DecidableEq

/-- `read_until(b"\r\n", max_bytes=64)` in `_read_chunked_body` -/
def chunkLineMax : Nat := 64

/-- effective body limit of request number `i` (0-based) -/
def effLimit (cfg : Cfg) (i : Nat) : Nat :=
  match cfg.overrides[i]? with
  | some (some n) => n
  | _ => cfg.maxBody

inductive Ev where
  | req (m t v : Str) (h : List (Str × Str))   -- headers_received accepted by the server layer (Host validated)
  | data (i : Nat) (b : Str)                    -- data_received for request number i
  | fin                                         -- delegate.finish()
  | w100                                        -- "HTTP/1.1 100 (Continue)" written
  | w200                                        -- the application's response written
  | w400                                        -- "HTTP/1.1 400 Bad Request" written
  | closed                                      -- the stream was closed
  | connClose                                   -- delegate.on_connection_close()
  | uncaught                                    -- an "Uncaught exception" ERROR record was logged
  deriving Repr, BEq, DecidableEq

inductive Phase where
  | headers                         -- read_until_regex pending
  | fixed (rem : Nat)               -- _read_fixed_body, rem > 0 bytes owed
  | chunkSize (total : Nat)         -- read_until("\r\n", 64) pending
  | chunkData (rem total : Nat)     -- inside a chunk, rem > 0
  | chunkCrlf (total : Nat)         -- read_bytes(2) after chunk data
  | lastCrlf                        -- read_bytes(2) after the 0-size chunk
  | closed
  deriving Repr, BEq, DecidableEq

structure St where
  phase : Phase := .headers
  buf : Str := []
  idx : Nat := 0          -- number of request heads accepted so far
  limit : Nat := 0        -- effective max_body_size of the current request
  ka : Bool := true       -- ¬ _disconnect_on_finish of the current request
  got : Nat := 0          -- body bytes handed to the delegate for the current request
  out : List Ev := []     -- trace, newest first
  deriving Repr, BEq, DecidableEq

def init : St := {}

/-- push one event; a `data` delivery is merged into an immediately preceding one of the same request -/
def pushEv (r : List Ev) (e : Ev) : List Ev :=
  match e, r with
  | .data i b, .data j a :: r' => if i = j then .data j (a ++ b) :: r' else .data i b :: .data j a :: r'
  | e, r => e :: r

def St.emit (s : St) (es : List Ev) : St := { s with out := es.foldl pushEv s.out }

/-- `delegate.data_received(b)` (b non-empty) -/
def St.deliver (s : St) (b : Str) : St :=
  { s with out := pushEv s.out (.data (s.idx - 1) b), got := s.got + b.length }

/-- `except HTTPInputError`: 400, close; `on_connection_close` if the delegate had seen the request start -/
def reject400 (s : St) (inReq : Bool) : St :=
  { (s.emit (if inReq then [.w400, .closed, .connClose] else [.w400, .closed])) with phase := .closed, buf := [] }

/-- `UnsatisfiableReadError`: the stream closes itself, nothing is written -/
def closeSilent (s : St) (inReq : Bool) : St :=
  { (s.emit (if inReq then [.closed, .connClose] else [.closed])) with phase := .closed, buf := [] }

/-- body complete: `delegate.finish()`, the application answers, `_finish_request` -/
def finishReq (s : St) : St :=
  if s.ka then { (s.emit [.fin, .w200]) with phase := .headers }
  else { (s.emit [.fin, .w200, .closed]) with phase := .closed, buf := [] }

/-- does a `\n\r?\n` start here?  its length -/
def headEndHere : Str → Option Nat
  | 10 :: 10 :: _ => some 2
  | 10 :: 13 :: 10 :: _ => some 3
  | _ => none

/-- end offset of the first match of `\r?\n\r?\n` = end of the first `\n\r?\n` -/
def findHeadEnd : Str → Option Nat
  | [] => none
  | c :: cs =>
    match headEndHere (c :: cs) with
    | some n => some n
    | none => (findHeadEnd cs).map (· + 1)

def crlfHere : Str → Bool
  | 13 :: 10 :: _ => true
  | _ => false

/-- start offset of the first CRLF -/
def findCrlf : Str → Option Nat
  | [] => none
  | c :: cs => if crlfHere (c :: cs) then some 0 else (findCrlf cs).map (· + 1)

/-- `_read_body` has decided (`none` = HTTPInputError) -/
def startBody (s : St) : Option BodyKind → St
  | none => reject400 s true
  | some .none => finishReq s
  | some (.fixed 0) => finishReq s
  | some (.fixed (n + 1)) => { s with phase := .fixed (n + 1) }
  | some .chunked => { s with phase := .chunkSize 0 }

/-- the head was accepted: `headers_received` (the delegate may override the body limit), `100 Continue`,
    then `_read_body` -/
def startReq (cfg : Cfg) (s : St) (m t v : Str) (h : Hdrs) (ka : Bool) : St :=
  startBody
    (({ s with idx := s.idx + 1, ka := ka, limit := effLimit cfg s.idx, got := 0 }).emit
      (if hGet h kExpect = some k100Continue then [.req m t v (hAll h), .w100] else [.req m t v (hAll h)]))
    (bodyKind (effLimit cfg s.idx) h)

/-- a complete header block has been read (`s.buf` is already what follows it) -/
def onHead (cfg : Cfg) (s : St) (block : Str) : St :=
  match parseHead block with
  | none => reject400 s false
  | some ((m, t, v), h) =>
    match canKeepAlive cfg.noKeepAlive m v h with
    | none => reject400 s false                 -- raised before `headers_received`
    | some ka =>
      match hostCheck v h with
      | none => reject400 s true                -- raised inside `headers_received`
      | some _ => startReq cfg s m t v h ka

def stepHeaders (cfg : Cfg) (s : St) : Option St :=
  match findHeadEnd s.buf with
  | some k =>
    if k > cfg.maxHeader then some (closeSilent s false)
    else some (onHead cfg { s with buf := s.buf.drop k } (s.buf.take k))
  | none => if s.buf.length > cfg.maxHeader then some (closeSilent s false) else none

/-- `data_received(first k buffered bytes)` -/
def takeBody (s : St) (k : Nat) : St := { (s.deliver (s.buf.take k)) with buf := s.buf.drop k }

/-- `read_bytes(min(chunk_size, rem), partial=True)`: whatever is buffered, at most `rem` -/
def stepFixed (s : St) (rem : Nat) : Option St :=
  if s.buf.isEmpty || rem == 0 then none      -- `fixed 0` is never entered (a zero Content-Length finishes at once)
  else if rem ≤ s.buf.length then some (finishReq (takeBody s rem))
  else some { (takeBody s s.buf.length) with phase := .fixed (rem - s.buf.length) }

def stepChunkSize (s : St) (total : Nat) : Option St :=
  match findCrlf s.buf with
  | some loc =>
    if loc + 2 > chunkLineMax then some (closeSilent s true)
    else
      match parseHexInt (s.buf.take loc) with
      | none => some (reject400 s true)
      | some 0 => some { s with buf := s.buf.drop (loc + 2), phase := .lastCrlf }
      | some (n + 1) =>
        if total + (n + 1) > s.limit then some (reject400 s true)
        else some { s with buf := s.buf.drop (loc + 2), phase := .chunkData (n + 1) (total + (n + 1)) }
  | none => if s.buf.length > chunkLineMax then some (closeSilent s true) else none

def stepChunkData (s : St) (rem total : Nat) : Option St :=
  if s.buf.isEmpty || rem == 0 then none      -- `chunkData 0 _` is never entered (a zero size is the last chunk)
  else if rem ≤ s.buf.length then some { (takeBody s rem) with phase := .chunkCrlf total }
  else some { (takeBody s s.buf.length) with phase := .chunkData (rem - s.buf.length) total }

/-- after the `fix:` commit a bad terminator after chunk data is an HTTPInputError (it was an `assert`) -/
def stepChunkCrlf (s : St) (total : Nat) : Option St :=
  match s.buf with
  | a :: b :: rest =>
    if a = 13 ∧ b = 10 then some { s with buf := rest, phase := .chunkSize total } else some (reject400 s true)
  | _ => none

def stepLastCrlf (s : St) : Option St :=
  match s.buf with
  | a :: b :: rest =>
    if a = 13 ∧ b = 10 then some (finishReq { s with buf := rest }) else some (reject400 s true)
  | _ => none

/-- one resumption of the coroutine: `none` = it blocks (needs more input) or the connection is closed -/
def step (cfg : Cfg) (s : St) : Option St :=
  match s.phase with
  | .headers => stepHeaders cfg s
  | .fixed rem => stepFixed s rem
  | .chunkSize total => stepChunkSize s total
  | .chunkData rem total => stepChunkData s rem total
  | .chunkCrlf total => stepChunkCrlf s total
  | .lastCrlf => stepLastCrlf s
  | .closed => none

def drainF (cfg : Cfg) : Nat → St → St
  | 0, s => s
  | f + 1, s =>
    match step cfg s with
    | none => s
    | some s' => drainF cfg f s'

/-- run until blocked; every step consumes at least one buffered byte, so `buf.length + 1` is enough fuel
    (`Lemmas.drain_unfold`) -/
def drain (cfg : Cfg) (s : St) : St := drainF cfg (s.buf.length + 1) s

/-- bytes reach the read buffer (a closed stream ignores them) -/
def St.app (s : St) (seg : Str) : St :=
  match s.phase with
  | .closed => s
  | _ => { s with buf := s.buf ++ seg }

/-- bytes arrive -/
def feed (cfg : Cfg) (s : St) (seg : Str) : St := drain cfg (s.app seg)

def run (cfg : Cfg) (s : St) : List Str → St
  | [] => s
  | seg :: segs => run cfg (feed cfg s seg) segs

/-- the peer closes its side (read returns 0): the stream closes; a request in progress is told so -/
def eof (s : St) : St :=
  match s.phase with
  | .closed => s
  | .headers => { (s.emit [.closed]) with phase := .closed, buf := [] }
  | _ => { (s.emit [.closed, .connClose]) with phase := .closed, buf := [] }

def events (s : St) : List Ev := s.out.reverse

end TornadoModel.C01
