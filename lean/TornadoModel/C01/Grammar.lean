/-
C01 — grammar level of the HTTP/1.x request reader (core Lean only).

Anchors (tornado): `httputil._ABNF` (token, field_value, request_target, HTTP_version, host),
`httputil.parse_request_start_line`, `HTTPHeaders.parse / parse_line / add`, `_normalize_header`,
`http1connection.HTTP1Connection._parse_headers`, `_read_body`, `_can_keep_alive`,
`is_transfer_encoding_chunked`, `parse_int`, `parse_hex_int`, `httputil.HTTPServerRequest.__init__`
(Host validation), `httputil.split_host_and_port`.

Wire bytes and the latin-1 decoded header text are both `List Nat` (every element < 256 on the wire).
-/
namespace TornadoModel.C01

abbrev Str := List Nat

def cSp : Nat := 32
def cTab : Nat := 9
def cLf : Nat := 10
def cCr : Nat := 13
def cColon : Nat := 58
def cComma : Nat := 44
def cDash : Nat := 45
def cPct : Nat := 37

def kContentLength : Str := [67, 111, 110, 116, 101, 110, 116, 45, 76, 101, 110, 103, 116, 104]
def kTransferEncoding : Str := [84, 114, 97, 110, 115, 102, 101, 114, 45, 69, 110, 99, 111, 100, 105, 110, 103]
def kConnection : Str := [67, 111, 110, 110, 101, 99, 116, 105, 111, 110]
def kHost : Str := [72, 111, 115, 116]
def kExpect : Str := [69, 120, 112, 101, 99, 116]
def kChunked : Str := [99, 104, 117, 110, 107, 101, 100]
def kClose : Str := [99, 108, 111, 115, 101]
def kKeepAlive : Str := [107, 101, 101, 112, 45, 97, 108, 105, 118, 101]
def k100Continue : Str := [49, 48, 48, 45, 99, 111, 110, 116, 105, 110, 117, 101]
def kHttp11 : Str := [72, 84, 84, 80, 47, 49, 46, 49]
def kHttp10 : Str := [72, 84, 84, 80, 47, 49, 46, 48]
def kLocalhost : Str := [49, 50, 55, 46, 48, 46, 48, 46, 49]
def kGET : Str := [71, 69, 84]
def kHEAD : Str := [72, 69, 65, 68]

/-! ### character classes -/

def isDigit (c : Nat) : Bool := 48 ≤ c && c ≤ 57
def isHexDigit (c : Nat) : Bool := isDigit c || (65 ≤ c && c ≤ 70) || (97 ≤ c && c ≤ 102)
def isAlnum (c : Nat) : Bool := isDigit c || (65 ≤ c && c ≤ 90) || (97 ≤ c && c ≤ 122)

/-- `_ABNF.tchar` -/
def isTchar (c : Nat) : Bool :=
  isAlnum c || [33, 35, 36, 37, 38, 39, 42, 43, 45, 46, 94, 95, 96, 124, 126].contains c

/-- `_ABNF.token.fullmatch` -/
def isToken (s : Str) : Bool := !s.isEmpty && s.all isTchar

/-- `_ABNF.field_vchar` = VCHAR | obs-text -/
def isFieldVchar (c : Nat) : Bool := (0x21 ≤ c && c ≤ 0x7E) || (0x80 ≤ c && c ≤ 0xFF)

/-- `_ABNF.field_value.fullmatch` -/
def isFieldValue (s : Str) : Bool :=
  match s with
  | [] => true
  | c :: cs =>
    isFieldVchar c && (c :: cs).all (fun x => isFieldVchar x || x = cSp || x = cTab)
      && isFieldVchar ((c :: cs).getLast?.getD c)

/-- `_ABNF.request_target.fullmatch` = `field_vchar+` -/
def isTarget (s : Str) : Bool := !s.isEmpty && s.all isFieldVchar

/-- `_ABNF.HTTP_version.fullmatch` = `HTTP/[0-9]\.[0-9]` -/
def isVersion (s : Str) : Bool :=
  match s with
  | [72, 84, 84, 80, 47, a, 46, b] => isDigit a && isDigit b
  | _ => false

/-- `HTTP_version` and `version.startswith("HTTP/1")` -/
def isVersion1x (s : Str) : Bool :=
  match s with
  | [72, 84, 84, 80, 47, 49, 46, b] => isDigit b
  | _ => false

def upperC (c : Nat) : Nat := if 97 ≤ c ∧ c ≤ 122 then c - 32 else c
def lowerC (c : Nat) : Nat := if 65 ≤ c ∧ c ≤ 90 then c + 32 else c
/-- `str.lower()` on latin-1 text, *as far as comparison with an ASCII constant goes* (non-ASCII letters never
    lower to ASCII ones below U+0100). -/
def lower (s : Str) : Str := s.map lowerC

def isWs (c : Nat) : Bool := c = cSp || c = cTab
def lstripWs (s : Str) : Str := s.dropWhile isWs
def rstripWs (s : Str) : Str := (s.reverse.dropWhile isWs).reverse
/-- `s.strip(" \t")` -/
def stripWs (s : Str) : Str := rstripWs (lstripWs s)

/-- `re` `\s` on a `str` restricted to code points < 256 -/
def isPySpace (c : Nat) : Bool := [9, 10, 11, 12, 13, 28, 29, 30, 31, 32, 133, 160].contains c

/-! ### splitting -/

/-- split at the first occurrence of `sep`: `some (before, after)`; `none` when absent. -/
def splitAt1 (sep : Nat) : Str → Option (Str × Str)
  | [] => none
  | c :: cs => if c = sep then some ([], cs) else (splitAt1 sep cs).map (fun (a, b) => (c :: a, b))

/-- `s.split(sep)` for a one-character separator: always at least one piece. -/
def splitOnC (sep : Nat) : Str → List Str
  | [] => [[]]
  | c :: cs =>
    if c = sep then [] :: splitOnC sep cs
    else match splitOnC sep cs with
      | [] => [[c]]          -- unreachable
      | w :: ws => (c :: w) :: ws

def joinWith (sep : Str) : List Str → Str
  | [] => []
  | [w] => w
  | w :: ws => w ++ sep ++ joinWith sep ws

/-! ### request line -/

/-- `parse_request_start_line`: `_ABNF.request_line.fullmatch` + `version.startswith("HTTP/1")`.
    Neither token, target nor version can contain a space, so the regex groups are the pieces between the
    first two spaces. -/
def parseRequestLine (l : Str) : Option (Str × Str × Str) :=
  match splitAt1 cSp l with
  | none => none
  | some (m, rest) =>
    match splitAt1 cSp rest with
    | none => none
    | some (t, v) =>
      if isToken m && isTarget t && isVersion1x v then some (m, t, v) else none

/-! ### header map (insertion ordered, normalised names; the `_combined_cache` is not observable here) -/

def capitalize : Str → Str
  | [] => []
  | c :: cs => upperC c :: cs.map lowerC

/-- `_normalize_header` (names are tokens, hence ASCII) -/
def normalize (name : Str) : Str := joinWith [cDash] ((splitOnC cDash name).map capitalize)

abbrev HMap := List (Str × List Str)

def dget (k : Str) : HMap → Option (List Str)
  | [] => none
  | (k', v) :: r => if k' = k then some v else dget k r

def dset (k : Str) (v : List Str) : HMap → HMap
  | [] => [(k, v)]
  | (k', v') :: r => if k' = k then (k', v) :: r else (k', v') :: dset k v r

structure Hdrs where
  m : HMap := []
  last : Option Str := none
  deriving Repr, BEq, DecidableEq

/-- `HTTPHeaders.add` -/
def hAdd (h : Hdrs) (name value : Str) : Option Hdrs :=
  if !isToken name || !isFieldValue value then none
  else
    let n := normalize name
    match dget n h.m with
    | some vs => some { m := dset n (vs ++ [value]) h.m, last := some n }
    | none => some { m := dset n [value] h.m, last := some n }

def appendToLast (vs : List Str) (part : Str) : List Str :=
  match vs.reverse with
  | [] => []
  | l :: r => r.reverse ++ [l ++ part]

/-- `HTTPHeaders.parse_line` on a line whose `\r?\n` terminator has already been removed -/
def hParseLine (h : Hdrs) (line : Str) : Option Hdrs :=
  match line with
  | [] => some h
  | c :: _ =>
    if isWs c then
      match h.last with
      | none => none
      | some k =>
        let body := stripWs line
        if !isFieldValue body then none
        else match dget k h.m with
          | none => none
          | some vs => some { h with m := dset k (appendToLast vs (cSp :: body)) h.m }
    else
      match splitAt1 cColon line with
      | none => none
      | some (name, value) => hAdd h name (stripWs value)

/-- one optional CR before the LF is dropped (`re.search(r"\r?\n$", line)`) -/
def dropOneCr (line : Str) : Str :=
  match line.reverse with
  | 13 :: r => r.reverse
  | _ => line

/-- `HTTPHeaders.parse(text)`: the text is cut at every LF. -/
def hParse (text : Str) : Option Hdrs :=
  (splitOnC cLf text).foldlM (fun acc l => hParseLine acc (dropOneCr l)) {}

/-- `get_all()` -/
def hAll (h : Hdrs) : List (Str × Str) := h.m.flatMap (fun (k, vs) => vs.map (fun v => (k, v)))
/-- `headers.get(name)` for an already normalised constant name -/
def hGet (h : Hdrs) (k : Str) : Option Str := (dget k h.m).map (joinWith [cComma])
def hHas (h : Hdrs) (k : Str) : Bool := (dget k h.m).isSome

/-! ### header block -/

def isCrLf (c : Nat) : Bool := c = cCr || c = cLf
def rstripCr (s : Str) : Str := (s.reverse.dropWhile (· = cCr)).reverse

/-- `_parse_headers` + `parse_request_start_line`: the block is everything up to and including the blank line.
    `none` = `HTTPInputError`. -/
def parseHead (block : Str) : Option ((Str × Str × Str) × Hdrs) :=
  let s := block.dropWhile isCrLf                 -- lstrip("\r\n")
  match splitAt1 cLf s with
  | none => none                                   -- only CR/LF: the start line is empty
  | some (first, rest) =>
    match parseRequestLine (rstripCr first) with
    | none => none
    | some sl =>
      match hParse rest with
      | none => none
      | some h => some (sl, h)

/-! ### numbers -/

def decVal (s : Str) : Nat := s.foldl (fun acc c => acc * 10 + (c - 48)) 0
def hexDigitVal (c : Nat) : Nat := if isDigit c then c - 48 else if c ≤ 70 then c - 55 else c - 87
def hexVal (s : Str) : Nat := s.foldl (fun acc c => acc * 16 + hexDigitVal c) 0

/-- CPython's `sys.int_max_str_digits` default: `int(s)` raises `ValueError` beyond it -/
def maxIntDigits : Nat := 4300

/-- `parse_int`: `[0-9]+` then `int(s)` (`none` = `ValueError`) -/
def parseInt (s : Str) : Option Nat :=
  if !s.isEmpty && s.all isDigit && s.length ≤ maxIntDigits then some (decVal s) else none

/-- `parse_hex_int` on the text of a chunk-size line (`none` = `ValueError`, which includes the
    `UnicodeDecodeError` of `native_str` on bytes ≥ 0x80) -/
def parseHexInt (s : Str) : Option Nat :=
  if !s.isEmpty && s.all isHexDigit then some (hexVal s) else none

/-! ### body framing decision -/

/-- `re.split(r",[ \t]*", v)` (since the `fix:` commit: optional whitespace is SP / HTAB only) -/
def splitCommaWs : Str → List Str
  | [] => [[]]
  | c :: cs =>
    if c = cComma then [] :: splitCommaWsSkip cs
    else match splitCommaWs cs with
      | [] => [[c]]
      | w :: ws => (c :: w) :: ws
where
  /-- after a comma: skip the `[ \t]*` run, then continue -/
  splitCommaWsSkip : Str → List Str
  | [] => [[]]
  | c :: cs =>
    if c = 32 || c = 9 then splitCommaWsSkip cs
    else if c = cComma then [] :: splitCommaWsSkip cs
    else match splitCommaWs cs with
      | [] => [[c]]
      | w :: ws => (c :: w) :: ws

inductive BodyKind where
  | none
  | fixed (n : Nat)
  | chunked
  deriving Repr, BEq, DecidableEq

/-- duplicated Content-Length headers (joined with commas) are tolerated when all copies are identical -/
def clPick (v : Str) : Option Str :=
  if v.contains cComma then
    match splitCommaWs v with
    | [] => none
    | p :: ps => if ps.all (· == p) then some p else none
  else some v

/-- the `Content-Length` part of `_read_body` (`none` = HTTPInputError; `some none` = no Content-Length) -/
def contentLength (limit : Nat) (h : Hdrs) : Option (Option Nat) :=
  match hGet h kContentLength with
  | none => some none
  | some v =>
    match clPick v with
    | none => none
    | some p =>
      match parseInt p with
      | none => none
      | some n => if n > limit then none else some (some n)

/-- `is_transfer_encoding_chunked` (`none` = HTTPInputError) -/
def teChunked (h : Hdrs) : Option Bool :=
  match hGet h kTransferEncoding with
  | none => some false
  | some v =>
    if hHas h kContentLength then none
    else if lower v = kChunked then some true
    else none

/-- `_read_body` for a request (code = 0, not a client) -/
def bodyKind (limit : Nat) (h : Hdrs) : Option BodyKind :=
  match contentLength limit h with
  | none => none
  | some cl =>
    match teChunked h with
    | none => none
    | some true => some .chunked
    | some false =>
      match cl with
      | some n => some (.fixed n)
      | none => some .none

/-- `_connection_options`: the lower-cased, non-empty, SP/HTAB-stripped items of the comma-separated
    `Connection` header (absent header = no options) -/
def connOptions (h : Hdrs) : List Str :=
  (((hGet h kConnection).getD []) |> splitOnC cComma).filterMap
    (fun o => let t := stripWs o; if t.isEmpty then none else some (lower t))

/-- `_can_keep_alive` (`none` = the HTTPInputError of `is_transfer_encoding_chunked` on the HTTP/1.0 path) -/
def canKeepAlive (noKeepAlive : Bool) (method version : Str) (h : Hdrs) : Option Bool :=
  if noKeepAlive then some false
  else
    let opts := connOptions h
    if version = kHttp11 then some (!opts.contains kClose)
    else if hHas h kContentLength then some (opts.contains kKeepAlive)
    else match teChunked h with
      | none => none
      | some true => some (opts.contains kKeepAlive)
      | some false => if method = kHEAD || method = kGET then some (opts.contains kKeepAlive) else some false

/-! ### Host -/

def isUriUnreserved (c : Nat) : Bool := isAlnum c || c = 45 || c = 46 || c = 95 || c = 126
def isUriSubDelim (c : Nat) : Bool := [33, 36, 38, 39, 40, 41, 42, 43, 44, 59, 61].contains c
def isHostChar (c : Nat) : Bool := c = 91 || c = 93 || c = 58 || isUriUnreserved c || isUriSubDelim c

/-- `_ABNF.host.fullmatch`: a sequence of host characters and `%HH` triplets (the optional `:port` suffix of the
    regex adds nothing because `:` and digits are host characters already). -/
def isHost : Str → Bool
  | [] => true
  | c :: cs =>
    if c = cPct then
      match cs with
      | a :: b :: rest => isHexDigit a && isHexDigit b && isHost rest
      | _ => false
    else isHostChar c && isHost cs

/-- `HTTPServerRequest.__init__`: the effective Host (`none` = HTTPInputError).
    `split_host_and_port(host.lower())` only computes `host_name`; after the `fix:` commit for D10 (owned by
    C43) it cannot raise, so it does not take part in the accept/reject decision. -/
def hostCheck (version : Str) (h : Hdrs) : Option Str :=
  let host? := match hGet h kHost with
    | some v => some v
    | none => if version = kHttp10 then some kLocalhost else none
  match host? with
  | none => none
  | some host =>
    if !isHost host then none
    else if host.contains cComma then none
    else some host

end TornadoModel.C01
