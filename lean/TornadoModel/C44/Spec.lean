/-
C44 — specification side: canonical textual forms of values ("printers") and what they denote.
The property theorems state that parsing these texts yields the denoted values.
-/
import TornadoModel.C44.Model
namespace TornadoModel.C44.Spec
open TornadoModel.C44

/-- decimal digits, most significant first -/
def natDigits (n : Nat) : Str :=
  if n < 10 then [48 + n] else natDigits (n / 10) ++ [48 + n % 10]
termination_by n
decreasing_by omega

/-- canonical text of an integer -/
def showInt : Int → Str
  | .ofNat n => natDigits n
  | .negSucc n => 45 :: natDigits (n + 1)

/-- an element of a multi-valued integer option: one number, or an inclusive range `lo:hi` -/
inductive Item where
  | single (n : Int)
  | range (lo hi : Int)
  deriving Repr

def showItem : Item → Str
  | .single n => showInt n
  | .range lo hi => showInt lo ++ [58] ++ showInt hi

def denoteItem : Item → List Int
  | .single n => [n]
  | .range lo hi => intRange lo hi

def joinWith (sep : Str) : List Str → Str
  | [] => []
  | [w] => w
  | w :: ws => w ++ sep ++ joinWith sep ws

/-- `1,3:5,9` -/
def showItems (items : List Item) : Str := joinWith [44] (items.map showItem)
def denoteItems (items : List Item) : List Int := (items.map denoteItem).flatten

/-- the spellings of a boolean that the documentation names -/
def showBool (b : Bool) : Str := if b then lit "true" else lit "false"

/-- time units with their abbreviations and length in microseconds -/
inductive TdUnit where
  | h | m | s | ms | us | d | w
  deriving DecidableEq, Repr

def TdUnit.abbr : TdUnit → Str
  | .h => [104] | .m => [109] | .s => [115] | .ms => [109, 115] | .us => [117, 115] | .d => [100] | .w => [119]

def TdUnit.micros : TdUnit → Nat
  | .h => 3600000000 | .m => 60000000 | .s => 1000000 | .ms => 1000 | .us => 1 | .d => 86400000000 | .w => 604800000000

/-- canonical `<n><unit>` sums: `1h 30m` -/
def showTd (parts : List (Nat × TdUnit)) : Str :=
  joinWith [32] (parts.map (fun (n, u) => natDigits n ++ u.abbr))

def denoteTd (parts : List (Nat × TdUnit)) : Int :=
  (parts.map (fun (n, u) => Int.ofNat (n * u.micros))).sum

end TornadoModel.C44.Spec
