/- C44 helper lemmas -/
import TornadoModel.C44.Spec
namespace TornadoModel.C44
open Spec

/-! ### digits -/

theorem natDigits_all_digits (n : Nat) : ∀ c ∈ natDigits n, 48 ≤ c ∧ c ≤ 57 := by
  fun_induction natDigits n with
  | case1 n h => intro c hc; simp at hc; omega
  | case2 n h ih =>
    intro c hc
    simp only [List.mem_append, List.mem_singleton] at hc
    rcases hc with hc | hc
    · exact ih c hc
    · omega

theorem natDigits_ne_nil (n : Nat) : natDigits n ≠ [] := by
  rw [natDigits]; split <;> simp

theorem natDigits_isDigit (n : Nat) : ∀ c ∈ natDigits n, isDigit c = true := by
  intro c hc
  have := natDigits_all_digits n c hc
  simp [isDigit]; omega

/-- value of a digit string continuing an accumulator -/
def digitsValFrom (acc : Nat) (s : Str) : Nat := s.foldl (fun a c => a * 10 + (c - 48)) acc

theorem digitsValFrom_natDigits (n : Nat) : digitsValFrom 0 (natDigits n) = n := by
  fun_induction natDigits n with
  | case1 n h => simp [digitsValFrom]
  | case2 n h ih =>
    simp only [digitsValFrom, List.foldl_append, List.foldl_cons, List.foldl_nil] at ih ⊢
    rw [ih]; omega

/-- on a non-empty all-digit string `digitPart` consumes everything -/
theorem digitPart_digits (s : Str) (hs : ∀ c ∈ s, isDigit c = true) (acc k : Nat) (hk : s ≠ [] ∨ 0 < k) :
    digitPart s acc k false = some (digitsValFrom acc s, k + s.length, []) := by
  induction s generalizing acc k with
  | nil =>
    have : 0 < k := by rcases hk with h | h; exact absurd rfl h; exact h
    simp [digitPart, digitsValFrom]; omega
  | cons c cs ih =>
    have hc := hs c (by simp)
    simp only [digitPart, hc, if_true]
    rw [ih (fun x hx => hs x (by simp [hx])) _ _ (Or.inr (by omega))]
    simp [digitsValFrom]; omega

/-- `takeDigits` on digits followed by a non-digit -/
theorem takeDigits_digits (s : Str) (hs : ∀ c ∈ s, isDigit c = true) (t : Str)
    (ht : ∀ c, t.head? = some c → isDigit c = false) (acc k : Nat) :
    takeDigits (s ++ t) acc k = (digitsValFrom acc s, k + s.length, t) := by
  induction s generalizing acc k with
  | nil =>
    cases t with
    | nil => simp [takeDigits, digitsValFrom]
    | cons c cs => simp [takeDigits, digitsValFrom, ht c rfl]
  | cons c cs ih =>
    have hc := hs c (by simp)
    simp only [List.cons_append, takeDigits, hc, if_true]
    rw [ih (fun x hx => hs x (by simp [hx]))]
    simp [digitsValFrom]; omega

/-! ### strip / dropWhile -/

theorem dropWhile_head_false {α} (p : α → Bool) (c : α) (t : List α) (h : p c = false) :
    (c :: t).dropWhile p = c :: t := by simp [List.dropWhile, h]

theorem strip_id (s : Str) (h1 : ∀ c, s.head? = some c → isWs c = false)
    (h2 : ∀ c, s.getLast? = some c → isWs c = false) : strip s = s := by
  unfold strip
  cases s with
  | nil => rfl
  | cons a t =>
    rw [dropWhile_head_false _ a t (h1 a rfl)]
    have hne : (a :: t).reverse ≠ [] := by simp
    cases hr : (a :: t).reverse with
    | nil => exact absurd hr hne
    | cons z zs =>
      have hz : (a :: t).getLast? = some z := by
        rw [List.getLast?_eq_head?_reverse, hr]; rfl
      rw [dropWhile_head_false _ z zs (h2 z hz), ← hr, List.reverse_reverse]

theorem mem_dropWhile_of_false {α} (p : α → Bool) (l : List α) (c : α) (hc : c ∈ l) (hp : p c = false) :
    c ∈ l.dropWhile p := by
  induction l with
  | nil => cases hc
  | cons x xs ih =>
    simp only [List.dropWhile_cons]
    split
    · rcases List.mem_cons.mp hc with rfl | h
      · simp_all
      · exact ih h
    · exact hc

theorem mem_strip (s : Str) (c : Nat) (hc : c ∈ s) (hw : isWs c = false) : c ∈ strip s := by
  unfold strip
  have h1 := mem_dropWhile_of_false isWs s c hc hw
  have h2 : c ∈ (s.dropWhile isWs).reverse := by simpa using h1
  have h3 := mem_dropWhile_of_false isWs _ c h2 hw
  simpa using h3

/-! ### partition / split / join -/

theorem partition_no_sep (sep : Nat) (s : Str) (h : sep ∉ s) : partition sep s = (s, false, []) := by
  induction s with
  | nil => rfl
  | cons c cs ih =>
    have hc : c ≠ sep := fun e => h (by simp [e])
    have hcs : sep ∉ cs := fun e => h (by simp [e])
    simp [partition, hc, ih hcs]

theorem partition_at_sep (sep : Nat) (a b : Str) (h : sep ∉ a) :
    partition sep (a ++ sep :: b) = (a, true, b) := by
  induction a with
  | nil => simp [partition]
  | cons c cs ih =>
    have hc : c ≠ sep := fun e => h (by simp [e])
    have hcs : sep ∉ cs := fun e => h (by simp [e])
    simp [partition, hc, ih hcs]

theorem splitOnC_no_sep (sep : Nat) (g : Str) (h : sep ∉ g) : splitOnC sep g = [g] := by
  induction g with
  | nil => rfl
  | cons c cs ih =>
    have hc : c ≠ sep := fun e => h (by simp [e])
    have hcs : sep ∉ cs := fun e => h (by simp [e])
    simp [splitOnC, hc, ih hcs]

theorem splitOnC_append_sep (sep : Nat) (g t : Str) (h : sep ∉ g) :
    splitOnC sep (g ++ sep :: t) = g :: splitOnC sep t := by
  induction g with
  | nil => simp [splitOnC]
  | cons c cs ih =>
    have hc : c ≠ sep := fun e => h (by simp [e])
    have hcs : sep ∉ cs := fun e => h (by simp [e])
    simp [splitOnC, hc, ih hcs]

theorem splitOnC_joinWith (sep : Nat) (gs : List Str) (hne : gs ≠ []) (h : ∀ g ∈ gs, sep ∉ g) :
    splitOnC sep (joinWith [sep] gs) = gs := by
  induction gs with
  | nil => exact absurd rfl hne
  | cons g rest ih =>
    cases rest with
    | nil => simp [joinWith, splitOnC_no_sep sep g (h g (by simp))]
    | cons g2 rest2 =>
      have hg : sep ∉ g := h g (by simp)
      have := ih (by simp) (fun x hx => h x (by simp [hx]))
      simp only [joinWith, List.append_assoc, List.singleton_append]
      rw [splitOnC_append_sep sep g _ hg, this]

/-! ### showInt -/

theorem showInt_chars (n : Int) : ∀ c ∈ showInt n, isDigit c = true ∨ c = 45 := by
  intro c hc
  cases n with
  | ofNat n => exact Or.inl (natDigits_isDigit n c hc)
  | negSucc n =>
    simp only [showInt, List.mem_cons] at hc
    rcases hc with rfl | hc
    · exact Or.inr rfl
    · exact Or.inl (natDigits_isDigit _ c hc)

theorem natDigits_strip (n : Nat) (pre : Str) (hpre : ∀ c, (pre ++ natDigits n).head? = some c → isWs c = false) :
    strip (pre ++ natDigits n) = pre ++ natDigits n := by
  apply strip_id _ hpre
  intro c hc
  have hne := natDigits_ne_nil n
  have hmem : c ∈ natDigits n := by
    obtain ⟨init, z, hz⟩ : ∃ init z, natDigits n = init ++ [z] := by
      refine ⟨(natDigits n).dropLast, (natDigits n).getLast hne, ?_⟩
      exact (List.dropLast_concat_getLast hne).symm
    rw [hz, ← List.append_assoc, List.getLast?_concat] at hc
    cases hc
    rw [hz]; simp
  have := natDigits_all_digits n c hmem
  simp [isWs]; omega

theorem parseInt_showInt (n : Int) : parseInt (showInt n) = some n := by
  cases n with
  | ofNat n =>
    have hs : strip (natDigits n) = natDigits n := by
      have := natDigits_strip n [] (by
        intro c hc
        have hmem : c ∈ natDigits n := List.mem_of_head? (by simpa using hc)
        have := natDigits_all_digits n c hmem
        simp [isWs]; omega)
      simpa using this
    simp only [parseInt, showInt, hs]
    cases hd : natDigits n with
    | nil => exact absurd hd (natDigits_ne_nil n)
    | cons c t =>
      have hc := natDigits_all_digits n c (by simp [hd])
      have hsign : takeSign (c :: t) = (false, c :: t) := by
        unfold takeSign
        split
        · rename_i h; simp at h; omega
        · rename_i h; simp at h; omega
        · rfl
      simp only [hsign]
      rw [← hd, digitPart_digits _ (natDigits_isDigit n) 0 0 (Or.inl (natDigits_ne_nil n)), digitsValFrom_natDigits]
      rfl
  | negSucc n =>
    have hs : strip (45 :: natDigits (n + 1)) = 45 :: natDigits (n + 1) := by
      have := natDigits_strip (n + 1) [45] (by intro c hc; simp at hc; subst hc; decide)
      simpa using this
    simp only [parseInt, showInt, hs, takeSign]
    rw [digitPart_digits _ (natDigits_isDigit _) 0 0 (Or.inl (natDigits_ne_nil _)), digitsValFrom_natDigits]
    rfl

/-! ### rejection helpers -/

theorem digitPart_all (s : Str) (acc k : Nat) (us : Bool) (v n : Nat)
    (h : digitPart s acc k us = some (v, n, [])) : ∀ c ∈ s, isDigit c = true ∨ c = 95 := by
  induction s generalizing acc k us with
  | nil => intro c hc; cases hc
  | cons x xs ih =>
    intro c hc
    simp only [digitPart] at h
    by_cases hx : isDigit x = true
    · simp only [hx, if_true] at h
      rcases List.mem_cons.mp hc with rfl | hm
      · exact Or.inl hx
      · exact ih _ _ _ h c hm
    · simp only [hx, Bool.false_eq_true, if_false] at h
      by_cases h95 : x = 95
      · simp only [h95, if_true] at h
        split at h
        · cases h
        · rcases List.mem_cons.mp hc with rfl | hm
          · exact Or.inr h95
          · exact ih _ _ _ h c hm
      · simp only [h95, if_false] at h
        split at h <;> cases h

theorem mem_of_mem_takeSign (s : Str) (c : Nat) (hc : c ∈ s) (h1 : c ≠ 45) (h2 : c ≠ 43) : c ∈ (takeSign s).2 := by
  unfold takeSign
  split
  · simp only [List.mem_cons] at hc; rcases hc with rfl | h; exact absurd rfl h1; exact h
  · simp only [List.mem_cons] at hc; rcases hc with rfl | h; exact absurd rfl h2; exact h
  · exact hc

end TornadoModel.C44
