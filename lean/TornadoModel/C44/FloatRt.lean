/- C44: decimal float literals (spec side: printer and denotation) and the lemmas for their round trip -/
import TornadoModel.C44.Td
import TornadoModel.C44.FloatRej
namespace TornadoModel.C44
open Spec

namespace Spec

/-- a decimal literal as `repr(float)` and people write it: sign, integer digits, optional `.` fraction digits,
    optional exponent `e±digits` (digits are code points `0`–`9`; leading zeros allowed) -/
structure DecLit where
  neg : Bool
  ip : Str
  fp : Str                       -- empty: no point is written
  ex : Option (Bool × Str)       -- exponent sign (true = `-`, false = `+`) and digits
  deriving Repr

def showExp : Option (Bool × Str) → Str
  | none => []
  | some (eneg, ed) => 101 :: (if eneg then 45 else 43) :: ed

def showDec (l : DecLit) : Str :=
  (if l.neg then [45] else []) ++ (l.ip ++ ((if l.fp = [] then [] else 46 :: l.fp) ++ showExp l.ex))

/-- positional value of a digit string -/
def digitsVal (s : Str) : Nat := s.foldl (fun a c => a * 10 + (c - 48)) 0

def expVal : Option (Bool × Str) → Int
  | none => 0
  | some (eneg, ed) => if eneg then -(Int.ofNat (digitsVal ed)) else Int.ofNat (digitsVal ed)

def exWf : Option (Bool × Str) → Prop
  | none => True
  | some (_, ed) => ed ≠ [] ∧ ∀ c ∈ ed, isDigit c = true

def DecLit.wf (l : DecLit) : Prop :=
  l.ip ≠ [] ∧ (∀ c ∈ l.ip, isDigit c = true) ∧ (∀ c ∈ l.fp, isDigit c = true) ∧ exWf l.ex

/-- the number a literal denotes, exactly: `±(ip fp as one integer) · 10^(exponent − |fp|)` -/
def denoteDec (l : DecLit) : Val := .fdec l.neg (digitsVal (l.ip ++ l.fp)) (expVal l.ex - Int.ofNat l.fp.length)

end Spec

theorem digitsVal_eq (s : Str) : digitsVal s = digitsValFrom 0 s := rfl

theorem digitsValFrom_acc (s : Str) (acc : Nat) : digitsValFrom acc s = acc * 10 ^ s.length + digitsValFrom 0 s := by
  induction s generalizing acc with
  | nil => simp [digitsValFrom]
  | cons c cs ih =>
    have h1 := ih (acc * 10 + (c - 48))
    have h2 := ih (0 * 10 + (c - 48))
    simp only [digitsValFrom, List.foldl_cons] at h1 h2 ⊢
    rw [h1, h2]
    simp only [List.length_cons, Nat.pow_succ', Nat.add_mul, Nat.mul_assoc, Nat.zero_mul, Nat.zero_add, Nat.add_assoc]

theorem digitsValFrom_append (a b : Str) : digitsValFrom 0 (a ++ b) = digitsValFrom 0 a * 10 ^ b.length + digitsValFrom 0 b := by
  have : digitsValFrom 0 (a ++ b) = digitsValFrom (digitsValFrom 0 a) b := by
    simp [digitsValFrom, List.foldl_append]
  rw [this, digitsValFrom_acc]

/-- `digitPart` on digits followed by something that cannot continue them -/
theorem digitPart_stop (s : Str) (hs : ∀ c ∈ s, isDigit c = true) (t : Str)
    (ht : ∀ c, t.head? = some c → isDigit c = false ∧ c ≠ 95) (acc k : Nat) (hk : s ≠ [] ∨ 0 < k) :
    digitPart (s ++ t) acc k false = some (digitsValFrom acc s, k + s.length, t) := by
  induction s generalizing acc k with
  | nil =>
    have hk' : 0 < k := by rcases hk with h | h; exact absurd rfl h; exact h
    cases t with
    | nil => simp [digitPart, digitsValFrom]; omega
    | cons c cs =>
      obtain ⟨h1, h2⟩ := ht c rfl
      have : ¬ k = 0 := by omega
      simp [digitPart, digitsValFrom, h1, h2, this]
  | cons c cs ih =>
    have hc := hs c (by simp)
    simp only [List.cons_append, digitPart, hc, if_true]
    rw [ih (fun x hx => hs x (by simp [hx])) _ _ (Or.inr (by omega))]
    simp [digitsValFrom]; omega

theorem digit_not_ws (c : Nat) (h : isDigit c = true) : isWs c = false := by
  simp [isDigit] at h; simp [isWs]; omega

theorem digit_not_alpha (c : Nat) (h : isDigit c = true) : isAlpha c = false := by
  simp [isDigit] at h; simp [isAlpha]; omega

theorem parseExp_showExp (ex : Option (Bool × Str)) (h : exWf ex) : parseExp (showExp ex) = some (expVal ex) := by
  cases ex with
  | none => rfl
  | some p =>
    obtain ⟨eneg, ed⟩ := p
    obtain ⟨hne, hd⟩ := h
    have hdp : digitPart ed 0 0 false = some (digitsValFrom 0 ed, 0 + ed.length, []) :=
      digitPart_digits ed hd 0 0 (Or.inl hne)
    cases eneg with
    | true => simp [showExp, parseExp, takeSign, hdp, expVal, digitsVal_eq]
    | false => simp [showExp, parseExp, takeSign, hdp, expVal, digitsVal_eq]

theorem showExp_head (ex : Option (Bool × Str)) : ∀ c, (showExp ex).head? = some c → isDigit c = false ∧ c ≠ 95 ∧ c ≠ 46 := by
  intro c hc
  cases ex with
  | none => cases hc
  | some p =>
    obtain ⟨eneg, ed⟩ := p
    simp [showExp] at hc
    subst hc
    decide

theorem showExp_not_ws (ex : Option (Bool × Str)) (h : exWf ex) : ∀ c ∈ showExp ex, isWs c = false := by
  intro c hc
  cases ex with
  | none => cases hc
  | some p =>
    obtain ⟨eneg, ed⟩ := p
    simp only [showExp, List.mem_cons] at hc
    rcases hc with rfl | rfl | hc
    · decide
    · cases eneg <;> decide
    · exact digit_not_ws c (h.2 c hc)

theorem showDec_not_ws (l : DecLit) (h : l.wf) : ∀ c ∈ showDec l, isWs c = false := by
  obtain ⟨_, hip, hfp, hex⟩ := h
  intro c hc
  simp only [showDec, List.mem_append] at hc
  rcases hc with hc | hc | hc | hc
  · split at hc
    · simp at hc; subst hc; decide
    · cases hc
  · exact digit_not_ws c (hip c hc)
  · split at hc
    · cases hc
    · rcases List.mem_cons.mp hc with rfl | hc
      · decide
      · exact digit_not_ws c (hfp c hc)
  · exact showExp_not_ws l.ex hex c hc

theorem strip_no_ws (s : Str) (h : ∀ c ∈ s, isWs c = false) : strip s = s :=
  strip_id s (fun c hc => h c (List.mem_of_head? hc)) (fun c hc => h c (List.mem_of_getLast? hc))

/-- the body of `parseFloat` on `<digits>[.<digits>][e±<digits>]` -/
theorem parseFloat_body_dec (neg : Bool) (ip fp : Str) (ex : Option (Bool × Str))
    (hne : ip ≠ []) (hip : ∀ c ∈ ip, isDigit c = true) (hfp : ∀ c ∈ fp, isDigit c = true) (hex : exWf ex) :
    (match ip ++ ((if fp = [] then [] else 46 :: fp) ++ showExp ex) with
    | 46 :: fr =>
      match digitPart fr 0 0 false with
      | some (fv, fn, rest) => (parseExp rest).map (fun e => Val.fdec neg fv (e - fn))
      | none => none
    | _ =>
      match digitPart (ip ++ ((if fp = [] then [] else 46 :: fp) ++ showExp ex)) 0 0 false with
      | some (iv, _, 46 :: rest) =>
        match rest with
        | [] => some (.fdec neg iv 0)
        | c :: _ =>
          if isDigit c then
            match digitPart rest 0 0 false with
            | some (fv, fn, rest2) => (parseExp rest2).map (fun e => .fdec neg (iv * 10 ^ fn + fv) (e - fn))
            | none => none
          else (parseExp rest).map (fun e => .fdec neg iv e)
      | some (iv, _, rest) => (parseExp rest).map (fun e => .fdec neg iv e)
      | none => none)
    = some (.fdec neg (digitsVal (ip ++ fp)) (expVal ex - Int.ofNat fp.length)) := by
  have hexp := parseExp_showExp ex hex
  have hhead := showExp_head ex
  cases hipc : ip with
  | nil => exact absurd hipc hne
  | cons d ds =>
    have hd : isDigit d = true := hip d (by simp [hipc])
    have hd46 : d ≠ 46 := by intro e; subst e; simp [isDigit] at hd
    rw [← hipc]
    split
    · rename_i fr h; rw [hipc] at h; simp at h; exact absurd h.1 hd46
    · cases hfpc : fp with
      | nil =>
        simp only [if_true, List.nil_append, List.append_nil, List.length_nil]
        rw [digitPart_stop ip hip (showExp ex) (fun c hc => ⟨(hhead c hc).1, (hhead c hc).2.1⟩) 0 0 (Or.inl hne)]
        split
        · rename_i iv n rest h
          simp only [Option.some.injEq, Prod.mk.injEq] at h
          have := (hhead 46 (by rw [h.2.2]; rfl)).2.2
          exact absurd rfl this
        · rename_i iv n rest _ h
          simp only [Option.some.injEq, Prod.mk.injEq] at h
          obtain ⟨h1, _, h3⟩ := h
          subst h1 h3
          rw [hexp]; simp [digitsVal_eq]
        · rename_i h; cases h
      | cons f fs =>
        have hfp' : ∀ c ∈ f :: fs, isDigit c = true := by rw [← hfpc]; exact hfp
        have hf : isDigit f = true := hfp' f (by simp)
        simp only [if_neg (List.cons_ne_nil f fs), List.cons_append]
        rw [digitPart_stop ip hip (46 :: f :: (fs ++ showExp ex)) (by intro c hc; simp at hc; subst hc; decide) 0 0 (Or.inl hne)]
        simp only [hf, if_true]
        have := digitPart_stop (f :: fs) hfp' (showExp ex) (fun c hc => ⟨(hhead c hc).1, (hhead c hc).2.1⟩) 0 0 (Or.inl (by simp))
        simp only [List.cons_append] at this
        rw [this]
        simp only [hexp]
        simp [digitsVal_eq, digitsValFrom_append]

theorem parseFloat_showDec (l : DecLit) (h : l.wf) : parseFloat (showDec l) = some (denoteDec l) := by
  have hws := showDec_not_ws l h
  obtain ⟨hne, hip, hfp, hex⟩ := h
  obtain ⟨neg, ip, fp, ex⟩ := l
  simp only [] at hne hip hfp hex
  unfold parseFloat
  rw [strip_no_ws _ hws]
  obtain ⟨d, ds, hipc⟩ : ∃ d ds, ip = d :: ds := by
    cases ip with
    | nil => exact absurd rfl hne
    | cons d ds => exact ⟨d, ds, rfl⟩
  have hd : isDigit d = true := hip d (by simp [hipc])
  have hd48 : 48 ≤ d := by simp [isDigit] at hd; omega
  have hsign : takeSign (showDec ⟨neg, ip, fp, ex⟩)
      = (neg, ip ++ ((if fp = [] then [] else 46 :: fp) ++ showExp ex)) := by
    cases neg with
    | true => simp [showDec, takeSign]
    | false =>
      simp only [showDec, Bool.false_eq_true, if_false, List.nil_append]
      rw [hipc]; exact takeSign_digit d _ hd48
  rw [hsign]
  simp only []
  have hmem : d ∈ ip ++ ((if fp = [] then [] else 46 :: fp) ++ showExp ex) := by simp [hipc]
  have hal := digit_not_alpha d hd
  rw [lower_ne_word _ d hmem hal _ inf_alpha, lower_ne_word _ d hmem hal _ infinity_alpha, lower_ne_word _ d hmem hal _ nan_alpha]
  simp only [Bool.or_self, Bool.false_eq_true, if_false]
  exact parseFloat_body_dec neg ip fp ex hne hip hfp hex

end TornadoModel.C44
