/- C44 helper lemmas about the option table (lookup / update / keys) -/
import TornadoModel.C44.Lemmas
namespace TornadoModel.C44
open Spec

theorem lookup_update_ne (st : State) (o : Opt) (k : Str) (h : (o.key == k) = false) :
    lookup (update st o) k = lookup st k := by
  unfold lookup update
  induction st with
  | nil => rfl
  | cons x xs ih =>
    simp only [List.map_cons, List.find?_cons]
    by_cases hx : (x.key == o.key) = true
    · have hxk : (x.key == k) = false := by
        have : x.key = o.key := by simpa using hx
        rw [this]; exact h
      simp only [hx, if_true, h, hxk]
      exact ih
    · have hx' : (x.key == o.key) = false := by simpa using hx
      simp only [hx', Bool.false_eq_true, if_false]
      cases hk : (x.key == k)
      · simpa using ih
      · rfl

theorem lookup_key (st : State) (k : Str) (o : Opt) (h : lookup st k = some o) : o.key = k := by
  unfold lookup at h
  have := List.find?_some h
  simpa using this

theorem parse_key (o : Opt) (s : Str) : (o.parse s).1.key = o.key := by
  unfold Opt.parse
  split
  · generalize parseParts o.ty (splitOnC 44 s) [] = p
    obtain ⟨vs, e⟩ := p
    cases e <;> rfl
  · split
    · rfl
    · split <;> rfl

theorem set_key (o : Opt) (v : Val) : (o.set v).1.key = o.key := by
  unfold Opt.set
  simp only []
  repeat' split
  all_goals rfl

end TornadoModel.C44
