/- C44: the numeric datetime form `YYYY-MM-DD HH:MM:SS` (spec side: printer) and the lemmas for its round trip -/
import TornadoModel.C44.FloatRej
namespace TornadoModel.C44
open Spec

namespace Spec

def pad2 (n : Nat) : Str := [48 + n / 10, 48 + n % 10]
def pad4 (n : Nat) : Str := [48 + n / 1000, 48 + n / 100 % 10, 48 + n / 10 % 10, 48 + n % 10]

/-- `YYYY-MM-DD HH:MM:SS`, every field zero-padded -/
def showDtIso (y mo d h mi s : Nat) : Str :=
  pad4 y ++ (45 :: (pad2 mo ++ (45 :: (pad2 d ++ (32 :: (pad2 h ++ (58 :: (pad2 mi ++ (58 :: pad2 s)))))))))

/-- a calendar date and time of day that `datetime` can represent -/
def validDt (y mo d h mi s : Nat) : Prop :=
  1 ≤ y ∧ y ≤ 9999 ∧ 1 ≤ mo ∧ mo ≤ 12 ∧ 1 ≤ d ∧ d ≤ daysInMonth y mo ∧ h ≤ 23 ∧ mi ≤ 59 ∧ s ≤ 59

end Spec

/-! ### candidates of the field patterns on zero-padded text -/

theorem dig0 (a : Nat) (t : Str) (ha : a ≤ 9) : dig? ((48 + a) :: t) 0 = some a := by
  simp [dig?, isDigit]; omega

theorem dig1 (x a : Nat) (t : Str) (ha : a ≤ 9) : dig? (x :: (48 + a) :: t) 1 = some a := by
  simp [dig?, isDigit]; omega

theorem two_pad (a b : Nat) (ha : a ≤ 9) (hb : b ≤ 9) (t : Str) (lo1 hi1 lo2 hi2 : Nat) :
    two ((48 + a) :: (48 + b) :: t) lo1 hi1 lo2 hi2
      = if lo1 ≤ a ∧ a ≤ hi1 ∧ lo2 ≤ b ∧ b ≤ hi2 then [(2, a * 10 + b)] else [] := by
  simp only [two, dig0 a _ ha, dig1 _ b _ hb]

theorem matchSeq_head (t : Tok) (ts : List Tok) (s : Str) (f : Fields) (n v : Nat) (l : List (Nat × Nat))
    (r : Fields × Str) (hc : cands t s = (n, v) :: l) (hr : matchSeq ts (s.drop n) (setField t v f) = some r) :
    matchSeq (t :: ts) s f = some r := by
  simp only [matchSeq, hc, List.findSome?_cons, hr]

theorem cands_ch (c : Nat) (t : Str) : cands (.ch c) (c :: t) = [(1, 0)] := by
  simp [cands]

theorem cands_ws (a : Nat) (t : Str) (ha : a ≤ 9) : cands .ws (32 :: (48 + a) :: t) = [(1, 0)] := by
  have h1 : isWs 32 = true := by decide
  have h2 : isWs (48 + a) = false := by simp [isWs]; omega
  have htw : (32 :: (48 + a) :: t).takeWhile isWs = [32] := by
    simp [h1, h2]
  simp only [cands, htw]
  rfl

theorem cands_fY (y : Nat) (t : Str) (hy : y ≤ 9999) : cands .fY (pad4 y ++ t) = [(4, y)] := by
  have e : pad4 y ++ t = (48 + y / 1000) :: (48 + y / 100 % 10) :: (48 + y / 10 % 10) :: (48 + y % 10) :: t := rfl
  have d0 : dig? (pad4 y ++ t) 0 = some (y / 1000) := by rw [e]; simp [dig?, isDigit]; omega
  have d1 : dig? (pad4 y ++ t) 1 = some (y / 100 % 10) := by rw [e]; simp [dig?, isDigit]; omega
  have d2 : dig? (pad4 y ++ t) 2 = some (y / 10 % 10) := by rw [e]; simp [dig?, isDigit]; omega
  have d3 : dig? (pad4 y ++ t) 3 = some (y % 10) := by rw [e]; simp [dig?, isDigit]; omega
  simp only [cands, d0, d1, d2, d3]
  congr 2
  omega

theorem pad2_cons (n : Nat) (t : Str) : pad2 n ++ t = (48 + n / 10) :: (48 + n % 10) :: t := rfl

theorem cands_fm (m : Nat) (t : Str) (h1 : 1 ≤ m) (h2 : m ≤ 12) : ∃ l, cands .fm (pad2 m ++ t) = (2, m) :: l := by
  have ha : m / 10 ≤ 9 := by omega
  have hb : m % 10 ≤ 9 := by omega
  have hv : m / 10 * 10 + m % 10 = m := by omega
  simp only [cands, pad2_cons, two_pad _ _ ha hb, hv]
  by_cases h : 10 ≤ m
  · rw [if_pos (by omega)]; exact ⟨_, rfl⟩
  · rw [if_neg (by omega), if_pos (by omega)]; exact ⟨_, rfl⟩

theorem cands_fd (d : Nat) (t : Str) (h1 : 1 ≤ d) (h2 : d ≤ 31) : ∃ l, cands .fd (pad2 d ++ t) = (2, d) :: l := by
  have ha : d / 10 ≤ 9 := by omega
  have hb : d % 10 ≤ 9 := by omega
  have hv : d / 10 * 10 + d % 10 = d := by omega
  simp only [cands, pad2_cons, two_pad _ _ ha hb, hv, List.append_assoc]
  by_cases h : 30 ≤ d
  · rw [if_pos (by omega)]; exact ⟨_, rfl⟩
  · rw [if_neg (by omega)]
    by_cases h' : 10 ≤ d
    · rw [if_pos (by omega)]; exact ⟨_, rfl⟩
    · rw [if_neg (by omega), if_pos (by omega)]; exact ⟨_, rfl⟩

theorem cands_fH (h : Nat) (t : Str) (h2 : h ≤ 23) : ∃ l, cands .fH (pad2 h ++ t) = (2, h) :: l := by
  have ha : h / 10 ≤ 9 := by omega
  have hb : h % 10 ≤ 9 := by omega
  have hv : h / 10 * 10 + h % 10 = h := by omega
  simp only [cands, pad2_cons, two_pad _ _ ha hb, hv, List.append_assoc]
  by_cases h' : 20 ≤ h
  · rw [if_pos (by omega)]; exact ⟨_, rfl⟩
  · rw [if_neg (by omega), if_pos (by omega)]; exact ⟨_, rfl⟩

theorem cands_fM (m : Nat) (t : Str) (h2 : m ≤ 59) : ∃ l, cands .fM (pad2 m ++ t) = (2, m) :: l := by
  have ha : m / 10 ≤ 9 := by omega
  have hb : m % 10 ≤ 9 := by omega
  have hv : m / 10 * 10 + m % 10 = m := by omega
  simp only [cands, pad2_cons, two_pad _ _ ha hb, hv]
  rw [if_pos (by omega)]; exact ⟨_, rfl⟩

theorem cands_fS (s : Nat) (t : Str) (h2 : s ≤ 59) : ∃ l, cands .fS (pad2 s ++ t) = (2, s) :: l := by
  have ha : s / 10 ≤ 9 := by omega
  have hb : s % 10 ≤ 9 := by omega
  have hv : s / 10 * 10 + s % 10 = s := by omega
  simp only [cands, pad2_cons, two_pad _ _ ha hb, hv, List.append_assoc]
  rw [if_neg (by omega), if_pos (by omega)]; exact ⟨_, rfl⟩

theorem drop2_pad2 (n : Nat) (t : Str) : (pad2 n ++ t).drop 2 = t := rfl
theorem drop4_pad4 (n : Nat) (t : Str) : (pad4 n ++ t).drop 4 = t := rfl

theorem daysInMonth_le (y m : Nat) : daysInMonth y m ≤ 31 := by
  unfold daysInMonth
  split
  · split <;> omega
  · split <;> omega

def isoToks : List Tok := [.fY, .ch 45, .fm, .ch 45, .fd, .ws, .fH, .ch 58, .fM, .ch 58, .fS]

theorem fmtToks_iso : fmtToks "%Y-%m-%d %H:%M:%S" = isoToks := by decide +kernel

/-- the regex of `%Y-%m-%d %H:%M:%S` on the zero-padded text: first match = the intended fields -/
theorem matchSeq_iso (y mo d h mi s : Nat) (hv : validDt y mo d h mi s) (f : Fields) :
    matchSeq isoToks (showDtIso y mo d h mi s) f = some ({ y := y, mo := mo, d := d, h := h, mi := mi, s := s }, []) := by
  obtain ⟨_, hy, hm1, hm2, hd1, hd2, hh, hmi, hs⟩ := hv
  have hd3 : d ≤ 31 := Nat.le_trans hd2 (daysInMonth_le y mo)
  unfold isoToks showDtIso
  refine matchSeq_head _ _ _ _ 4 y [] _ (cands_fY y _ hy) ?_
  rw [drop4_pad4]
  refine matchSeq_head _ _ _ _ 1 0 [] _ (cands_ch 45 _) ?_
  simp only [List.drop_succ_cons, List.drop_zero]
  obtain ⟨l, hl⟩ := cands_fm mo (45 :: (pad2 d ++ (32 :: (pad2 h ++ (58 :: (pad2 mi ++ (58 :: pad2 s))))))) hm1 hm2
  refine matchSeq_head _ _ _ _ 2 mo l _ hl ?_
  rw [drop2_pad2]
  refine matchSeq_head _ _ _ _ 1 0 [] _ (cands_ch 45 _) ?_
  simp only [List.drop_succ_cons, List.drop_zero]
  obtain ⟨l, hl⟩ := cands_fd d (32 :: (pad2 h ++ (58 :: (pad2 mi ++ (58 :: pad2 s))))) hd1 hd3
  refine matchSeq_head _ _ _ _ 2 d l _ hl ?_
  rw [drop2_pad2]
  refine matchSeq_head _ _ _ _ 1 0 [] _ (by rw [pad2_cons]; exact cands_ws (h / 10) _ (by omega)) ?_
  simp only [List.drop_succ_cons, List.drop_zero]
  obtain ⟨l, hl⟩ := cands_fH h (58 :: (pad2 mi ++ (58 :: pad2 s))) hh
  refine matchSeq_head _ _ _ _ 2 h l _ hl ?_
  rw [drop2_pad2]
  refine matchSeq_head _ _ _ _ 1 0 [] _ (cands_ch 58 _) ?_
  simp only [List.drop_succ_cons, List.drop_zero]
  obtain ⟨l, hl⟩ := cands_fM mi (58 :: pad2 s) hmi
  refine matchSeq_head _ _ _ _ 2 mi l _ hl ?_
  rw [drop2_pad2]
  refine matchSeq_head _ _ _ _ 1 0 [] _ (cands_ch 58 _) ?_
  simp only [List.drop_succ_cons, List.drop_zero]
  obtain ⟨l, hl⟩ := cands_fS s [] hs
  rw [← List.append_nil (pad2 s)]
  refine matchSeq_head _ _ _ _ 2 s l _ hl ?_
  rw [drop2_pad2]
  simp [matchSeq, setField]

/-! ### the `%a …` format does not match text that starts with a digit -/

theorem nameCands_nonalpha (names : List String) (c : Nat) (t : Str) (hc : isAlpha c = false)
    (hn : ∀ n ∈ names, ∀ x ∈ lit n, isAlpha x = true) : nameCands names (c :: t) = [] := by
  unfold nameCands
  have : names.findIdx? (fun n => lit n == lower ((c :: t).take 3)) = none := by
    rw [List.findIdx?_eq_none_iff]
    intro n hn'
    have hmem : c ∈ (c :: t).take 3 := by simp
    have := lower_ne_word ((c :: t).take 3) c hmem hc (lit n) (hn n hn')
    cases h : lit n == lower ((c :: t).take 3) with
    | false => rfl
    | true =>
      have e : lit n = lower ((c :: t).take 3) := by simpa using h
      rw [e] at this; simp at this
  simp only [this]

theorem dayAbbr_alpha : ∀ n ∈ dayAbbr, ∀ x ∈ lit n, isAlpha x = true := by decide +kernel

theorem fmtToks_ctime : ∃ ts, fmtToks "%a %b %d %H:%M:%S %Y" = .fa :: ts :=
  ⟨[.ws, .fb, .ws, .fd, .ws, .fH, .ch 58, .fM, .ch 58, .fS, .ws, .fY], by decide +kernel⟩

theorem strptime_ctime_digit (c : Nat) (t : Str) (hc : isAlpha c = false) :
    strptime (fmtToks "%a %b %d %H:%M:%S %Y") (c :: t) = none := by
  obtain ⟨ts, hts⟩ := fmtToks_ctime
  rw [hts]
  simp [strptime, matchSeq, cands, nameCands_nonalpha dayAbbr c t hc dayAbbr_alpha]

theorem parseDatetime_iso (y mo d h mi s : Nat) (hv : validDt y mo d h mi s) :
    parseDatetime (showDtIso y mo d h mi s) = .ok (.dt y mo d h mi s) := by
  have h1 : strptime (fmtToks "%a %b %d %H:%M:%S %Y") (showDtIso y mo d h mi s) = none := by
    have : showDtIso y mo d h mi s = (48 + y / 1000) :: (showDtIso y mo d h mi s).tail := rfl
    rw [this]
    apply strptime_ctime_digit
    have := hv.2.1
    simp [isAlpha]; omega
  have h2 : strptime (fmtToks "%Y-%m-%d %H:%M:%S") (showDtIso y mo d h mi s)
      = some { y := y, mo := mo, d := d, h := h, mi := mi, s := s } := by
    rw [fmtToks_iso]
    unfold strptime
    rw [matchSeq_iso y mo d h mi s hv]
    obtain ⟨hy, _, _, _, hd1, hd2, _, _, hs⟩ := hv
    simp [hy, hd1, hd2, hs]
  unfold parseDatetime datetimeFormats
  simp only [List.findSome?_cons, h1, h2]

end TornadoModel.C44
