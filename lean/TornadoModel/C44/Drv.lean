/- C44 driver:
   `C44 run [op,…]` → `ok [out,…] [[key,val],…]` with
     op  ::= [define,name,ty|~,T|F,val] | [cmdline,[arg,…]] | [config,[[name,val],…]]
     val ::= [n] | [s,text] | [i,int] | [b,T|F] | [fd,T|F,m,e] | [fs,k] | [fb,p,q] | [dt,y,mo,d,h,mi,s] | [td,us] | [l,[val,…]] | [o]
   `C44 parse ty text` → one value or an error; `C44 showInt n`, `C44 showItems [[n]|[lo,hi],…]` → text + denoted list,
   `C44 showTd [[n,unit],…]` → text + µs -/
import TornadoModel.Base.Wire
import TornadoModel.C44.Spec
namespace TornadoModel.C44.Drv
open TornadoModel TornadoModel.Wire TornadoModel.C44

def decTy : V → Option Ty
  | .atom "str" => some .str | .atom "int" => some .int | .atom "float" => some .float
  | .atom "bool" => some .bool | .atom "datetime" => some .datetime | .atom "timedelta" => some .timedelta
  | _ => none

partial def decVal (v : V) : Option Val := do
  match ← v.list? with
  | [.atom "n"] => pure .none
  | [.atom "s", s] => pure (.str (← s.cps?))
  | [.atom "i", i] => pure (.int (← i.int?))
  | [.atom "b", b] => pure (.bool (← b.bool?))
  | [.atom "fd", neg, m, e] => pure (.fdec (← neg.bool?) (← m.nat?) (← e.int?))
  | [.atom "fs", k] => pure (.fspecial (← k.nat?))
  | [.atom "fb", p, q] => pure (.fbin (← p.int?) (← q.nat?))
  | [.atom "dt", y, mo, d, h, mi, s] => pure (.dt (← y.nat?) (← mo.nat?) (← d.nat?) (← h.nat?) (← mi.nat?) (← s.nat?))
  | [.atom "td", us] => pure (.td (← us.int?))
  | [.atom "l", l] => pure (.list (← (← l.list?).mapM decVal))
  | [.atom "o"] => pure .other
  | _ => none

partial def encVal : Val → V
  | .none => .list [.atom "n"]
  | .str s => .list [.atom "s", V.ofCps s]
  | .int i => .list [.atom "i", .int i]
  | .bool b => .list [.atom "b", V.ofBool b]
  | .fdec neg m e => .list [.atom "fd", V.ofBool neg, .int m, .int e]
  | .fspecial k => .list [.atom "fs", .int k]
  | .fbin p q => .list [.atom "fb", .int p, .int q]
  | .dt y mo d h mi s => .list [.atom "dt", .int y, .int mo, .int d, .int h, .int mi, .int s]
  | .td us => .list [.atom "td", .int us]
  | .list l => .list [.atom "l", .list (l.map encVal)]
  | .other => .list [.atom "o"]

def encErr : Err → V
  | .error => .atom "Error" | .valueError => .atom "ValueError" | .typeError => .atom "TypeError"
  | .overflow => .atom "OverflowError" | .exception => .atom "Exception" | .exit => .atom "SystemExit"

def decOp (v : V) : Option Op := do
  match ← v.list? with
  | [.atom "define", n, t, m, d] =>
    pure (.define (← n.cps?) (← (if t.isNone then pure none else do pure (some (← decTy t)))) (← m.bool?) (← decVal d))
  | [.atom "cmdline", args] => pure (.cmdline (← (← args.list?).mapM V.cps?))
  | [.atom "config", items] =>
    pure (.config (← (← items.list?).mapM (fun it => do
      match ← it.list? with
      | [n, x] => pure ((← n.cps?), (← decVal x))
      | _ => none)))
  | _ => none

def encOut : Out → V
  | .unit => .atom "U"
  | .err e => encErr e
  | .remaining l => .list [.atom "ok", .list (l.map V.ofCps)]

def decItem (v : V) : Option Spec.Item := do
  match ← v.list? with
  | [n] => pure (.single (← n.int?))
  | [lo, hi] => pure (.range (← lo.int?) (← hi.int?))
  | _ => none

def decUnit : V → Option Spec.TdUnit
  | .atom "h" => some .h | .atom "m" => some .m | .atom "s" => some .s | .atom "ms" => some .ms
  | .atom "us" => some .us | .atom "d" => some .d | .atom "w" => some .w
  | _ => none

def go (toks : List String) : Option String := do
  let args ← parseArgs toks.tail
  match toks.head?, args with
  | some "run", [ops] =>
    let ops ← (← ops.list?).mapM decOp
    let (st, outs) := run initState ops
    pure (ok [.list (outs.map encOut), .list (st.map (fun o => V.list [V.ofCps o.key, encVal o.get]))])
  | some "parse", [t, s] =>
    match parseOne (← decTy t) (← s.cps?) with
    | .ok v => pure (ok [encVal v])
    | .error e => pure (ok [encErr e])
  | some "showInt", [n] => pure (ok [V.ofCps (Spec.showInt (← n.int?))])
  | some "showItems", [l] =>
    let items ← (← l.list?).mapM decItem
    pure (ok [V.ofCps (Spec.showItems items), .list ((Spec.denoteItems items).map V.int)])
  | some "showTd", [l] =>
    let parts ← (← l.list?).mapM (fun p => do
      match ← p.list? with
      | [n, u] => pure ((← n.nat?), (← decUnit u))
      | _ => none)
    pure (ok [V.ofCps (Spec.showTd parts), .int (Spec.denoteTd parts)])
  | _, _ => none

def handle (toks : List String) : String := (go toks).getD (err "bad-request")

end TornadoModel.C44.Drv
