/- C44 helper lemmas: `_parse_datetime` consumes only digits, letters, whitespace, `-` and `:` -/
import TornadoModel.C44.Dt
namespace TornadoModel.C44
open Spec

/-- the characters a datetime text may consist of -/
def dtCh (c : Nat) : Bool := isDigit c || isAlpha c || isWs c || c == 45 || c == 58

/-- the tokens that occur in the ten formats -/
def tokOk : Tok → Bool
  | .ch c => c == 45 || c == 58 || c == 84
  | _ => true

theorem dtCh_digit (c : Nat) (h : isDigit c = true) : dtCh c = true := by simp [dtCh, h]
theorem dtCh_alpha (c : Nat) (h : isAlpha c = true) : dtCh c = true := by simp [dtCh, h]
theorem dtCh_ws (c : Nat) (h : isWs c = true) : dtCh c = true := by simp [dtCh, h]

theorem dig?_zero (a : Nat) (t : Str) (v : Nat) (h : dig? (a :: t) 0 = some v) : isDigit a = true := by
  simp only [dig?, List.getElem?_cons_zero, Option.bind_some] at h
  split at h
  · assumption
  · cases h

theorem dig?_succ (a : Nat) (t : Str) (i : Nat) : dig? (a :: t) (i + 1) = dig? t i := by
  simp [dig?]

theorem dig?_nil (i : Nat) : dig? [] i = none := by simp [dig?]

theorem two_ok (s : Str) (lo1 hi1 lo2 hi2 n v : Nat) (h : (n, v) ∈ two s lo1 hi1 lo2 hi2) :
    ∀ c ∈ s.take n, dtCh c = true := by
  rcases s with _ | ⟨a, _ | ⟨b, t⟩⟩
  · simp [two, dig?_nil] at h
  · simp [two, dig?_succ, dig?_nil] at h
  · unfold two at h
    cases h0 : dig? (a :: b :: t) 0 with
    | none => simp [h0] at h
    | some x =>
      cases h1 : dig? (a :: b :: t) 1 with
      | none => simp [h0, h1] at h
      | some y =>
        have ha := dig?_zero a _ x h0
        have hb : isDigit b = true := by
          rw [dig?_succ] at h1; exact dig?_zero b _ y h1
        simp only [h0, h1] at h
        split at h
        · simp only [List.mem_singleton, Prod.mk.injEq] at h
          obtain ⟨rfl, _⟩ := h
          intro c hc
          simp only [List.take_succ_cons, List.take_zero, List.mem_cons, List.not_mem_nil, or_false] at hc
          rcases hc with rfl | rfl
          · exact dtCh_digit _ ha
          · exact dtCh_digit _ hb
        · cases h

theorem one_ok (s : Str) (lo hi n v : Nat) (h : (n, v) ∈ one s lo hi) :
    n = 1 ∧ ∃ a t, s = a :: t ∧ isDigit a = true := by
  rcases s with _ | ⟨a, t⟩
  · simp [one, dig?_nil] at h
  · unfold one at h
    cases h0 : dig? (a :: t) 0 with
    | none => simp [h0] at h
    | some x =>
      have ha := dig?_zero a _ x h0
      simp only [h0] at h
      split at h
      · simp only [List.mem_singleton, Prod.mk.injEq] at h
        exact ⟨h.1, a, t, rfl, ha⟩
      · cases h

theorem one_ok' (s : Str) (lo hi n v : Nat) (h : (n, v) ∈ one s lo hi) : ∀ c ∈ s.take n, dtCh c = true := by
  obtain ⟨rfl, a, t, rfl, ha⟩ := one_ok s lo hi n v h
  intro c hc
  simp only [List.take_succ_cons, List.take_zero, List.mem_cons, List.not_mem_nil, or_false] at hc
  subst hc
  exact dtCh_digit _ ha

theorem lowerC_alpha (c : Nat) (h : isAlpha (lowerC c) = true) : isAlpha c = true := by
  unfold lowerC at h
  split at h
  · rename_i hu; simp [isAlpha]; omega
  · exact h

theorem monthAbbr_alpha : ∀ n ∈ monthAbbr, ∀ x ∈ lit n, isAlpha x = true := by decide +kernel

theorem nameCands_ok (names : List String) (hn : ∀ n ∈ names, ∀ x ∈ lit n, isAlpha x = true) (s : Str) (n v : Nat)
    (h : (n, v) ∈ nameCands names s) : ∀ c ∈ s.take n, dtCh c = true := by
  unfold nameCands at h
  simp only [] at h
  cases hany : names.any (fun nm => lit nm == lower (s.take 3)) with
  | false =>
    have : names.findIdx? (fun nm => lit nm == lower (s.take 3)) = none := by
      rw [List.findIdx?_eq_none_iff]
      intro x hx
      have := List.any_eq_false.mp hany x hx
      simpa using this
    simp [this] at h
  | true =>
    obtain ⟨nm, hnm, hq⟩ := List.any_eq_true.mp hany
    have hq' : lit nm = lower (s.take 3) := by simpa using hq
    have hn3 : n = 3 := by
      split at h
      · simp only [List.mem_singleton, Prod.mk.injEq] at h; exact h.1
      · cases h
    subst hn3
    intro c hc
    apply dtCh_alpha
    apply lowerC_alpha
    apply hn nm hnm
    rw [hq']
    exact List.mem_map_of_mem hc

theorem take_takeWhile_ok {α} (p : α → Bool) (s : List α) (n : Nat) (hn : n ≤ (s.takeWhile p).length) :
    ∀ c ∈ s.take n, p c = true := by
  induction s generalizing n with
  | nil => intro c hc; simp at hc
  | cons x xs ih =>
    cases n with
    | zero => intro c hc; simp at hc
    | succ m =>
      simp only [List.takeWhile_cons] at hn
      split at hn
      · rename_i hx
        intro c hc
        simp only [List.take_succ_cons, List.mem_cons] at hc
        rcases hc with rfl | hc
        · exact hx
        · exact ih m (by simpa using hn) c hc
      · simp at hn

theorem cands_ok (t : Tok) (ht : tokOk t = true) (s : Str) (n v : Nat) (h : (n, v) ∈ cands t s) :
    ∀ c ∈ s.take n, dtCh c = true := by
  cases t with
  | ch k =>
    rcases s with _ | ⟨x, xs⟩
    · simp [cands] at h
    · simp only [cands] at h
      split at h
      · rename_i hl
        simp only [List.mem_singleton, Prod.mk.injEq] at h
        obtain ⟨rfl, _⟩ := h
        intro c hc
        simp only [List.take_succ_cons, List.take_zero, List.mem_cons, List.not_mem_nil, or_false] at hc
        subst hc
        simp only [tokOk, Bool.or_eq_true, beq_iff_eq] at ht
        unfold lowerC at hl
        simp only [dtCh, isDigit, isAlpha, isWs, Bool.or_eq_true, Bool.and_eq_true, decide_eq_true_eq, beq_iff_eq]
        split at hl <;> split at hl <;> omega
      · cases h
  | ws =>
    simp only [cands, List.mem_map, List.mem_range, Prod.mk.injEq] at h
    obtain ⟨i, hi, rfl, _⟩ := h
    intro c hc
    exact dtCh_ws c (take_takeWhile_ok isWs s _ (by omega) c hc)
  | fY =>
    simp only [cands] at h
    rcases s with _ | ⟨a, _ | ⟨b, _ | ⟨c', _ | ⟨d, t⟩⟩⟩⟩
    · simp [dig?_nil] at h
    · simp [dig?_succ, dig?_nil] at h
    · simp [dig?_succ, dig?_nil] at h
    · simp [dig?_succ, dig?_nil] at h
    · cases h0 : dig? (a :: b :: c' :: d :: t) 0 with
      | none => simp [h0] at h
      | some x0 =>
      cases h1 : dig? (a :: b :: c' :: d :: t) 1 with
      | none => simp [h0, h1] at h
      | some x1 =>
      cases h2 : dig? (a :: b :: c' :: d :: t) 2 with
      | none => simp [h0, h1, h2] at h
      | some x2 =>
      cases h3 : dig? (a :: b :: c' :: d :: t) 3 with
      | none => simp [h0, h1, h2, h3] at h
      | some x3 =>
        simp only [h0, h1, h2, h3, List.mem_singleton, Prod.mk.injEq] at h
        obtain ⟨rfl, _⟩ := h
        have ha := dig?_zero _ _ _ h0
        have hb : isDigit b = true := by rw [dig?_succ] at h1; exact dig?_zero _ _ _ h1
        have hc' : isDigit c' = true := by rw [dig?_succ, dig?_succ] at h2; exact dig?_zero _ _ _ h2
        have hd : isDigit d = true := by rw [dig?_succ, dig?_succ, dig?_succ] at h3; exact dig?_zero _ _ _ h3
        intro c hc
        simp only [List.take_succ_cons, List.take_zero, List.mem_cons, List.not_mem_nil, or_false] at hc
        rcases hc with rfl | rfl | rfl | rfl <;> (apply dtCh_digit; assumption)
  | fm =>
    simp only [cands, List.mem_append] at h
    rcases h with (h | h) | h
    · exact two_ok _ _ _ _ _ _ _ h
    · exact two_ok _ _ _ _ _ _ _ h
    · exact one_ok' _ _ _ _ _ h
  | fd =>
    simp only [cands, List.mem_append] at h
    rcases h with (((h | h) | h) | h) | h
    · exact two_ok _ _ _ _ _ _ _ h
    · exact two_ok _ _ _ _ _ _ _ h
    · exact two_ok _ _ _ _ _ _ _ h
    · exact one_ok' _ _ _ _ _ h
    · split at h
      · rename_i r
        simp only [List.mem_map, Prod.mk.injEq] at h
        obtain ⟨⟨n', v'⟩, hm, rfl, _⟩ := h
        obtain ⟨_, a, t, rfl, ha⟩ := one_ok r 1 9 n' v' hm
        intro c hc
        simp only [List.take_succ_cons, List.take_zero, List.mem_cons, List.not_mem_nil, or_false] at hc
        rcases hc with rfl | rfl
        · decide
        · exact dtCh_digit _ ha
      · cases h
  | fH =>
    simp only [cands, List.mem_append] at h
    rcases h with (h | h) | h
    · exact two_ok _ _ _ _ _ _ _ h
    · exact two_ok _ _ _ _ _ _ _ h
    · exact one_ok' _ _ _ _ _ h
  | fM =>
    simp only [cands, List.mem_append] at h
    rcases h with h | h
    · exact two_ok _ _ _ _ _ _ _ h
    · exact one_ok' _ _ _ _ _ h
  | fS =>
    simp only [cands, List.mem_append] at h
    rcases h with (h | h) | h
    · exact two_ok _ _ _ _ _ _ _ h
    · exact two_ok _ _ _ _ _ _ _ h
    · exact one_ok' _ _ _ _ _ h
  | fa => exact nameCands_ok dayAbbr dayAbbr_alpha s n v (by simpa [cands] using h)
  | fb => exact nameCands_ok monthAbbr monthAbbr_alpha s n v (by simpa [cands] using h)

/-- whatever a format's regex consumes consists of datetime characters -/
theorem matchSeq_ok (ts : List Tok) (hts : ∀ t ∈ ts, tokOk t = true) (s : Str) (f f' : Fields) (rest : Str)
    (h : matchSeq ts s f = some (f', rest)) : ∃ n, rest = s.drop n ∧ ∀ c ∈ s.take n, dtCh c = true := by
  induction ts generalizing s f with
  | nil =>
    simp only [matchSeq, Option.some.injEq, Prod.mk.injEq] at h
    exact ⟨0, by simp [h.2], by simp⟩
  | cons t ts ih =>
    simp only [matchSeq] at h
    obtain ⟨⟨n, v⟩, hmem, hr⟩ := List.exists_of_findSome?_eq_some h
    obtain ⟨n', hrest, hok⟩ := ih (fun x hx => hts x (by simp [hx])) _ _ hr
    refine ⟨n + n', by rw [hrest, List.drop_drop], ?_⟩
    intro c hc
    rw [List.take_add] at hc
    rcases List.mem_append.mp hc with hc | hc
    · exact cands_ok t (hts t (by simp)) s n v hmem c hc
    · exact hok c hc

theorem strptime_bad (ts : List Tok) (hts : ∀ t ∈ ts, tokOk t = true) (s : Str) (c : Nat) (hc : c ∈ s)
    (hb : dtCh c = false) : strptime ts s = none := by
  unfold strptime
  split
  · rename_i f heq
    obtain ⟨n, hrest, hok⟩ := matchSeq_ok ts hts s _ f [] heq
    have hlen : s.length ≤ n := List.drop_eq_nil_iff.mp hrest.symm
    rw [List.take_of_length_le hlen] at hok
    rw [hok c hc] at hb
    cases hb
  · rfl

theorem formats_ok : ∀ fmt ∈ datetimeFormats, ∀ t ∈ fmtToks fmt, tokOk t = true := by decide +kernel

theorem parseDatetime_bad (s : Str) (c : Nat) (hc : c ∈ s) (hb : dtCh c = false) : parseDatetime s = .error .error := by
  unfold parseDatetime
  have : datetimeFormats.findSome? (fun fmt => strptime (fmtToks fmt) s) = none := by
    rw [List.findSome?_eq_none_iff]
    intro fmt hf
    exact strptime_bad _ (formats_ok fmt hf) s c hc hb
  rw [this]

end TornadoModel.C44
