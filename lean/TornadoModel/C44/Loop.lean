/- C44 — loop-level plumbing of `parse_command_line` / `parse_config_file`: one `--name=text` argument or one config
   assignment whose `_Option.parse` / `_Option.set` succeeds replaces exactly that option in the table and the loop
   continues (name normalisation, `lstrip("-")`, `partition("=")`, str→`parse` dispatch, `update`, `lookup`). -/
import TornadoModel.C44.Table
namespace TornadoModel.C44
open Spec

/-- storing an option under a key that is defined makes `lookup` return exactly that option -/
theorem lookup_update_self (st : State) (o : Opt) (h : (lookup st o.key).isSome = true) :
    lookup (update st o) o.key = some o := by
  unfold lookup update at *
  induction st with
  | nil => simp at h
  | cons y ys ih =>
    simp only [List.map_cons, List.find?_cons] at h ⊢
    by_cases hy : (y.key == o.key) = true
    · simp [hy]
    · have hy' : (y.key == o.key) = false := by simpa using hy
      simp only [hy', Bool.false_eq_true, if_false] at h ⊢
      exact ih h

theorem lookup_update_same (st : State) (o o' : Opt) (k : Str) (hl : lookup st k = some o) (hk : o'.key = o.key) :
    lookup (update st o') k = some o' := by
  have hok : o.key = k := lookup_key st k o hl
  have : o'.key = k := by rw [hk, hok]
  subst this
  exact lookup_update_self st o' (by rw [hl]; rfl)

/-- the command-line argument `-…-<name>=<text>` with `k+1` leading dashes (`-name=…`, `--name=…`, `---name=…`) -/
def optArgN (k : Nat) (name text : Str) : Str := List.replicate (k + 1) 45 ++ (name ++ 61 :: text)

/-- the usual spelling `--<name>=<text>` -/
abbrev optArg (name text : Str) : Str := optArgN 1 name text

theorem dropWhile_replicate_dash (k : Nat) (l : Str) :
    (List.replicate k 45 ++ l).dropWhile (· == 45) = l.dropWhile (· == 45) := by
  induction k with
  | zero => rfl
  | succ k ih => simp [List.replicate_succ, ih]

theorem optArgN_partition (k : Nat) (name text : Str) (hd : ∀ c, name.head? = some c → c ≠ 45) (hn : 61 ∉ name) :
    partition 61 ((optArgN k name text).dropWhile (· == 45)) = (name, true, text) := by
  have h : (optArgN k name text).dropWhile (· == 45) = name ++ 61 :: text := by
    unfold optArgN
    rw [dropWhile_replicate_dash]
    cases name with
    | nil => simp
    | cons c cs =>
      have := hd c rfl
      simp [this]
  rw [h, partition_at_sep 61 name text hn]

theorem optArgN_dash (k : Nat) (name text : Str) : startsWithDash (optArgN k name text) = true := by
  simp [optArgN, List.replicate_succ, startsWithDash]

theorem optArgN_ne_dashes (k : Nat) (name text : Str) : (optArgN k name text == [45, 45]) = false := by
  have : optArgN k name text ≠ [45, 45] := by
    unfold optArgN
    match k with
    | 0 => cases name <;> simp [List.replicate_succ]
    | 1 => simp [List.replicate_succ]
    | k + 2 => simp [List.replicate_succ]
  simpa using this

/-- **command line, one step**: `-…-name=text` for a defined option whose `parse` succeeds stores the parsed option and
    the loop goes on with the remaining arguments -/
theorem cmdline_step (st : State) (k : Nat) (name text : Str) (rest : List Str) (o o' : Opt)
    (hd : ∀ c, name.head? = some c → c ≠ 45) (hn : 61 ∉ name)
    (hl : lookup st (normalize name) = some o) (hp : o.parse text = (o', none)) :
    parseArgsLoop st (optArgN k name text :: rest) = parseArgsLoop (update st o') rest := by
  rw [parseArgsLoop]
  simp only [optArgN_dash, Bool.not_true, Bool.false_eq_true, if_false, optArgN_ne_dashes,
    optArgN_partition k name text hd hn, hl]
  simp [hp]

/-- `_Option.set` accepts an instance of the option's type (single-valued option) -/
theorem set_ok (o : Opt) (v : Val) (hm : o.multiple = false) (hi : isInstance o.ty v = true) (hh : o.isHelp = false) :
    o.set v = ({ o with value := some v }, none) := by
  simp [Opt.set, hm, hi, hh]

/-- `_Option.set` accepts a list of instances (multiple option) -/
theorem set_ok_list (o : Opt) (items : List Val) (hm : o.multiple = true)
    (hi : ∀ it ∈ items, isInstance o.ty it = true) :
    o.set (.list items) = ({ o with value := some (.list items) }, none) := by
  have hall : (items.all fun it => isNone it || isInstance o.ty it) = true := by
    rw [List.all_eq_true]
    intro it hit
    simp [hi it hit]
  unfold Opt.set
  simp only [hm, if_true, hall, Bool.not_true, Bool.false_eq_true, if_false]
  split <;> simp_all

/-- **config file, one step (string value handed to `parse`)**: `name = "text"` for a defined option that is not a plain
    `str` option goes through `_Option.parse` -/
theorem config_step_parse (st : State) (name text : Str) (rest : List (Str × Val)) (o o' : Opt)
    (hl : lookup st (normalize name) = some o) (hty : o.ty ≠ .str ∨ o.multiple = true)
    (hp : o.parse text = (o', none)) :
    parseConfig st ((name, .str text) :: rest) = parseConfig (update st o') rest := by
  rw [parseConfig]
  have hc : (o.ty != .str || o.multiple) = true := by
    rcases hty with h | h
    · simp [h]
    · simp [h]
  simp only [hl, hc, if_true, hp]
  simp

/-- **config file, one step (value handed to `set`)**: a typed value — or a string for a plain `str` option — goes
    through `_Option.set` -/
theorem config_step_set (st : State) (name : Str) (v : Val) (rest : List (Str × Val)) (o o' : Opt)
    (hl : lookup st (normalize name) = some o)
    (hv : (∀ s, v ≠ .str s) ∨ (o.ty = .str ∧ o.multiple = false))
    (hm : o.multiple = true → ∃ l, v = .list l)
    (hs : o.set v = (o', none)) :
    parseConfig st ((name, v) :: rest) = parseConfig (update st o') rest := by
  cases v with
  | str s =>
    have h : o.ty = .str ∧ o.multiple = false := by
      rcases hv with h | h
      · exact absurd rfl (h s)
      · exact h
    simp [parseConfig, hl, h.1, h.2, hs]
  | list l => simp [parseConfig, hl, hs]
  | _ =>
    have hmf : o.multiple = false := by
      cases h : o.multiple with
      | false => rfl
      | true => obtain ⟨l, hl⟩ := hm h; cases hl
    simp [parseConfig, hl, hmf, hs]

/-- **command line, failing step**: when `parse` of the value fails, `parse_command_line` raises that error (the option holds
    whatever `parse` left in it) -/
theorem cmdline_step_error (st : State) (k : Nat) (name text : Str) (rest : List Str) (o o' : Opt) (e : Err)
    (hd : ∀ c, name.head? = some c → c ≠ 45) (hn : 61 ∉ name)
    (hl : lookup st (normalize name) = some o) (hp : o.parse text = (o', some e)) :
    parseArgsLoop st (optArgN k name text :: rest) = (update st o', .error e) := by
  rw [parseArgsLoop]
  simp only [optArgN_dash, Bool.not_true, Bool.false_eq_true, if_false, optArgN_ne_dashes,
    optArgN_partition k name text hd hn, hl]
  simp [hp]

/-- **config file, failing step (string handed to `parse`)** -/
theorem config_step_error (st : State) (name text : Str) (rest : List (Str × Val)) (o o' : Opt) (e : Err)
    (hl : lookup st (normalize name) = some o) (hty : o.ty ≠ .str ∨ o.multiple = true)
    (hp : o.parse text = (o', some e)) :
    parseConfig st ((name, .str text) :: rest) = (update st o', some e) := by
  rw [parseConfig]
  have hc : (o.ty != .str || o.multiple) = true := by
    rcases hty with h | h
    · simp [h]
    · simp [h]
  simp only [hl, hc, if_true, hp]
  simp

/-- **config file, failing step (typed value handed to `set`, single-valued option)** -/
theorem config_step_set_error (st : State) (name : Str) (v : Val) (rest : List (Str × Val)) (o o' : Opt) (e : Err)
    (hl : lookup st (normalize name) = some o) (hns : ∀ s, v ≠ .str s) (hm : o.multiple = false)
    (hs : o.set v = (o', some e)) :
    parseConfig st ((name, v) :: rest) = (update st o', some e) := by
  cases v with
  | str s => exact absurd rfl (hns s)
  | _ => simp [parseConfig, hl, hm, hs]

end TornadoModel.C44
