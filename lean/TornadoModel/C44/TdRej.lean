/- C44 helper lemmas: `_parse_timedelta` on text that does not start like a number -/
import TornadoModel.C44.Lemmas
namespace TornadoModel.C44
open Spec

theorem matchFloatPat_none (r : Str)
    (h : ∀ c, r.head? = some c → isDigit c = false ∧ c ≠ 43 ∧ c ≠ 45 ∧ c ≠ 46) : matchFloatPat r = none := by
  cases r with
  | nil => simp [matchFloatPat, takeSign, takeDigits]
  | cons c t =>
    obtain ⟨hd, h43, h45, h46⟩ := h c rfl
    have hsign : takeSign (c :: t) = (false, c :: t) := by
      unfold takeSign
      split
      · rename_i h; simp at h; exact absurd h.1 h45
      · rename_i h; simp at h; exact absurd h.1 h43
      · rfl
    have htd : takeDigits (c :: t) 0 0 = (0, 0, c :: t) := by simp [takeDigits, hd]
    unfold matchFloatPat
    rw [hsign]
    simp only []
    split
    · rfl
    · rename_i m e rest heq
      exfalso
      split at heq
      · rename_i fr h; simp at h; exact absurd h.1 h46
      · rw [htd] at heq
        simp at heq

theorem parseTimedelta_not_number (s : Str) (hne : s ≠ [])
    (h : ∀ c, (s.dropWhile isWs).head? = some c → isDigit c = false ∧ c ≠ 43 ∧ c ≠ 45 ∧ c ≠ 46) :
    parseTimedelta s = .error .exception := by
  unfold parseTimedelta
  cases s with
  | nil => exact absurd rfl hne
  | cons a t =>
    simp only [List.length_cons]
    rw [parseTimedeltaLoop]
    simp only [List.isEmpty_cons, Bool.false_eq_true, if_false, matchFloatPat_none _ h]

end TornadoModel.C44
