/- C44 helper lemmas: `float(str)` rejects every text containing a character outside its alphabet -/
import TornadoModel.C44.Lemmas
namespace TornadoModel.C44
open Spec

/-- a character that is neither digit nor underscore survives `digitPart` into the unconsumed rest -/
theorem digitPart_bad (s : Str) (c : Nat) (hc : c ∈ s) (hd : isDigit c = false) (h95 : c ≠ 95)
    (acc k : Nat) (us : Bool) (v n : Nat) (rest : Str)
    (h : digitPart s acc k us = some (v, n, rest)) : c ∈ rest := by
  induction s generalizing acc k us with
  | nil => cases hc
  | cons x xs ih =>
    simp only [digitPart] at h
    by_cases hx : isDigit x = true
    · simp only [hx, if_true] at h
      rcases List.mem_cons.mp hc with rfl | hm
      · rw [hd] at hx; cases hx
      · exact ih hm _ _ _ h
    · simp only [hx, Bool.false_eq_true, if_false] at h
      by_cases hx95 : x = 95
      · simp only [hx95, if_true] at h
        split at h
        · cases h
        · rcases List.mem_cons.mp hc with rfl | hm
          · exact absurd hx95 h95
          · exact ih hm _ _ _ h
      · simp only [hx95, if_false] at h
        split at h
        · cases h
        · simp only [Option.some.injEq, Prod.mk.injEq] at h
          rw [← h.2.2]; exact hc

theorem parseExp_bad (s : Str) (c : Nat) (hc : c ∈ s) (hd : isDigit c = false) (ha : isAlpha c = false)
    (h43 : c ≠ 43) (h45 : c ≠ 45) (h95 : c ≠ 95) : parseExp s = none := by
  cases s with
  | nil => cases hc
  | cons x r =>
    simp only [parseExp]
    split
    · rename_i hx
      have hcx : c ≠ x := by
        intro e; subst e
        rcases hx with rfl | rfl <;> simp [isAlpha] at ha
      have hcr : c ∈ r := by
        rcases List.mem_cons.mp hc with h | h
        · exact absurd h hcx
        · exact h
      have hm := mem_of_mem_takeSign r c hcr h45 h43
      generalize takeSign r = p at hm ⊢
      obtain ⟨neg, r2⟩ := p
      simp only [] at hm ⊢
      cases hdp : digitPart r2 0 0 false with
      | none => rfl
      | some t =>
        obtain ⟨v, n, rest⟩ := t
        have := digitPart_bad r2 c hm hd h95 0 0 false v n rest hdp
        cases rest with
        | nil => cases this
        | cons => rfl
    · rfl

theorem lower_ne_word (r : Str) (c : Nat) (hc : c ∈ r) (ha : isAlpha c = false) (w : Str)
    (hw : ∀ x ∈ w, isAlpha x = true) : (lower r == w) = false := by
  cases h : lower r == w with
  | false => rfl
  | true =>
    have he : lower r = w := by simpa using h
    have hl : lowerC c = c := by
      unfold lowerC
      split
      · rename_i hu
        simp [isAlpha] at ha
        omega
      · rfl
    have : c ∈ w := by
      rw [← he, ← hl]
      exact List.mem_map_of_mem hc
    rw [hw c this] at ha
    cases ha

theorem inf_alpha : ∀ x ∈ lit "inf", isAlpha x = true := by decide +kernel
theorem infinity_alpha : ∀ x ∈ lit "infinity", isAlpha x = true := by decide +kernel
theorem nan_alpha : ∀ x ∈ lit "nan", isAlpha x = true := by decide +kernel

/-- the body of `parseFloat` after sign and special words -/
theorem parseFloat_body_bad (neg : Bool) (r : Str) (c : Nat) (hc : c ∈ r) (hd : isDigit c = false) (ha : isAlpha c = false)
    (h43 : c ≠ 43) (h45 : c ≠ 45) (h46 : c ≠ 46) (h95 : c ≠ 95) :
    (match r with
    | 46 :: fr =>
      match digitPart fr 0 0 false with
      | some (fv, fn, rest) => (parseExp rest).map (fun e => Val.fdec neg fv (e - fn))
      | none => none
    | _ =>
      match digitPart r 0 0 false with
      | some (iv, _, 46 :: rest) =>
        match rest with
        | [] => some (.fdec neg iv 0)
        | c :: _ =>
          if isDigit c then
            match digitPart rest 0 0 false with
            | some (fv, fn, rest2) => (parseExp rest2).map (fun e => .fdec neg (iv * 10 ^ fn + fv) (e - fn))
            | none => none
          else (parseExp rest).map (fun e => .fdec neg iv e)
      | some (iv, _, rest) => (parseExp rest).map (fun e => .fdec neg iv e)
      | none => none) = none := by
  have hexp : ∀ t, c ∈ t → parseExp t = none := fun t ht => parseExp_bad t c ht hd ha h43 h45 h95
  have hdp : ∀ t v n rest, c ∈ t → digitPart t 0 0 false = some (v, n, rest) → c ∈ rest :=
    fun t v n rest ht h => digitPart_bad t c ht hd h95 0 0 false v n rest h
  split
  · rename_i fr
    have hfr : c ∈ fr := by
      rcases List.mem_cons.mp hc with h | h
      · exact absurd h h46
      · exact h
    split
    · rename_i fv fn rest h
      rw [hexp rest (hdp _ _ _ _ hfr h)]; rfl
    · rfl
  · split
    · rename_i iv n rest h
      have hr : c ∈ rest := by
        rcases List.mem_cons.mp (hdp _ _ _ _ hc h) with h | h
        · exact absurd h h46
        · exact h
      split
      · cases hr
      · split
        · split
          · rename_i fv fn rest2 h2
            rw [hexp rest2 (hdp _ _ _ _ hr h2)]; rfl
          · rfl
        · rw [hexp _ hr]; rfl
    · rename_i iv n rest _ h
      rw [hexp rest (hdp _ _ _ _ hc h)]; rfl
    · rfl

theorem parseFloat_bad (s : Str) (c : Nat) (hc : c ∈ s) (hd : isDigit c = false) (hw : isWs c = false)
    (ha : isAlpha c = false) (h43 : c ≠ 43) (h45 : c ≠ 45) (h46 : c ≠ 46) (h95 : c ≠ 95) : parseFloat s = none := by
  unfold parseFloat
  have hm := mem_of_mem_takeSign _ c (mem_strip s c hc hw) h45 h43
  generalize takeSign (strip s) = p at hm ⊢
  obtain ⟨neg, r⟩ := p
  simp only [] at hm ⊢
  rw [lower_ne_word r c hm ha _ inf_alpha, lower_ne_word r c hm ha _ infinity_alpha, lower_ne_word r c hm ha _ nan_alpha]
  simp only [Bool.or_self, Bool.false_eq_true, if_false]
  exact parseFloat_body_bad neg r c hm hd ha h43 h45 h46 h95

end TornadoModel.C44
