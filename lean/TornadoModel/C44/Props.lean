/- C44 — property theorems. -/
import TornadoModel.C44.Lemmas
import TornadoModel.C44.Table
import TornadoModel.C44.Td
import TornadoModel.C44.FloatRej
import TornadoModel.C44.FloatRt
import TornadoModel.C44.Dt
import TornadoModel.C44.TdRej
import TornadoModel.C44.DtRej
namespace TornadoModel.C44
open Spec

/-! ## values parse to what they denote -/

/-- **int**: the canonical text of every integer parses to that integer. -/
theorem int_roundtrip (n : Int) : parseOne .int (showInt n) = .ok (.int n) := by
  simp [parseOne, parseInt_showInt]

/-- … and so does an int option given that text (command line or string in a config file) -/
theorem int_option_roundtrip (o : Opt) (ho : o.ty = .int) (hm : o.multiple = false) (hh : o.isHelp = false) (n : Int) :
    o.parse (showInt n) = ({ o with value := some (.int n) }, none) := by
  simp [Opt.parse, hm, ho, int_roundtrip, hh]

theorem intRange_self (n : Int) : intRange n n = [n] := by
  simp [intRange]

theorem showInt_no_colon (n : Int) : (58 : Nat) ∉ showInt n := by
  intro h
  rcases showInt_chars n 58 h with h | h
  · simp [isDigit] at h
  · cases h

theorem showInt_no_comma (n : Int) : (44 : Nat) ∉ showInt n := by
  intro h
  rcases showInt_chars n 44 h with h | h
  · simp [isDigit] at h
  · cases h

theorem showInt_ne_nil (n : Int) : showInt n ≠ [] := by
  cases n with
  | ofNat n => exact natDigits_ne_nil n
  | negSucc n => simp [showInt]

theorem parseParts_items (items : List Item) (acc : List Val) :
    parseParts .int (items.map showItem) acc = (acc ++ (denoteItems items).map Val.int, none) := by
  induction items generalizing acc with
  | nil => simp [parseParts, denoteItems]
  | cons it rest ih =>
    cases it with
    | single n =>
      simp only [List.map_cons, parseParts, showItem]
      rw [partition_no_sep 58 _ (showInt_no_colon n)]
      simp [int_roundtrip, asInt, intRange_self, ih, denoteItems, denoteItem]
    | range lo hi =>
      simp only [List.map_cons, parseParts, showItem, List.append_assoc, List.singleton_append]
      rw [partition_at_sep 58 _ _ (showInt_no_colon lo)]
      have hne : (showInt hi).isEmpty = false := by
        cases h : showInt hi with
        | nil => exact absurd h (showInt_ne_nil hi)
        | cons => rfl
      simp [int_roundtrip, hne, asInt, ih, denoteItems, denoteItem]

/-- **multiple values and integer ranges**: `1,3:5,…` parses to the concatenation of the numbers and of the
    inclusive ranges it denotes. -/
theorem int_list_roundtrip (o : Opt) (ho : o.ty = .int) (hm : o.multiple = true) (items : List Item) (hne : items ≠ []) :
    o.parse (showItems items) = ({ o with value := some (.list ((denoteItems items).map Val.int)) }, none) := by
  have hsplit : splitOnC 44 (showItems items) = items.map showItem := by
    apply splitOnC_joinWith 44 _ (by simpa using hne)
    intro g hg
    simp only [List.mem_map] at hg
    obtain ⟨it, _, rfl⟩ := hg
    cases it with
    | single n => exact showInt_no_comma n
    | range lo hi =>
      simp only [showItem, List.mem_append, List.mem_singleton, not_or]
      exact ⟨⟨showInt_no_comma lo, by decide⟩, showInt_no_comma hi⟩
  simp [Opt.parse, hm, ho, hsplit, parseParts_items]

example : showItems [.single 1, .range 3 5] = [49, 44, 51, 58, 53] := by decide +kernel
example : denoteItems [.single 1, .range 3 5] = [1, 3, 4, 5] := by decide +kernel

/-- **bool**: `true` / `false` parse to themselves -/
theorem bool_roundtrip (b : Bool) : parseOne .bool (showBool b) = .ok (.bool b) := by
  have h : parseBool (showBool b) = b := by cases b <;> decide +kernel
  simp [parseOne, h]

/-- the words the parser really distinguishes, in any letter case -/
theorem bool_partial (s : Str) :
    (lower s = lit "false" ∨ lower s = lit "0" ∨ lower s = lit "f" → parseOne .bool s = .ok (.bool false))
    ∧ (lower s = lit "true" ∨ lower s = lit "1" ∨ lower s = lit "t" → parseOne .bool s = .ok (.bool true)) := by
  constructor
  · intro h
    rcases h with h | h | h <;> simp [parseOne, parseBool, h]
  · intro h
    have hb : parseBool s = true := by
      rcases h with h | h | h <;> (simp only [parseBool, h]; decide +kernel)
    simp [parseOne, hb]

/-- "values of the wrong type are rejected", for bool: every text that is not one of the six words is an error -/
def bool_wrong_type_full : Prop :=
  ∀ s : Str, lower s ∉ [lit "false", lit "0", lit "f", lit "true", lit "1", lit "t"] → ∃ e, parseOne .bool s = .error e

/-- … which the code does not do: `banana` parses to `True` (D18) -/
theorem bool_wrong_type_refuted : ¬ bool_wrong_type_full := by
  intro h
  obtain ⟨e, he⟩ := h (lit "banana") (by decide +kernel)
  simp [parseOne] at he

/-- **str**: a string option keeps the text as it is -/
theorem str_identity (o : Opt) (ho : o.ty = .str) (hm : o.multiple = false) (hh : o.isHelp = false) (s : Str) :
    o.parse s = ({ o with value := some (.str s) }, none) := by
  simp [Opt.parse, hm, ho, parseOne, hh]

/-! ## unknown options, wrong types -/

/-- the normalised option name of a command-line argument -/
def keyOf (a : Str) : Str := normalize (partition 61 (a.dropWhile (· == 45))).1

/-- **unknown options are rejected**: when the loop reaches an argument that starts with `-`, is not `--`, and
    whose name is not a defined option, `parse_command_line` raises `Error` and changes nothing. -/
theorem unknown_option_rejected (st : State) (a : Str) (rest : List Str)
    (h1 : startsWithDash a = true) (h2 : a ≠ [45, 45]) (h3 : lookup st (keyOf a) = none) :
    parseArgsLoop st (a :: rest) = (st, .error .error) := by
  have h2' : (a == [45, 45]) = false := by simpa using h2
  unfold keyOf at h3
  rw [parseArgsLoop]
  simp only [h1, Bool.not_true, Bool.false_eq_true, if_false, h2']
  generalize partition 61 (a.dropWhile (· == 45)) = p at h3 ⊢
  obtain ⟨nm, eq, v⟩ := p
  simp only [] at h3 ⊢
  rw [h3]

example : (parseArgsLoop initState [lit "--nosuch=1"]).2.toOption = none := by decide +kernel
example : (parseArgsLoop initState [lit "--help=false", lit "rest"]).2.toOption = some [lit "rest"] := by decide +kernel

/-- a value of the wrong type for an int option: any text with a character that cannot occur in an integer
    is rejected with `ValueError`, and the option keeps its value -/
theorem parseInt_rejects (s : Str) (c : Nat) (hc : c ∈ s) (hd : isDigit c = false) (hw : isWs c = false)
    (h1 : c ≠ 45) (h2 : c ≠ 43) (h3 : c ≠ 95) : parseInt s = none := by
  unfold parseInt
  have hm := mem_of_mem_takeSign _ c (mem_strip s c hc hw) h1 h2
  generalize takeSign (strip s) = p at hm ⊢
  obtain ⟨neg, r⟩ := p
  simp only [] at hm ⊢
  cases hdp : digitPart r 0 0 false with
  | none => rfl
  | some t =>
    obtain ⟨v, n, rest⟩ := t
    cases rest with
    | cons => rfl
    | nil =>
      rcases digitPart_all r 0 0 false v n hdp c hm with h | h
      · rw [hd] at h; cases h
      · exact absurd h h3

theorem wrong_type_rejected_int (o : Opt) (ho : o.ty = .int) (hm : o.multiple = false) (s : Str) (c : Nat)
    (hc : c ∈ s) (hd : isDigit c = false) (hw : isWs c = false) (h1 : c ≠ 45) (h2 : c ≠ 43) (h3 : c ≠ 95) :
    o.parse s = (o, some .valueError) := by
  simp [Opt.parse, hm, ho, parseOne, parseInt_rejects s c hc hd hw h1 h2 h3]

example : parseInt (lit "12a") = none := by decide +kernel
example : parseInt (lit "1.5") = none := by decide +kernel

/-- a config-file value of another class is rejected with `Error`, and the option keeps its value -/
theorem wrong_type_rejected_config (o : Opt) (hm : o.multiple = false) (v : Val)
    (hn : isNone v = false) (hi : isInstance o.ty v = false) : o.set v = (o, some .error) := by
  simp [Opt.set, hm, hn, hi]

example : isInstance .int (.fbin 3 2) = false := by decide
example : isInstance .float (.int 1) = false := by decide

/-! ## unset options keep their defaults -/

/-- **unset options keep their values** (so an option never mentioned keeps its default): whatever the outcome,
    `parse_command_line` changes no option whose name is not among the arguments. -/
theorem unset_keep_default (args : List Str) (st : State) (k : Str)
    (h : ∀ a ∈ args, keyOf a ≠ k) : lookup (parseArgsLoop st args).1 k = lookup st k := by
  induction args generalizing st with
  | nil => simp [parseArgsLoop]
  | cons a rest ih =>
    rw [parseArgsLoop]
    split
    · rfl
    · split
      · rfl
      · have hk := h a (by simp)
        unfold keyOf at hk
        generalize partition 61 (a.dropWhile (· == 45)) = p at hk ⊢
        obtain ⟨nm, eq, v⟩ := p
        simp only [] at hk ⊢
        cases hl : lookup st (normalize nm) with
        | none => rfl
        | some o =>
          simp only []
          split
          · rfl
          · have hokey : o.key = normalize nm := lookup_key st _ o hl
            have hne : ((o.parse (if eq = true then v else lit "true")).1.key == k) = false := by
              rw [parse_key, hokey]; simpa using hk
            cases hp : o.parse (if eq = true then v else lit "true") with
            | mk o' e =>
              rw [hp] at hne
              simp only [] at hne ⊢
              cases e with
              | some er => simpa using lookup_update_ne st o' k hne
              | none =>
                simp only []
                rw [ih _ (fun x hx => h x (by simp [hx]))]
                exact lookup_update_ne st o' k hne

/-- the same for `parse_config_file`: whatever the outcome, no option whose name is not assigned in the file changes -/
theorem unset_keep_default_config (items : List (Str × Val)) (st : State) (k : Str)
    (h : ∀ it ∈ items, normalize it.1 ≠ k) : lookup (parseConfig st items).1 k = lookup st k := by
  induction items generalizing st with
  | nil => simp [parseConfig]
  | cons it rest ih =>
    obtain ⟨name, v⟩ := it
    have hk : normalize name ≠ k := h (name, v) (by simp)
    have ihr := fun st' => ih st' (fun x hx => h x (by simp [hx]))
    cases hl : lookup st (normalize name) with
    | none => cases v <;> simp only [parseConfig, hl] <;> exact ihr st
    | some o =>
      have hokey : o.key = normalize name := lookup_key st _ o hl
      have hfin : ∀ o' : Opt, o'.key = o.key → lookup (update st o') k = lookup st k := by
        intro o' hkey
        apply lookup_update_ne
        rw [hkey, hokey]; simpa using hk
      cases v <;> simp only [parseConfig, hl] <;> repeat' split
      all_goals first
        | rfl
        | exact hfin _ (set_key o _)
        | exact hfin _ (parse_key o _)
        | (rw [ihr]; first | exact hfin _ (set_key o _) | exact hfin _ (parse_key o _))

example : ((parseConfig initState [(lit "nosuch", .int 1), (lit "help", .bool false)]).1.map (·.key)) = [lit "help"] := by
  decide +kernel

/-! ## timedelta -/

/-- **timedelta**: canonical `<n><unit>` sums parse to the sum of their terms (when every partial sum is a valid timedelta) -/
theorem timedelta_roundtrip : ∀ parts : List (Nat × TdUnit), parts ≠ [] →
    (∀ k, tdInRange (denoteTd (parts.take k)) = true) → (∀ p ∈ parts, tdInRange (Int.ofNat (p.1 * p.2.micros)) = true) →
    parseTimedelta (showTd parts) = .ok (denoteTd parts) := by
  intro parts _ hk hp
  have := loop_showTd parts (showTd parts).length 0 (Nat.le_refl _) (by simpa using hk) hp
  simpa [parseTimedelta] using this

/-- … and so does a timedelta option given that text -/
theorem timedelta_option_roundtrip (o : Opt) (ho : o.ty = .timedelta) (hm : o.multiple = false) (hh : o.isHelp = false)
    (parts : List (Nat × TdUnit)) (hne : parts ≠ [])
    (hk : ∀ k, tdInRange (denoteTd (parts.take k)) = true) (hp : ∀ p ∈ parts, tdInRange (Int.ofNat (p.1 * p.2.micros)) = true) :
    o.parse (showTd parts) = ({ o with value := some (.td (denoteTd parts)) }, none) := by
  simp [Opt.parse, hm, ho, parseOne, timedelta_roundtrip parts hne hk hp, hh, Except.map]

example : showTd [(1, .h), (30, .m)] = lit "1h 30m" := by decide +kernel
example : denoteTd [(1, .h), (30, .m)] = 5400000000 := by decide +kernel
example : ∀ k, tdInRange (denoteTd ([(1, TdUnit.h), (30, .m)].take k)) = true := by
  intro k
  match k with
  | 0 => decide +kernel
  | 1 => decide +kernel
  | k + 2 => simp only [List.take_succ_cons, List.take_nil]; decide +kernel
example : ∀ p ∈ [(1, TdUnit.h), (30, .m)], tdInRange (Int.ofNat (p.1 * p.2.micros)) = true := by decide +kernel

/-! ## float: wrong type -/

/-- a float option rejects every text that is not a decimal literal, `inf`, `infinity` or `nan`: any text with a character
    that cannot occur in a float literal is a `ValueError` -/
theorem wrong_type_rejected_float : ∀ s : Str,
    (∃ c ∈ s, isDigit c = false ∧ isWs c = false ∧ isAlpha c = false ∧ c ∉ [43, 45, 46, 95]) → parseFloat s = none := by
  intro s ⟨c, hc, hd, hw, ha, hn⟩
  simp only [List.mem_cons, List.not_mem_nil, or_false, not_or] at hn
  exact parseFloat_bad s c hc hd hw ha hn.1 hn.2.1 hn.2.2.1 hn.2.2.2

/-- … and the float option keeps its value -/
theorem wrong_type_rejected_float_option (o : Opt) (ho : o.ty = .float) (hm : o.multiple = false) (s : Str)
    (h : ∃ c ∈ s, isDigit c = false ∧ isWs c = false ∧ isAlpha c = false ∧ c ∉ [43, 45, 46, 95]) :
    o.parse s = (o, some .valueError) := by
  simp [Opt.parse, hm, ho, parseOne, wrong_type_rejected_float s h]

example : ∃ c ∈ lit "1,5", isDigit c = false ∧ isWs c = false ∧ isAlpha c = false ∧ c ∉ [43, 45, 46, 95] := by decide +kernel
example : parseFloat (lit "1.5") = some (.fdec false 15 (-1)) := by rfl

/-! ## float and datetime round trips -/

/-- **float**: a decimal literal `[-]digits[.digits][e±digits]` (the shapes `repr(float)` produces, and more) parses to
    exactly the rational it denotes, `±(digits as one integer) · 10^(exponent − number of fraction digits)`
    (CPython then rounds that number to the nearest double; the rounding is not modelled) -/
theorem float_roundtrip (l : DecLit) (h : l.wf) : parseOne .float (showDec l) = .ok (denoteDec l) := by
  simp [parseOne, parseFloat_showDec l h]

/-- … and so does a float option given that text -/
theorem float_option_roundtrip (o : Opt) (ho : o.ty = .float) (hm : o.multiple = false) (hh : o.isHelp = false)
    (l : DecLit) (h : l.wf) : o.parse (showDec l) = ({ o with value := some (denoteDec l) }, none) := by
  have hd : denoteDec l = .fdec l.neg (digitsVal (l.ip ++ l.fp)) (expVal l.ex - Int.ofNat l.fp.length) := rfl
  simp only [Opt.parse, hm, ho, float_roundtrip l h, hh, Bool.false_eq_true, if_false]

example : showDec ⟨true, lit "12", lit "50", some (true, lit "07")⟩ = lit "-12.50e-07" := by decide +kernel
example : (⟨true, lit "12", lit "50", some (true, lit "07")⟩ : DecLit).wf := by
  refine ⟨by decide +kernel, by decide +kernel, by decide +kernel, by decide +kernel, by decide +kernel⟩
example : denoteDec ⟨true, lit "12", lit "50", some (true, lit "07")⟩ = .fdec true 1250 (-9) := by rfl

/-- **datetime**: the zero-padded numeric form `YYYY-MM-DD HH:MM:SS` of every valid calendar date and time parses to
    exactly those fields (the earlier `%a %b …` format does not match; the regex backtracking picks the full fields) -/
theorem datetime_roundtrip (y mo d h mi s : Nat) (hv : validDt y mo d h mi s) :
    parseOne .datetime (showDtIso y mo d h mi s) = .ok (.dt y mo d h mi s) := by
  simp [parseOne, parseDatetime_iso y mo d h mi s hv]

example : showDtIso 2024 2 29 23 59 7 = lit "2024-02-29 23:59:07" := by decide +kernel
example : validDt 2024 2 29 23 59 7 := by unfold validDt; decide +kernel

/-! ## bool flag without a value; timedelta: wrong type -/

/-- **bool flag**: `--name` without `=value` sets a (single-valued) bool option to `True` and parsing continues -/
theorem bool_flag_no_value (st : State) (a : Str) (rest : List Str) (o : Opt)
    (h1 : startsWithDash a = true) (h2 : a ≠ [45, 45]) (heq : (partition 61 (a.dropWhile (· == 45))).2.1 = false)
    (hl : lookup st (keyOf a) = some o) (ho : o.ty = .bool) (hm : o.multiple = false) (hh : o.isHelp = false) :
    parseArgsLoop st (a :: rest) = parseArgsLoop (update st { o with value := some (.bool true) }) rest := by
  have h2' : (a == [45, 45]) = false := by simpa using h2
  have hb : parseBool (lit "true") = true := by decide +kernel
  unfold keyOf at hl
  rw [parseArgsLoop]
  simp only [h1, Bool.not_true, Bool.false_eq_true, if_false, h2']
  generalize partition 61 (a.dropWhile (· == 45)) = p at hl heq ⊢
  obtain ⟨nm, eq, v⟩ := p
  simp only [] at hl heq ⊢
  subst heq
  rw [hl]
  simp [ho, Opt.parse, hm, parseOne, hh, hb]

example : startsWithDash (lit "--debug") = true ∧ (partition 61 ((lit "--debug").dropWhile (· == 45))).2.1 = false
    ∧ keyOf (lit "--debug") = lit "debug" := by decide +kernel

/-- a timedelta option rejects (bare `Exception`, option unchanged) every non-empty text that does not start — after
    whitespace — with a digit, a sign or a point -/
theorem wrong_type_rejected_timedelta (o : Opt) (ho : o.ty = .timedelta) (hm : o.multiple = false) (s : Str) (hne : s ≠ [])
    (h : ∀ c, (s.dropWhile isWs).head? = some c → isDigit c = false ∧ c ≠ 43 ∧ c ≠ 45 ∧ c ≠ 46) :
    o.parse s = (o, some .exception) := by
  simp [Opt.parse, hm, ho, parseOne, parseTimedelta_not_number s hne h, Except.map]

example : ∀ c, ((lit " soon").dropWhile isWs).head? = some c → isDigit c = false ∧ c ≠ 43 ∧ c ≠ 45 ∧ c ≠ 46 := by
  decide +kernel

/-- a datetime option rejects (`Error`, option unchanged) every text containing a character that is not a digit, an ASCII
    letter, whitespace, `-` or `:` — none of the ten formats can consume it -/
theorem wrong_type_rejected_datetime (o : Opt) (ho : o.ty = .datetime) (hm : o.multiple = false) (s : Str)
    (h : ∃ c ∈ s, isDigit c = false ∧ isAlpha c = false ∧ isWs c = false ∧ c ≠ 45 ∧ c ≠ 58) :
    o.parse s = (o, some .error) := by
  obtain ⟨c, hc, h1, h2, h3, h4, h5⟩ := h
  have hb : dtCh c = false := by simp [dtCh, h1, h2, h3, h4, h5]
  simp [Opt.parse, hm, ho, parseOne, parseDatetime_bad s c hc hb]

example : ∃ c ∈ lit "2024/02/29", isDigit c = false ∧ isAlpha c = false ∧ isWs c = false ∧ c ≠ 45 ∧ c ≠ 58 := by
  decide +kernel

end TornadoModel.C44
