/- C44 — property theorems. -/
import TornadoModel.C44.Lemmas
import TornadoModel.C44.Table
import TornadoModel.C44.Td
import TornadoModel.C44.FloatRej
import TornadoModel.C44.FloatRt
import TornadoModel.C44.Dt
import TornadoModel.C44.TdRej
import TornadoModel.C44.DtRej
import TornadoModel.C44.Loop
namespace TornadoModel.C44
open Spec

/-! ## values parse to what they denote -/

/-- **int**: the canonical text of every integer parses to that integer. -/
theorem int_roundtrip (n : Int) : parseOne .int (showInt n) = .ok (.int n) := by
  simp [parseOne, parseInt_showInt]

/-- … and so does an int option given that text (command line or string in a config file) -/
theorem int_option_roundtrip (o : Opt) (ho : o.ty = .int) (hm : o.multiple = false) (hh : o.isHelp = false) (n : Int) :
    o.parse (showInt n) = ({ o with value := some (.int n) }, none) := by
  simp [Opt.parse, hm, ho, int_roundtrip, hh]

theorem intRange_self (n : Int) : intRange n n = [n] := by
  simp [intRange]

theorem showInt_no_colon (n : Int) : (58 : Nat) ∉ showInt n := by
  intro h
  rcases showInt_chars n 58 h with h | h
  · simp [isDigit] at h
  · cases h

theorem showInt_no_comma (n : Int) : (44 : Nat) ∉ showInt n := by
  intro h
  rcases showInt_chars n 44 h with h | h
  · simp [isDigit] at h
  · cases h

theorem showInt_ne_nil (n : Int) : showInt n ≠ [] := by
  cases n with
  | ofNat n => exact natDigits_ne_nil n
  | negSucc n => simp [showInt]

theorem parseParts_items (items : List Item) (acc : List Val) :
    parseParts .int (items.map showItem) acc = (acc ++ (denoteItems items).map Val.int, none) := by
  induction items generalizing acc with
  | nil => simp [parseParts, denoteItems]
  | cons it rest ih =>
    cases it with
    | single n =>
      simp only [List.map_cons, parseParts, showItem]
      rw [partition_no_sep 58 _ (showInt_no_colon n)]
      simp [int_roundtrip, asInt, intRange_self, ih, denoteItems, denoteItem]
    | range lo hi =>
      simp only [List.map_cons, parseParts, showItem, List.append_assoc, List.singleton_append]
      rw [partition_at_sep 58 _ _ (showInt_no_colon lo)]
      have hne : (showInt hi).isEmpty = false := by
        cases h : showInt hi with
        | nil => exact absurd h (showInt_ne_nil hi)
        | cons => rfl
      simp [int_roundtrip, hne, asInt, ih, denoteItems, denoteItem]

/-- **multiple values and integer ranges**: `1,3:5,…` parses to the concatenation of the numbers and of the
    inclusive ranges it denotes. -/
theorem int_list_roundtrip (o : Opt) (ho : o.ty = .int) (hm : o.multiple = true) (items : List Item) (hne : items ≠ []) :
    o.parse (showItems items) = ({ o with value := some (.list ((denoteItems items).map Val.int)) }, none) := by
  have hsplit : splitOnC 44 (showItems items) = items.map showItem := by
    apply splitOnC_joinWith 44 _ (by simpa using hne)
    intro g hg
    simp only [List.mem_map] at hg
    obtain ⟨it, _, rfl⟩ := hg
    cases it with
    | single n => exact showInt_no_comma n
    | range lo hi =>
      simp only [showItem, List.mem_append, List.mem_singleton, not_or]
      exact ⟨⟨showInt_no_comma lo, by decide⟩, showInt_no_comma hi⟩
  simp [Opt.parse, hm, ho, hsplit, parseParts_items]

example : showItems [.single 1, .range 3 5] = [49, 44, 51, 58, 53] := by decide +kernel
example : denoteItems [.single 1, .range 3 5] = [1, 3, 4, 5] := by decide +kernel

/-- **bool**: `true` / `false` parse to themselves -/
theorem bool_roundtrip (b : Bool) : parseOne .bool (showBool b) = .ok (.bool b) := by
  have h : parseBool (showBool b) = b := by cases b <;> decide +kernel
  simp [parseOne, h]

/-- the words the parser really distinguishes, in any letter case -/
theorem bool_partial (s : Str) :
    (lower s = lit "false" ∨ lower s = lit "0" ∨ lower s = lit "f" → parseOne .bool s = .ok (.bool false))
    ∧ (lower s = lit "true" ∨ lower s = lit "1" ∨ lower s = lit "t" → parseOne .bool s = .ok (.bool true)) := by
  constructor
  · intro h
    rcases h with h | h | h <;> simp [parseOne, parseBool, h]
  · intro h
    have hb : parseBool s = true := by
      rcases h with h | h | h <;> (simp only [parseBool, h]; decide +kernel)
    simp [parseOne, hb]

/-- "values of the wrong type are rejected", for bool: every text that is not one of the six words is an error -/
def bool_wrong_type_full : Prop :=
  ∀ s : Str, lower s ∉ [lit "false", lit "0", lit "f", lit "true", lit "1", lit "t"] → ∃ e, parseOne .bool s = .error e

/-- … which the code does not do: `banana` parses to `True` (D18) -/
theorem bool_wrong_type_refuted : ¬ bool_wrong_type_full := by
  intro h
  obtain ⟨e, he⟩ := h (lit "banana") (by decide +kernel)
  simp [parseOne] at he

/-- **str**: a string option keeps the text as it is -/
theorem str_identity (o : Opt) (ho : o.ty = .str) (hm : o.multiple = false) (hh : o.isHelp = false) (s : Str) :
    o.parse s = ({ o with value := some (.str s) }, none) := by
  simp [Opt.parse, hm, ho, parseOne, hh]

/-! ## unknown options, wrong types -/

/-- the normalised option name of a command-line argument -/
def keyOf (a : Str) : Str := normalize (partition 61 (a.dropWhile (· == 45))).1

/-- **unknown options are rejected**: when the loop reaches an argument that starts with `-`, is not `--`, and
    whose name is not a defined option, `parse_command_line` raises `Error` and changes nothing. -/
theorem unknown_option_rejected (st : State) (a : Str) (rest : List Str)
    (h1 : startsWithDash a = true) (h2 : a ≠ [45, 45]) (h3 : lookup st (keyOf a) = none) :
    parseArgsLoop st (a :: rest) = (st, .error .error) := by
  have h2' : (a == [45, 45]) = false := by simpa using h2
  unfold keyOf at h3
  rw [parseArgsLoop]
  simp only [h1, Bool.not_true, Bool.false_eq_true, if_false, h2']
  generalize partition 61 (a.dropWhile (· == 45)) = p at h3 ⊢
  obtain ⟨nm, eq, v⟩ := p
  simp only [] at h3 ⊢
  rw [h3]

example : (parseArgsLoop initState [lit "--nosuch=1"]).2.toOption = none := by decide +kernel
example : (parseArgsLoop initState [lit "--help=false", lit "rest"]).2.toOption = some [lit "rest"] := by decide +kernel

/-- a value of the wrong type for an int option: any text with a character that cannot occur in an integer
    is rejected with `ValueError`, and the option keeps its value -/
theorem parseInt_rejects (s : Str) (c : Nat) (hc : c ∈ s) (hd : isDigit c = false) (hw : isWs c = false)
    (h1 : c ≠ 45) (h2 : c ≠ 43) (h3 : c ≠ 95) : parseInt s = none := by
  unfold parseInt
  have hm := mem_of_mem_takeSign _ c (mem_strip s c hc hw) h1 h2
  generalize takeSign (strip s) = p at hm ⊢
  obtain ⟨neg, r⟩ := p
  simp only [] at hm ⊢
  cases hdp : digitPart r 0 0 false with
  | none => rfl
  | some t =>
    obtain ⟨v, n, rest⟩ := t
    cases rest with
    | cons => rfl
    | nil =>
      rcases digitPart_all r 0 0 false v n hdp c hm with h | h
      · rw [hd] at h; cases h
      · exact absurd h h3

theorem wrong_type_rejected_int (o : Opt) (ho : o.ty = .int) (hm : o.multiple = false) (s : Str) (c : Nat)
    (hc : c ∈ s) (hd : isDigit c = false) (hw : isWs c = false) (h1 : c ≠ 45) (h2 : c ≠ 43) (h3 : c ≠ 95) :
    o.parse s = (o, some .valueError) := by
  simp [Opt.parse, hm, ho, parseOne, parseInt_rejects s c hc hd hw h1 h2 h3]

example : parseInt (lit "12a") = none := by decide +kernel
example : parseInt (lit "1.5") = none := by decide +kernel

/-- a config-file value of another class is rejected with `Error`, and the option keeps its value -/
theorem wrong_type_rejected_config (o : Opt) (hm : o.multiple = false) (v : Val)
    (hn : isNone v = false) (hi : isInstance o.ty v = false) : o.set v = (o, some .error) := by
  simp [Opt.set, hm, hn, hi]

example : isInstance .int (.fbin 3 2) = false := by decide
example : isInstance .float (.int 1) = false := by decide

/-! ## unset options keep their defaults -/

/-- **unset options keep their values** (so an option never mentioned keeps its default): whatever the outcome,
    `parse_command_line` changes no option whose name is not among the arguments. -/
theorem unset_keep_default (args : List Str) (st : State) (k : Str)
    (h : ∀ a ∈ args, keyOf a ≠ k) : lookup (parseArgsLoop st args).1 k = lookup st k := by
  induction args generalizing st with
  | nil => simp [parseArgsLoop]
  | cons a rest ih =>
    rw [parseArgsLoop]
    split
    · rfl
    · split
      · rfl
      · have hk := h a (by simp)
        unfold keyOf at hk
        generalize partition 61 (a.dropWhile (· == 45)) = p at hk ⊢
        obtain ⟨nm, eq, v⟩ := p
        simp only [] at hk ⊢
        cases hl : lookup st (normalize nm) with
        | none => rfl
        | some o =>
          simp only []
          split
          · rfl
          · have hokey : o.key = normalize nm := lookup_key st _ o hl
            have hne : ((o.parse (if eq = true then v else lit "true")).1.key == k) = false := by
              rw [parse_key, hokey]; simpa using hk
            cases hp : o.parse (if eq = true then v else lit "true") with
            | mk o' e =>
              rw [hp] at hne
              simp only [] at hne ⊢
              cases e with
              | some er => simpa using lookup_update_ne st o' k hne
              | none =>
                simp only []
                rw [ih _ (fun x hx => h x (by simp [hx]))]
                exact lookup_update_ne st o' k hne

/-- the same for `parse_config_file`: whatever the outcome, no option whose name is not assigned in the file changes -/
theorem unset_keep_default_config (items : List (Str × Val)) (st : State) (k : Str)
    (h : ∀ it ∈ items, normalize it.1 ≠ k) : lookup (parseConfig st items).1 k = lookup st k := by
  induction items generalizing st with
  | nil => simp [parseConfig]
  | cons it rest ih =>
    obtain ⟨name, v⟩ := it
    have hk : normalize name ≠ k := h (name, v) (by simp)
    have ihr := fun st' => ih st' (fun x hx => h x (by simp [hx]))
    cases hl : lookup st (normalize name) with
    | none => cases v <;> simp only [parseConfig, hl] <;> exact ihr st
    | some o =>
      have hokey : o.key = normalize name := lookup_key st _ o hl
      have hfin : ∀ o' : Opt, o'.key = o.key → lookup (update st o') k = lookup st k := by
        intro o' hkey
        apply lookup_update_ne
        rw [hkey, hokey]; simpa using hk
      cases v <;> simp only [parseConfig, hl] <;> repeat' split
      all_goals first
        | rfl
        | exact hfin _ (set_key o _)
        | exact hfin _ (parse_key o _)
        | (rw [ihr]; first | exact hfin _ (set_key o _) | exact hfin _ (parse_key o _))

example : ((parseConfig initState [(lit "nosuch", .int 1), (lit "help", .bool false)]).1.map (·.key)) = [lit "help"] := by
  decide +kernel

/-! ## timedelta -/

/-- **timedelta**: canonical `<n><unit>` sums parse to the sum of their terms (when every partial sum is a valid timedelta) -/
theorem timedelta_roundtrip : ∀ parts : List (Nat × TdUnit), parts ≠ [] →
    (∀ k, tdInRange (denoteTd (parts.take k)) = true) → (∀ p ∈ parts, tdInRange (Int.ofNat (p.1 * p.2.micros)) = true) →
    parseTimedelta (showTd parts) = .ok (denoteTd parts) := by
  intro parts _ hk hp
  have := loop_showTd parts (showTd parts).length 0 (Nat.le_refl _) (by simpa using hk) hp
  simpa [parseTimedelta] using this

/-- … and so does a timedelta option given that text -/
theorem timedelta_option_roundtrip (o : Opt) (ho : o.ty = .timedelta) (hm : o.multiple = false) (hh : o.isHelp = false)
    (parts : List (Nat × TdUnit)) (hne : parts ≠ [])
    (hk : ∀ k, tdInRange (denoteTd (parts.take k)) = true) (hp : ∀ p ∈ parts, tdInRange (Int.ofNat (p.1 * p.2.micros)) = true) :
    o.parse (showTd parts) = ({ o with value := some (.td (denoteTd parts)) }, none) := by
  simp [Opt.parse, hm, ho, parseOne, timedelta_roundtrip parts hne hk hp, hh, Except.map]

example : showTd [(1, .h), (30, .m)] = lit "1h 30m" := by decide +kernel
example : denoteTd [(1, .h), (30, .m)] = 5400000000 := by decide +kernel
example : ∀ k, tdInRange (denoteTd ([(1, TdUnit.h), (30, .m)].take k)) = true := by
  intro k
  match k with
  | 0 => decide +kernel
  | 1 => decide +kernel
  | k + 2 => simp only [List.take_succ_cons, List.take_nil]; decide +kernel
example : ∀ p ∈ [(1, TdUnit.h), (30, .m)], tdInRange (Int.ofNat (p.1 * p.2.micros)) = true := by decide +kernel

/-! ## float: wrong type -/

/-- a float option rejects every text that is not a decimal literal, `inf`, `infinity` or `nan`: any text with a character
    that cannot occur in a float literal is a `ValueError` -/
theorem wrong_type_rejected_float : ∀ s : Str,
    (∃ c ∈ s, isDigit c = false ∧ isWs c = false ∧ isAlpha c = false ∧ c ∉ [43, 45, 46, 95]) → parseFloat s = none := by
  intro s ⟨c, hc, hd, hw, ha, hn⟩
  simp only [List.mem_cons, List.not_mem_nil, or_false, not_or] at hn
  exact parseFloat_bad s c hc hd hw ha hn.1 hn.2.1 hn.2.2.1 hn.2.2.2

/-- … and the float option keeps its value -/
theorem wrong_type_rejected_float_option (o : Opt) (ho : o.ty = .float) (hm : o.multiple = false) (s : Str)
    (h : ∃ c ∈ s, isDigit c = false ∧ isWs c = false ∧ isAlpha c = false ∧ c ∉ [43, 45, 46, 95]) :
    o.parse s = (o, some .valueError) := by
  simp [Opt.parse, hm, ho, parseOne, wrong_type_rejected_float s h]

example : ∃ c ∈ lit "1,5", isDigit c = false ∧ isWs c = false ∧ isAlpha c = false ∧ c ∉ [43, 45, 46, 95] := by decide +kernel
example : parseFloat (lit "1.5") = some (.fdec false 15 (-1)) := by rfl

/-! ## float and datetime round trips -/

/-- **float**: a decimal literal `[-]digits[.digits][e±digits]` (the shapes `repr(float)` produces, and more) parses to
    exactly the rational it denotes, `±(digits as one integer) · 10^(exponent − number of fraction digits)`
    (CPython then rounds that number to the nearest double; the rounding is not modelled) -/
theorem float_roundtrip (l : DecLit) (h : l.wf) : parseOne .float (showDec l) = .ok (denoteDec l) := by
  simp [parseOne, parseFloat_showDec l h]

/-- … and so does a float option given that text -/
theorem float_option_roundtrip (o : Opt) (ho : o.ty = .float) (hm : o.multiple = false) (hh : o.isHelp = false)
    (l : DecLit) (h : l.wf) : o.parse (showDec l) = ({ o with value := some (denoteDec l) }, none) := by
  have hd : denoteDec l = .fdec l.neg (digitsVal (l.ip ++ l.fp)) (expVal l.ex - Int.ofNat l.fp.length) := rfl
  simp only [Opt.parse, hm, ho, float_roundtrip l h, hh, Bool.false_eq_true, if_false]

example : showDec ⟨true, lit "12", lit "50", some (true, lit "07")⟩ = lit "-12.50e-07" := by decide +kernel
example : (⟨true, lit "12", lit "50", some (true, lit "07")⟩ : DecLit).wf := by
  refine ⟨by decide +kernel, by decide +kernel, by decide +kernel, by decide +kernel, by decide +kernel⟩
example : denoteDec ⟨true, lit "12", lit "50", some (true, lit "07")⟩ = .fdec true 1250 (-9) := by rfl

/-- **datetime**: the zero-padded numeric form `YYYY-MM-DD HH:MM:SS` of every valid calendar date and time parses to
    exactly those fields (the earlier `%a %b …` format does not match; the regex backtracking picks the full fields) -/
theorem datetime_roundtrip (y mo d h mi s : Nat) (hv : validDt y mo d h mi s) :
    parseOne .datetime (showDtIso y mo d h mi s) = .ok (.dt y mo d h mi s) := by
  simp [parseOne, parseDatetime_iso y mo d h mi s hv]

example : showDtIso 2024 2 29 23 59 7 = lit "2024-02-29 23:59:07" := by decide +kernel
example : validDt 2024 2 29 23 59 7 := by unfold validDt; decide +kernel

/-! ## bool flag without a value; timedelta: wrong type -/

/-- **bool flag**: `--name` without `=value` sets a (single-valued) bool option to `True` and parsing continues -/
theorem bool_flag_no_value (st : State) (a : Str) (rest : List Str) (o : Opt)
    (h1 : startsWithDash a = true) (h2 : a ≠ [45, 45]) (heq : (partition 61 (a.dropWhile (· == 45))).2.1 = false)
    (hl : lookup st (keyOf a) = some o) (ho : o.ty = .bool) (hm : o.multiple = false) (hh : o.isHelp = false) :
    parseArgsLoop st (a :: rest) = parseArgsLoop (update st { o with value := some (.bool true) }) rest := by
  have h2' : (a == [45, 45]) = false := by simpa using h2
  have hb : parseBool (lit "true") = true := by decide +kernel
  unfold keyOf at hl
  rw [parseArgsLoop]
  simp only [h1, Bool.not_true, Bool.false_eq_true, if_false, h2']
  generalize partition 61 (a.dropWhile (· == 45)) = p at hl heq ⊢
  obtain ⟨nm, eq, v⟩ := p
  simp only [] at hl heq ⊢
  subst heq
  rw [hl]
  simp [ho, Opt.parse, hm, parseOne, hh, hb]

example : startsWithDash (lit "--debug") = true ∧ (partition 61 ((lit "--debug").dropWhile (· == 45))).2.1 = false
    ∧ keyOf (lit "--debug") = lit "debug" := by decide +kernel

/-- a timedelta option rejects (bare `Exception`, option unchanged) every non-empty text that does not start — after
    whitespace — with a digit, a sign or a point -/
theorem wrong_type_rejected_timedelta (o : Opt) (ho : o.ty = .timedelta) (hm : o.multiple = false) (s : Str) (hne : s ≠ [])
    (h : ∀ c, (s.dropWhile isWs).head? = some c → isDigit c = false ∧ c ≠ 43 ∧ c ≠ 45 ∧ c ≠ 46) :
    o.parse s = (o, some .exception) := by
  simp [Opt.parse, hm, ho, parseOne, parseTimedelta_not_number s hne h, Except.map]

example : ∀ c, ((lit " soon").dropWhile isWs).head? = some c → isDigit c = false ∧ c ≠ 43 ∧ c ≠ 45 ∧ c ≠ 46 := by
  decide +kernel

/-- a datetime option rejects (`Error`, option unchanged) every text containing a character that is not a digit, an ASCII
    letter, whitespace, `-` or `:` — none of the ten formats can consume it -/
theorem wrong_type_rejected_datetime (o : Opt) (ho : o.ty = .datetime) (hm : o.multiple = false) (s : Str)
    (h : ∃ c ∈ s, isDigit c = false ∧ isAlpha c = false ∧ isWs c = false ∧ c ≠ 45 ∧ c ≠ 58) :
    o.parse s = (o, some .error) := by
  obtain ⟨c, hc, h1, h2, h3, h4, h5⟩ := h
  have hb : dtCh c = false := by simp [dtCh, h1, h2, h3, h4, h5]
  simp [Opt.parse, hm, ho, parseOne, parseDatetime_bad s c hc hb]

example : ∃ c ∈ lit "2024/02/29", isDigit c = false ∧ isAlpha c = false ∧ isWs c = false ∧ c ≠ 45 ∧ c ≠ 58 := by
  decide +kernel

/-! ## command line / config file → stored value (loop level) -/

/-- the textual forms whose parse is proved above, with the value each denotes for an option `o` -/
inductive Denotes (o : Opt) : Str → Val → Prop where
  | str (s : Str) : o.ty = .str → o.multiple = false → Denotes o s (.str s)
  | int (n : Int) : o.ty = .int → o.multiple = false → Denotes o (showInt n) (.int n)
  | intList (items : List Item) : o.ty = .int → o.multiple = true → items ≠ [] →
      Denotes o (showItems items) (.list ((denoteItems items).map Val.int))
  | float (l : DecLit) : o.ty = .float → o.multiple = false → l.wf → Denotes o (showDec l) (denoteDec l)
  | boolFalse (s : Str) : o.ty = .bool → o.multiple = false →
      (lower s = lit "false" ∨ lower s = lit "0" ∨ lower s = lit "f") → Denotes o s (.bool false)
  | boolTrue (s : Str) : o.ty = .bool → o.multiple = false →
      (lower s = lit "true" ∨ lower s = lit "1" ∨ lower s = lit "t") → Denotes o s (.bool true)
  | datetime (y mo d h mi s : Nat) : o.ty = .datetime → o.multiple = false → validDt y mo d h mi s →
      Denotes o (showDtIso y mo d h mi s) (.dt y mo d h mi s)
  | timedelta (parts : List (Nat × TdUnit)) : o.ty = .timedelta → o.multiple = false → parts ≠ [] →
      (∀ k, tdInRange (denoteTd (parts.take k)) = true) → (∀ p ∈ parts, tdInRange (Int.ofNat (p.1 * p.2.micros)) = true) →
      Denotes o (showTd parts) (.td (denoteTd parts))

/-- `_Option.parse` of a denoting text stores the denoted value (all types; collects the `*_roundtrip` theorems) -/
theorem parse_denotes (o : Opt) (hh : o.isHelp = false) (text : Str) (v : Val) (h : Denotes o text v) :
    o.parse text = ({ o with value := some v }, none) := by
  cases h with
  | str _ ho hm => exact str_identity o ho hm hh text
  | int n ho hm => exact int_option_roundtrip o ho hm hh n
  | intList items ho hm hne => exact int_list_roundtrip o ho hm items hne
  | float l ho hm hwf => exact float_option_roundtrip o ho hm hh l hwf
  | boolFalse _ ho hm hs => simp [Opt.parse, hm, ho, (bool_partial text).1 hs, hh]
  | boolTrue _ ho hm hs => simp [Opt.parse, hm, ho, (bool_partial text).2 hs, hh]
  | datetime y mo d h mi s ho hm hv => simp [Opt.parse, hm, ho, datetime_roundtrip y mo d h mi s hv, hh]
  | timedelta parts ho hm hne hk hp => exact timedelta_option_roundtrip o ho hm hh parts hne hk hp

theorem keyOf_optArgN (k : Nat) (name text : Str) (hd : ∀ c, name.head? = some c → c ≠ 45) (hn : 61 ∉ name) :
    keyOf (optArgN k name text) = normalize name := by
  unfold keyOf
  rw [optArgN_partition k name text hd hn]

/-- **command line sets the option** (loop level): after `-…-name=text` (one or more dashes) for a defined option whose parse succeeds with `o'`,
    and further arguments that do not name it again, the table holds exactly `o'` under the normalised name — whatever
    the outcome of the later arguments — and every option not named on the command line is unchanged. -/
theorem cmdline_sets (st : State) (n : Nat) (name text : Str) (rest : List Str) (o o' : Opt)
    (hd : ∀ c, name.head? = some c → c ≠ 45) (hn : 61 ∉ name)
    (hl : lookup st (normalize name) = some o) (hp : o.parse text = (o', none))
    (hrest : ∀ a ∈ rest, keyOf a ≠ normalize name) :
    lookup (parseArgsLoop st (optArgN n name text :: rest)).1 (normalize name) = some o'
    ∧ ∀ k, k ≠ normalize name → (∀ a ∈ rest, keyOf a ≠ k) →
        lookup (parseArgsLoop st (optArgN n name text :: rest)).1 k = lookup st k := by
  constructor
  · rw [cmdline_step st n name text rest o o' hd hn hl hp, unset_keep_default rest _ _ hrest]
    have hk : o'.key = o.key := by
      have := parse_key o text
      rw [hp] at this
      exact this
    exact lookup_update_same st o o' _ hl hk
  · intro k hk hr
    apply unset_keep_default
    intro a ha
    rcases List.mem_cons.1 ha with rfl | ha
    · rw [keyOf_optArgN n name text hd hn]; exact fun e => hk e.symm
    · exact hr a ha

/-- **config file sets the option** (loop level), string value handed to `parse` -/
theorem config_sets_parsed (st : State) (name text : Str) (rest : List (Str × Val)) (o o' : Opt)
    (hl : lookup st (normalize name) = some o) (hty : o.ty ≠ .str ∨ o.multiple = true)
    (hp : o.parse text = (o', none)) (hrest : ∀ it ∈ rest, normalize it.1 ≠ normalize name) :
    lookup (parseConfig st ((name, .str text) :: rest)).1 (normalize name) = some o'
    ∧ ∀ k, k ≠ normalize name → (∀ it ∈ rest, normalize it.1 ≠ k) →
        lookup (parseConfig st ((name, .str text) :: rest)).1 k = lookup st k := by
  constructor
  · rw [config_step_parse st name text rest o o' hl hty hp, unset_keep_default_config rest _ _ hrest]
    have hk : o'.key = o.key := by
      have := parse_key o text
      rw [hp] at this
      exact this
    exact lookup_update_same st o o' _ hl hk
  · intro k hk hr
    apply unset_keep_default_config
    intro it hit
    rcases List.mem_cons.1 hit with rfl | hit
    · exact fun e => hk e.symm
    · exact hr it hit

/-- **config file sets the option** (loop level), value handed to `set` (typed value, or a string for a plain `str` option) -/
theorem config_sets_typed (st : State) (name : Str) (v : Val) (rest : List (Str × Val)) (o o' : Opt)
    (hl : lookup st (normalize name) = some o)
    (hv : (∀ s, v ≠ .str s) ∨ (o.ty = .str ∧ o.multiple = false))
    (hm : o.multiple = true → ∃ l, v = .list l)
    (hs : o.set v = (o', none)) (hrest : ∀ it ∈ rest, normalize it.1 ≠ normalize name) :
    lookup (parseConfig st ((name, v) :: rest)).1 (normalize name) = some o'
    ∧ ∀ k, k ≠ normalize name → (∀ it ∈ rest, normalize it.1 ≠ k) →
        lookup (parseConfig st ((name, v) :: rest)).1 k = lookup st k := by
  constructor
  · rw [config_step_set st name v rest o o' hl hv hm hs, unset_keep_default_config rest _ _ hrest]
    have hk : o'.key = o.key := by
      have := set_key o v
      rw [hs] at this
      exact this
    exact lookup_update_same st o o' _ hl hk
  · intro k hk hr
    apply unset_keep_default_config
    intro it hit
    rcases List.mem_cons.1 hit with rfl | hit
    · exact fun e => hk e.symm
    · exact hr it hit

/-- **the main clause, command line** (run level, every type): `parse_command_line([prog, "--name=text"])` (or `-name=text`, `---name=text`) where `text`
    denotes `v` for the defined option returns normally with no remaining arguments, the option's value is `v`
    (`Opt.get`, i.e. what `options.name` returns), and every other option is unchanged. -/
theorem cmdline_yields_denoted (st : State) (n : Nat) (prog name text : Str) (o : Opt) (v : Val)
    (hd : ∀ c, name.head? = some c → c ≠ 45) (hn : 61 ∉ name)
    (hl : lookup st (normalize name) = some o) (hh : o.isHelp = false) (hden : Denotes o text v) :
    (step st (.cmdline [prog, optArgN n name text])).2 = .remaining []
    ∧ (lookup (step st (.cmdline [prog, optArgN n name text])).1 (normalize name)).map Opt.get = some v
    ∧ ∀ k, k ≠ normalize name → lookup (step st (.cmdline [prog, optArgN n name text])).1 k = lookup st k := by
  have hp := parse_denotes o hh text v hden
  have hs : step st (.cmdline [prog, optArgN n name text]) = (update st { o with value := some v }, .remaining []) := by
    simp [step, parseCommandLine, cmdline_step st n name text [] o _ hd hn hl hp, parseArgsLoop]
  have hc := cmdline_sets st n name text [] o _ hd hn hl hp (by simp)
  have hloop : parseArgsLoop st [optArgN n name text] = (update st { o with value := some v }, .ok []) := by
    rw [cmdline_step st n name text [] o _ hd hn hl hp]; rfl
  rw [hloop] at hc
  rw [hs]
  refine ⟨rfl, ?_, ?_⟩
  · rw [hc.1]; rfl
  · intro k hk
    exact hc.2 k hk (by simp)

/-- **the main clause, config file, textual value** (run level, every type): `name = "text"` where `text` denotes `v` -/
theorem config_yields_denoted (st : State) (name text : Str) (o : Opt) (v : Val)
    (hl : lookup st (normalize name) = some o) (hh : o.isHelp = false) (hden : Denotes o text v) :
    (step st (.config [(name, .str text)])).2 = .unit
    ∧ (lookup (step st (.config [(name, .str text)])).1 (normalize name)).map Opt.get = some v
    ∧ ∀ k, k ≠ normalize name → lookup (step st (.config [(name, .str text)])).1 k = lookup st k := by
  have hp := parse_denotes o hh text v hden
  have hcfg : parseConfig st [(name, .str text)] = (update st { o with value := some v }, none) := by
    by_cases hty : o.ty ≠ .str ∨ o.multiple = true
    · rw [config_step_parse st name text [] o _ hl hty hp]; rfl
    · have h1 : o.ty = .str := Decidable.byContradiction (fun h => hty (Or.inl h))
      have h2 : o.multiple = false := by
        cases h : o.multiple with
        | false => rfl
        | true => exact absurd (Or.inr h) hty
      have hv : v = .str text := by
        cases hden <;> simp_all
      subst hv
      rw [config_step_set st name (.str text) [] o _ hl (Or.inr ⟨h1, h2⟩) (by simp [h2])
        (set_ok o (.str text) h2 (by simp [isInstance, h1]) hh)]
      rfl
  have hk : ({ o with value := some v } : Opt).key = o.key := rfl
  have hs : step st (.config [(name, .str text)]) = (update st { o with value := some v }, .unit) := by
    simp [step, hcfg]
  rw [hs]
  refine ⟨rfl, ?_, ?_⟩
  · rw [lookup_update_same st o _ _ hl hk]; rfl
  · intro k hkn
    apply lookup_update_ne
    have hok : o.key = normalize name := lookup_key st _ o hl
    simp only [hok]
    simpa using fun e => hkn e.symm

/-- **the main clause, config file, typed value** (run level): `name = <object of the option's type>` stores that object -/
theorem config_yields_typed (st : State) (name : Str) (o : Opt) (v : Val)
    (hl : lookup st (normalize name) = some o) (hh : o.isHelp = false) (hm : o.multiple = false)
    (hns : ∀ s, v ≠ .str s) (hi : isInstance o.ty v = true) :
    (step st (.config [(name, v)])).2 = .unit
    ∧ (lookup (step st (.config [(name, v)])).1 (normalize name)).map Opt.get = some v
    ∧ ∀ k, k ≠ normalize name → lookup (step st (.config [(name, v)])).1 k = lookup st k := by
  have hcfg : parseConfig st [(name, v)] = (update st { o with value := some v }, none) := by
    rw [config_step_set st name v [] o _ hl (Or.inl hns) (by simp [hm]) (set_ok o v hm hi hh)]; rfl
  have hk : ({ o with value := some v } : Opt).key = o.key := rfl
  have hs : step st (.config [(name, v)]) = (update st { o with value := some v }, .unit) := by
    simp [step, hcfg]
  rw [hs]
  refine ⟨rfl, ?_, ?_⟩
  · rw [lookup_update_same st o _ _ hl hk]; rfl
  · intro k hkn
    apply lookup_update_ne
    have hok : o.key = normalize name := lookup_key st _ o hl
    simp only [hok]
    simpa using fun e => hkn e.symm

/-- **wrong values are rejected, command line** (run level): if `_Option.parse` of the text fails with `e` (see the
    `wrong_type_rejected_*` theorems), `parse_command_line([prog, "--name=text"])` raises `e` -/
theorem cmdline_rejects (st : State) (n : Nat) (prog name text : Str) (o o' : Opt) (e : Err)
    (hd : ∀ c, name.head? = some c → c ≠ 45) (hn : 61 ∉ name)
    (hl : lookup st (normalize name) = some o) (hp : o.parse text = (o', some e)) :
    step st (.cmdline [prog, optArgN n name text]) = (update st o', .err e) := by
  simp [step, parseCommandLine, cmdline_step_error st n name text [] o o' e hd hn hl hp]

/-- **wrong values are rejected, config file** (run level): a string whose parse fails raises that error; a typed value of
    another class raises `Error` and the option keeps its value -/
theorem config_rejects (st : State) (name : Str) (o : Opt) (hl : lookup st (normalize name) = some o) :
    (∀ text o' e, (o.ty ≠ .str ∨ o.multiple = true) → o.parse text = (o', some e) →
        step st (.config [(name, .str text)]) = (update st o', .err e))
    ∧ (∀ v, o.multiple = false → (∀ s, v ≠ .str s) → isNone v = false → isInstance o.ty v = false →
        (step st (.config [(name, v)])).2 = .err .error
        ∧ lookup (step st (.config [(name, v)])).1 (normalize name) = some o) := by
  constructor
  · intro text o' e hty hp
    simp [step, config_step_error st name text [] o o' e hl hty hp]
  · intro v hm hns hnone hi
    have hs := wrong_type_rejected_config o hm v hnone hi
    have h := config_step_set_error st name v [] o o .error hl hns hm hs
    simp only [step, h]
    exact ⟨trivial, lookup_update_same st o o _ hl rfl⟩

example : ∃ o' e, ({ key := lit "n", ty := .int, multiple := false, default := .none, value := none } : Opt).parse (lit "12a")
    = (o', some e) := ⟨_, _, wrong_type_rejected_int _ rfl rfl (lit "12a") 97 (by decide +kernel) (by decide) (by decide)
      (by decide) (by decide) (by decide)⟩

/-- reachability of the hypotheses above: `define` of a fresh name succeeds, makes `lookup` return the new, unset option,
    and leaves every other option alone -/
theorem define_lookup (st : State) (name : Str) (ty : Ty) (multiple : Bool) (default : Val)
    (hfresh : lookup st (normalize name) = none) :
    (define st name (some ty) multiple default).2 = none
    ∧ lookup (define st name (some ty) multiple default).1 (normalize name)
      = some { key := normalize name, ty := ty, multiple := multiple,
               default := if isNone default && multiple then .list [] else default, value := none }
    ∧ ∀ k, k ≠ normalize name → lookup (define st name (some ty) multiple default).1 k = lookup st k := by
  unfold define
  simp only [hfresh]
  refine ⟨?_, ?_, ?_⟩
  · trivial
  · unfold lookup at hfresh ⊢
    rw [List.find?_append, hfresh]
    simp
  · intro k hk
    unfold lookup
    rw [List.find?_append]
    cases List.find? (fun o => o.key == k) st with
    | some x => rfl
    | none =>
      have : (normalize name == k) = false := by simpa using fun e => hk e.symm
      simp [this]

/-- end to end from the initial parser, ∀ n: `define("port", default=80, type=int)` then
    `parse_command_line(["prog", "--port=<n>"])` leaves `options.port == n` and `options.help` at its default -/
theorem e2e_int_cmdline (n : Int) :
    let r := run initState [.define (lit "port") (some .int) false (.int 80),
                            .cmdline [lit "prog", optArg (lit "port") (showInt n)]]
    r.2 = [.unit, .remaining []]
    ∧ (lookup r.1 (lit "port")).map Opt.get = some (.int n)
    ∧ (lookup r.1 (lit "help")).map Opt.get = some .none := by
  have hnorm : normalize (lit "port") = lit "port" := by decide +kernel
  have hfresh : lookup initState (normalize (lit "port")) = none := by decide +kernel
  obtain ⟨hd1, hd2, hd3⟩ := define_lookup initState (lit "port") .int false (.int 80) hfresh
  generalize hst : (define initState (lit "port") (some .int) false (.int 80)).1 = st at hd1 hd2 hd3
  have hdef : define initState (lit "port") (some .int) false (.int 80) = (st, none) := by
    rw [← hst, ← hd1]
  obtain ⟨h1, h2, h3⟩ := cmdline_yields_denoted st 1 (lit "prog") (lit "port") (showInt n) _ (.int n)
    (by decide +kernel) (by decide +kernel) hd2 rfl (Denotes.int n rfl rfl)
  have hhelp : lookup st (lit "help") = lookup initState (lit "help") := hd3 (lit "help") (by decide +kernel)
  have hhelp0 : (lookup initState (lit "help")).map Opt.get = some .none := by
    have : lit "help" = [104, 101, 108, 112] := by decide +kernel
    simp [this, lookup, initState, Opt.get]
  simp only [run, step, hdef]
  simp only [step] at h1 h2 h3
  refine ⟨?_, ?_, ?_⟩
  · simp [h1]
  · rw [hnorm] at h2; simpa using h2
  · have := h3 (lit "help") (by decide +kernel)
    simp only [this, hhelp]
    exact hhelp0

example : optArg (lit "my_opt") (lit "1h 30m") = lit "--my_opt=1h 30m" := by decide +kernel
example : normalize (lit "my_opt") = lit "my-opt" := by decide +kernel
example : ∀ c, (lit "my_opt").head? = some c → c ≠ 45 := by decide +kernel
example : 61 ∉ lit "my_opt" := by decide +kernel
example : Denotes { key := lit "n", ty := .int, multiple := true, default := .list [], value := none }
    (lit "1,3:5") (.list [.int 1, .int 3, .int 4, .int 5]) := by
  have := @Denotes.intList { key := lit "n", ty := .int, multiple := true, default := .list [], value := none }
    [.single 1, .range 3 5] rfl rfl (by simp)
  have h1 : showItems [.single 1, .range 3 5] = lit "1,3:5" := by decide +kernel
  have h2 : denoteItems [.single 1, .range 3 5] = [1, 3, 4, 5] := by decide +kernel
  rw [h1, h2] at this
  exact this
example : isInstance .float (.fbin 3 2) = true ∧ ∀ s, Val.fbin 3 2 ≠ .str s := ⟨rfl, fun _ h => by cases h⟩

end TornadoModel.C44
