/-
C44 — model of `tornado.options` (core Lean only): `OptionParser.define / parse_command_line /
parse_config_file`, `_Option.parse / set / _parse_bool / _parse_timedelta / _parse_datetime /
_parse_string`, with the CPython pieces they delegate to modelled on ASCII text:
`int(str)`, `float(str)` (value kept as an exact decimal `±m·10^e`), `re` on `_TIMEDELTA_PATTERN`,
`datetime.timedelta(**{unit: float})` (exact rational, rounded half-even to microseconds),
`datetime.strptime` for the ten `_DATETIME_FORMATS` (ordered backtracking over the field
alternatives of `_strptime`, C locale).

Text is a list of code points.  A parser holds its options in definition order; the predefined
`help` option (callback: print help and `sys.exit(0)` when true) is part of the initial state.
-/
namespace TornadoModel.C44

abbrev Str := List Nat

def lit (s : String) : Str := s.toList.map Char.toNat

/-! ### values, types, errors -/

inductive Ty where
  | str | int | float | bool | datetime | timedelta
  deriving DecidableEq, Repr

inductive Val where
  | none
  | str (s : Str)
  | int (i : Int)
  | bool (b : Bool)
  | fdec (neg : Bool) (m : Nat) (e : Int)      -- a parsed float literal: ±m·10^e, exactly
  | fspecial (k : Nat)                          -- 0 = inf, 1 = -inf, 2 = nan
  | fbin (p : Int) (q : Nat)                    -- a float object given in a config file: p/q exactly
  | dt (y mo d h mi s : Nat)
  | td (us : Int)
  | list (l : List Val)
  | other                                       -- any object of another class (dict, tuple, …)
  deriving Repr

inductive Err where
  | error        -- tornado.options.Error
  | valueError   -- ValueError (int(), float())
  | typeError    -- TypeError (unknown timedelta keyword)
  | overflow     -- OverflowError (timedelta out of range)
  | exception    -- bare Exception (timedelta text does not match the pattern)
  | exit         -- SystemExit (help callback)
  deriving DecidableEq, Repr

/-! ### characters -/

def isDigit (c : Nat) : Bool := 48 ≤ c && c ≤ 57
/-- ASCII whitespace (`str.isspace` / `\s` restricted to ASCII) -/
def isWs (c : Nat) : Bool := c == 32 || (9 ≤ c && c ≤ 13)
def isAlpha (c : Nat) : Bool := (65 ≤ c && c ≤ 90) || (97 ≤ c && c ≤ 122)
/-- `\w` restricted to ASCII -/
def isWord (c : Nat) : Bool := isDigit c || isAlpha c || c == 95
def lowerC (c : Nat) : Nat := if 65 ≤ c ∧ c ≤ 90 then c + 32 else c
def lower (s : Str) : Str := s.map lowerC

def strip (s : Str) : Str := ((s.dropWhile isWs).reverse.dropWhile isWs).reverse

/-- `s.partition(sep)` for a one-character separator: (before, found, after) -/
def partition (sep : Nat) : Str → Str × Bool × Str
  | [] => ([], false, [])
  | c :: cs =>
    if c = sep then ([], true, cs)
    else let (a, f, b) := partition sep cs; (c :: a, f, b)

/-- `s.split(sep)` for a one-character separator -/
def splitOnC (sep : Nat) : Str → List Str
  | [] => [[]]
  | c :: cs =>
    if c = sep then [] :: splitOnC sep cs
    else match splitOnC sep cs with
      | [] => [[c]]
      | w :: ws => (c :: w) :: ws

/-! ### `int(str)` and `float(str)` -/

/-- `digit (_? digit)*` → value and number of digits -/
def digitPart : Str → Nat → Nat → Bool → Option (Nat × Nat × Str)
  -- args: rest, acc, ndigits, lastWasUnderscore ; stops at the first char that is not digit/underscore
  | [], acc, n, us => if n = 0 ∨ us then none else some (acc, n, [])
  | c :: cs, acc, n, us =>
    if isDigit c then digitPart cs (acc * 10 + (c - 48)) (n + 1) false
    else if c = 95 then (if n = 0 ∨ us then none else digitPart cs acc n true)
    else if n = 0 ∨ us then none else some (acc, n, c :: cs)

/-- optional sign: (negative?, rest) -/
def takeSign : Str → Bool × Str
  | 45 :: r => (true, r)
  | 43 :: r => (false, r)
  | r => (false, r)

/-- `int(s)` on ASCII text: surrounding whitespace, optional sign, digits with single inner underscores -/
def parseInt (s : Str) : Option Int :=
  let (neg, r) := takeSign (strip s)
  match digitPart r 0 0 false with
  | some (v, _, []) => some (if neg then -(Int.ofNat v) else Int.ofNat v)
  | _ => none

/-- exponent part `[eE][+-]?digitpart` or nothing; must consume everything -/
def parseExp : Str → Option Int
  | [] => some 0
  | c :: r =>
    if c = 101 ∨ c = 69 then
      let (neg, r2) := takeSign r
      match digitPart r2 0 0 false with
      | some (v, _, []) => some (if neg then -(Int.ofNat v) else Int.ofNat v)
      | _ => none
    else none

/-- `float(s)` on ASCII text → the exact decimal it denotes (CPython then rounds to a double) -/
def parseFloat (s : Str) : Option Val :=
  let (neg, r) := takeSign (strip s)
  let lw := lower r
  if lw == lit "inf" || lw == lit "infinity" then some (.fspecial (if neg then 1 else 0))
  else if lw == lit "nan" then some (.fspecial 2)
  else
    match r with
    | 46 :: fr =>                                   -- ".digits"
      match digitPart fr 0 0 false with
      | some (fv, fn, rest) => (parseExp rest).map (fun e => .fdec neg fv (e - fn))
      | none => none
    | _ =>
      match digitPart r 0 0 false with
      | some (iv, _, 46 :: rest) =>                 -- "digits." [digits]
        match rest with
        | [] => some (.fdec neg iv 0)
        | c :: _ =>
          if isDigit c then
            match digitPart rest 0 0 false with
            | some (fv, fn, rest2) => (parseExp rest2).map (fun e => .fdec neg (iv * 10 ^ fn + fv) (e - fn))
            | none => none
          else (parseExp rest).map (fun e => .fdec neg iv e)
      | some (iv, _, rest) => (parseExp rest).map (fun e => .fdec neg iv e)
      | none => none

/-! ### `_parse_bool` -/

def parseBool (s : Str) : Bool :=
  let l := lower s
  !(l == lit "false" || l == lit "0" || l == lit "f")

/-! ### `_parse_timedelta` -/

def usOfUnit (u : Str) : Option Nat :=
  let table : List (String × Nat) :=
    [("h", 3600000000), ("hours", 3600000000), ("m", 60000000), ("min", 60000000), ("minutes", 60000000),
     ("s", 1000000), ("sec", 1000000), ("seconds", 1000000), ("ms", 1000), ("milliseconds", 1000),
     ("us", 1), ("microseconds", 1), ("d", 86400000000), ("days", 86400000000), ("w", 604800000000),
     ("weeks", 604800000000)]
  (table.find? (fun p => lit p.1 == u)).map (·.2)

/-- `round` half-to-even of `p / q` (`q > 0`) -/
def roundHalfEven (p : Int) (q : Nat) : Int :=
  let k := p / (q : Int)
  let r := p % (q : Int)
  if 2 * r < q then k else if (q : Int) < 2 * r then k + 1 else if k % 2 = 0 then k else k + 1

def maxTdUs : Int := 999999999 * 86400000000 + 86399999999
def minTdUs : Int := -999999999 * 86400000000
def tdInRange (us : Int) : Bool := decide (minTdUs ≤ us) && decide (us ≤ maxTdUs)

/-- `[-+]?(?:\d+(?:\.\d*)?|\.\d+)(?:[eE][-+]?\d+)?` at the front: (neg, mantissa, exponent, rest) -/
def takeDigits : Str → Nat → Nat → Nat × Nat × Str
  | [], acc, n => (acc, n, [])
  | c :: cs, acc, n => if isDigit c then takeDigits cs (acc * 10 + (c - 48)) (n + 1) else (acc, n, c :: cs)

def matchFloatPat (s : Str) : Option (Bool × Nat × Int × Str) :=
  let (neg, r) := takeSign s
  let core : Option (Nat × Int × Str) :=
    match r with
    | 46 :: fr =>
      let (fv, fn, rest) := takeDigits fr 0 0
      if fn = 0 then none else some (fv, -(Int.ofNat fn), rest)
    | _ =>
      let (iv, n, rest) := takeDigits r 0 0
      if n = 0 then none
      else match rest with
        | 46 :: fr =>
          let (fv, fn, rest2) := takeDigits fr iv 0
          some (fv, -(Int.ofNat fn), rest2)
        | _ => some (iv, 0, rest)
  match core with
  | none => none
  | some (m, e, rest) =>
    match rest with
    | c :: r2 =>
      if c = 101 ∨ c = 69 then
        let (eneg, r3) := takeSign r2
        let (ev, en, r4) := takeDigits r3 0 0
        if en = 0 then some (neg, m, e, rest)       -- exponent group does not match: stays unmatched
        else some (neg, m, e + (if eneg then -(Int.ofNat ev) else Int.ofNat ev), r4)
      else some (neg, m, e, rest)
    | [] => some (neg, m, e, [])

/-- `datetime.timedelta(**{unit: ±m·10^e})` in microseconds -/
def tdOfDecimal (neg : Bool) (m : Nat) (e : Int) (unitUs : Nat) : Except Err Int :=
  let us : Int :=
    if e ≥ 0 then Int.ofNat (m * unitUs * 10 ^ e.toNat)
    else roundHalfEven (Int.ofNat (m * unitUs)) (10 ^ (-e).toNat)
  let us := if neg then -us else us
  if tdInRange us then .ok us else .error .overflow

/-- the `while start < len(value)` loop (fuel = remaining length, each match consumes ≥ 1 character) -/
def parseTimedeltaLoop : Nat → Str → Int → Except Err Int
  | 0, _, sum => .ok sum
  | fuel + 1, s, sum =>
    if s.isEmpty then .ok sum
    else
      match matchFloatPat (s.dropWhile isWs) with
      | none => .error .exception
      | some (neg, m, e, rest) =>
        let rest := rest.dropWhile isWs
        let units := rest.takeWhile isWord
        let rest := (rest.dropWhile isWord).dropWhile isWs
        let units := if units.isEmpty then lit "seconds" else units
        match usOfUnit units with
        | none => .error .typeError
        | some u =>
          match tdOfDecimal neg m e u with
          | .error er => .error er
          | .ok us =>
            let sum := sum + us
            if tdInRange sum then parseTimedeltaLoop fuel rest sum else .error .overflow

def parseTimedelta (s : Str) : Except Err Int := parseTimedeltaLoop s.length s 0

/-! ### `_parse_datetime` (`datetime.strptime` for the ten formats) -/

inductive Tok where
  | ch (c : Nat)        -- a literal character (compiled with IGNORECASE)
  | ws                  -- `\s+`
  | fY | fm | fd | fH | fM | fS | fa | fb
  deriving DecidableEq, Repr

structure Fields where
  y : Nat := 1900
  mo : Nat := 1
  d : Nat := 1
  h : Nat := 0
  mi : Nat := 0
  s : Nat := 0
  deriving Repr

def dig? (s : Str) (i : Nat) : Option Nat := (s[i]?).bind (fun c => if isDigit c then some (c - 48) else none)

/-- two-digit candidate `[lo1-hi1][lo2-hi2]` -/
def two (s : Str) (lo1 hi1 lo2 hi2 : Nat) : List (Nat × Nat) :=
  match dig? s 0, dig? s 1 with
  | some a, some b => if lo1 ≤ a ∧ a ≤ hi1 ∧ lo2 ≤ b ∧ b ≤ hi2 then [(2, a * 10 + b)] else []
  | _, _ => []

def one (s : Str) (lo hi : Nat) : List (Nat × Nat) :=
  match dig? s 0 with
  | some a => if lo ≤ a ∧ a ≤ hi then [(1, a)] else []
  | none => []

def monthAbbr : List String := ["jan", "feb", "mar", "apr", "may", "jun", "jul", "aug", "sep", "oct", "nov", "dec"]
def dayAbbr : List String := ["mon", "tue", "wed", "thu", "fri", "sat", "sun"]

def nameCands (names : List String) (s : Str) : List (Nat × Nat) :=
  let p := lower (s.take 3)
  match names.findIdx? (fun n => lit n == p) with
  | some i => [(3, i + 1)]
  | none => []

/-- candidates (length consumed, value) of one token at the front of `s`, in the regex's priority order -/
def cands (t : Tok) (s : Str) : List (Nat × Nat) :=
  match t with
  | .ch c => match s with
    | x :: _ => if lowerC x = lowerC c then [(1, 0)] else []
    | [] => []
  | .ws =>
    let n := (s.takeWhile isWs).length
    (List.range n).map (fun i => (n - i, 0))                 -- greedy `\s+`, then shorter
  | .fY => match dig? s 0, dig? s 1, dig? s 2, dig? s 3 with
    | some a, some b, some c, some d => [(4, a * 1000 + b * 100 + c * 10 + d)]
    | _, _, _, _ => []
  | .fm => two s 1 1 0 2 ++ two s 0 0 1 9 ++ one s 1 9
  | .fd => two s 3 3 0 1 ++ two s 1 2 0 9 ++ two s 0 0 1 9 ++ one s 1 9
      ++ (match s with | 32 :: r => (one r 1 9).map (fun (_, v) => (2, v)) | _ => [])
  | .fH => two s 2 2 0 3 ++ two s 0 1 0 9 ++ one s 0 9
  | .fM => two s 0 5 0 9 ++ one s 0 9
  | .fS => two s 6 6 0 1 ++ two s 0 5 0 9 ++ one s 0 9
  | .fa => nameCands dayAbbr s
  | .fb => nameCands monthAbbr s

def setField (t : Tok) (v : Nat) (f : Fields) : Fields :=
  match t with
  | .fY => { f with y := v } | .fm => { f with mo := v } | .fd => { f with d := v }
  | .fH => { f with h := v } | .fM => { f with mi := v } | .fS => { f with s := v }
  | .fb => { f with mo := v }
  | _ => f

/-- `re.match`: first success in backtracking order; returns the fields and the unconsumed rest -/
def matchSeq : List Tok → Str → Fields → Option (Fields × Str)
  | [], s, f => some (f, s)
  | t :: ts, s, f => (cands t s).findSome? (fun (n, v) => matchSeq ts (s.drop n) (setField t v f))

def isLeap (y : Nat) : Bool := (y % 4 == 0 && y % 100 != 0) || y % 400 == 0
def daysInMonth (y m : Nat) : Nat :=
  if m = 2 then (if isLeap y then 29 else 28) else if m = 4 ∨ m = 6 ∨ m = 9 ∨ m = 11 then 30 else 31

def tokOfChar (c : Char) : Tok := if c = ' ' then .ws else .ch c.toNat

def fmtToks (s : String) : List Tok :=
  let rec go : List Char → List Tok
    | '%' :: 'Y' :: r => .fY :: go r | '%' :: 'm' :: r => .fm :: go r | '%' :: 'd' :: r => .fd :: go r
    | '%' :: 'H' :: r => .fH :: go r | '%' :: 'M' :: r => .fM :: go r | '%' :: 'S' :: r => .fS :: go r
    | '%' :: 'a' :: r => .fa :: go r | '%' :: 'b' :: r => .fb :: go r
    | c :: r => tokOfChar c :: go r
    | [] => []
  go s.toList

def datetimeFormats : List String :=
  ["%a %b %d %H:%M:%S %Y", "%Y-%m-%d %H:%M:%S", "%Y-%m-%d %H:%M", "%Y-%m-%dT%H:%M", "%Y%m%d %H:%M:%S",
   "%Y%m%d %H:%M", "%Y-%m-%d", "%Y%m%d", "%H:%M:%S", "%H:%M"]

/-- `datetime.strptime(value, format)` → fields, `none` for `ValueError` -/
def strptime (toks : List Tok) (s : Str) : Option Fields :=
  match matchSeq toks s {} with
  | some (f, []) =>
    if 1 ≤ f.y ∧ 1 ≤ f.d ∧ f.d ≤ daysInMonth f.y f.mo ∧ f.s ≤ 59 then some f else none
  | _ => none

def parseDatetime (s : Str) : Except Err Val :=
  match datetimeFormats.findSome? (fun fmt => strptime (fmtToks fmt) s) with
  | some f => .ok (.dt f.y f.mo f.d f.h f.mi f.s)
  | none => .error .error

/-! ### `_Option` -/

structure Opt where
  key : Str            -- normalised name
  ty : Ty
  multiple : Bool
  default : Val
  value : Option Val   -- `none` = `_Option.UNSET`
  isHelp : Bool := false
  deriving Repr

def Opt.get (o : Opt) : Val := o.value.getD o.default

/-- the `_parse` function selected by the option's type -/
def parseOne (ty : Ty) (s : Str) : Except Err Val :=
  match ty with
  | .str => .ok (.str s)
  | .int => match parseInt s with | some i => .ok (.int i) | none => .error .valueError
  | .float => match parseFloat s with | some v => .ok v | none => .error .valueError
  | .bool => .ok (.bool (parseBool s))
  | .datetime => parseDatetime s
  | .timedelta => (parseTimedelta s).map .td

def intRange (lo hi : Int) : List Int :=
  if hi < lo then [] else (List.range (hi - lo + 1).toNat).map (fun k => lo + Int.ofNat k)

def asInt : Val → Option Int
  | .int i => some i
  | .bool b => some (if b then 1 else 0)
  | _ => none

/-- the body of the `for part in value.split(",")` loop: returns the list built so far and the error, if any -/
def parseParts (ty : Ty) : List Str → List Val → List Val × Option Err
  | [], acc => (acc, none)
  | part :: rest, acc =>
    if ty = .int ∨ ty = .bool then
      let (loS, _, hiS) := partition 58 part
      match parseOne ty loS with
      | .error e => (acc, some e)
      | .ok lo =>
        match (if hiS.isEmpty then .ok lo else parseOne ty hiS) with
        | .error e => (acc, some e)
        | .ok hi =>
          match asInt lo, asInt hi with
          | some l, some h => parseParts ty rest (acc ++ (intRange l h).map Val.int)
          | _, _ => (acc, some .typeError)      -- unreachable: int and bool parsers return ints/bools
    else
      match parseOne ty part with
      | .error e => (acc, some e)
      | .ok v => parseParts ty rest (acc ++ [v])

/-- `_Option.parse(value)`: the new option (its `_value` may be partially updated) and the error, if any -/
def Opt.parse (o : Opt) (s : Str) : Opt × Option Err :=
  if o.multiple then
    let (vs, e) := parseParts o.ty (splitOnC 44 s) []
    let o' := { o with value := some (.list vs) }
    match e with
    | some er => (o', some er)
    | none => (o', none)
  else
    match parseOne o.ty s with
    | .error e => (o, some e)
    | .ok v =>
      let o' := { o with value := some v }
      match o.isHelp, v with
      | true, .bool true => (o', some .exit)
      | _, _ => (o', none)

def isInstance (ty : Ty) : Val → Bool
  | .str _ => ty == .str
  | .int _ => ty == .int
  | .bool _ => ty == .int || ty == .bool
  | .fdec _ _ _ => ty == .float
  | .fspecial _ => ty == .float
  | .fbin _ _ => ty == .float
  | .dt _ _ _ _ _ _ => ty == .datetime
  | .td _ => ty == .timedelta
  | _ => false

def isNone : Val → Bool
  | .none => true
  | _ => false

/-- `_Option.set(value)` -/
def Opt.set (o : Opt) (v : Val) : Opt × Option Err :=
  let okv : Bool :=
    if o.multiple then
      match v with
      | .list items => items.all (fun it => isNone it || isInstance o.ty it)
      | _ => false
    else isNone v || isInstance o.ty v
  if !okv then (o, some .error)
  else
    let o' := { o with value := some v }
    match o.isHelp, v with
    | true, .bool true => (o', some .exit)
    | _, _ => (o', none)

/-! ### `OptionParser` -/

abbrev State := List Opt

def normalize (name : Str) : Str := name.map (fun c => if c = 95 then 45 else c)

def initState : State :=
  [{ key := lit "help", ty := .bool, multiple := false, default := .none, value := none, isHelp := true }]

def lookup (st : State) (key : Str) : Option Opt := st.find? (fun o => o.key == key)

def update (st : State) (o : Opt) : State := st.map (fun x => if x.key == o.key then o else x)

def tyOfDefault : Val → Ty
  | .int _ => .int | .bool _ => .bool | .fdec _ _ _ => .float | .fspecial _ => .float | .fbin _ _ => .float
  | .dt _ _ _ _ _ _ => .datetime | .td _ => .timedelta | _ => .str

/-- `define(name, default, type, multiple=…)` -/
def define (st : State) (name : Str) (ty : Option Ty) (multiple : Bool) (default : Val) : State × Option Err :=
  let key := normalize name
  match lookup st key with
  | some _ => (st, some .error)
  | none =>
    let t := match ty with
      | some t => t
      | none => if !multiple && !isNone default then tyOfDefault default else .str
    let d := if isNone default && multiple then .list [] else default
    (st ++ [{ key := key, ty := t, multiple := multiple, default := d, value := none }], none)

def startsWithDash : Str → Bool
  | 45 :: _ => true
  | _ => false

/-- result of `parse_command_line`: the remaining arguments, or the exception -/
def parseArgsLoop : State → List Str → State × Except Err (List Str)
  | st, [] => (st, .ok [])
  | st, a :: rest =>
    if !startsWithDash a then (st, .ok (a :: rest))
    else if a == [45, 45] then (st, .ok rest)
    else
      let (nameRaw, eq, value) := partition 61 (a.dropWhile (· == 45))
      let key := normalize nameRaw
      match lookup st key with
      | none => (st, .error .error)
      | some o =>
        if !eq && o.ty != .bool then (st, .error .error)
        else
          let value := if eq then value else lit "true"
          let (o', e) := o.parse value
          let st' := update st o'
          match e with
          | some er => (st', .error er)
          | none => parseArgsLoop st' rest

/-- `parse_command_line(args)` (`args[0]` is the program name) -/
def parseCommandLine (st : State) (args : List Str) : State × Except Err (List Str) :=
  parseArgsLoop st args.tail

/-- `parse_config_file`: `items` are the (name, value) pairs of the executed file's namespace, in order -/
def parseConfig : State → List (Str × Val) → State × Option Err
  | st, [] => (st, none)
  | st, (name, v) :: rest =>
    match lookup st (normalize name) with
    | none => parseConfig st rest
    | some o =>
      let isStr := match v with | .str _ => true | _ => false
      let isList := match v with | .list _ => true | _ => false
      if o.multiple && !(isList || isStr) then (st, some .error)
      else
        let (o', e) :=
          match v with
          | .str s => if o.ty != .str || o.multiple then o.parse s else o.set v
          | _ => o.set v
        let st' := update st o'
        match e with
        | some er => (st', some er)
        | none => parseConfig st' rest

/-! ### op sequences -/

inductive Op where
  | define (name : Str) (ty : Option Ty) (multiple : Bool) (default : Val)
  | cmdline (args : List Str)
  | config (items : List (Str × Val))
  deriving Repr

inductive Out where
  | unit
  | err (e : Err)
  | remaining (l : List Str)
  deriving Repr

def step (st : State) : Op → State × Out
  | .define n t m d => match define st n t m d with
    | (st', none) => (st', .unit)
    | (st', some e) => (st', .err e)
  | .cmdline args => match parseCommandLine st args with
    | (st', .ok rem) => (st', .remaining rem)
    | (st', .error e) => (st', .err e)
  | .config items => match parseConfig st items with
    | (st', none) => (st', .unit)
    | (st', some e) => (st', .err e)

def run : State → List Op → State × List Out
  | st, [] => (st, [])
  | st, op :: ops =>
    let (st', o) := step st op
    let (st'', os) := run st' ops
    (st'', o :: os)

end TornadoModel.C44
