/- C44 helper lemmas for the timedelta round trip -/
import TornadoModel.C44.Lemmas
namespace TornadoModel.C44
open Spec

/-! ### shape of the canonical text -/

theorem showTd_cons (p : Nat × TdUnit) (rest : List (Nat × TdUnit)) :
    showTd (p :: rest) = natDigits p.1 ++ (p.2.abbr ++ (if rest = [] then [] else 32 :: showTd rest)) := by
  cases rest with
  | nil => simp [showTd, joinWith]
  | cons q r => simp [showTd, joinWith]

theorem showTd_nil : showTd [] = [] := rfl

/-- every unit abbreviation is a non-empty word of letters, none of which starts like a number or an exponent -/
theorem abbr_shape (u : TdUnit) : ∃ c t, u.abbr = c :: t ∧ isDigit c = false ∧ isWs c = false ∧ c ≠ 46 ∧ c ≠ 101 ∧ c ≠ 69 := by
  cases u <;> exact ⟨_, _, rfl, by decide, by decide, by decide, by decide, by decide⟩

theorem abbr_word (u : TdUnit) : ∀ c ∈ u.abbr, isWord c = true := by
  cases u <;> decide

theorem usOfUnit_abbr (u : TdUnit) : usOfUnit u.abbr = some u.micros := by
  cases u <;> decide +kernel

theorem abbr_isEmpty (u : TdUnit) : u.abbr.isEmpty = false := by
  cases u <;> rfl

/-! ### list helpers -/

theorem takeWhile_append_stop {α} (p : α → Bool) (a t : List α) (ha : ∀ c ∈ a, p c = true)
    (ht : ∀ c, t.head? = some c → p c = false) : (a ++ t).takeWhile p = a := by
  induction a with
  | nil =>
    cases t with
    | nil => rfl
    | cons c cs => simp [ht c rfl]
  | cons x xs ih =>
    simp only [List.cons_append, List.takeWhile_cons, ha x (by simp), if_true]
    rw [ih (fun c hc => ha c (by simp [hc]))]

theorem dropWhile_append_stop {α} (p : α → Bool) (a t : List α) (ha : ∀ c ∈ a, p c = true)
    (ht : ∀ c, t.head? = some c → p c = false) : (a ++ t).dropWhile p = t := by
  induction a with
  | nil =>
    cases t with
    | nil => rfl
    | cons c cs => simp [ht c rfl]
  | cons x xs ih =>
    simp only [List.cons_append, List.dropWhile_cons, ha x (by simp), if_true]
    exact ih (fun c hc => ha c (by simp [hc]))

theorem natDigits_head (n : Nat) : ∃ d ds, natDigits n = d :: ds ∧ 48 ≤ d ∧ d ≤ 57 := by
  cases h : natDigits n with
  | nil => exact absurd h (natDigits_ne_nil n)
  | cons d ds => exact ⟨d, ds, rfl, natDigits_all_digits n d (by simp [h])⟩

theorem takeSign_digit (d : Nat) (ds : Str) (h1 : 48 ≤ d) : takeSign (d :: ds) = (false, d :: ds) := by
  unfold takeSign
  split
  · rename_i h; simp at h; omega
  · rename_i h; simp at h; omega
  · rfl

/-! ### one term -/

/-- the number pattern on `<digits><rest>` where `rest` starts with a character that cannot continue a number -/
theorem matchFloatPat_nat (n : Nat) (c : Nat) (t : Str)
    (hd : isDigit c = false) (h46 : c ≠ 46) (he : c ≠ 101) (hE : c ≠ 69) :
    matchFloatPat (natDigits n ++ c :: t) = some (false, n, 0, c :: t) := by
  obtain ⟨d, ds, hds, hlo, hhi⟩ := natDigits_head n
  have htd : takeDigits (natDigits n ++ c :: t) 0 0 = (n, 0 + (natDigits n).length, c :: t) := by
    rw [takeDigits_digits _ (natDigits_isDigit n) (c :: t) (by intro x hx; simp at hx; subst hx; exact hd),
      digitsValFrom_natDigits]
  have hlen : 0 + (natDigits n).length ≠ 0 := by rw [hds]; simp
  unfold matchFloatPat
  have hsign : takeSign (natDigits n ++ c :: t) = (false, natDigits n ++ c :: t) := by
    rw [hds]; exact takeSign_digit d _ hlo
  rw [hsign]
  simp only []
  split
  · rename_i heq
    exfalso
    split at heq
    · rename_i fr h; rw [hds] at h; simp at h; omega
    · rw [htd] at heq
      simp only [hlen, if_false] at heq
      split at heq <;> cases heq
  · rename_i m e rest heq
    have hm : (n, (0 : Int), c :: t) = (m, e, rest) := by
      split at heq
      · rename_i fr h; rw [hds] at h; simp at h; omega
      · rw [htd] at heq
        simp only [hlen, if_false] at heq
        split at heq
        · rename_i fr h; simp at h; exact absurd h.1 h46
        · exact Option.some.inj heq
    simp only [Prod.mk.injEq] at hm
    obtain ⟨rfl, rfl, rfl⟩ := hm
    simp [he, hE]

theorem tdOfDecimal_nat (n u : Nat) (h : tdInRange (Int.ofNat (n * u)) = true) :
    tdOfDecimal false n 0 u = .ok (Int.ofNat (n * u)) := by
  have h' : tdInRange ((n : Int) * (u : Int)) = true := by simpa using h
  simp [tdOfDecimal, h']

/-- what follows a term: nothing, or a blank and the remaining terms -/
def tdTail (rest : List (Nat × TdUnit)) : Str := if rest = [] then [] else 32 :: showTd rest

theorem tdTail_head (rest : List (Nat × TdUnit)) : ∀ c, (tdTail rest).head? = some c → isWord c = false := by
  intro c hc
  unfold tdTail at hc
  split at hc
  · cases hc
  · simp at hc; subst hc; decide

theorem tdTail_drop (rest : List (Nat × TdUnit)) : (tdTail rest).dropWhile isWs = showTd rest := by
  unfold tdTail
  cases rest with
  | nil => rfl
  | cons p r =>
    obtain ⟨d, ds, hds, hlo, hhi⟩ := natDigits_head p.1
    have hw : isWs d = false := by simp [isWs]; omega
    rw [if_neg (by simp), showTd_cons, hds]
    simp only [List.cons_append, List.dropWhile_cons, hw, show isWs 32 = true from by decide, if_true,
      Bool.false_eq_true, if_false]

theorem loop_step (fuel : Nat) (n : Nat) (u : TdUnit) (rest : List (Nat × TdUnit)) (sum : Int)
    (h1 : tdInRange (Int.ofNat (n * u.micros)) = true) (h2 : tdInRange (sum + Int.ofNat (n * u.micros)) = true) :
    parseTimedeltaLoop (fuel + 1) (showTd ((n, u) :: rest)) sum
      = parseTimedeltaLoop fuel (showTd rest) (sum + Int.ofNat (n * u.micros)) := by
  obtain ⟨c, t, habbr, hcd, hcw, h46, he, hE⟩ := abbr_shape u
  obtain ⟨d, ds, hds, hlo, hhi⟩ := natDigits_head n
  have hdw : isWs d = false := by simp [isWs]; omega
  have hshow : showTd ((n, u) :: rest) = natDigits n ++ (c :: (t ++ tdTail rest)) := by
    rw [showTd_cons]; simp only [habbr, tdTail, List.cons_append]
  have hne : (showTd ((n, u) :: rest)).isEmpty = false := by rw [hshow, hds]; rfl
  have hdrop : (showTd ((n, u) :: rest)).dropWhile isWs = natDigits n ++ (c :: (t ++ tdTail rest)) := by
    rw [hshow, hds]; simp [hdw]
  have htw : (c :: (t ++ tdTail rest)).takeWhile isWord = u.abbr := by
    have e : c :: (t ++ tdTail rest) = u.abbr ++ tdTail rest := by rw [habbr]; rfl
    rw [e]; exact takeWhile_append_stop isWord u.abbr (tdTail rest) (abbr_word u) (tdTail_head rest)
  have hdw2 : (c :: (t ++ tdTail rest)).dropWhile isWord = tdTail rest := by
    have e : c :: (t ++ tdTail rest) = u.abbr ++ tdTail rest := by rw [habbr]; rfl
    rw [e]; exact dropWhile_append_stop isWord u.abbr (tdTail rest) (abbr_word u) (tdTail_head rest)
  have hdw3 : (c :: (t ++ tdTail rest)).dropWhile isWs = c :: (t ++ tdTail rest) := by
    simp [List.dropWhile, hcw]
  rw [parseTimedeltaLoop]
  simp only [hne, Bool.false_eq_true, if_false, hdrop, matchFloatPat_nat n c _ hcd h46 he hE, hdw3, htw, hdw2,
    tdTail_drop, abbr_isEmpty, usOfUnit_abbr, tdOfDecimal_nat n u.micros h1, h2, if_true]

theorem denoteTd_cons (p : Nat × TdUnit) (rest : List (Nat × TdUnit)) :
    denoteTd (p :: rest) = Int.ofNat (p.1 * p.2.micros) + denoteTd rest := by
  simp [denoteTd]

theorem showTd_length (p : Nat × TdUnit) (rest : List (Nat × TdUnit)) :
    (showTd rest).length + 1 ≤ (showTd (p :: rest)).length := by
  obtain ⟨d, ds, hds, _, _⟩ := natDigits_head p.1
  rw [showTd_cons, hds]
  cases rest with
  | nil => simp [showTd_nil]
  | cons q r => simp; omega

theorem loop_showTd (parts : List (Nat × TdUnit)) : ∀ (fuel : Nat) (sum : Int),
    (showTd parts).length ≤ fuel →
    (∀ k, tdInRange (sum + denoteTd (parts.take k)) = true) →
    (∀ p ∈ parts, tdInRange (Int.ofNat (p.1 * p.2.micros)) = true) →
    parseTimedeltaLoop fuel (showTd parts) sum = .ok (sum + denoteTd parts) := by
  induction parts with
  | nil =>
    intro fuel sum _ _ _
    cases fuel <;> simp [parseTimedeltaLoop, showTd_nil, denoteTd]
  | cons p rest ih =>
    intro fuel sum hf hk hp
    obtain ⟨n, u⟩ := p
    have hlen := showTd_length (n, u) rest
    cases fuel with
    | zero => omega
    | succ f =>
      have h1 := hp (n, u) (by simp)
      have h2 : tdInRange (sum + Int.ofNat (n * u.micros)) = true := by
        have := hk 1
        simpa [denoteTd] using this
      rw [loop_step f n u rest sum h1 h2, ih f _ (by omega) ?_ (fun q hq => hp q (by simp [hq])), denoteTd_cons]
      · simp only [Int.add_assoc]
      · intro k
        have := hk (k + 1)
        rw [List.take_succ_cons, denoteTd_cons] at this
        simpa only [Int.add_assoc] using this

end TornadoModel.C44
