/-
C38 — specification side: the clauses of the property as predicates on an observed event trace (core Lean only).
The same predicates are (a) proved of every trace of the model (Props.lean) and (b) evaluated by the check on the trace
observed from the real IOLoop (`C38 spec …`), so the oracle is literally the theorem statement.
-/
import TornadoModel.C38.Model
namespace TornadoModel.C38.Spec
open TornadoModel.C38

def schedSid : Ev → Option Nat | .schedCb sid _ _ => some sid | _ => none
def ranSid : Ev → Option Nat | .ranCb sid _ _ _ _ => some sid | _ => none
def ranWhen : Ev → Option Int | .ranT _ _ _ wh _ _ => some wh | _ => none
def removedOf : Ev → Option Nat | .removed h => some h | _ => none
def isRanOf (h : Nat) : Ev → Bool | .ranT h' _ _ _ _ _ => h' == h | _ => false
def isSchedTOf (h : Nat) : Ev → Bool | .schedT h' _ _ _ => h' == h | _ => false
def isFailure : Ev → Bool | .fin _ .raise => true | .fin _ .retFailed => true | _ => false
def isLogged : Ev → Bool | .logged _ => true | _ => false
def schedTh : Ev → Option Nat | .schedT h _ _ _ => some h | _ => none

/-- callbacks run in the order they were scheduled, none twice, none invented:
the executed ones are always a prefix of the scheduled ones -/
def fifo (l : List Ev) : Prop := (l.filterMap ranSid).isPrefixOf (l.filterMap schedSid) = true

/-- … and once the loop is idle every scheduled callback has run (exactly once, by `fifo` + distinct ids) -/
def allRan (l : List Ev) : Prop := l.filterMap ranSid = l.filterMap schedSid

def sidsDistinct (l : List Ev) : Prop := (l.filterMap schedSid).Nodup

/-- a timeout never runs before its deadline on the loop's clock -/
def deadlineOk : Ev → Bool
  | .ranT _ _ dl wh _ now => decide (dl ≤ now) && decide (wh ≤ now)
  | _ => true
def notBeforeDeadline (l : List Ev) : Prop := ∀ e ∈ l, deadlineOk e = true

/-- timeouts run in order of effective deadline `max deadline scheduleTime` -/
def whenOrder (l : List Ev) : Prop := (l.filterMap ranWhen).Pairwise (· ≤ ·)

/-- no timeout runs after `remove_timeout` cancelled it: no `removed h` is followed by a `ranT h` -/
def notRanAfter (a b : Ev) : Bool :=
  match removedOf a with
  | some h => !isRanOf h b
  | none => true
def removedNeverRuns (l : List Ev) : Prop := l.Pairwise (fun a b => notRanAfter a b = true)

/-- a timeout runs at most once -/
def ranTh : Ev → Option Nat | .ranT h _ _ _ _ _ => some h | _ => none
def timerAtMostOnce (l : List Ev) : Prop := (l.filterMap ranTh).Nodup

/-- once idle: every armed timeout either ran or was removed -/
def timersAccounted (l : List Ev) : Prop :=
  ∀ h ∈ l.filterMap schedTh, l.any (isRanOf h) = true ∨ (Ev.removed h) ∈ l

/-- `add_callback` callbacks run on the iteration after the one that scheduled them; `add_future` callbacks run on an
iteration strictly after both the `add_future` call and the future's completion -/
def iterOk : Ev → Bool
  | .ranCb _ _ enq it _ => decide (it = enq + 1)
  | .ranF _ _ added enq it _ => decide (added ≤ enq) && decide (enq < it)
  | _ => true
def laterIteration (l : List Ev) : Prop := ∀ e ∈ l, iterOk e = true

/-- nothing is logged that is not a raising callback or a failed returned future … -/
def errorsLogged (l : List Ev) : Prop := l.countP isLogged ≤ l.countP isFailure
/-- … and once idle each of those produced exactly one log record -/
def errorsAllLogged (l : List Ev) : Prop := l.countP isFailure = l.countP isLogged

instance (l : List Ev) : Decidable (fifo l) := by unfold fifo; infer_instance
instance (l : List Ev) : Decidable (allRan l) := by unfold allRan; infer_instance
instance (l : List Ev) : Decidable (sidsDistinct l) := by unfold sidsDistinct; infer_instance
instance (l : List Ev) : Decidable (notBeforeDeadline l) := by unfold notBeforeDeadline; infer_instance
instance (l : List Ev) : Decidable (whenOrder l) := by unfold whenOrder; infer_instance
instance (l : List Ev) : Decidable (removedNeverRuns l) := by unfold removedNeverRuns; infer_instance
instance (l : List Ev) : Decidable (timerAtMostOnce l) := by unfold timerAtMostOnce; infer_instance
instance (l : List Ev) : Decidable (timersAccounted l) := by unfold timersAccounted; infer_instance
instance (l : List Ev) : Decidable (laterIteration l) := by unfold laterIteration; infer_instance
instance (l : List Ev) : Decidable (errorsLogged l) := by unfold errorsLogged; infer_instance
instance (l : List Ev) : Decidable (errorsAllLogged l) := by unfold errorsAllLogged; infer_instance

/-- names of the clauses violated by an observed trace (`idle`: the loop had nothing left to do at the end) -/
def violations (l : List Ev) (idle : Bool) : List String :=
  (if fifo l then [] else ["fifo"]) ++
  (if sidsDistinct l then [] else ["sids"]) ++
  (if idle && !decide (allRan l) then ["callback_lost"] else []) ++
  (if notBeforeDeadline l then [] else ["before_deadline"]) ++
  (if whenOrder l then [] else ["timeout_order"]) ++
  (if removedNeverRuns l then [] else ["ran_after_remove"]) ++
  (if timerAtMostOnce l then [] else ["timeout_twice"]) ++
  (if idle && !decide (timersAccounted l) then ["timeout_lost"] else []) ++
  (if laterIteration l then [] else ["iteration"]) ++
  (if errorsLogged l then [] else ["spurious_log"]) ++
  (if idle && !decide (errorsAllLogged l) then ["error_not_logged"] else [])

/-! ### run_sync: "returns the function's result, re-raises its exception, or raises TimeoutError after cancelling it" -/

/-- when does the function's outcome become available (ticks after the call), if ever -/
def completion : Func → Option (Nat × Outcome)
  | .raises => some (0, .userError)
  | .retNone => some (0, .result)
  | .retValue => some (0, .badYield)
  | .awaitable (some d) ok => some (d, if ok then .result else .userError)
  | .awaitable none _ => none
  | .stopsLoop _ => none

/-- is the outcome available without waiting on the loop (plain function results are, awaitables are not) -/
def immediate : Func → Bool
  | .awaitable _ _ => false
  | .stopsLoop _ => false
  | _ => true

def runSyncSpec (f : Func) (timeout : Option Nat) : Outcome :=
  match f with
  | .stopsLoop d =>   -- outside the property's three cases: an explicit IOLoop.stop() ends run_sync with RuntimeError
    (match timeout with
     | some t => if d < t then .runtimeError else .timeoutError
     | none => .runtimeError)
  | _ =>
  match completion f, timeout with
  | some (_, o), none => o
  | some (d, o), some t => if immediate f || d < t then o else .timeoutError
  | none, some _ => .timeoutError
  | none, none => .hang

end TornadoModel.C38.Spec
