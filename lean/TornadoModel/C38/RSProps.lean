/-
C38 — theorems about `run_sync` on the loop machine of RunSync.lean, for EVERY main program (sequence of `run_sync`
calls, pauses and plain `start()`s on one loop), every tie-break `pref`, every fuel, fixed and legacy `timeout_callback`.
-/
import TornadoModel.C38.RSSpec
namespace TornadoModel.C38.RS
open TornadoModel.C38

/-! ### "raises TimeoutError after cancelling it" -/

/-- what is always true of the record of a call -/
def Good (x : Call) : Prop :=
  (∀ o, x.fut = .done o → o ≠ .timeoutError) ∧
  (x.tmoCalled = true → x.creq = true ∨ ∃ o, x.fut = .done o) ∧
  (x.fut = .cancelled → x.creq = true) ∧
  (x.mustCancel = true → x.creq = true) ∧
  (∀ h, x.phase = .cancelWoken h → x.creq = true)

def Inv (s : St) : Prop := ∀ x ∈ s.calls, Good x

theorem mem_modAt {l : List Call} {c : Nat} {g : Call → Call} {y : Call} (h : y ∈ modAt l c g) :
    y ∈ l ∨ ∃ x, l[c]? = some x ∧ y = g x := by
  induction l generalizing c with
  | nil => simp [modAt] at h
  | cons a l ih =>
    cases c with
    | zero =>
      simp only [modAt, List.mem_cons] at h
      rcases h with rfl | h
      · exact Or.inr ⟨a, by simp, rfl⟩
      · exact Or.inl (List.mem_cons_of_mem _ h)
    | succ c =>
      simp only [modAt, List.mem_cons] at h
      rcases h with rfl | h
      · exact Or.inl (List.mem_cons_self ..)
      · rcases ih h with h | ⟨x, hx, rfl⟩
        · exact Or.inl (List.mem_cons_of_mem _ h)
        · exact Or.inr ⟨x, by simpa using hx, rfl⟩

theorem inv_upd {s : St} {c : Nat} {g : Call → Call} {x : Call} (h : Inv s) (hx : s.calls[c]? = some x)
    (hg : Good x → Good (g x)) : Inv (upd s c g) := by
  intro y hy
  rcases mem_modAt hy with hy | ⟨x', hx', rfl⟩
  · exact h y hy
  · rw [hx] at hx'; cases hx'
    exact hg (h x (List.mem_of_getElem? hx))

theorem inv_congr {s s' : St} (hc : s'.calls = s.calls) (h : Inv s) : Inv s' := by
  intro y hy; rw [hc] at hy; exact h y hy

theorem inv_complete {s : St} {c : Nat} {x : Call} {o : Outcome} {task : Bool} (h : Inv s) (hx : s.calls[c]? = some x)
    (ho : o ≠ .timeoutError) : Inv (complete s c o task) := by
  refine inv_congr (s := upd s c _) rfl (inv_upd h hx ?_)
  rintro ⟨_, _, _, g4, _⟩
  refine ⟨?_, ?_, ?_, ?_, ?_⟩
  · intro o' ho'; cases ho'; exact ho
  · intro _; exact Or.inr ⟨o, rfl⟩
  · intro hc; cases hc
  · exact g4
  · intro h' hp; cases hp

theorem inv_cancelled {s : St} {c : Nat} {x : Call} {saw : Bool} (h : Inv s) (hx : s.calls[c]? = some x)
    (hq : x.creq = true) : Inv (cancelled s c saw) := by
  refine inv_congr (s := upd s c _) rfl (inv_upd h hx ?_)
  intro _
  refine ⟨?_, ?_, ?_, ?_, ?_⟩
  · intro o' ho'; cases ho'
  · intro _; exact Or.inl hq
  · intro _; exact hq
  · intro _; exact hq
  · intro h' hp; cases hp

theorem bodyResult_ne (ok : Bool) : bodyResult ok ≠ .timeoutError := by
  cases ok <;> simp [bodyResult]

/-- a pending future gets only fields that keep `Good` (no outcome, not cancelled) -/
theorem good_pending {x : Call} (hf : x.fut = .none) (p : Phase) (hp : ∀ h, p ≠ .cancelWoken h) (hG : Good x) :
    Good { x with fut := .pending, phase := p } := by
  obtain ⟨_, g2, _, g4, _⟩ := hG
  refine ⟨?_, ?_, ?_, ?_, ?_⟩
  · intro o ho; cases ho
  · intro ht
    rcases g2 ht with h | ⟨o, ho⟩
    · exact Or.inl h
    · rw [hf] at ho; cases ho
  · intro hc; cases hc
  · exact g4
  · intro h hph; exact absurd hph (hp h)

theorem good_phase {x : Call} (p : Phase) (hp : ∀ h, p ≠ .cancelWoken h) (hG : Good x) :
    Good { x with phase := p } := by
  obtain ⟨g1, g2, g3, g4, _⟩ := hG
  exact ⟨g1, g2, g3, g4, fun h hph => absurd hph (hp h)⟩

theorem good_cancelG {x : Call} (hf : x.fut = .pending) (hG : Good x) : Good (cancelG x) := by
  obtain ⟨g1, _, _, _, _⟩ := hG
  unfold cancelG
  split
  · exact ⟨fun o ho => (by cases ho), fun _ => Or.inl rfl, fun _ => rfl, fun _ => rfl, fun _ _ => rfl⟩
  · exact ⟨g1, fun _ => Or.inl rfl, fun _ => rfl, fun _ => rfl, fun _ _ => rfl⟩
  · exact ⟨g1, fun _ => Or.inl rfl, fun _ => rfl, fun _ => rfl, fun _ _ => rfl⟩
  · exact ⟨g1, fun _ => Or.inl rfl, fun _ => rfl, fun _ => rfl, fun _ _ => rfl⟩

theorem good_tmoDone {x : Call} (hn : x.fut ≠ .none) (hp : x.fut ≠ .pending) (hG : Good x) :
    Good { x with tmoCalled := true } := by
  obtain ⟨g1, _, g3, g4, g5⟩ := hG
  refine ⟨g1, ?_, g3, g4, g5⟩
  intro _
  show x.creq = true ∨ ∃ o, x.fut = .done o
  cases hf : x.fut with
  | none => exact absurd hf hn
  | pending => exact absurd hf hp
  | done o => exact Or.inr ⟨o, rfl⟩
  | cancelled => exact Or.inl (g3 hf)

theorem good_pending0 {x : Call} (hf : x.fut = .none) (hG : Good x) : Good { x with fut := .pending } := by
  obtain ⟨_, g2, _, g4, g5⟩ := hG
  refine ⟨?_, ?_, ?_, g4, g5⟩
  · intro o ho; cases ho
  · intro ht
    rcases g2 ht with h | ⟨o, ho⟩
    · exact Or.inl h
    · rw [hf] at ho; cases ho
  · intro hc; cases hc

theorem good_new (fn : Fn) : Good { fn := fn } :=
  ⟨fun o ho => (by cases ho), fun ht => (by cases ht), fun hc => (by cases hc), fun hm => (by cases hm),
   fun h hp => (by cases hp)⟩

theorem inv_exec {s : St} (k : K) (h : Inv s) : Inv (exec s k) := by
  cases k with
  | wrap c => exact inv_congr rfl h
  | ustop => exact inv_congr rfl h
  | unreg c => exact h
  | run c =>
    cases hx : s.calls[c]? with
    | none => simp only [exec, hx]; exact h
    | some x =>
      cases hf : x.fut with
      | pending => simp only [exec, hx, hf]; exact h
      | done o => simp only [exec, hx, hf]; exact h
      | cancelled => simp only [exec, hx, hf]; exact h
      | none =>
        cases hfn : x.fn with
        | raises => simp only [exec, hx, hf, hfn]; exact inv_complete h hx (by simp)
        | retNone => simp only [exec, hx, hf, hfn]; exact inv_complete h hx (by simp)
        | retValue => simp only [exec, hx, hf, hfn]; exact inv_complete h hx (by simp)
        | coro dur ok =>
          simp only [exec, hx, hf, hfn]
          exact inv_congr (s := upd s c _) rfl (inv_upd h hx (good_pending hf .fresh (by simp)))
        | «fut» dur ok =>
          cases dur with
          | none =>
            simp only [exec, hx, hf, hfn]
            exact inv_upd h hx (good_pending0 hf)
          | some d =>
            simp only [exec, hx, hf, hfn]
            exact inv_congr (s := upd s c _) rfl (inv_upd h hx (good_pending0 hf))
        | stopsLoop d =>
          simp only [exec, hx, hf, hfn]
          exact inv_congr (s := upd s c _) rfl (inv_upd h hx (good_pending0 hf))
  | tmo c =>
    cases hx : s.calls[c]? with
    | none => simp only [exec, hx]; exact h
    | some x =>
      cases hf : x.fut with
      | none => simp only [exec, hx, hf]; exact inv_congr rfl h
      | pending =>
        cases hk : cancelK c x with
        | none => simp only [exec, hx, hf, hk]; exact inv_upd h hx (good_cancelG hf)
        | some k =>
          simp only [exec, hx, hf, hk]
          exact inv_congr (s := upd s c cancelG) rfl (inv_upd h hx (good_cancelG hf))
      | done o =>
        simp only [exec, hx, hf]
        split <;> exact inv_congr (s := upd s c _) rfl (inv_upd h hx (good_tmoDone (by simp [hf]) (by simp [hf])))
      | cancelled =>
        simp only [exec, hx, hf]
        split <;> exact inv_congr (s := upd s c _) rfl (inv_upd h hx (good_tmoDone (by simp [hf]) (by simp [hf])))
  | res c =>
    cases hx : s.calls[c]? with
    | none => simp only [exec, hx]; exact h
    | some x =>
      simp only [exec, hx]
      split
      · exact inv_complete h hx (bodyResult_ne _)
      · exact inv_congr rfl h
  | sleepDone c =>
    cases hx : s.calls[c]? with
    | none => simp only [exec, hx]; exact h
    | some x =>
      simp only [exec, hx]
      split
      · exact inv_congr (s := upd s c _) rfl (inv_upd h hx (good_phase (x := x) .woken (by simp)))
      · exact h
  | step c =>
    cases hx : s.calls[c]? with
    | none => simp only [exec, hx]; exact h
    | some x =>
      have hG := h x (List.mem_of_getElem? hx)
      cases hp : x.phase with
      | na => simp only [exec, hx, hp]; exact h
      | sleeping t => simp only [exec, hx, hp]; exact h
      | never => simp only [exec, hx, hp]; exact h
      | fin => simp only [exec, hx, hp]; exact h
      | cancelWoken t =>
        have hq := hG.2.2.2.2 t hp
        cases t with
        | none => simp only [exec, hx, hp]; exact inv_cancelled h hx hq
        | some t =>
          simp only [exec, hx, hp]
          exact inv_cancelled (s := disarm s t) (inv_congr rfl h) hx hq
      | woken =>
        cases hm : x.mustCancel with
        | true => simp only [exec, hx, hp, hm, ↓reduceIte]; exact inv_cancelled h hx (hG.2.2.2.1 hm)
        | false =>
          simp only [exec, hx, hp, hm, Bool.false_eq_true, ↓reduceIte]
          split
          · exact inv_complete h hx (bodyResult_ne _)
          · exact h
      | fresh =>
        cases hm : x.mustCancel with
        | true => simp only [exec, hx, hp, hm, ↓reduceIte]; exact inv_cancelled h hx (hG.2.2.2.1 hm)
        | false =>
          simp only [exec, hx, hp, hm, Bool.false_eq_true, ↓reduceIte]
          split
          · exact inv_upd h hx (good_phase (x := x) .never (by simp))
          · exact inv_complete h hx (bodyResult_ne _)
          · exact inv_congr (s := upd s c _) rfl (inv_upd h hx (good_phase (x := x) (.sleeping s.nextId) (by simp)))
          · exact h

theorem inv_foldl (l : List K) {s : St} (h : Inv s) : Inv (l.foldl exec s) := by
  induction l generalizing s with
  | nil => exact h
  | cons k l ih => exact ih (inv_exec k h)

theorem inv_iteration {s s' : St} (h : Inv s) (hi : iteration s = some s') : Inv s' := by
  unfold iteration at hi
  split at hi
  · cases hi
  · injection hi with hi
    subst hi
    exact inv_foldl _ (inv_congr rfl h)

theorem inv_start (n : Nat) {s : St} (h : Inv s) : Inv (start n s).1 := by
  induction n generalizing s with
  | zero => exact h
  | succ n ih =>
    simp only [start]
    split
    · exact h
    · next s' hi =>
      have h' := inv_iteration h hi
      split
      · exact inv_congr rfl h'
      · exact ih h'

theorem good_timeout {x : Call} (hG : Good x) (ho : outcomeOf x = .timeoutError) : x.creq = true := by
  obtain ⟨g1, g2, g3, _, _⟩ := hG
  unfold outcomeOf at ho
  cases hf : x.fut with
  | done o => rw [hf] at ho; exact absurd ho (g1 o hf)
  | cancelled => exact g3 hf
  | none =>
    rw [hf] at ho
    cases ht : x.tmoCalled with
    | false => simp [ht] at ho
    | true =>
      rcases g2 ht with hq | ⟨o, ho'⟩
      · exact hq
      · rw [hf] at ho'; cases ho'
  | pending =>
    rw [hf] at ho
    cases ht : x.tmoCalled with
    | false => simp [ht] at ho
    | true =>
      rcases g2 ht with hq | ⟨o, ho'⟩
      · exact hq
      · rw [hf] at ho'; cases ho'

/-- the record of a `run_sync` call whose outcome is `TimeoutError` says that `cancel()` had been requested -/
def RecOk (r : Rec) : Prop := r.out = .timeoutError → r.creq = true

theorem snapshot_ok (s0 s : St) (isCall returned : Bool) (x : Option Call) (hx : ∀ y, x = some y → Good y) :
    RecOk (snapshot s0 s isCall returned x) := by
  intro ho
  simp only [snapshot] at ho ⊢
  cases returned with
  | false => simp at ho
  | true =>
    cases x with
    | none => simp at ho
    | some y => simp at ho; exact good_timeout (hx y rfl) ho

theorem inv_beginCall {s : St} (fn : Fn) (timeout : Option Nat) (h : Inv s) : Inv (beginCall s fn timeout) := by
  have h1 : Inv (push { s with calls := s.calls ++ [{ fn := fn }] } (.run s.calls.length)) := by
    intro y hy
    simp only [push, List.mem_append, List.mem_singleton] at hy
    rcases hy with hy | rfl
    · exact h y hy
    · exact good_new fn
  unfold beginCall
  cases timeout with
  | none => exact h1
  | some t => exact inv_congr rfl h1

theorem endCall_calls (h : Nat) (timeout : Option Nat) (r : St × Bool) : (endCall h timeout r).calls = r.1.calls := by
  unfold endCall
  split <;> rfl

theorem inv_doOp (fuel : Nat) {s : St} (op : Op) (h : Inv s) :
    Inv (doOp fuel s op).1 ∧ ∀ r, (doOp fuel s op).2 = some r → RecOk r := by
  cases op with
  | advance d => exact ⟨inv_congr rfl h, fun r hr => by simp [doOp] at hr⟩
  | runFor d =>
    refine ⟨inv_start fuel (inv_congr (s := s) rfl h), fun r hr => ?_⟩
    simp only [doOp, Option.some.injEq] at hr
    subst hr
    exact snapshot_ok _ _ _ _ _ (fun y hy => by cases hy)
  | call fn timeout =>
    have h3 := inv_start fuel (inv_beginCall fn timeout h)
    have h4 : Inv (endCall s.nextId timeout (start fuel (beginCall s fn timeout))) := inv_congr (endCall_calls _ _ _) h3
    refine ⟨h4, fun r hr => ?_⟩
    simp only [doOp, Option.some.injEq] at hr
    subst hr
    exact snapshot_ok _ _ _ _ _ (fun y hy => h4 y (List.mem_of_getElem? hy))

theorem runOps_ok (fuel : Nat) (ops : List Op) {s : St} (h : Inv s) : ∀ r ∈ (runOps fuel s ops).2, RecOk r := by
  induction ops generalizing s with
  | nil => intro r hr; simp [runOps] at hr
  | cons op ops ih =>
    have hd := inv_doOp fuel op h
    simp only [runOps]
    split
    · next s' heq =>
      have : (doOp fuel s op).1 = s' := by rw [heq]
      exact ih (this ▸ hd.1)
    · next s' r heq =>
      have h1 : (doOp fuel s op).1 = s' := by rw [heq]
      have h2 : (doOp fuel s op).2 = some r := by rw [heq]
      split
      · intro r' hr'
        simp only [List.mem_cons] at hr'
        rcases hr' with rfl | hr'
        · exact hd.2 _ h2
        · exact ih (h1 ▸ hd.1) r' hr'
      · intro r' hr'
        simp only [List.mem_singleton] at hr'
        subst hr'
        exact hd.2 _ h2

theorem inv_fresh (legacy : Bool) (pref : List Nat) : Inv (fresh legacy pref) := by
  intro y hy; simp [fresh] at hy

/-! ### `run_sync` removes its timeout: whatever the outcome, no `timeout_callback` stays armed on the loop -/

def isTmo : K → Bool
  | .tmo _ => true
  | _ => false

/-- going from `s` to `s'` the armed timers only gained entries that are not `timeout_callback`s -/
def TSub (s s' : St) : Prop := ∀ t ∈ s'.timers, t ∈ s.timers ∨ isTmo t.k = false

theorem tsub_refl (s : St) : TSub s s := fun _ ht => Or.inl ht

theorem tsub_trans {a b c : St} (h1 : TSub a b) (h2 : TSub b c) : TSub a c := by
  intro t ht
  rcases h2 t ht with h | h
  · exact h1 t h
  · exact Or.inr h

theorem tsub_exec (s : St) (k : K) : TSub s (exec s k) := by
  intro t ht
  cases k <;> simp only [exec] at ht <;> (repeat' split at ht) <;>
    simp_all [complete, cancelled, upd, push, arm, disarm, isTmo, List.mem_filter] <;>
    (try (rcases ht with h | rfl <;> simp_all [isTmo]))

theorem tsub_foldl (l : List K) (s : St) : TSub s (l.foldl exec s) := by
  induction l generalizing s with
  | nil => exact tsub_refl s
  | cons k l ih => exact tsub_trans (tsub_exec s k) (ih _)

theorem tsub_iteration {s s' : St} (hi : iteration s = some s') : TSub s s' := by
  unfold iteration at hi
  split at hi
  · cases hi
  · injection hi with hi
    subst hi
    refine tsub_trans ?_ (tsub_foldl _ _)
    intro t ht
    exact Or.inl (List.mem_filter.mp ht).1

theorem tsub_start (n : Nat) (s : St) : TSub s (start n s).1 := by
  induction n generalizing s with
  | zero => exact tsub_refl s
  | succ n ih =>
    simp only [start]
    split
    · exact tsub_refl s
    · next s' hi =>
      split
      · exact tsub_trans (tsub_iteration hi) (fun t ht => Or.inl ht)
      · exact tsub_trans (tsub_iteration hi) (ih s')

def NoTmo (s : St) : Prop := ∀ t ∈ s.timers, isTmo t.k = false

theorem noTmo_tsub {s s' : St} (h : NoTmo s) (hs : TSub s s') : NoTmo s' := by
  intro t ht
  rcases hs t ht with h' | h'
  · exact h t h'
  · exact h'

theorem noTmo_doOp (fuel : Nat) {s : St} (op : Op) (h : NoTmo s)
    (hr : ∀ r, (doOp fuel s op).2 = some r → r.returned = true) : NoTmo (doOp fuel s op).1 := by
  cases op with
  | advance d => exact h
  | runFor d =>
    refine noTmo_tsub (s := arm s (s.now + d) .ustop) ?_ (tsub_start fuel _)
    intro t ht
    simp only [arm, List.mem_append, List.mem_singleton] at ht
    rcases ht with ht | rfl
    · exact h t ht
    · rfl
  | call fn timeout =>
    have hret : (start fuel (beginCall s fn timeout)).2 = true := by
      have := hr _ rfl
      simpa [doOp, snapshot] using this
    cases timeout with
    | none =>
      have hb : NoTmo (beginCall s fn none) := fun t ht => h t ht
      have := noTmo_tsub hb (tsub_start fuel _)
      simpa [doOp, endCall] using this
    | some w =>
      have hs := tsub_start fuel (beginCall s fn (some w))
      show NoTmo (endCall s.nextId (some w) (start fuel (beginCall s fn (some w))))
      simp only [endCall, hret, Option.isSome_some, Bool.and_self, ↓reduceIte]
      intro t ht
      simp only [disarm, List.mem_filter, bne_iff_ne, ne_eq] at ht
      rcases hs t ht.1 with h' | h'
      · simp only [beginCall, arm, push, List.mem_append, List.mem_singleton] at h'
        rcases h' with h' | rfl
        · exact h t h'
        · exact absurd rfl ht.2
      · exact h'

theorem runOps_noTmo (fuel : Nat) (ops : List Op) {s : St} (h : NoTmo s)
    (hr : ∀ r ∈ (runOps fuel s ops).2, r.returned = true) : NoTmo (runOps fuel s ops).1 := by
  induction ops generalizing s with
  | nil => exact h
  | cons op ops ih =>
    simp only [runOps] at hr ⊢
    split at hr
    · next s' heq =>
      have h1 : (doOp fuel s op).1 = s' := by rw [heq]
      have h2 : (doOp fuel s op).2 = none := by rw [heq]
      try simp only [heq]
      exact ih (h1 ▸ noTmo_doOp fuel op h (fun r hr' => by rw [h2] at hr'; cases hr')) hr
    · next s' r heq =>
      have h1 : (doOp fuel s op).1 = s' := by rw [heq]
      have h2 : (doOp fuel s op).2 = some r := by rw [heq]
      try simp only [heq]
      split at hr
      · next hret =>
        simp only [hret, ↓reduceIte]
        refine ih (h1 ▸ noTmo_doOp fuel op h (fun r' hr' => ?_)) (fun r' hr' => hr r' (List.mem_cons_of_mem _ hr'))
        rw [h2] at hr'; cases hr'; exact hret
      · next hret =>
        exact absurd (hr r (List.mem_singleton.mpr rfl)) hret

theorem noTmo_fresh (legacy : Bool) (pref : List Nat) : NoTmo (fresh legacy pref) := by
  intro t ht; simp [fresh] at ht

end TornadoModel.C38.RS
