/-
C38 — the timer multiset of the loop model (core Lean only).

The loop state is projected to its *timer view* (`view`): armed timers, the timer handles of the current batch (with their
cancelled flag), clock, `moved`, the handle counter and the timer events of the log.  Every micro-step of the model is one
step of a small abstract timer machine (`TStep`: stutter / arm / remove / skip a cancelled handle / fire / begin an
iteration) — `sim`.  The three invariants (order, at-most-once, accounted) are proved on the abstract machine and carried
to every reachable state of the model.
-/
import TornadoModel.C38.Lemmas
namespace TornadoModel.C38
open Spec

/-! ### sorting: `sortT` is a permutation, sorted by `when` -/

theorem insertT_perm (pref : List Nat) (t : Timer) (l : List Timer) : (insertT pref t l).Perm (t :: l) := by
  induction l with
  | nil => simp [insertT]
  | cons u us ih =>
    simp only [insertT]
    split
    · exact List.Perm.refl _
    · exact (List.Perm.cons u ih).trans (List.Perm.swap t u us)

theorem sortT_perm (pref : List Nat) (l : List Timer) : (sortT pref l).Perm l := by
  induction l with
  | nil => exact List.Perm.refl _
  | cons u us ih =>
    have : sortT pref (u :: us) = insertT pref u (sortT pref us) := rfl
    rw [this]
    exact (insertT_perm pref u _).trans (List.Perm.cons u ih)

theorem tle_when (pref : List Nat) (a b : Timer) (h : tle pref a b = true) : a.when ≤ b.when := by
  simp only [tle, Bool.or_eq_true, decide_eq_true_eq, Bool.and_eq_true, beq_iff_eq] at h
  rcases h with h | h
  · omega
  · omega

theorem not_tle_when (pref : List Nat) (a b : Timer) (h : ¬ tle pref a b = true) : b.when ≤ a.when := by
  simp only [tle, Bool.or_eq_true, decide_eq_true_eq, Bool.and_eq_true, beq_iff_eq, not_or] at h
  omega

def whenSorted (l : List Timer) : Prop := l.Pairwise (fun a b => a.when ≤ b.when)

theorem insertT_sorted (pref : List Nat) (t : Timer) (l : List Timer) (h : whenSorted l) :
    whenSorted (insertT pref t l) := by
  induction l with
  | nil => simp [insertT, whenSorted]
  | cons u us ih =>
    unfold whenSorted at *
    simp only [insertT]
    rw [List.pairwise_cons] at h
    split
    · next hle =>
      have hw := tle_when _ _ _ hle
      rw [List.pairwise_cons]
      refine ⟨?_, List.pairwise_cons.mpr h⟩
      intro x hx
      rcases List.mem_cons.mp hx with hx | hx
      · subst hx; exact hw
      · have := h.1 x hx; omega
    · next hle =>
      have hw := not_tle_when _ _ _ hle
      rw [List.pairwise_cons]
      refine ⟨?_, ih h.2⟩
      intro x hx
      rcases (mem_insertT pref t x us).mp hx with hx | hx
      · subst hx; exact hw
      · exact h.1 x hx

theorem sortT_sorted (pref : List Nat) (l : List Timer) : whenSorted (sortT pref l) := by
  induction l with
  | nil => simp [sortT, whenSorted]
  | cons u us ih =>
    have : sortT pref (u :: us) = insertT pref u (sortT pref us) := rfl
    rw [this]
    exact insertT_sorted pref u _ ih

/-! ### the timer view of a loop state -/

/-- events about timers -/
def timerEv : Ev → Bool
  | .schedT .. => true
  | .ranT .. => true
  | .removed _ => true
  | _ => false

def itemTC : Item → Option (Timer × Bool)
  | .tcb t c => some (t, c)
  | _ => none

@[simp] theorem itemTC_cb {a b c} : itemTC (Item.cb a b c) = none := rfl
@[simp] theorem itemTC_tcb' {t c} : itemTC (Item.tcb t c) = some (t, c) := rfl
@[simp] theorem itemTC_fcb {a b c d} : itemTC (Item.fcb a b c d) = none := rfl
@[simp] theorem itemTC_discard {a b} : itemTC (Item.discard a b) = none := rfl

def cancelTC (h : Nat) (p : Timer × Bool) : Timer × Bool := (p.1, p.2 || p.1.h == h)

structure TS where
  timers : List Timer
  tb : List (Timer × Bool)
  now : Int
  moved : Int
  nextH : Nat
  tlog : List Ev

def view (s : Loop) : TS :=
  ⟨s.timers, s.batch.filterMap itemTC, s.now, s.moved, s.nextH, s.log.filter timerEv⟩

/-- one step of the abstract timer machine -/
inductive TStep : TS → TS → Prop
  | stutter (a b : TS) (h1 : b.timers = a.timers) (h2 : b.tb = a.tb) (h3 : a.now ≤ b.now) (h4 : b.moved = a.moved)
      (h5 : b.nextH = a.nextH) (h6 : b.tlog = a.tlog) : TStep a b
  | arm (a b : TS) (k : Nat) (dl wh : Int) (hw : a.now ≤ wh) (h1 : b.timers = a.timers ++ [⟨a.nextH, k, dl, wh⟩])
      (h2 : b.tb = a.tb) (h3 : b.now = a.now) (h4 : b.moved = a.moved) (h5 : b.nextH = a.nextH + 1)
      (h6 : b.tlog = a.tlog ++ [.schedT a.nextH k dl wh]) : TStep a b
  | rm (a b : TS) (h : Nat) (h1 : b.timers = a.timers.filter (fun t => t.h != h)) (h2 : b.tb = a.tb.map (cancelTC h))
      (h3 : b.now = a.now) (h4 : b.moved = a.moved) (h5 : b.nextH = a.nextH)
      (h6 : b.tlog = a.tlog ++ [.removed h]) : TStep a b
  | skip (a b : TS) (t : Timer) (rest : List (Timer × Bool)) (h0 : a.tb = (t, true) :: rest) (h1 : b.timers = a.timers)
      (h2 : b.tb = rest) (h3 : b.now = a.now) (h4 : b.moved = a.moved) (h5 : b.nextH = a.nextH)
      (h6 : b.tlog = a.tlog) : TStep a b
  | fire (a b : TS) (t : Timer) (rest : List (Timer × Bool)) (iter : Nat) (h0 : a.tb = (t, false) :: rest)
      (h1 : b.timers = a.timers) (h2 : b.tb = rest) (h3 : b.now = a.now) (h4 : b.moved = a.moved)
      (h5 : b.nextH = a.nextH) (h6 : b.tlog = a.tlog ++ [.ranT t.h t.k t.deadline t.when iter a.now]) : TStep a b
  | iter (a b : TS) (pref : List Nat) (w : Int) (hw : a.now ≤ w) (h0 : a.tb = [])
      (h1 : b.timers = a.timers.filter (fun t => !(t.when ≤ w)))
      (h2 : b.tb = (sortT pref (a.timers.filter (fun t => t.when ≤ w))).map (fun t => (t, false)))
      (h3 : b.now = w) (h4 : b.moved = w) (h5 : b.nextH = a.nextH) (h6 : b.tlog = a.tlog) : TStep a b

/-! ### simulation -/

theorem itemTC_noTcb (l : List Item) (h : ∀ it ∈ l, noTcb it) : l.filterMap itemTC = [] := by
  induction l with
  | nil => rfl
  | cons x xs ih =>
    have hx := h x (by simp)
    have := ih (fun it hit => h it (by simp [hit]))
    cases x <;> simp_all [itemTC, noTcb]

theorem itemTC_cancel (h : Nat) (l : List Item) :
    (l.map (cancelItem h)).filterMap itemTC = (l.filterMap itemTC).map (cancelTC h) := by
  induction l with
  | nil => rfl
  | cons x xs ih =>
    cases x <;> simp [cancelItem, cancelTC, List.filterMap_cons, ih]

theorem itemTC_tcb (l : List Timer) : (l.map (fun t => Item.tcb t false)).filterMap itemTC = l.map (fun t => (t, false)) := by
  induction l with
  | nil => rfl
  | cons x xs ih => simp [ih]

theorem view_emit_neutral (s : Loop) (e : Ev) (he : timerEv e = false) : view (emit s e) = view s := by
  simp [view, emit, List.filter_append, he]

theorem stutter_of_view_eq (a : TS) {b : TS} (h : b = a) : TStep a b := by
  subst h
  exact TStep.stutter _ _ rfl rfl (Int.le_refl _) rfl rfl rfl

theorem sim_doAct (s : Loop) (a : Act) : TStep (view s) (view (doAct s a)) := by
  cases a with
  | addCb k =>
    apply stutter_of_view_eq
    simp [doAct, view, emit, List.filter_append, timerEv]
  | addTmo f arg k name =>
    refine TStep.arm _ _ k (effDeadline s.now f arg)
      (if effDeadline s.now f arg < s.now then s.now else effDeadline s.now f arg) ?_ ?_ ?_ ?_ ?_ ?_ ?_
    · show s.now ≤ _
      split <;> omega
    all_goals simp [doAct, view, emit, List.filter_append, timerEv]
  | rmTmo name =>
    simp only [doAct]
    split
    · exact stutter_of_view_eq _ rfl
    · next h0 _ =>
      split
      · refine TStep.rm _ _ h0 ?_ ?_ ?_ ?_ ?_ ?_
        · simp [view, emit]
        · show (s.batch.map (cancelItem h0)).filterMap itemTC = _
          exact itemTC_cancel _ _
        all_goals simp [view, emit, List.filter_append, timerEv]
      · exact stutter_of_view_eq _ rfl
  | busy d =>
    refine TStep.stutter _ _ rfl rfl ?_ rfl rfl rfl
    show s.now ≤ s.now + (d : Int)
    omega
  | addFut fid k =>
    simp only [doAct]
    split
    · exact stutter_of_view_eq _ rfl
    · exact stutter_of_view_eq _ rfl
  | resolve fid ok =>
    simp only [doAct]
    split
    · exact stutter_of_view_eq _ rfl
    · exact stutter_of_view_eq _ rfl

theorem sim_finish (s : Loop) (c : Cur) : TStep (view s) (view (finish s c)) := by
  apply stutter_of_view_eq
  unfold finish
  cases c.fin <;> simp [view, emit, List.filter_append, timerEv]

theorem sim_startItem (s : Loop) (it : Item) (rest : List Item) (hb : s.batch = it :: rest) :
    TStep (view s) (view (startItem { s with batch := rest } it)) := by
  cases it with
  | cb sid k enq =>
    apply stutter_of_view_eq
    simp [startItem, startBody, view, emit, List.filter_append, timerEv, hb, List.filterMap_cons]
  | tcb t c =>
    simp only [startItem]
    split
    · next hc =>
      subst hc
      exact TStep.skip _ _ t (rest.filterMap itemTC) (by simp [view, hb]) rfl rfl rfl rfl rfl rfl
    · next hc =>
      have hc' : c = false := by simpa using hc
      subst hc'
      refine TStep.fire _ _ t (rest.filterMap itemTC) s.iter (by simp [view, hb]) rfl rfl rfl rfl rfl ?_
      simp [startBody, view, emit, List.filter_append, timerEv]
  | fcb fid k added enq =>
    apply stutter_of_view_eq
    simp [startItem, startBody, view, emit, List.filter_append, timerEv, hb, List.filterMap_cons]
  | discard ok enq =>
    apply stutter_of_view_eq
    cases ok <;> simp [startItem, view, emit, List.filter_append, timerEv, hb, List.filterMap_cons]

theorem sim_newIteration (s : Loop) (hb : s.batch = []) (hn : ∀ it ∈ s.next, noTcb it) :
    TStep (view s) (view (newIteration s)) := by
  rw [newIteration_eq]
  refine TStep.iter _ _ s.pref (wake s) (wake_ge s) (by simp [view, hb]) rfl ?_ rfl rfl rfl rfl
  show (s.next ++ _).filterMap itemTC = _
  rw [List.filterMap_append, itemTC_noTcb _ hn, itemTC_tcb]; rfl

/-- every micro-step of the loop is one step of the timer machine -/
theorem sim (s : Loop) (hn : ∀ it ∈ s.next, noTcb it) : TStep (view s) (view (step s)) := by
  unfold step
  split
  · next c hc =>
    split
    · next a rest ha =>
      have h := sim_doAct { s with cur := some { c with acts := rest } } a
      exact h
    · next ha =>
      have h := sim_finish { s with cur := none } c
      exact h
  · next hc =>
    split
    · next it rest hb => exact sim_startItem s it rest hb
    · next hb =>
      split
      · exact stutter_of_view_eq _ rfl
      · exact sim_newIteration s hb hn

theorem reach_view_inv (P : TS → Prop) (hstep : ∀ a b, P a → TStep a b → P b)
    (tbl : List Body) (pref : List Nat) (main : List Act) (h0 : P (view (init tbl pref main))) :
    ∀ n, P (view (reach (init tbl pref main) n)) := by
  intro n
  have key : ∀ n s, InvB s → P (view s) → P (view (reach s n)) := by
    intro n
    induction n with
    | zero => intro s _ h; exact h
    | succ n ih =>
      intro s hB h
      exact ih (step s) (invB_step s hB) (hstep _ _ h (sim s hB.1.2))
  exact key n _ (invB_init tbl pref main) h0

/-! ### carrying the Spec predicates from the timer log to the full log -/

theorem filterMap_filter_timerEv {β} (f : Ev → Option β) (hf : ∀ e, timerEv e = false → f e = none) (l : List Ev) :
    (l.filter timerEv).filterMap f = l.filterMap f := by
  induction l with
  | nil => rfl
  | cons e es ih =>
    cases he : timerEv e
    · simp [he, hf e he, ih]
    · simp [he, List.filterMap_cons, ih]

theorem ranWhen_view (l : List Ev) : (l.filter timerEv).filterMap ranWhen = l.filterMap ranWhen :=
  filterMap_filter_timerEv _ (by intro e; cases e <;> simp [timerEv, ranWhen]) l
theorem ranTh_view (l : List Ev) : (l.filter timerEv).filterMap ranTh = l.filterMap ranTh :=
  filterMap_filter_timerEv _ (by intro e; cases e <;> simp [timerEv, ranTh]) l
theorem schedTh_view (l : List Ev) : (l.filter timerEv).filterMap schedTh = l.filterMap schedTh :=
  filterMap_filter_timerEv _ (by intro e; cases e <;> simp [timerEv, schedTh]) l

theorem any_mono_filter (l : List Ev) (q : Ev → Bool) (h : (l.filter timerEv).any q = true) : l.any q = true := by
  rw [List.any_eq_true] at h ⊢
  obtain ⟨x, hx, hq⟩ := h
  exact ⟨x, (List.mem_filter.mp hx).1, hq⟩

/-! ### (O) order -/

def InvO (a : TS) : Prop :=
  a.moved ≤ a.now ∧ (∀ t ∈ a.timers, a.moved ≤ t.when) ∧
  a.tb.Pairwise (fun p q => p.1.when ≤ q.1.when) ∧ (∀ p ∈ a.tb, p.1.when ≤ a.moved) ∧
  (∀ w ∈ a.tlog.filterMap ranWhen, w ≤ a.moved ∧ ∀ p ∈ a.tb, w ≤ p.1.when) ∧
  (a.tlog.filterMap ranWhen).Pairwise (· ≤ ·)

theorem pairwise_map_cancel (h : Nat) (l : List (Timer × Bool)) (hp : l.Pairwise (fun p q => p.1.when ≤ q.1.when)) :
    (l.map (cancelTC h)).Pairwise (fun p q => p.1.when ≤ q.1.when) := by
  rw [List.pairwise_map]
  exact hp

theorem invO_step (a b : TS) (hI : InvO a) (hs : TStep a b) : InvO b := by
  obtain ⟨i1, i2, i3, i4, i5, i6⟩ := hI
  cases hs with
  | stutter h1 h2 h3 h4 h5 h6 =>
    unfold InvO
    rw [h1, h2, h4, h6]
    exact ⟨by omega, i2, i3, i4, i5, i6⟩
  | arm k dl wh hw h1 h2 h3 h4 h5 h6 =>
    unfold InvO
    rw [h1, h2, h3, h4, h6]
    refine ⟨i1, ?_, i3, i4, ?_, ?_⟩
    · intro t ht
      rcases List.mem_append.mp ht with ht | ht
      · exact i2 t ht
      · simp at ht; subst ht; show a.moved ≤ wh; omega
    · simpa [List.filterMap_append, List.filterMap_cons] using i5
    · simpa [List.filterMap_append, List.filterMap_cons] using i6
  | rm h h1 h2 h3 h4 h5 h6 =>
    unfold InvO
    rw [h1, h2, h3, h4, h6]
    refine ⟨i1, ?_, pairwise_map_cancel h _ i3, ?_, ?_, ?_⟩
    · intro t ht; exact i2 t (List.mem_filter.mp ht).1
    · intro p hp
      obtain ⟨q, hq, rfl⟩ := List.mem_map.mp hp
      exact i4 q hq
    · intro w hw
      have hw' : w ∈ a.tlog.filterMap ranWhen := by simpa [List.filterMap_append, List.filterMap_cons] using hw
      refine ⟨(i5 w hw').1, ?_⟩
      intro p hp
      obtain ⟨q, hq, rfl⟩ := List.mem_map.mp hp
      exact (i5 w hw').2 q hq
    · simpa [List.filterMap_append, List.filterMap_cons] using i6
  | skip t rest h0 h1 h2 h3 h4 h5 h6 =>
    unfold InvO
    rw [h1, h2, h3, h4, h6]
    rw [h0] at i3 i4 i5
    rw [List.pairwise_cons] at i3
    refine ⟨i1, i2, i3.2, fun p hp => i4 p (by simp [hp]), ?_, i6⟩
    intro w hw
    exact ⟨(i5 w hw).1, fun p hp => (i5 w hw).2 p (by simp [hp])⟩
  | fire t rest iter h0 h1 h2 h3 h4 h5 h6 =>
    unfold InvO
    rw [h1, h2, h3, h4, h6]
    rw [h0] at i3 i4 i5
    rw [List.pairwise_cons] at i3
    refine ⟨i1, i2, i3.2, fun p hp => i4 p (by simp [hp]), ?_, ?_⟩
    · intro w hw
      simp only [List.filterMap_append, List.filterMap_cons, List.filterMap_nil, ranWhen_ranT, List.mem_append,
        List.mem_singleton] at hw
      rcases hw with hw | hw
      · exact ⟨(i5 w hw).1, fun p hp => (i5 w hw).2 p (by simp [hp])⟩
      · subst hw
        exact ⟨i4 (t, false) (by simp), fun p hp => i3.1 p hp⟩
    · simp only [List.filterMap_append, List.filterMap_cons, List.filterMap_nil, ranWhen_ranT]
      rw [List.pairwise_append]
      refine ⟨i6, by simp, ?_⟩
      intro x hx y hy
      simp at hy; subst hy
      exact (i5 x hx).2 (t, false) (by simp)
  | iter pref w hw h0 h1 h2 h3 h4 h5 h6 =>
    unfold InvO
    rw [h1, h2, h3, h4, h6]
    refine ⟨Int.le_refl _, ?_, ?_, ?_, ?_, i6⟩
    · intro t ht
      have := (List.mem_filter.mp ht).2
      simp at this; omega
    · rw [List.pairwise_map]
      exact sortT_sorted pref _
    · intro p hp
      obtain ⟨t, ht, rfl⟩ := List.mem_map.mp hp
      rw [mem_sortT] at ht
      have := (List.mem_filter.mp ht).2
      simpa using this
    · intro x hx
      have hxm := (i5 x hx).1
      refine ⟨by omega, ?_⟩
      intro p hp
      obtain ⟨t, ht, rfl⟩ := List.mem_map.mp hp
      rw [mem_sortT] at ht
      have := i2 t (List.mem_filter.mp ht).1
      show x ≤ t.when
      omega

theorem invO_init (tbl : List Body) (pref : List Nat) (main : List Act) : InvO (view (init tbl pref main)) := by
  simp [InvO, view, init]

/-! ### (G) at most once: the handles of armed timers and batch handles are distinct, fresh, and have not run -/

def handles (a : TS) : List Nat := a.timers.map (·.h) ++ a.tb.map (·.1.h)

def InvG (a : TS) : Prop :=
  (handles a).Nodup ∧ (∀ h ∈ handles a, h < a.nextH) ∧
  (∀ h ∈ a.tlog.filterMap ranTh, h < a.nextH ∧ h ∉ handles a) ∧ (a.tlog.filterMap ranTh).Nodup

theorem map_cancel_h (h : Nat) (l : List (Timer × Bool)) : (l.map (cancelTC h)).map (·.1.h) = l.map (·.1.h) := by
  simp [List.map_map, Function.comp_def, cancelTC]

theorem handles_rm_sublist (a : TS) (h : Nat) :
    List.Sublist ((a.timers.filter (fun t => t.h != h)).map (·.h) ++ (a.tb.map (cancelTC h)).map (·.1.h)) (handles a) := by
  rw [map_cancel_h]
  exact List.Sublist.append (List.Sublist.map _ List.filter_sublist) (List.Sublist.refl _)

theorem handles_iter_perm (a : TS) (pref : List Nat) (w : Int) (h0 : a.tb = []) :
    List.Perm ((a.timers.filter (fun t => !(t.when ≤ w))).map (·.h) ++
      ((sortT pref (a.timers.filter (fun t => t.when ≤ w))).map (fun t => (t, false))).map (·.1.h)) (handles a) := by
  unfold handles
  rw [h0, List.map_map]
  simp only [List.map_nil, List.append_nil]
  have h1 : (List.map ((fun x : Timer × Bool => x.1.h) ∘ fun t => (t, false))
      (sortT pref (a.timers.filter (fun t => decide (t.when ≤ w))))).Perm
      ((a.timers.filter (fun t => decide (t.when ≤ w))).map (·.h)) :=
    (sortT_perm pref _).map _
  have h2 := (List.filter_append_perm (fun t : Timer => decide (t.when ≤ w)) a.timers).map (·.h)
  rw [List.map_append] at h2
  exact (List.perm_append_comm.trans (List.Perm.append h1 (List.Perm.refl _))).trans h2

theorem invG_step (a b : TS) (hI : InvG a) (hs : TStep a b) : InvG b := by
  obtain ⟨g1, g2, g3, g4⟩ := hI
  cases hs with
  | stutter h1 h2 h3 h4 h5 h6 =>
    unfold InvG handles at *
    rw [h1, h2, h5, h6]
    exact ⟨g1, g2, g3, g4⟩
  | arm k dl wh hw h1 h2 h3 h4 h5 h6 =>
    have hperm : (handles b).Perm (a.nextH :: handles a) := by
      unfold handles
      rw [h1, h2]
      simp only [List.map_append, List.map_cons, List.map_nil, List.append_assoc]
      exact List.perm_middle
    have hfresh : a.nextH ∉ handles a := fun hm => by have := g2 _ hm; omega
    unfold InvG
    rw [h5, h6]
    refine ⟨hperm.nodup_iff.mpr (List.nodup_cons.mpr ⟨hfresh, g1⟩), ?_, ?_, ?_⟩
    · intro h hh
      rcases List.mem_cons.mp (hperm.mem_iff.mp hh) with hh | hh
      · omega
      · have := g2 h hh; omega
    · intro h hh
      have hh' : h ∈ a.tlog.filterMap ranTh := by simpa [List.filterMap_append, List.filterMap_cons] using hh
      obtain ⟨x1, x2⟩ := g3 h hh'
      refine ⟨by omega, ?_⟩
      intro hm
      rcases List.mem_cons.mp (hperm.mem_iff.mp hm) with hm | hm
      · omega
      · exact x2 hm
    · simpa [List.filterMap_append, List.filterMap_cons] using g4
  | rm h h1 h2 h3 h4 h5 h6 =>
    have hsub : List.Sublist (handles b) (handles a) := by
      unfold handles; rw [h1, h2]; exact handles_rm_sublist a h
    unfold InvG
    rw [h5, h6]
    refine ⟨hsub.nodup g1, fun x hx => g2 x (hsub.subset hx), ?_, ?_⟩
    · intro x hx
      have hx' : x ∈ a.tlog.filterMap ranTh := by simpa [List.filterMap_append, List.filterMap_cons] using hx
      exact ⟨(g3 x hx').1, fun hm => (g3 x hx').2 (hsub.subset hm)⟩
    · simpa [List.filterMap_append, List.filterMap_cons] using g4
  | skip t rest h0 h1 h2 h3 h4 h5 h6 =>
    have hsub : List.Sublist (handles b) (handles a) := by
      unfold handles; rw [h1, h2, h0]
      exact List.Sublist.append (List.Sublist.refl _) (by simp)
    unfold InvG
    rw [h5, h6]
    exact ⟨hsub.nodup g1, fun x hx => g2 x (hsub.subset hx),
      fun x hx => ⟨(g3 x hx).1, fun hm => (g3 x hx).2 (hsub.subset hm)⟩, g4⟩
  | fire t rest iter h0 h1 h2 h3 h4 h5 h6 =>
    have hsub : List.Sublist (handles b) (handles a) := by
      unfold handles; rw [h1, h2, h0]
      exact List.Sublist.append (List.Sublist.refl _) (by simp)
    have hmem : t.h ∈ handles a := by unfold handles; rw [h0]; simp
    have hperm : (handles a).Perm (t.h :: handles b) := by
      unfold handles; rw [h1, h2, h0]
      simp only [List.map_cons]
      exact List.perm_middle
    have hnd := hperm.nodup_iff.mp g1
    rw [List.nodup_cons] at hnd
    unfold InvG
    rw [h5, h6]
    refine ⟨hnd.2, fun x hx => g2 x (hsub.subset hx), ?_, ?_⟩
    · intro x hx
      simp only [List.filterMap_append, List.filterMap_cons, List.filterMap_nil, ranTh_ranT, List.mem_append,
        List.mem_singleton] at hx
      rcases hx with hx | hx
      · exact ⟨(g3 x hx).1, fun hm => (g3 x hx).2 (hsub.subset hm)⟩
      · subst hx
        exact ⟨g2 _ hmem, hnd.1⟩
    · simp only [List.filterMap_append, List.filterMap_cons, List.filterMap_nil, ranTh_ranT]
      rw [List.nodup_append]
      refine ⟨g4, by simp, ?_⟩
      intro x hx y hy
      simp at hy; subst hy
      intro he; subst he
      exact (g3 _ hx).2 hmem
  | iter pref w hw h0 h1 h2 h3 h4 h5 h6 =>
    have hperm : (handles b).Perm (handles a) := by
      unfold handles; rw [h1, h2]; exact handles_iter_perm a pref w h0
    unfold InvG
    rw [h5, h6]
    exact ⟨hperm.nodup_iff.mpr g1, fun x hx => g2 x (hperm.mem_iff.mp hx),
      fun x hx => ⟨(g3 x hx).1, fun hm => (g3 x hx).2 (hperm.mem_iff.mp hm)⟩, g4⟩

theorem invG_init (tbl : List Body) (pref : List Nat) (main : List Act) : InvG (view (init tbl pref main)) := by
  simp [InvG, handles, view, init]

/-! ### (H) accounted: every scheduled handle has run, was removed, or is still pending (armed or in the batch);
a cancelled batch handle has its `removed` record -/

def InvH (a : TS) : Prop :=
  (∀ h ∈ a.tlog.filterMap schedTh,
    a.tlog.any (isRanOf h) = true ∨ Ev.removed h ∈ a.tlog ∨ h ∈ handles a) ∧
  (∀ p ∈ a.tb, p.2 = true → Ev.removed p.1.h ∈ a.tlog)

theorem any_append_left {α} (l r : List α) (q : α → Bool) (h : l.any q = true) : (l ++ r).any q = true := by
  simp [List.any_append, h]

theorem invH_step (a b : TS) (hI : InvH a) (hs : TStep a b) : InvH b := by
  obtain ⟨k1, k2⟩ := hI
  cases hs with
  | stutter h1 h2 h3 h4 h5 h6 =>
    unfold InvH handles at *
    rw [h1, h2, h6]
    exact ⟨k1, k2⟩
  | arm k dl wh hw h1 h2 h3 h4 h5 h6 =>
    unfold InvH
    rw [h6, h2]
    refine ⟨?_, fun p hp hc => List.mem_append_left _ (k2 p hp hc)⟩
    intro h hh
    simp only [List.filterMap_append, List.filterMap_cons, List.filterMap_nil, schedTh_schedT, List.mem_append,
      List.mem_singleton] at hh
    rcases hh with hh | hh
    · rcases k1 h hh with x | x | x
      · exact Or.inl (any_append_left _ _ _ x)
      · exact Or.inr (Or.inl (List.mem_append_left _ x))
      · refine Or.inr (Or.inr ?_)
        unfold handles at x ⊢
        rw [h1, h2]
        simp only [List.map_append, List.mem_append] at x ⊢
        rcases x with x | x
        · exact Or.inl (Or.inl x)
        · exact Or.inr x
    · subst hh
      refine Or.inr (Or.inr ?_)
      unfold handles
      rw [h1]
      simp
  | rm h h1 h2 h3 h4 h5 h6 =>
    unfold InvH
    rw [h6]
    refine ⟨?_, ?_⟩
    · intro x hx
      have hx' : x ∈ a.tlog.filterMap schedTh := by simpa [List.filterMap_append, List.filterMap_cons] using hx
      by_cases hxh : x = h
      · subst hxh
        exact Or.inr (Or.inl (by simp))
      · rcases k1 x hx' with y | y | y
        · exact Or.inl (any_append_left _ _ _ y)
        · exact Or.inr (Or.inl (List.mem_append_left _ y))
        · refine Or.inr (Or.inr ?_)
          unfold handles at y ⊢
          rw [h1, h2, map_cancel_h]
          simp only [List.mem_append, List.mem_map, List.mem_filter] at y ⊢
          rcases y with ⟨t, ht, rfl⟩ | y
          · exact Or.inl ⟨t, ⟨ht, by simpa using hxh⟩, rfl⟩
          · exact Or.inr y
    · intro p hp hc
      rw [h2] at hp
      obtain ⟨q, hq, rfl⟩ := List.mem_map.mp hp
      simp only [cancelTC, Bool.or_eq_true, beq_iff_eq] at hc
      rcases hc with hc | hc
      · exact List.mem_append_left _ (k2 q hq hc)
      · show Ev.removed q.1.h ∈ _
        rw [hc]; simp
  | skip t rest h0 h1 h2 h3 h4 h5 h6 =>
    unfold InvH
    rw [h6, h2]
    refine ⟨?_, fun p hp hc => k2 p (by rw [h0]; simp [hp]) hc⟩
    intro x hx
    rcases k1 x hx with y | y | y
    · exact Or.inl y
    · exact Or.inr (Or.inl y)
    · unfold handles at y ⊢
      rw [h0] at y
      rw [h1, h2]
      simp only [List.map_cons, List.mem_append, List.mem_cons] at y ⊢
      rcases y with y | y | y
      · exact Or.inr (Or.inr (Or.inl y))
      · subst y
        exact Or.inr (Or.inl (k2 (t, true) (by rw [h0]; simp) rfl))
      · exact Or.inr (Or.inr (Or.inr y))
  | fire t rest iter h0 h1 h2 h3 h4 h5 h6 =>
    unfold InvH
    rw [h6, h2]
    refine ⟨?_, fun p hp hc => List.mem_append_left _ (k2 p (by rw [h0]; simp [hp]) hc)⟩
    intro x hx
    have hx' : x ∈ a.tlog.filterMap schedTh := by simpa [List.filterMap_append, List.filterMap_cons] using hx
    rcases k1 x hx' with y | y | y
    · exact Or.inl (any_append_left _ _ _ y)
    · exact Or.inr (Or.inl (List.mem_append_left _ y))
    · unfold handles at y ⊢
      rw [h0] at y
      rw [h1, h2]
      simp only [List.map_cons, List.mem_append, List.mem_cons] at y ⊢
      rcases y with y | y | y
      · exact Or.inr (Or.inr (Or.inl y))
      · subst y
        refine Or.inl ?_
        simp [List.any_append, isRanOf]
      · exact Or.inr (Or.inr (Or.inr y))
  | iter pref w hw h0 h1 h2 h3 h4 h5 h6 =>
    have hperm : (handles b).Perm (handles a) := by
      unfold handles; rw [h1, h2]; exact handles_iter_perm a pref w h0
    unfold InvH
    rw [h6]
    refine ⟨?_, ?_⟩
    · intro x hx
      rcases k1 x hx with y | y | y
      · exact Or.inl y
      · exact Or.inr (Or.inl y)
      · exact Or.inr (Or.inr (hperm.mem_iff.mpr y))
    · intro p hp hc
      rw [h2] at hp
      obtain ⟨t, _, rfl⟩ := List.mem_map.mp hp
      cases hc

theorem invH_init (tbl : List Body) (pref : List Nat) (main : List Act) : InvH (view (init tbl pref main)) := by
  simp [InvH, handles, view, init]

end TornadoModel.C38
