/-
C38 — model of the IOLoop scheduling core as implemented by `BaseAsyncIOLoop` on an asyncio loop (core Lean only).

Anchors: `IOLoop.add_callback / spawn_callback / add_timeout / call_later / call_at / remove_timeout / add_future /
_run_callback / _discard_future_result / run_sync` (tornado/ioloop.py) and `BaseAsyncIOLoop.call_at /
remove_timeout / add_callback` (tornado/platform/asyncio.py).

The asyncio loop is abstracted (trusted, DESIGN §3/§4) as:
  * a FIFO ready queue, split into `batch` (the handles one `_run_once` runs: the snapshot `ntodo = len(_ready)`)
    and `next` (handles appended meanwhile, which run in the following iteration);
  * a set of armed timers; at the start of each iteration those with `when ≤ now` move to the ready queue in order of
    `when` — among equal `when` the order is unspecified by asyncio (a binary heap keyed on `when` only), so it is a
    *parameter* `pref` (a priority list of handle ids) over which every theorem is universally quantified and which the
    correspondence check instantiates with the order the real loop happened to use;
  * an integer clock `now` (ticks); it moves by `busy d` inside a callback and, when nothing is ready, jumps to the
    earliest armed timer (the loop sleeping in `select`).
A *program* is a table of callback bodies; a body is a list of scheduling actions and an ending (return None / raise /
return an already failed or succeeded future / return some other object).  `step` is one micro-step of the
loop thread: perform one action of the running callback, finish it, start the next ready handle, or begin a new
iteration.  The main program runs first, outside the loop (iteration 0).
-/
namespace TornadoModel.C38

/-- the four ways to give a deadline -/
inductive Form
  | abs      -- add_timeout(<number>)            absolute
  | td       -- add_timeout(timedelta)           relative
  | later    -- call_later(delay)                relative
  | at       -- call_at(when)                    absolute
  deriving Repr, DecidableEq

inductive Act
  | addCb (k : Nat)                                   -- add_callback / spawn_callback(callback k)
  | addTmo (f : Form) (arg : Int) (k : Nat) (name : Nat)  -- handle kept in variable `name`
  | rmTmo (name : Nat)                                -- remove_timeout(<variable name>) if the variable is set
  | busy (d : Nat)                                    -- the callback takes `d` ticks
  | addFut (fid : Nat) (k : Nat)                      -- add_future(future fid, callback k)
  | resolve (fid : Nat) (ok : Bool)                   -- future fid .set_result / .set_exception
  deriving Repr, DecidableEq

inductive End
  | ok          -- returns None
  | raise       -- raises
  | retFailed   -- returns a future that already holds an exception
  | retOk       -- returns a future that already holds a result
  | retOther    -- returns a non-None, non-awaitable object (ignored by `_run_callback`)
  deriving Repr, DecidableEq

structure Body where
  acts : List Act
  fin : End
  deriving Repr, DecidableEq

structure Timer where
  h : Nat
  k : Nat
  deadline : Int      -- what the caller asked for
  when : Int          -- what asyncio got: `time() + max(0, deadline - time())`
  deriving Repr, DecidableEq

/-- handles in the ready queue -/
inductive Item
  | cb (sid k : Nat) (enq : Nat)                         -- `_run_callback(partial(callback k))` from add_callback
  | tcb (t : Timer) (cancelled : Bool)                   -- a due timer handle (may have been cancelled since)
  | fcb (fid k : Nat) (added enq : Nat)                  -- add_future's wrapper, ready since iteration `enq`
  | discard (ok : Bool) (enq : Nat)                      -- `_discard_future_result` for a returned future
  deriving Repr, DecidableEq

inductive Who
  | main | cb (k : Nat) | discard
  deriving Repr, DecidableEq

inductive Ev
  | schedCb (sid k : Nat) (iter : Nat)
  | ranCb (sid k : Nat) (enq iter : Nat) (now : Int)
  | schedT (h k : Nat) (deadline when : Int)
  | ranT (h k : Nat) (deadline when : Int) (iter : Nat) (now : Int)
  | removed (h : Nat)
  | ranF (fid k : Nat) (added enq iter : Nat) (now : Int)
  | fin (w : Who) (e : End)
  | logged (w : Who)                   -- "Exception in callback …" record on tornado.application
  deriving Repr, DecidableEq

structure Cur where
  who : Who
  acts : List Act
  fin : End
  deriving Repr, DecidableEq

structure Loop where
  tbl : List Body
  pref : List Nat
  now : Int
  iter : Nat
  batch : List Item
  next : List Item
  timers : List Timer
  vars : List (Nat × Nat)            -- timeout variables: name ↦ handle id, latest binding first
  doneF : List (Nat × Bool)
  waiters : List (Nat × Nat × Nat)   -- (future id, callback, iteration of the add_future call), registration order
  cur : Option Cur
  nextH : Nat
  nextS : Nat
  moved : Int                        -- ghost: clock value when timers were last moved to the ready queue
  removed : List Nat                 -- ghost: handles cancelled while armed
  log : List Ev                      -- oldest first
  deriving Repr

def body (tbl : List Body) (k : Nat) : Body := tbl.getD k ⟨[], .ok⟩

def init (tbl : List Body) (pref : List Nat) (main : List Act) : Loop :=
  { tbl, pref, now := 0, iter := 0, batch := [], next := [], timers := [], vars := [], doneF := [], waiters := [],
    cur := some ⟨.main, main, .ok⟩, nextH := 0, nextS := 0, moved := 0, removed := [], log := [] }

def emit (s : Loop) (e : Ev) : Loop := { s with log := s.log ++ [e] }

/-! ### timers -/

def prio (pref : List Nat) (h : Nat) : Nat := pref.idxOf h

/-- order in which due timers enter the ready queue: by `when`, then by the tie-break parameter, then by handle id -/
def tle (pref : List Nat) (a b : Timer) : Bool :=
  a.when < b.when || (a.when == b.when && (prio pref a.h < prio pref b.h || (prio pref a.h == prio pref b.h && a.h ≤ b.h)))

def insertT (pref : List Nat) (t : Timer) : List Timer → List Timer
  | [] => [t]
  | u :: us => if tle pref t u then t :: u :: us else u :: insertT pref t us

def sortT (pref : List Nat) (l : List Timer) : List Timer := l.foldr (insertT pref) []

def minWhen : List Timer → Option Int
  | [] => none
  | t :: ts => match minWhen ts with
    | none => some t.when
    | some w => some (if t.when < w then t.when else w)

def isArmed (s : Loop) (h : Nat) : Bool :=
  s.timers.any (·.h == h) || s.batch.any (fun it => match it with | .tcb t c => t.h == h && !c | _ => false)

def cancelItem (h : Nat) : Item → Item
  | .tcb t c => .tcb t (c || t.h == h)
  | it => it

def effDeadline (now : Int) : Form → Int → Int
  | .abs, a => a
  | .at, a => a
  | .td, a => now + a
  | .later, a => now + a

/-! ### one action of the running callback -/

def doAct (s : Loop) : Act → Loop
  | .addCb k =>
    emit { s with next := s.next ++ [.cb s.nextS k s.iter], nextS := s.nextS + 1 } (.schedCb s.nextS k s.iter)
  | .addTmo f arg k name =>
    let dl := effDeadline s.now f arg
    let wh := if dl < s.now then s.now else dl
    emit { s with timers := s.timers ++ [⟨s.nextH, k, dl, wh⟩], vars := (name, s.nextH) :: s.vars, nextH := s.nextH + 1 }
      (.schedT s.nextH k dl wh)
  | .rmTmo name =>
    match s.vars.lookup name with
    | none => s
    | some h =>
      if isArmed s h then
        emit { s with timers := s.timers.filter (fun t => t.h != h), batch := s.batch.map (cancelItem h),
                      removed := h :: s.removed } (.removed h)
      else s
  | .busy d => { s with now := s.now + d }
  | .addFut fid k =>
    match s.doneF.lookup fid with
    | some _ => { s with next := s.next ++ [.fcb fid k s.iter s.iter] }
    | none => { s with waiters := s.waiters ++ [(fid, k, s.iter)] }
  | .resolve fid ok =>
    match s.doneF.lookup fid with
    | some _ =>   -- InvalidStateError: the callback dies here
      { s with cur := s.cur.map (fun c => { c with acts := [], fin := .raise }) }
    | none =>
      let ws := s.waiters.filter (fun w => w.1 == fid)
      { s with doneF := (fid, ok) :: s.doneF, waiters := s.waiters.filter (fun w => w.1 != fid),
               next := s.next ++ ws.map (fun w => .fcb fid w.2.1 w.2.2 s.iter) }

/-- the running callback returns / raises: `_run_callback`'s epilogue -/
def finish (s : Loop) (c : Cur) : Loop :=
  let s := emit s (.fin c.who c.fin)
  match c.fin with
  | .ok => s
  | .retOther => s
  | .raise => emit s (.logged c.who)
  | .retFailed => { s with next := s.next ++ [.discard false s.iter] }
  | .retOk => { s with next := s.next ++ [.discard true s.iter] }

def startBody (s : Loop) (k : Nat) : Loop :=
  { s with cur := some ⟨.cb k, (body s.tbl k).acts, (body s.tbl k).fin⟩ }

/-- run the next handle of the current iteration -/
def startItem (s : Loop) : Item → Loop
  | .cb sid k enq => startBody (emit s (.ranCb sid k enq s.iter s.now)) k
  | .tcb t cancelled =>
    if cancelled then s
    else startBody (emit s (.ranT t.h t.k t.deadline t.when s.iter s.now)) t.k
  | .fcb fid k added enq => startBody (emit s (.ranF fid k added enq s.iter s.now)) k
  | .discard ok _ =>
    if ok then s else emit s (.logged .discard)

/-- begin the next `_run_once`: sleep until the earliest timer if nothing is ready, move due timers, snapshot -/
def newIteration (s : Loop) : Loop :=
  let now := match s.next, minWhen s.timers with
    | [], some w => if s.now < w then w else s.now
    | _, _ => s.now
  let due := sortT s.pref (s.timers.filter (fun t => t.when ≤ now))
  { s with now, iter := s.iter + 1, batch := s.next ++ due.map (fun t => .tcb t false), next := [],
           timers := s.timers.filter (fun t => !(t.when ≤ now)), moved := now }

def halted (s : Loop) : Bool :=
  s.cur.isNone && s.batch.isEmpty && s.next.isEmpty && s.timers.isEmpty

def step (s : Loop) : Loop :=
  match s.cur with
  | some c =>
    match c.acts with
    | a :: rest => doAct { s with cur := some { c with acts := rest } } a
    | [] => finish { s with cur := none } c
  | none =>
    match s.batch with
    | it :: rest => startItem { s with batch := rest } it
    | [] => if s.next.isEmpty && s.timers.isEmpty then s else newIteration s

def reach (s : Loop) : Nat → Loop
  | 0 => s
  | n + 1 => reach (step s) n

/-- run until halted (or out of fuel) -/
def runFuel : Nat → Loop → Loop
  | 0, s => s
  | n + 1, s => if halted s then s else runFuel n (step s)

/-! ### run_sync -/

inductive Func
  | raises                                   -- func() raises
  | retNone                                  -- func() returns None
  | retValue                                 -- func() returns a non-None non-awaitable
  | awaitable (dur : Option Nat) (ok : Bool) -- returns an awaitable that resolves after `dur` ticks (never if none)
  | stopsLoop (dur : Nat)                    -- returns a never-resolving awaitable; something calls IOLoop.stop() at `dur`
  deriving Repr, DecidableEq

inductive Outcome
  | result          -- the awaitable's / function's result is returned
  | userError       -- the function's own exception is re-raised
  | badYield
  | timeoutError
  | runtimeError    -- "Event loop stopped before Future completed."
  | hang            -- run_sync never returns
  deriving Repr, DecidableEq

/-- what is in `future_cell` when `self.start()` returns -/
structure Cell where
  done : Option Outcome      -- `some o`: the future is done (and not cancelled) with this outcome
  cancelled : Bool
  timeoutCalled : Bool
  returns : Bool             -- does `self.start()` return at all
  deriving Repr, DecidableEq

/-- the loop phase of `run_sync`: `run` is the first callback, the timeout (if any) an ordinary `add_timeout`
armed *before* anything `func` arms, so it wins ties; an awaitable needs at least one more iteration -/
def loopPhase (f : Func) (timeout : Option Nat) : Cell :=
  match f with
  | .raises => ⟨some .userError, false, timeout == some 0, true⟩
  | .retNone => ⟨some .result, false, timeout == some 0, true⟩
  | .retValue => ⟨some .badYield, false, timeout == some 0, true⟩
  | .awaitable dur ok =>
    match dur, timeout with
    | some _, none => ⟨some (if ok then .result else .userError), false, false, true⟩
    | some d, some t =>
      if d < t then ⟨some (if ok then .result else .userError), false, false, true⟩
      else ⟨none, true, true, true⟩          -- timeout_callback: cancel() succeeded; the cancelled future stops the loop
    | none, some _ => ⟨none, true, true, true⟩
    | none, none => ⟨none, false, false, false⟩
  | .stopsLoop d =>
    match timeout with
    | some t => if d < t then ⟨none, false, false, true⟩ else ⟨none, true, true, true⟩
    | none => ⟨none, false, false, true⟩

/-- the code after `self.start()` -/
def runSync (f : Func) (timeout : Option Nat) : Outcome :=
  let c := loopPhase f timeout
  if !c.returns then .hang
  else if c.cancelled || c.done.isNone then
    if c.timeoutCalled then .timeoutError else .runtimeError
  else match c.done with
    | some o => o
    | none => .runtimeError

end TornadoModel.C38
