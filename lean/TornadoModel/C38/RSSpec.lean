/-
C38 — specification side for sequences of `run_sync` calls on one loop (RunSync.lean): which outcomes the property
allows for each call, and what "raises TimeoutError after cancelling it" demands of the observed record.  Evaluated by
the check on the records observed from the real IOLoop (`C38 rsspec …`).
-/
import TornadoModel.C38.Spec
import TornadoModel.C38.RunSync
namespace TornadoModel.C38.Spec
open TornadoModel.C38

/-! ### sequences of `run_sync` calls on ONE loop (RunSync.lean): the clause per call, and "after cancelling it" -/

def toFunc : RS.Fn → Func
  | .raises => .raises
  | .retNone => .retNone
  | .retValue => .retValue
  | .coro d ok => .awaitable d ok
  | .fut d ok => .awaitable d ok
  | .stopsLoop d => .stopsLoop d

/-- the outcomes the property allows for `run_sync(fn, timeout)`: the function's result / its exception if it completes
strictly before the timeout, `TimeoutError` if strictly after (or never); the property does not say which of the two at
an exact tie.  (An explicit `IOLoop.stop()` by the function is outside the property's three cases: `RuntimeError`.) -/
def rsAllowed (f : RS.Fn) (timeout : Option Nat) : List Outcome :=
  match f with
  | .stopsLoop d =>
    (match timeout with
     | some t => if d < t then [.runtimeError] else if d = t then [.runtimeError, .timeoutError] else [.timeoutError]
     | none => [.runtimeError])
  | _ =>
    match completion (toFunc f), timeout with
    | some (_, o), none => [o]
    | some (d, o), some t =>
      if immediate (toFunc f) || d < t then [o] else if d = t then [o, .timeoutError] else [.timeoutError]
    | none, some _ => [.timeoutError]
    | none, none => [.hang]

/-- does the explicit `IOLoop.stop()` a `stopsLoop` function asks for fire (and is thereby used up) during its own
`run_sync` call?  Only then is the loop as good as new afterwards. -/
def stopConsumed : RS.Fn → Option Nat → Bool
  | .stopsLoop d, some t => decide (d < t)
  | .stopsLoop _, none => true
  | _, _ => true

def startedBefore (timeout : Option Nat) : Bool :=
  match timeout with
  | some t => decide (1 ≤ t)
  | none => true

def isCoro : RS.Fn → Bool
  | .coro _ _ => true
  | _ => false

/-- clauses violated by one observed `run_sync` call.  `clean`: the main program has not asked for an explicit
`IOLoop.stop()` before this call, so nothing but `run_sync` itself may end the loop -/
def rsCallViolations (clean : Bool) (f : RS.Fn) (timeout : Option Nat) (r : RS.Rec) : List String :=
  (if clean && !(rsAllowed f timeout).contains r.out then ["run_sync_outcome"] else []) ++
  -- "raises TimeoutError after cancelling it": cancel() was requested on the function's future …
  (if r.out == .timeoutError && !r.creq then ["timeout_without_cancel"] else []) ++
  -- … the future run_sync waited for is cancelled when run_sync returns …
  (if clean && r.out == .timeoutError && !r.cancelled then ["timeout_not_cancelled"] else []) ++
  -- … and a coroutine that had started running sees CancelledError
  (if clean && r.out == .timeoutError && isCoro f && startedBefore timeout && !r.saw then ["coroutine_not_cancelled"] else [])

/-- `clean`: no explicit `IOLoop.stop()` asked for by the main program can still be pending on the loop (a `stopsLoop`
function whose stop did not fire before its call ended, or a `runFor d` that did not end exactly after `d` ticks, makes
everything after it unclean: what a stray user stop does to later calls is outside the property) -/
def rsViolations : Bool → List RS.Op → List RS.Rec → List String
  | _, [], _ => []
  | _, _, [] => []
  | clean, .advance _ :: ops, recs => rsViolations clean ops recs
  | clean, .runFor d :: ops, r :: recs => rsViolations (clean && r.returned && r.dt == d) ops recs
  | clean, .call f t :: ops, r :: recs =>
    rsCallViolations clean f t r ++ rsViolations (clean && stopConsumed f t) ops recs

end TornadoModel.C38.Spec
