import TornadoModel.C38.Spec
namespace TornadoModel.C38

/-- **run_sync_outcomes**: `run_sync` returns the function's result, re-raises its exception, or raises `TimeoutError`
(after cancelling) exactly when the awaitable has not completed strictly before the timeout. -/
theorem run_sync_outcomes (f : Func) (t : Option Nat) :
    runSync f t = Spec.runSyncSpec f t := by
  cases f with
  | raises => cases t <;> simp [runSync, loopPhase, Spec.runSyncSpec, Spec.completion, Spec.immediate]
  | retNone => cases t <;> simp [runSync, loopPhase, Spec.runSyncSpec, Spec.completion, Spec.immediate]
  | retValue => cases t <;> simp [runSync, loopPhase, Spec.runSyncSpec, Spec.completion, Spec.immediate]
  | awaitable dur ok =>
    cases dur <;> cases t <;> simp [runSync, loopPhase, Spec.runSyncSpec, Spec.completion, Spec.immediate]
    split <;> simp
  | stopsLoop d =>
    cases t <;> simp [runSync, loopPhase, Spec.runSyncSpec]
    split <;> simp

end TornadoModel.C38
