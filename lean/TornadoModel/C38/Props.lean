/-
C38 — IOLoop callbacks and timeouts run once, in order, and survive errors.
Every theorem is about *all* programs `tbl/main` (callback table + main program), *all* tie-break parameters `pref`
and *all* reachable states `reach (init tbl pref main) n` of the loop model; the predicates are those of Spec.lean,
which the check also evaluates on traces observed from the real IOLoop.
-/
import TornadoModel.C38.Lemmas
import TornadoModel.C38.Inv2
import TornadoModel.C38.XThread
import TornadoModel.C38.RSProps
namespace TornadoModel.C38
open Spec

/-- the trace after `n` micro-steps -/
abbrev traceOf (tbl : List Body) (pref : List Nat) (main : List Act) (n : Nat) : List Ev :=
  (reach (init tbl pref main) n).log

/-- **callback_once_fifo**: at every moment the callbacks that have run are a prefix of the callbacks scheduled
(same order, none twice, none invented), scheduling ids are distinct, and the callbacks still waiting are exactly the
rest of the scheduled sequence, in order. -/
theorem callback_once_fifo (tbl : List Body) (pref : List Nat) (main : List Act) (n : Nat) :
    fifo (traceOf tbl pref main n) ∧ sidsDistinct (traceOf tbl pref main n) ∧
    (traceOf tbl pref main n).filterMap schedSid =
      (traceOf tbl pref main n).filterMap ranSid ++
        ((reach (init tbl pref main) n).batch ++ (reach (init tbl pref main) n).next).filterMap cbSidOf := by
  have h := reach_inv InvA invA_step n _ (invA_init tbl pref main)
  refine ⟨?_, h.2.2, h.1⟩
  unfold fifo
  rw [List.isPrefixOf_iff_prefix, show (traceOf tbl pref main n) = (reach (init tbl pref main) n).log from rfl, h.1]
  exact List.prefix_append _ _

/-- … and when the loop has nothing left to do, every scheduled callback has run (so: exactly once, in order). -/
theorem callback_all_ran_when_idle (tbl : List Body) (pref : List Nat) (main : List Act) (n : Nat)
    (hh : halted (reach (init tbl pref main) n) = true) : allRan (traceOf tbl pref main n) := by
  have h := (reach_inv InvA invA_step n _ (invA_init tbl pref main)).1
  simp [halted] at hh
  unfold allRan
  rw [show (traceOf tbl pref main n) = (reach (init tbl pref main) n).log from rfl, h, hh.1.1.2, hh.1.2]
  simp

/-- **timeout_not_before_deadline**: a timeout callback never runs before the deadline it was given (nor before the
effective deadline asyncio was given) on the loop's clock. -/
theorem timeout_not_before_deadline (tbl : List Body) (pref : List Nat) (main : List Act) (n : Nat) :
    notBeforeDeadline (traceOf tbl pref main n) :=
  (reach_inv InvB invB_step n _ (invB_init tbl pref main)).2.2.2

/-- **removed_never_runs**: once `remove_timeout` has cancelled an armed timeout (still in the timer set, or already
moved to the ready queue of the current iteration), that timeout's callback never runs afterwards. -/
theorem removed_never_runs (tbl : List Body) (pref : List Nat) (main : List Act) (n : Nat) :
    removedNeverRuns (traceOf tbl pref main n) :=
  (reach_inv InvD invD_step n _ (invD_init tbl pref main)).2.2.2

/-- **add_future_later_iteration**: an `add_callback` callback runs on the iteration right after the one that scheduled
it, and an `add_future` callback runs on an iteration strictly later than both the `add_future` call and the
completion of the future — also when the future was already done. -/
theorem add_future_later_iteration (tbl : List Body) (pref : List Nat) (main : List Act) (n : Nat) :
    laterIteration (traceOf tbl pref main n) :=
  (reach_inv InvE invE_step n _ (invE_init tbl pref main)).2.2.2

/-- **errors_do_not_stop_loop** (1): nothing but a raising callback or a failed returned future is logged, each at most
once; when the loop is idle each has been logged exactly once. -/
theorem errors_logged (tbl : List Body) (pref : List Nat) (main : List Act) (n : Nat) :
    errorsLogged (traceOf tbl pref main n) ∧
    (halted (reach (init tbl pref main) n) = true → errorsAllLogged (traceOf tbl pref main n)) := by
  have h := reach_inv InvF invF_step n _ (invF_init tbl pref main)
  unfold InvF at h
  unfold errorsLogged errorsAllLogged traceOf
  refine ⟨by omega, ?_⟩
  intro hh
  simp [halted] at hh
  rw [hh.1.1.2, hh.1.2] at h
  simp at h; omega

/-- **errors_do_not_stop_loop** (2): however a callback ends (return, raise, failed future, …) nothing that is pending is
dropped: the rest of the current batch, the armed timers and everything already queued for the next iteration survive. -/
theorem errors_do_not_stop_loop (s : Loop) (c : Cur) :
    (finish s c).batch = s.batch ∧ (finish s c).timers = s.timers ∧ (finish s c).cur = s.cur ∧
    ∃ extra, (finish s c).next = s.next ++ extra := by
  unfold finish
  cases c.fin <;> simp [emit]

/-- **errors_do_not_stop_loop** (3): whenever anything is pending the loop begins another iteration: it only stops
stepping when it is idle. -/
theorem loop_continues (s : Loop) (hc : s.cur = none) (hb : s.batch = []) (hw : ¬ (s.next = [] ∧ s.timers = [])) :
    (step s).iter = s.iter + 1 := by
  unfold step
  simp only [hc, hb]
  split
  · next h => simp at h; exact absurd h hw
  · rfl

/-- **run_sync_outcomes**: `run_sync` returns the function's result, re-raises its exception, or raises `TimeoutError`
(after cancelling) exactly when the awaitable has not completed strictly before the timeout. -/
theorem run_sync_outcomes (f : Func) (t : Option Nat) : runSync f t = Spec.runSyncSpec f t := by
  cases f with
  | raises => cases t <;> simp [runSync, loopPhase, Spec.runSyncSpec, Spec.completion, Spec.immediate]
  | retNone => cases t <;> simp [runSync, loopPhase, Spec.runSyncSpec, Spec.completion, Spec.immediate]
  | retValue => cases t <;> simp [runSync, loopPhase, Spec.runSyncSpec, Spec.completion, Spec.immediate]
  | awaitable dur ok =>
    cases dur <;> cases t <;> simp [runSync, loopPhase, Spec.runSyncSpec, Spec.completion, Spec.immediate]
    split <;> simp
  | stopsLoop d =>
    cases t <;> simp [runSync, loopPhase, Spec.runSyncSpec]
    split <;> simp

theorem run_sync_result (d t : Nat) (h : d < t) : runSync (.awaitable (some d) true) (some t) = .result := by
  simp [runSync, loopPhase, h]
theorem run_sync_reraises (d t : Nat) (h : d < t) : runSync (.awaitable (some d) false) (some t) = .userError := by
  simp [runSync, loopPhase, h]
theorem run_sync_timeout (d t : Nat) (ok : Bool) (h : t ≤ d) :
    runSync (.awaitable (some d) ok) (some t) = .timeoutError := by
  have : ¬ d < t := by omega
  simp [runSync, loopPhase, this]
theorem run_sync_never_completing (ok : Bool) (t : Nat) : runSync (.awaitable none ok) (some t) = .timeoutError := by
  simp [runSync, loopPhase]

/-! ### timeouts: order, at most once, all accounted (Inv2.lean: the timer view of the loop is an abstract timer machine
`TStep`; its invariants `InvO`, `InvG`, `InvH` say that every timer handle occurs exactly once among
{armed, in the current batch, run} unless removed, and that the batch of due timers is sorted below `moved`) -/

/-- **timeout_order**: timeouts run in non-decreasing order of effective deadline (`when = max deadline scheduleTime`),
whatever the tie-break `pref` among equal deadlines. -/
theorem timeout_order (tbl : List Body) (pref : List Nat) (main : List Act) (n : Nat) :
    whenOrder (traceOf tbl pref main n) := by
  have h := reach_view_inv InvO invO_step tbl pref main (invO_init tbl pref main) n
  unfold whenOrder traceOf
  rw [← ranWhen_view]
  exact h.2.2.2.2.2

/-- **timeout_at_most_once**: no timeout handle runs twice. -/
theorem timeout_at_most_once (tbl : List Body) (pref : List Nat) (main : List Act) (n : Nat) :
    timerAtMostOnce (traceOf tbl pref main n) := by
  have h := reach_view_inv InvG invG_step tbl pref main (invG_init tbl pref main) n
  unfold timerAtMostOnce traceOf
  rw [← ranTh_view]
  exact h.2.2.2

/-- **timeout_pending_or_done** (the invariant behind the next theorem, at *every* moment): each scheduled timeout has
run, has been removed, or is still pending — armed, or moved to the ready queue of the current iteration. -/
theorem timeout_pending_or_done (tbl : List Body) (pref : List Nat) (main : List Act) (n : Nat) :
    ∀ h ∈ (traceOf tbl pref main n).filterMap schedTh,
      (traceOf tbl pref main n).any (isRanOf h) = true ∨ Ev.removed h ∈ traceOf tbl pref main n ∨
      (∃ t ∈ (reach (init tbl pref main) n).timers, t.h = h) ∨
      (∃ t c, Item.tcb t c ∈ (reach (init tbl pref main) n).batch ∧ t.h = h) := by
  have hH := reach_view_inv InvH invH_step tbl pref main (invH_init tbl pref main) n
  intro h hh
  unfold traceOf at hh ⊢
  rw [← schedTh_view] at hh
  rcases hH.1 h hh with x | x | x
  · exact Or.inl (any_mono_filter _ _ x)
  · exact Or.inr (Or.inl (List.mem_filter.mp x).1)
  · unfold handles view at x
    simp only [List.mem_append, List.mem_map, List.mem_filterMap] at x
    rcases x with ⟨t, ht, rfl⟩ | ⟨p, ⟨it, hit, hp⟩, rfl⟩
    · exact Or.inr (Or.inr (Or.inl ⟨t, ht, rfl⟩))
    · cases it with
      | tcb t c => simp at hp; subst hp; exact Or.inr (Or.inr (Or.inr ⟨t, c, hit, rfl⟩))
      | _ => simp at hp

/-- **timeout_all_accounted**: when the loop is idle every scheduled timeout has either run or been removed — none is
lost. (With `timeout_at_most_once` and `removed_never_runs`: run exactly once, or removed and never run afterwards.) -/
theorem timeout_all_accounted (tbl : List Body) (pref : List Nat) (main : List Act) (n : Nat)
    (hh : halted (reach (init tbl pref main) n) = true) : timersAccounted (traceOf tbl pref main n) := by
  intro h hm
  simp [halted] at hh
  rcases timeout_pending_or_done tbl pref main n h hm with x | x | ⟨t, ht, _⟩ | ⟨t, c, ht, _⟩
  · exact Or.inl x
  · exact Or.inr x
  · rw [hh.2] at ht; cases ht
  · rw [hh.1.1.2] at ht; cases ht

/-! ### non-vacuity: a program with a raising callback, a failed future, a removed timeout, a timeout in the past,
a late timeout and an `add_future` on an already resolved future runs to idleness and exercises every clause -/

def demoTbl : List Body :=
  [ ⟨[.addCb 1, .busy 7], .raise⟩,          -- 0: schedules 1, takes 7 ticks, raises
    ⟨[.rmTmo 1], .retFailed⟩,               -- 1: removes timeout variable 1, returns a failed future
    ⟨[], .ok⟩,                              -- 2: timeout body
    ⟨[.addFut 0 4], .ok⟩,                   -- 3: add_future on the (already resolved) future 0
    ⟨[], .ok⟩ ]                             -- 4
def demoMain : List Act :=
  [.addCb 0, .addTmo .later 3 2 0, .addTmo .abs 50 2 1, .addTmo .at (-5) 3 2, .resolve 0 true]

example : halted (runFuel 200 (init demoTbl [] demoMain)) = true := by decide
/-- non-vacuity of `timeout_all_accounted`: the demo program is idle after 24 micro-steps, with three timeouts scheduled,
two run (effective deadlines 0 then 3) and one removed -/
example : halted (reach (init demoTbl [] demoMain) 24) = true := by decide
example : (traceOf demoTbl [] demoMain 24).filterMap schedTh = [0, 1, 2] := by decide
example : (traceOf demoTbl [] demoMain 24).filterMap ranWhen = [0, 3] := by decide
example : Ev.removed 1 ∈ traceOf demoTbl [] demoMain 24 := by decide
example : (runFuel 200 (init demoTbl [] demoMain)).log.filterMap ranSid = [0, 1] := by decide
example : (runFuel 200 (init demoTbl [] demoMain)).log.filterMap ranTh = [2, 0] := by decide
example : Ev.removed 1 ∈ (runFuel 200 (init demoTbl [] demoMain)).log := by decide
example : (runFuel 200 (init demoTbl [] demoMain)).log.countP isLogged = 2 := by decide
example : (runFuel 200 (init demoTbl [] demoMain)).log.any (fun e => match e with | .ranF .. => true | _ => false) = true := by
  decide
example : Ev.ranT 0 2 3 3 2 7 ∈ (runFuel 200 (init demoTbl [] demoMain)).log := by decide   -- deadline 3, ran late at 7

/-! ### `run_sync` on the loop machine (RunSync.lean): sequences of calls on ONE loop.  A main program is a list of
`call fn timeout` / `advance d` / `runFor d`; `RS.runOps` runs it on a fresh loop and returns what the main program
observes after each operation. -/

/-- **run_sync_timeout_after_cancel** ("raises TimeoutError *after cancelling it*"): in every main program, for every
tie-break, with the fixed and with the legacy `timeout_callback`, a `run_sync` call that ends with `TimeoutError` had
`cancel()` requested (and accepted) on the function's future by `timeout_callback`. -/
theorem run_sync_timeout_after_cancel (legacy : Bool) (pref : List Nat) (fuel : Nat) (ops : List RS.Op) :
    ∀ r ∈ (RS.runOps fuel (RS.fresh legacy pref) ops).2, r.out = .timeoutError → r.creq = true :=
  RS.runOps_ok fuel ops (RS.inv_fresh legacy pref)

/-- **run_sync_leaves_no_timeout**: when every operation of the main program has returned, none of the `run_sync`
timeouts is still armed on the loop — whatever the outcomes were (result, re-raised exception, TimeoutError, explicit
stop): `remove_timeout` comes right after `start()`.  (What a later `start()` finds are only the user's own timers.) -/
theorem run_sync_leaves_no_timeout (legacy : Bool) (pref : List Nat) (fuel : Nat) (ops : List RS.Op)
    (hr : ∀ r ∈ (RS.runOps fuel (RS.fresh legacy pref) ops).2, r.returned = true) :
    ∀ t ∈ (RS.runOps fuel (RS.fresh legacy pref) ops).1.timers, RS.isTmo t.k = false :=
  RS.runOps_noTmo fuel ops (RS.noTmo_fresh legacy pref) hr

/-- the outcomes of a main program -/
def rsOuts (legacy : Bool) (ops : List RS.Op) : List Outcome :=
  (RS.runOps 60 (RS.fresh legacy []) ops).2.map (·.out)

/-- **run_sync_machine_agrees_bounded** (bounded, by evaluation): for a single `run_sync` on a fresh loop, durations and
timeouts below 5, coroutine and bare-Future awaitables, the outcome computed by the loop machine is the one of the
stand-alone table `runSync` / of `Spec.runSyncSpec` (at a tie the timeout, armed first, wins). -/
def rsAgreeAt (d t : Nat) (ok : Bool) : Prop :=
  rsOuts false [.call (.coro (some d) ok) (some t)] = [Spec.runSyncSpec (.awaitable (some d) ok) (some t)] ∧
  rsOuts false [.call (.fut (some d) ok) (some t)] = [Spec.runSyncSpec (.awaitable (some d) ok) (some t)] ∧
  rsOuts false [.call (.coro (some d) ok) none] = [Spec.runSyncSpec (.awaitable (some d) ok) none] ∧
  rsOuts false [.call (.coro none ok) (some t)] = [.timeoutError] ∧
  rsOuts false [.call .raises (some t)] = [.userError] ∧ rsOuts false [.call .retNone (some t)] = [.result] ∧
  rsOuts false [.call (.stopsLoop d) (some t)] = [Spec.runSyncSpec (.stopsLoop d) (some t)]

instance (d t : Nat) (ok : Bool) : Decidable (rsAgreeAt d t ok) := by unfold rsAgreeAt; infer_instance

theorem run_sync_machine_agrees_bounded : ∀ d < 5, ∀ t < 5, rsAgreeAt d t true ∧ rsAgreeAt d t false := by
  decide

/-- the general statement behind the bounded one (not proved: tie-only, the check compares machine and real loop on
every generated sequence and applies `Spec.rsAllowed` to what the real loop did) -/
def run_sync_machine_outcomes_goal : Prop :=
  ∀ (fn : RS.Fn) (timeout : Option Nat) (pref : List Nat),
    ∀ r ∈ (RS.runOps 60 (RS.fresh false pref) [.call fn timeout]).2, r.out ∈ Spec.rsAllowed fn timeout

/-- **run_sync_stale_stop_legacy / _fixed** (the defect repaired in tornado `fix:` commit, see known_findings/C38.json):
with the legacy `timeout_callback` (`if not future.cancel(): self.stop()`), `run_sync(f, timeout=0)` with a plain `f`
strands the `add_future` wrapper on the loop, and the next `run_sync` of a coroutine on the same loop fails with
`RuntimeError("Event loop stopped before Future completed")`; with the fixed callback it returns the result. -/
theorem run_sync_stale_stop_legacy :
    rsOuts true [.call .retNone (some 0), .call (.coro (some 1) true) none] = [.result, .runtimeError] := by decide
theorem run_sync_stale_stop_fixed :
    rsOuts false [.call .retNone (some 0), .call (.coro (some 1) true) none] = [.result, .result] := by decide

/-- non-vacuity of `run_sync_timeout_after_cancel` / `run_sync_leaves_no_timeout`: a coroutine timed out (cancelled, saw
CancelledError), a raising function with a long timeout, then a run past that old deadline: everything returned,
outcomes as the property says, no timer left -/
example : rsOuts false [.call (.coro (some 5) true) (some 3), .call .raises (some 5), .call (.fut (some 7) true) none] =
    [.timeoutError, .userError, .result] := by decide
example : ((RS.runOps 60 (RS.fresh false []) [.call (.coro (some 5) true) (some 3)]).2.map
    (fun r => (r.cancelled, r.saw, r.creq, r.timers))) = [(true, true, true, [])] := by decide

/-! ### `add_callback` from the loop's own thread, from a plain thread, or from code running on another event loop
(XThread.lean: one loop = ready queue + "blocked in select" + "byte in the self-pipe") -/

/-- **add_callback_any_thread**: after any well-formed history of `add_callback` calls (own loop / other loop / plain
thread), raw `call_soon_threadsafe` injections and scheduling quanta, a loop that is blocked in `select()` with work
queued has a wake-up pending; consequently two quanta of the loop thread alone run everything handed to the loop —
exactly once, in scheduling order (no violation of the `XThread` spec) — and empty the queue. -/
theorem add_callback_any_thread (self : Nat) (ops : List XThread.Op) (hw : XThread.wf self {} ops = true) :
    ((XThread.run self {} ops).blocked = true → (XThread.run self {} ops).ready ≠ [] →
        (XThread.run self {} ops).wake = true) ∧
    (XThread.turn (XThread.turn (XThread.run self {} ops))).ran = (XThread.run self {} ops).sched ∧
    (XThread.turn (XThread.turn (XThread.run self {} ops))).ready = [] ∧
    ((XThread.run self {} ops).sched.Nodup →
      XThread.violations (XThread.run self {} ops).sched
        (XThread.turn (XThread.turn (XThread.run self {} ops))).ran = []) := by
  have hi := XThread.inv_run self ops {} XThread.inv_init hw
  have h2 := XThread.inv_two_turns _ hi
  refine ⟨hi.2, h2.1, h2.2, fun hn => ?_⟩
  rw [h2.1]
  exact XThread.spec_of_eq _ hn

/-- the branch `add_callback` takes: plain `call_soon` only for code running on this very loop -/
theorem add_callback_path (running : Option Nat) (self : Nat) :
    XThread.choose running self = .soon ↔ running = some self := by
  cases running with
  | none => simp [XThread.choose]
  | some r => by_cases h : r = self <;> simp [XThread.choose, h]

/-- why the branch matters: a blocked loop that was handed work *without* a wake-up never moves again by itself -/
theorem add_callback_needs_wakeup (l : XThread.Loop) (id n : Nat) (hb : l.blocked = true) (hw : l.wake = false) :
    (XThread.turns n (XThread.enqueue .soon id l)).ran = l.ran := by
  have hfix : XThread.turn (XThread.enqueue .soon id l) = XThread.enqueue .soon id l :=
    XThread.blocked_without_wake_stuck _ (by simp [XThread.enqueue, hb]) (by simp [XThread.enqueue, hw])
  have : XThread.turns n (XThread.enqueue .soon id l) = XThread.enqueue .soon id l := by
    induction n with
    | zero => rfl
    | succ k ih => rw [XThread.turns, hfix, ih]
  rw [this]; simp [XThread.enqueue]

/-- non-vacuity: loop 0 goes idle, code running on loop 1 and a plain thread hand it callbacks, then loop 0's own
callback schedules one more: well-formed, and everything runs in order -/
def xdemo : List XThread.Op :=
  [.turn, .call (some 1) 10, .call (some 1) 11, .turn, .turn, .turn, .call none 12, .turn, .turn, .call (some 0) 13,
   .turn, .turn]
example : XThread.wf 0 {} xdemo = true := by decide
example : (XThread.run 0 {} xdemo).ran = [10, 11, 12, 13] := by decide
example : (XThread.run 0 {} xdemo).paths = [.threadsafe, .threadsafe, .threadsafe, .soon] := by decide

end TornadoModel.C38
