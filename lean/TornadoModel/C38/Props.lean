import TornadoModel.C38.Spec
namespace TornadoModel.C38
end TornadoModel.C38
