/-
C38 — `IOLoop.run_sync` as a program on the loop machine (core Lean only).

One IOLoop is used for a whole *sequence* of operations of the main program:
  * `call fn timeout`   `io.run_sync(fn, timeout=…)`
  * `advance d`         the main program blocks for `d` ticks while the loop is not running
  * `runFor d`          `io.call_later(d, io.stop); io.start()`
so whatever one `run_sync` leaves behind on the loop (armed timers, ready handles, abandoned tasks) is seen by the next.

The asyncio loop is abstracted exactly as in Model.lean: a FIFO ready queue of which one `_run_once` runs the snapshot
taken at its beginning (`batch`; handles appended meanwhile wait in `ready` for the next iteration), armed timers that
move to the ready queue at the beginning of an iteration when `when ≤ now` in order of `when` (ties: parameter `pref`,
then arming order), an integer clock that jumps to the earliest timer when nothing is ready.  `stop()` sets a flag that
ends `start()` after the *current* iteration; handles still queued stay on the loop.

`run_sync` itself is modelled statement by statement (tornado/ioloop.py): `add_callback(run)`, `add_timeout(time() +
timeout, timeout_callback)`, `start()`, `remove_timeout`, then the `future_cell` inspection.  What the handles do:
  * `run c`        calls the function: plain functions give a done future (`add_future` on a done future = its wrapper is
                   queued at once); a native coroutine becomes an asyncio Task (first step queued); a bare Future is
                   resolved by a `call_later` timer; `stopsLoop` arms `call_later(d, io.stop)` and returns a Future that
                   never resolves.
  * `tmo c`        `timeout_callback`: `timeout_called = True`; a future that is already done is left to the wrapper
                   queued by its completion (`legacy = true` is the code before the fix: `if not future.cancel(): stop()`,
                   which calls `stop()` in that case and strands the wrapper on the loop); otherwise `future.cancel()`:
                   a bare Future is cancelled at once, a Task is cancelled when it runs next (`_must_cancel`, or by
                   cancelling the future it waits for) — the coroutine then sees `CancelledError` unless it had not
                   started yet.
  * `wrap c`       the `add_future` callback `lambda future: self.stop()`.
  * `step c`       `Task.__step` / `__wakeup`.
  * `res c`        the user's timer resolving a bare Future (on a future that is no longer pending: InvalidStateError,
                   logged by `_run_callback`).
  * `sleepDone c`  `asyncio.sleep`'s timer.
  * `ustop`        the user's `io.stop`.
-/
import TornadoModel.C38.Model
namespace TornadoModel.C38.RS
open TornadoModel.C38

/-- what the function given to `run_sync` does -/
inductive Fn
  | raises | retNone | retValue
  | coro (dur : Option Nat) (ok : Bool)    -- `async def`: sleeps `dur` ticks (never finishes if none), returns / raises
  | fut (dur : Option Nat) (ok : Bool)     -- returns a bare Future resolved by `call_later(dur, …)` (never if none)
  | stopsLoop (dur : Nat)                  -- `call_later(dur, io.stop)`, returns a Future that never resolves
  deriving Repr, DecidableEq

/-- `future_cell["future"]` -/
inductive FSt
  | none                    -- `run` has not executed yet
  | pending
  | done (o : Outcome)
  | cancelled
  deriving Repr, DecidableEq

/-- where the Task of a coroutine is -/
inductive Phase
  | na                                -- not a Task
  | fresh                             -- first step queued
  | sleeping (h : Nat)                -- waiting for `asyncio.sleep`'s future, timer `h` armed
  | never                             -- waiting for a future that never resolves
  | woken                             -- the sleep is over, wake-up queued
  | cancelWoken (h : Option Nat)      -- the awaited future was cancelled by `Task.cancel()`, wake-up queued
  | fin
  deriving Repr, DecidableEq

structure Call where
  fn : Fn
  fut : FSt := .none
  phase : Phase := .na
  mustCancel : Bool := false
  tmoCalled : Bool := false
  creq : Bool := false               -- `future.cancel()` was called by `timeout_callback` and returned True
  saw : Bool := false                -- the coroutine body saw `CancelledError`
  deriving Repr, DecidableEq

inductive K
  | run (c : Nat) | tmo (c : Nat) | wrap (c : Nat) | step (c : Nat) | res (c : Nat) | sleepDone (c : Nat) | ustop
  | unreg (c : Nat)     -- `gen._wrap_awaitable`'s done-callback on the Task (`loop._unregister_task`): no effect here
  deriving Repr, DecidableEq

structure T where
  id : Nat
  when : Nat
  k : K
  deriving Repr, DecidableEq

structure St where
  legacy : Bool
  pref : List Nat
  now : Nat := 0
  ready : List K := []
  timers : List T := []
  nextId : Nat := 0
  calls : List Call := []
  stopping : Bool := false
  logs : Nat := 0
  deriving Repr

def modAt : List Call → Nat → (Call → Call) → List Call
  | [], _, _ => []
  | x :: xs, 0, g => g x :: xs
  | x :: xs, i + 1, g => x :: modAt xs i g

def upd (s : St) (c : Nat) (g : Call → Call) : St := { s with calls := modAt s.calls c g }
def push (s : St) (k : K) : St := { s with ready := s.ready ++ [k] }
def arm (s : St) (when : Nat) (k : K) : St :=
  { s with timers := s.timers ++ [⟨s.nextId, when, k⟩], nextId := s.nextId + 1 }
def disarm (s : St) (h : Nat) : St := { s with timers := s.timers.filter (fun t => t.id != h) }

def FSt.isDone : FSt → Bool
  | .done _ => true
  | .cancelled => true
  | _ => false

/-- the done-callbacks of the future of call `c`, in registration order: for a Task first `_wrap_awaitable`'s, then
the `add_future` wrapper -/
def doneCbs (c : Nat) (task : Bool) : List K := if task then [.unreg c, .wrap c] else [.wrap c]

/-- the future of call `c` gets a result or an exception: its done-callbacks are queued -/
def complete (s : St) (c : Nat) (o : Outcome) (task : Bool := false) : St :=
  { upd s c (fun x => { x with fut := .done o, phase := .fin }) with ready := s.ready ++ doneCbs c task }

/-- the Task of call `c` ends cancelled -/
def cancelled (s : St) (c : Nat) (saw : Bool) : St :=
  { upd s c (fun x => { x with fut := .cancelled, phase := .fin, mustCancel := false, saw := x.saw || saw }) with
    ready := s.ready ++ doneCbs c true }

def bodyResult (ok : Bool) : Outcome := if ok then .result else .userError

/-- `timeout_callback` on a future that is still pending: `timeout_called = True; future.cancel()` (returns True).
A bare Future is cancelled at once; a Task that waits for a future cancels that future and is woken with
CancelledError; a Task whose step is already queued gets `_must_cancel`. -/
def cancelG (x : Call) : Call :=
  match x.phase with
  | .na => { x with tmoCalled := true, fut := .cancelled, creq := true }
  | .sleeping h => { x with tmoCalled := true, phase := .cancelWoken (some h), creq := true }
  | .never => { x with tmoCalled := true, phase := .cancelWoken none, creq := true }
  | _ => { x with tmoCalled := true, mustCancel := true, creq := true }

/-- the handle queued by that `cancel()`: the done-callback of a cancelled bare Future, the wake-up of a waiting Task -/
def cancelK (c : Nat) (x : Call) : Option K :=
  match x.phase with
  | .na => some (.wrap c)
  | .sleeping _ => some (.step c)
  | .never => some (.step c)
  | _ => none

def exec (s : St) : K → St
  | .run c =>
    match s.calls[c]? with
    | none => s
    | some x =>
      match x.fut with
      | .none =>
        (match x.fn with
         | .raises => complete s c .userError
         | .retNone => complete s c .result
         | .retValue => complete s c .badYield
         | .coro _ _ => push (upd s c (fun y => { y with fut := .pending, phase := .fresh })) (.step c)
         | .fut dur _ =>
           (match dur with
            | some d => arm (upd s c (fun y => { y with fut := .pending })) (s.now + d) (.res c)
            | none => upd s c (fun y => { y with fut := .pending }))
         | .stopsLoop d => arm (upd s c (fun y => { y with fut := .pending })) (s.now + d) .ustop)
      | _ => s          -- `run` is queued once per call
  | .tmo c =>
    match s.calls[c]? with
    | none => s
    | some x =>
      match x.fut with
      | .none =>
        -- `assert future_cell["future"] is not None` — cannot fail: `run c` is queued before the timer is armed and due
        -- timers enter the ready queue behind it.  (Unreachable; the model gives this branch no effect but the log record.)
        { s with logs := s.logs + 1 }
      | .pending =>
        (match cancelK c x with
         | some k => push (upd s c cancelG) k
         | none => upd s c cancelG)
      | _ =>
        -- the future is already done.  Fixed code: nothing more (the wrapper queued by its completion stops the loop);
        -- legacy code: `cancel()` returns False ⇒ `self.stop()`, which strands that wrapper on the loop.
        let s' := upd s c (fun y => { y with tmoCalled := true })
        if s.legacy then { s' with stopping := true } else s'
  | .wrap _ => { s with stopping := true }
  | .ustop => { s with stopping := true }
  | .unreg _ => s
  | .res c =>
    match s.calls[c]? with
    | none => s
    | some x =>
      match x.fut, x.fn with
      | .pending, .fut _ ok => complete s c (bodyResult ok)
      | _, _ => { s with logs := s.logs + 1 }
  | .sleepDone c =>
    match s.calls[c]? with
    | none => s
    | some x =>
      match x.phase with
      | .sleeping _ => push (upd s c (fun y => { y with phase := .woken })) (.step c)
      | _ => s
  | .step c =>
    match s.calls[c]? with
    | none => s
    | some x =>
      match x.phase with
      | .fresh =>
        if x.mustCancel then cancelled s c false
        else
          (match x.fn with
           | .coro none _ => upd s c (fun y => { y with phase := .never })
           | .coro (some 0) ok => complete s c (bodyResult ok) true
           | .coro (some d) _ => arm (upd s c (fun y => { y with phase := .sleeping s.nextId })) (s.now + d) (.sleepDone c)
           | _ => s)
      | .woken =>
        if x.mustCancel then cancelled s c true
        else
          (match x.fn with
           | .coro _ ok => complete s c (bodyResult ok) true
           | _ => s)
      | .cancelWoken h =>
        let s := match h with | some h => disarm s h | none => s
        cancelled s c true
      | _ => s

/-! ### one `_run_once` -/

def prio (pref : List Nat) (h : Nat) : Nat := pref.idxOf h

def tle (pref : List Nat) (a b : T) : Bool :=
  a.when < b.when || (a.when == b.when && (prio pref a.id < prio pref b.id || (prio pref a.id == prio pref b.id && a.id ≤ b.id)))

def insertT (pref : List Nat) (t : T) : List T → List T
  | [] => [t]
  | u :: us => if tle pref t u then t :: u :: us else u :: insertT pref t us

def sortT (pref : List Nat) (l : List T) : List T := l.foldr (insertT pref) []

def minWhen : List T → Option Nat
  | [] => none
  | t :: ts => match minWhen ts with
    | none => some t.when
    | some w => some (if t.when < w then t.when else w)

/-- the clock at which the next iteration runs: unchanged if something is ready, else the earliest timer; `none` = the
loop would sleep for ever -/
def wake (s : St) : Option Nat :=
  if s.ready.isEmpty then
    match minWhen s.timers with
    | some w => some (if s.now < w then w else s.now)
    | none => none
  else some s.now

def iteration (s : St) : Option St :=
  match wake s with
  | none => none
  | some now =>
    let due := sortT s.pref (s.timers.filter (fun t => t.when ≤ now))
    let batch := s.ready ++ due.map (·.k)
    some (batch.foldl exec { s with now, ready := [], timers := s.timers.filter (fun t => !(t.when ≤ now)) })

/-- `IOLoop.start()`: iterations until one of them called `stop()`; the Bool says whether it returned -/
def start : Nat → St → St × Bool
  | 0, s => (s, false)
  | n + 1, s =>
    match iteration s with
    | none => (s, false)
    | some s' => if s'.stopping then ({ s' with stopping := false }, true) else start n s'

/-! ### the operations of the main program -/

inductive Op
  | call (fn : Fn) (timeout : Option Nat)
  | advance (d : Nat)
  | runFor (d : Nat)
  deriving Repr, DecidableEq

/-- what the main program observes after an operation -/
structure Rec where
  isCall : Bool
  out : Outcome               -- calls only
  cancelled : Bool            -- the future `run_sync` waited for is cancelled
  pending : Bool              -- … is still pending
  creq : Bool                 -- `cancel()` was requested on it
  saw : Bool                  -- the coroutine saw CancelledError
  returned : Bool             -- `start()` returned
  dt : Nat                    -- ticks elapsed
  timers : List (Nat × Nat)   -- (id, when) of the timers still armed
  nready : Nat                -- handles still queued
  logs : Nat                  -- "Exception in callback" records during the operation
  deriving Repr, DecidableEq

/-- the code of `run_sync` after `self.start()` returned -/
def outcomeOf (x : Call) : Outcome :=
  match x.fut with
  | .done o => o
  | .cancelled => if x.tmoCalled then .timeoutError else .runtimeError
  | _ => if x.tmoCalled then .timeoutError else .runtimeError

def snapshot (s0 s : St) (isCall returned : Bool) (x : Option Call) : Rec :=
  { isCall, returned,
    out := if !returned then .hang else match x with | some x => outcomeOf x | none => .runtimeError,
    cancelled := match x with | some x => x.fut == .cancelled | none => false,
    pending := match x with | some x => x.fut == .pending || x.fut == .none | none => false,
    creq := match x with | some x => x.creq | none => false,
    saw := match x with | some x => x.saw | none => false,
    dt := s.now - s0.now, timers := s.timers.map (fun t => (t.id, t.when)), nready := s.ready.length,
    logs := s.logs - s0.logs }

/-- `run_sync` up to `self.start()`: `add_callback(run)`, then `add_timeout(self.time() + timeout, timeout_callback)` -/
def beginCall (s : St) (fn : Fn) (timeout : Option Nat) : St :=
  let s1 := push { s with calls := s.calls ++ [{ fn }] } (.run s.calls.length)
  match timeout with
  | some t => arm s1 (s1.now + t) (.tmo s.calls.length)
  | none => s1

/-- `run_sync` right after `self.start()` returned: `if timeout is not None: self.remove_timeout(timeout_handle)` -/
def endCall (h : Nat) (timeout : Option Nat) (r : St × Bool) : St :=
  if r.2 && timeout.isSome then disarm r.1 h else r.1

def doOp (fuel : Nat) (s : St) : Op → St × Option Rec
  | .advance d => ({ s with now := s.now + d }, none)
  | .runFor d =>
    let r := start fuel (arm s (s.now + d) .ustop)
    (r.1, some (snapshot s r.1 false r.2 none))
  | .call fn timeout =>
    let r := start fuel (beginCall s fn timeout)
    let s3 := endCall s.nextId timeout r
    (s3, some (snapshot s s3 true r.2 s3.calls[s.calls.length]?))

/-- run a whole main program; it ends at the first operation that never returns -/
def runOps (fuel : Nat) : St → List Op → St × List Rec
  | s, [] => (s, [])
  | s, op :: ops =>
    match doOp fuel s op with
    | (s', none) => runOps fuel s' ops
    | (s', some r) =>
      if r.returned then
        let rest := runOps fuel s' ops
        (rest.1, r :: rest.2)
      else (s', [r])

def fresh (legacy : Bool) (pref : List Nat) : St := { legacy, pref }

end TornadoModel.C38.RS
