/-
C38 — `add_callback` across event loops / threads (core Lean only).

`BaseAsyncIOLoop.add_callback` (platform/asyncio.py):

    try:
        if asyncio.get_running_loop() is self.asyncio_loop:  call_soon = self.asyncio_loop.call_soon
        else:                                                call_soon = self.asyncio_loop.call_soon_threadsafe
    except RuntimeError:                                     call_soon = self.asyncio_loop.call_soon_threadsafe

The calling code runs either in a plain thread (`get_running_loop()` raises: `running = none`) or inside a callback /
coroutine of some event loop `l` (`running = some l`).  `call_soon` appends to the target's ready queue;
`call_soon_threadsafe` appends **and writes to the self-pipe**, which is what gets a loop out of a `select()` that
has no timeout.  One loop is modelled as ready queue + "blocked in select" + "byte in the self-pipe"; a `turn` is what
the loop thread does when the OS lets it run.  The point proved: a loop blocked in `select()` with work in its ready
queue always has a wake-up pending, hence every callback handed to it — from its own thread, from a plain thread or
from code running on *another* loop — runs, once, in order, without anything else having to wake the loop.
-/
namespace TornadoModel.C38.XThread

inductive Path | soon | threadsafe
  deriving DecidableEq, Repr

/-- the branch `add_callback` takes on loop `self` when the calling thread's running loop is `running` -/
def choose (running : Option Nat) (self : Nat) : Path :=
  match running with
  | some l => if l = self then .soon else .threadsafe
  | none => .threadsafe

structure Loop where
  ready : List Nat := []
  blocked : Bool := false     -- inside select() with no (or a far) timeout
  wake : Bool := false        -- a byte is waiting in the self-pipe
  ran : List Nat := []
  sched : List Nat := []      -- ghost: everything handed to this loop, in order
  paths : List Path := []     -- ghost: branch taken by each add_callback call
  deriving Repr

def enqueue (p : Path) (id : Nat) (l : Loop) : Loop :=
  match p with
  | .soon => { l with ready := l.ready ++ [id], sched := l.sched ++ [id] }
  | .threadsafe => { l with ready := l.ready ++ [id], sched := l.sched ++ [id], wake := true }

/-- one scheduling quantum of the loop thread -/
def turn (l : Loop) : Loop :=
  if l.blocked then
    if l.wake then { l with blocked := false, wake := false } else l
  else
    match l.ready with
    | [] => if l.wake then { l with wake := false } else { l with blocked := true }
    | r => { l with ran := l.ran ++ r, ready := [], wake := false }

/-- `n` quanta in a row -/
def turns : Nat → Loop → Loop
  | 0, l => l
  | n + 1, l => turns n (turn l)

inductive Op
  | call (running : Option Nat) (id : Nat)   -- `self.add_callback(cb_id)` from code whose running loop is `running`
  | inject (id : Nat)                        -- `asyncio_loop.call_soon_threadsafe` directly (the harness, asyncio itself)
  | turn
  deriving Repr

def step (self : Nat) (l : Loop) : Op → Loop
  | .call running id => let p := choose running self; { enqueue p id l with paths := l.paths ++ [p] }
  | .inject id => enqueue .threadsafe id l
  | .turn => turn l

/-- code can only be running *on this loop* while the loop is not blocked in select -/
def opOk (self : Nat) (l : Loop) : Op → Bool
  | .call (some r) _ => !(r == self && l.blocked)
  | _ => true

def run (self : Nat) : Loop → List Op → Loop
  | l, [] => l
  | l, o :: os => run self (step self l o) os

def wf (self : Nat) : Loop → List Op → Bool
  | _, [] => true
  | l, o :: os => opOk self l o && wf self (step self l o) os

/-- the invariant: queue bookkeeping, and **a blocked loop with work has a wake-up pending** -/
def Inv (l : Loop) : Prop :=
  l.ran ++ l.ready = l.sched ∧ (l.blocked = true → l.ready ≠ [] → l.wake = true)

theorem inv_init : Inv {} := by simp [Inv]

theorem inv_turn (l : Loop) (h : Inv l) : Inv (turn l) := by
  obtain ⟨h1, h2⟩ := h
  unfold turn
  split
  · split
    · exact ⟨h1, by simp⟩
    · exact ⟨h1, h2⟩
  · split
    · rename_i hr
      split
      · refine ⟨h1, ?_⟩; simp [hr]
      · refine ⟨h1, ?_⟩; simp [hr]
    · refine ⟨?_, by simp⟩
      simpa using h1

theorem inv_enqueue_threadsafe (l : Loop) (id : Nat) (h : Inv l) : Inv (enqueue .threadsafe id l) := by
  obtain ⟨h1, _⟩ := h
  refine ⟨?_, by simp [enqueue]⟩
  simp [enqueue, ← h1]

theorem inv_enqueue_soon (l : Loop) (id : Nat) (h : Inv l) (hb : l.blocked = false) : Inv (enqueue .soon id l) := by
  obtain ⟨h1, _⟩ := h
  refine ⟨?_, by simp [enqueue, hb]⟩
  simp [enqueue, ← h1]

theorem inv_step (self : Nat) (l : Loop) (o : Op) (h : Inv l) (hok : opOk self l o = true) : Inv (step self l o) := by
  cases o with
  | turn => exact inv_turn l h
  | inject id => exact inv_enqueue_threadsafe l id h
  | call running id =>
    have key : Inv (enqueue (choose running self) id l) := by
      cases running with
      | none => exact inv_enqueue_threadsafe l id h
      | some r =>
        by_cases hr : r = self
        · have hb : l.blocked = false := by
            cases hbl : l.blocked with
            | false => rfl
            | true => simp [opOk, hr, hbl] at hok
          simpa [choose, hr] using inv_enqueue_soon l id h hb
        · simpa [choose, hr] using inv_enqueue_threadsafe l id h
    exact ⟨key.1, key.2⟩

theorem inv_run (self : Nat) (ops : List Op) : ∀ l, Inv l → wf self l ops = true → Inv (run self l ops) := by
  induction ops with
  | nil => intro l h _; exact h
  | cons o os ih =>
    intro l h hw
    simp only [wf, Bool.and_eq_true] at hw
    exact ih _ (inv_step self l o h hw.1) hw.2

/-- in a state satisfying the invariant, two quanta of the loop thread — and nothing else — run everything that was
handed to the loop, in order, and empty the queue -/
theorem inv_two_turns (l : Loop) (h : Inv l) :
    (turn (turn l)).ran = l.sched ∧ (turn (turn l)).ready = [] := by
  obtain ⟨h1, h2⟩ := h
  cases hb : l.blocked <;> cases hr : l.ready <;> cases hw : l.wake <;>
    simp_all [turn] <;> (try (subst_vars; simp_all))

/-- without a wake-up a blocked loop stays exactly where it is, whatever is in its ready queue: this is why the
branch matters (a plain `call_soon` from a foreign thread leaves the callback waiting for ever) -/
theorem blocked_without_wake_stuck (l : Loop) (hb : l.blocked = true) (hw : l.wake = false) : turn l = l := by
  simp [turn, hb, hw]

/- ---------------------------------------------------------------- specification side -/
/-- every scheduled callback ran exactly once and nothing else ran -/
def exactlyOnce (sched ran : List Nat) : Bool :=
  sched.all (fun x => ran.count x == 1) && ran.all (fun x => sched.contains x)

/-- the callbacks that ran, ran in scheduling order -/
def inOrder (sched ran : List Nat) : Bool :=
  ran == sched.filter (fun x => ran.contains x)

def violations (sched ran : List Nat) : List String :=
  (if exactlyOnce sched ran then [] else ["exactly_once"]) ++ (if inOrder sched ran then [] else ["order"])

theorem spec_of_eq (sched : List Nat) (hn : sched.Nodup) : violations sched sched = [] := by
  have h1 : exactlyOnce sched sched = true := by
    simp only [exactlyOnce, Bool.and_eq_true, List.all_eq_true]
    refine ⟨fun x hx => ?_, fun x hx => by simpa using hx⟩
    simp [hn.count, hx]
  have h2 : inOrder sched sched = true := by
    simp only [inOrder, beq_iff_eq]
    symm
    rw [List.filter_eq_self]
    intro x hx
    simpa using hx
  simp [violations, h1, h2]

end TornadoModel.C38.XThread
