/- C38 driver.
   `C38 run  <tbl> <pref> <main> <fuel>` → `ok [ev,…] T|F`      model trace and whether the loop went idle
   `C38 spec [ev,…] T|F`                 → `ok [clause,…]`       Spec.violations of an observed trace
   `C38 runsync <func> <timeout|~>`      → `ok outcome`          Model.runSync
   `C38 runsyncspec <func> <timeout|~>`  → `ok outcome`          Spec.runSyncSpec
   `C38 xthread <self> [[call,running|~,id]|[inject,id]|[turn],…]` → `ok [soon|threadsafe,…] [ran…] [ready…] T|F`
   `C38 xspec [sched…] [ran…]`           → `ok [clause,…]`       XThread.violations
   `C38 rsseq T|F <pref> [op,…] <fuel>`  → `ok [rec,…]`          RS.runOps on a fresh loop (first arg: legacy timeout_callback)
   `C38 rsspec [op,…] [rec,…]`           → `ok [clause,…]`       Spec.rsViolations of observed records
   op = [call,fn,timeout|~] | [advance,d] | [runFor,d]; fn = [raises]|[retNone]|[retValue]|[coro,d|~,T|F]|[fut,d|~,T|F]|[stopsLoop,d]
   rec = [call,outcome,cancelled,pending,creq,saw,returned,dt,[[id,when],…],nready,logs] | [runFor,returned,dt,[…],nready,logs]
   tbl = [[[act,…],fin],…]; act = [addCb,k] | [addTmo,form,arg,k,name] | [rmTmo,name] | [busy,d] | [addFut,fid,k] |
   [resolve,fid,T|F]; func = [raises] | [retNone] | [retValue] | [awaitable,d|~,T|F] | [stopsLoop,d]
-/
import TornadoModel.Base.Wire
import TornadoModel.C38.Spec
import TornadoModel.C38.RSSpec
import TornadoModel.C38.XThread
namespace TornadoModel.C38.Drv
open TornadoModel TornadoModel.Wire TornadoModel.C38

def decForm : V → Option Form
  | .atom "abs" => some .abs | .atom "td" => some .td | .atom "later" => some .later | .atom "at" => some .at
  | _ => none

def decAct (v : V) : Option Act := do
  match ← v.list? with
  | [.atom "addCb", k] => pure (.addCb (← k.nat?))
  | [.atom "addTmo", f, a, k, n] => pure (.addTmo (← decForm f) (← a.int?) (← k.nat?) (← n.nat?))
  | [.atom "rmTmo", n] => pure (.rmTmo (← n.nat?))
  | [.atom "busy", d] => pure (.busy (← d.nat?))
  | [.atom "addFut", f, k] => pure (.addFut (← f.nat?) (← k.nat?))
  | [.atom "resolve", f, ok] => pure (.resolve (← f.nat?) (← ok.bool?))
  | _ => none

def decEnd : V → Option End
  | .atom "ok" => some .ok | .atom "raise" => some .raise | .atom "retFailed" => some .retFailed
  | .atom "retOk" => some .retOk | .atom "retOther" => some .retOther
  | _ => none

def encEnd : End → V
  | .ok => .atom "ok" | .raise => .atom "raise" | .retFailed => .atom "retFailed" | .retOk => .atom "retOk"
  | .retOther => .atom "retOther"

def decBody (v : V) : Option Body := do
  match ← v.list? with
  | [acts, fin] => pure ⟨← (← acts.list?).mapM decAct, ← decEnd fin⟩
  | _ => none

def encWho : Who → V
  | .main => .atom "main" | .cb k => .int k | .discard => .atom "discard"

def decWho : V → Option Who
  | .atom "main" => some .main | .atom "discard" => some .discard | .int i => if 0 ≤ i then some (.cb i.toNat) else none
  | _ => none

def n (x : Nat) : V := .int x

def encEv : Ev → V
  | .schedCb sid k it => .list [.atom "schedCb", n sid, n k, n it]
  | .ranCb sid k enq it now => .list [.atom "ranCb", n sid, n k, n enq, n it, .int now]
  | .schedT h k dl wh => .list [.atom "schedT", n h, n k, .int dl, .int wh]
  | .ranT h k dl wh it now => .list [.atom "ranT", n h, n k, .int dl, .int wh, n it, .int now]
  | .removed h => .list [.atom "removed", n h]
  | .ranF fid k added enq it now => .list [.atom "ranF", n fid, n k, n added, n enq, n it, .int now]
  | .fin w e => .list [.atom "fin", encWho w, encEnd e]
  | .logged w => .list [.atom "logged", encWho w]

def decEv (v : V) : Option Ev := do
  match ← v.list? with
  | [.atom "schedCb", sid, k, it] => pure (.schedCb (← sid.nat?) (← k.nat?) (← it.nat?))
  | [.atom "ranCb", sid, k, enq, it, now] => pure (.ranCb (← sid.nat?) (← k.nat?) (← enq.nat?) (← it.nat?) (← now.int?))
  | [.atom "schedT", h, k, dl, wh] => pure (.schedT (← h.nat?) (← k.nat?) (← dl.int?) (← wh.int?))
  | [.atom "ranT", h, k, dl, wh, it, now] =>
    pure (.ranT (← h.nat?) (← k.nat?) (← dl.int?) (← wh.int?) (← it.nat?) (← now.int?))
  | [.atom "removed", h] => pure (.removed (← h.nat?))
  | [.atom "ranF", fid, k, added, enq, it, now] =>
    pure (.ranF (← fid.nat?) (← k.nat?) (← added.nat?) (← enq.nat?) (← it.nat?) (← now.int?))
  | [.atom "fin", w, e] => pure (.fin (← decWho w) (← decEnd e))
  | [.atom "logged", w] => pure (.logged (← decWho w))
  | _ => none

def decFunc (v : V) : Option Func := do
  match ← v.list? with
  | [.atom "raises"] => pure .raises
  | [.atom "retNone"] => pure .retNone
  | [.atom "retValue"] => pure .retValue
  | [.atom "awaitable", d, ok] =>
    let okb ← ok.bool?
    if d.isNone then pure (.awaitable none okb) else pure (.awaitable (some (← d.nat?)) okb)
  | [.atom "stopsLoop", d] => pure (.stopsLoop (← d.nat?))
  | _ => none

def decTimeout (v : V) : Option (Option Nat) := if v.isNone then some none else v.nat?.map some

def encOutcome : Outcome → V
  | .result => .atom "result" | .userError => .atom "userError" | .badYield => .atom "badYield"
  | .timeoutError => .atom "timeoutError" | .runtimeError => .atom "runtimeError" | .hang => .atom "hang"


def decOutcome : V → Option Outcome
  | .atom "result" => some .result | .atom "userError" => some .userError | .atom "badYield" => some .badYield
  | .atom "timeoutError" => some .timeoutError | .atom "runtimeError" => some .runtimeError | .atom "hang" => some .hang
  | _ => none

def decOptNat (v : V) : Option (Option Nat) := if v.isNone then some none else v.nat?.map some

def decFn (v : V) : Option RS.Fn := do
  match ← v.list? with
  | [.atom "raises"] => pure .raises
  | [.atom "retNone"] => pure .retNone
  | [.atom "retValue"] => pure .retValue
  | [.atom "coro", d, ok] => pure (.coro (← decOptNat d) (← ok.bool?))
  | [.atom "fut", d, ok] => pure (.fut (← decOptNat d) (← ok.bool?))
  | [.atom "stopsLoop", d] => pure (.stopsLoop (← d.nat?))
  | _ => none

def decRsOp (v : V) : Option RS.Op := do
  match ← v.list? with
  | [.atom "call", f, t] => pure (.call (← decFn f) (← decOptNat t))
  | [.atom "advance", d] => pure (.advance (← d.nat?))
  | [.atom "runFor", d] => pure (.runFor (← d.nat?))
  | _ => none

def encPairs (l : List (Nat × Nat)) : V := .list (l.map (fun p => .list [n p.1, n p.2]))

def decPair (v : V) : Option (Nat × Nat) := do
  match ← v.list? with
  | [a, b] => pure (← a.nat?, ← b.nat?)
  | _ => none

def encRec (r : RS.Rec) : V :=
  if r.isCall then
    .list [.atom "call", encOutcome r.out, V.ofBool r.cancelled, V.ofBool r.pending, V.ofBool r.creq, V.ofBool r.saw,
           V.ofBool r.returned, n r.dt, encPairs r.timers, n r.nready, n r.logs]
  else .list [.atom "runFor", V.ofBool r.returned, n r.dt, encPairs r.timers, n r.nready, n r.logs]

def decRec (v : V) : Option RS.Rec := do
  match ← v.list? with
  | [.atom "call", o, c, p, q, s, r, dt, ts, nr, lg] =>
    pure { isCall := true, out := ← decOutcome o, cancelled := ← c.bool?, pending := ← p.bool?, creq := ← q.bool?,
           saw := ← s.bool?, returned := ← r.bool?, dt := ← dt.nat?, timers := ← (← ts.list?).mapM decPair,
           nready := ← nr.nat?, logs := ← lg.nat? }
  | [.atom "runFor", r, dt, ts, nr, lg] =>
    pure { isCall := false, out := .result, cancelled := false, pending := false, creq := false, saw := false,
           returned := ← r.bool?, dt := ← dt.nat?, timers := ← (← ts.list?).mapM decPair, nready := ← nr.nat?,
           logs := ← lg.nat? }
  | _ => none

def decXOp (v : V) : Option XThread.Op := do
  match ← v.list? with
  | [.atom "call", r, id] => if r.isNone then pure (.call none (← id.nat?)) else pure (.call (some (← r.nat?)) (← id.nat?))
  | [.atom "inject", id] => pure (.inject (← id.nat?))
  | [.atom "turn"] => pure .turn
  | _ => none

def encPath : XThread.Path → V
  | .soon => .atom "soon" | .threadsafe => .atom "threadsafe"

/-- every callback index mentioned by the program is defined -/
def actOk (sz : Nat) : Act → Bool
  | .addCb k => k < sz
  | .addTmo _ _ k _ => k < sz
  | .addFut _ k => k < sz
  | _ => true

def handle (toks : List String) : String :=
  match parseArgs (toks.drop 1) with
  | none => err "bad-arg"
  | some args =>
    match toks.head?, args with
    | some "run", [tbl, pref, main, fuel] =>
      match tbl.list? >>= (·.mapM decBody), pref.list? >>= (·.mapM V.nat?), main.list? >>= (·.mapM decAct), fuel.nat? with
      | some tbl, some pref, some main, some fuel =>
        if !(main.all (actOk tbl.length) && tbl.all (fun b => b.acts.all (actOk tbl.length))) then err "bad-prog" else
        let s := runFuel fuel (init tbl pref main)
        ok [.list (s.log.map encEv), V.ofBool (halted s)]
      | _, _, _, _ => err "bad-arg"
    | some "spec", [evs, idle] =>
      match evs.list? >>= (·.mapM decEv), idle.bool? with
      | some evs, some idle => ok [.list ((Spec.violations evs idle).map V.atom)]
      | _, _ => err "bad-arg"
    | some "runsync", [f, t] =>
      match decFunc f, decTimeout t with
      | some f, some t => ok [encOutcome (runSync f t)]
      | _, _ => err "bad-arg"
    | some "runsyncspec", [f, t] =>
      match decFunc f, decTimeout t with
      | some f, some t => ok [encOutcome (Spec.runSyncSpec f t)]
      | _, _ => err "bad-arg"
    | some "rsseq", [legacy, pref, ops, fuel] =>
      match legacy.bool?, pref.list? >>= (·.mapM V.nat?), ops.list? >>= (·.mapM decRsOp), fuel.nat? with
      | some legacy, some pref, some ops, some fuel =>
        ok [.list ((RS.runOps fuel (RS.fresh legacy pref) ops).2.map encRec)]
      | _, _, _, _ => err "bad-arg"
    | some "rsspec", [ops, recs] =>
      match ops.list? >>= (·.mapM decRsOp), recs.list? >>= (·.mapM decRec) with
      | some ops, some recs => ok [.list ((Spec.rsViolations true ops recs).map V.atom)]
      | _, _ => err "bad-arg"
    | some "xthread", [self, ops] =>
      match self.nat?, ops.list? >>= (·.mapM decXOp) with
      | some self, some ops =>
        if !(XThread.wf self {} ops) then err "bad-prog" else
        let l := XThread.run self {} ops
        ok [.list (l.paths.map encPath), .list (l.ran.map n), .list (l.ready.map n), V.ofBool l.blocked]
      | _, _ => err "bad-arg"
    | some "xspec", [sched, ran] =>
      match sched.list? >>= (·.mapM V.nat?), ran.list? >>= (·.mapM V.nat?) with
      | some sched, some ran => ok [.list ((XThread.violations sched ran).map V.atom)]
      | _, _ => err "bad-arg"
    | _, _ => err "bad-cmd"

end TornadoModel.C38.Drv
