/- C38 — invariants of the loop model (core Lean only). -/
import TornadoModel.C38.Spec
namespace TornadoModel.C38
open Spec

/-! ### framework: an invariant of `step` holds in every reachable state -/

theorem reach_inv (P : Loop → Prop) (hstep : ∀ s, P s → P (step s)) : ∀ n s, P s → P (reach s n) := by
  intro n
  induction n with
  | zero => intro s h; exact h
  | succ n ih => intro s h; exact ih (step s) (hstep s h)

theorem step_cases (P : Loop → Prop)
    (h1 : ∀ s c a rest, s.cur = some c → c.acts = a :: rest → P s →
      P (doAct { s with cur := some { c with acts := rest } } a))
    (h2 : ∀ s c, s.cur = some c → c.acts = [] → P s → P (finish { s with cur := none } c))
    (h3 : ∀ s it rest, s.cur = none → s.batch = it :: rest → P s → P (startItem { s with batch := rest } it))
    (h4 : ∀ s, s.cur = none → s.batch = [] → P s → P (newIteration s)) : ∀ s, P s → P (step s) := by
  intro s hP
  unfold step
  split
  · next c hc =>
    split
    · next a rest ha => exact h1 s c a rest hc ha hP
    · next ha => exact h2 s c hc ha hP
  · next hc =>
    split
    · next it rest hb => exact h3 s it rest hc hb hP
    · next hb =>
      split
      · exact hP
      · exact h4 s hc hb hP

@[simp] theorem emit_log (s : Loop) (e : Ev) : (emit s e).log = s.log ++ [e] := rfl
@[simp] theorem emit_batch (s : Loop) (e : Ev) : (emit s e).batch = s.batch := rfl
@[simp] theorem emit_next (s : Loop) (e : Ev) : (emit s e).next = s.next := rfl
@[simp] theorem emit_iter (s : Loop) (e : Ev) : (emit s e).iter = s.iter := rfl
@[simp] theorem emit_now (s : Loop) (e : Ev) : (emit s e).now = s.now := rfl
@[simp] theorem emit_timers (s : Loop) (e : Ev) : (emit s e).timers = s.timers := rfl
@[simp] theorem emit_waiters (s : Loop) (e : Ev) : (emit s e).waiters = s.waiters := rfl
@[simp] theorem emit_moved (s : Loop) (e : Ev) : (emit s e).moved = s.moved := rfl
@[simp] theorem emit_nextS (s : Loop) (e : Ev) : (emit s e).nextS = s.nextS := rfl
@[simp] theorem emit_nextH (s : Loop) (e : Ev) : (emit s e).nextH = s.nextH := rfl
@[simp] theorem emit_removed (s : Loop) (e : Ev) : (emit s e).removed = s.removed := rfl
@[simp] theorem emit_vars (s : Loop) (e : Ev) : (emit s e).vars = s.vars := rfl
@[simp] theorem startBody_log (s : Loop) (k : Nat) : (startBody s k).log = s.log := rfl
@[simp] theorem startBody_batch (s : Loop) (k : Nat) : (startBody s k).batch = s.batch := rfl
@[simp] theorem startBody_next (s : Loop) (k : Nat) : (startBody s k).next = s.next := rfl
@[simp] theorem startBody_iter (s : Loop) (k : Nat) : (startBody s k).iter = s.iter := rfl
@[simp] theorem startBody_now (s : Loop) (k : Nat) : (startBody s k).now = s.now := rfl
@[simp] theorem startBody_timers (s : Loop) (k : Nat) : (startBody s k).timers = s.timers := rfl
@[simp] theorem startBody_waiters (s : Loop) (k : Nat) : (startBody s k).waiters = s.waiters := rfl
@[simp] theorem startBody_moved (s : Loop) (k : Nat) : (startBody s k).moved = s.moved := rfl
@[simp] theorem startBody_nextS (s : Loop) (k : Nat) : (startBody s k).nextS = s.nextS := rfl
@[simp] theorem startBody_nextH (s : Loop) (k : Nat) : (startBody s k).nextH = s.nextH := rfl
@[simp] theorem startBody_removed (s : Loop) (k : Nat) : (startBody s k).removed = s.removed := rfl

/-! ### (F) every failure is logged exactly once -/

def isDiscardFail : Item → Bool | .discard false _ => true | _ => false

def InvF (s : Loop) : Prop :=
  s.log.countP isLogged + (s.batch ++ s.next).countP isDiscardFail = s.log.countP isFailure

@[simp] theorem dfail_tcb : (isDiscardFail ∘ fun t => Item.tcb t false) = fun _ => false := by
  funext t; rfl
@[simp] theorem dfail_cancel (h : Nat) : (isDiscardFail ∘ cancelItem h) = isDiscardFail := by
  funext it; cases it <;> rfl
@[simp] theorem dfail_fcb (fid it : Nat) :
    (isDiscardFail ∘ fun w : Nat × Nat × Nat => Item.fcb fid w.2.1 w.2.2 it) = fun _ => false := by
  funext t; rfl
@[simp] theorem countP_false' {α} (l : List α) : l.countP (fun _ => false) = 0 := by
  induction l <;> simp_all

theorem invF_step : ∀ s, InvF s → InvF (step s) := by
  apply step_cases
  · intro s c a rest _ _ h
    unfold InvF at *
    cases a with
    | addCb k => simp [doAct, List.countP_append, isLogged, isFailure, isDiscardFail] at *; omega
    | addTmo f arg k name => simp [doAct, List.countP_append, isLogged, isFailure] at *; omega
    | rmTmo name =>
      simp only [doAct]
      split
      · simpa using h
      · split
        · simp [List.countP_append, isLogged, isFailure] at *; omega
        · simpa using h
    | busy d => simpa [doAct] using h
    | addFut fid k =>
      simp only [doAct]
      split
      · simp [List.countP_append, isDiscardFail] at *; omega
      · simpa using h
    | resolve fid ok =>
      simp only [doAct]
      split
      · simpa using h
      · simp [List.countP_append] at *; omega
  · intro s c _ _ h
    unfold InvF at *
    unfold finish
    cases hf : c.fin <;> simp [List.countP_append, List.countP_cons, isLogged, isFailure, isDiscardFail, hf] at * <;> omega
  · intro s it rest _ hb h
    unfold InvF at *
    rw [hb] at h
    cases it with
    | cb sid k enq => simp [startItem, List.countP_append, List.countP_cons, isLogged, isFailure, isDiscardFail] at *; omega
    | tcb t c =>
      simp only [startItem]
      split <;> simp [List.countP_append, List.countP_cons, isLogged, isFailure, isDiscardFail] at * <;> omega
    | fcb fid k added enq => simp [startItem, List.countP_append, List.countP_cons, isLogged, isFailure, isDiscardFail] at *; omega
    | discard ok enq =>
      cases ok <;> simp [startItem, List.countP_append, List.countP_cons, isLogged, isFailure, isDiscardFail] at * <;> omega
  · intro s _ hb h
    unfold InvF at *
    rw [hb] at h
    simp [newIteration, List.countP_append] at *
    omega

theorem invF_init (tbl : List Body) (pref : List Nat) (main : List Act) : InvF (init tbl pref main) := by
  simp [InvF, init]

/-! ### sorting facts -/

theorem mem_insertT (pref : List Nat) (t x : Timer) (l : List Timer) : x ∈ insertT pref t l ↔ x = t ∨ x ∈ l := by
  induction l with
  | nil => simp [insertT]
  | cons u us ih =>
    simp only [insertT]
    split
    · simp
    · simp [ih]; constructor
      · rintro (h | h | h) <;> simp [h]
      · rintro (h | h | h) <;> simp [h]

theorem mem_sortT (pref : List Nat) (x : Timer) (l : List Timer) : x ∈ sortT pref l ↔ x ∈ l := by
  induction l with
  | nil => simp [sortT]
  | cons u us ih =>
    have : sortT pref (u :: us) = insertT pref u (sortT pref us) := rfl
    rw [this, mem_insertT, ih]; simp

/-- the clock value `newIteration` moves to -/
def wake (s : Loop) : Int :=
  match s.next, minWhen s.timers with
  | [], some w => if s.now < w then w else s.now
  | _, _ => s.now

theorem wake_ge (s : Loop) : s.now ≤ wake s := by
  unfold wake; split
  · split <;> omega
  · omega

theorem newIteration_eq (s : Loop) : newIteration s =
    { s with now := wake s, iter := s.iter + 1,
             batch := s.next ++ (sortT s.pref (s.timers.filter (fun t => t.when ≤ wake s))).map (fun t => .tcb t false),
             next := [], timers := s.timers.filter (fun t => !(t.when ≤ wake s)), moved := wake s } := rfl

/-! ### (A) FIFO, exactly once -/

def cbSidOf : Item → Option Nat | .cb sid _ _ => some sid | _ => none

@[simp] theorem cbsid_tcb : (cbSidOf ∘ fun t => Item.tcb t false) = fun _ => none := by funext t; rfl
@[simp] theorem cbsid_cancel (h : Nat) : (cbSidOf ∘ cancelItem h) = cbSidOf := by funext it; cases it <;> rfl
@[simp] theorem cbsid_fcb (fid it : Nat) :
    (cbSidOf ∘ fun w : Nat × Nat × Nat => Item.fcb fid w.2.1 w.2.2 it) = fun _ => none := by funext t; rfl
@[simp] theorem filterMap_none' {α β} (l : List α) : l.filterMap (fun _ => (none : Option β)) = [] := by
  induction l <;> simp_all

@[simp] theorem schedSid_schedCb {a b c} : schedSid (Ev.schedCb a b c) = some a := rfl
@[simp] theorem schedSid_ranCb {a b c d e} : schedSid (Ev.ranCb a b c d e) = none := rfl
@[simp] theorem schedSid_schedT {a b c d} : schedSid (Ev.schedT a b c d) = none := rfl
@[simp] theorem schedSid_ranT {a b c d e f} : schedSid (Ev.ranT a b c d e f) = none := rfl
@[simp] theorem schedSid_removed {a} : schedSid (Ev.removed a) = none := rfl
@[simp] theorem schedSid_ranF {a b c d e f} : schedSid (Ev.ranF a b c d e f) = none := rfl
@[simp] theorem schedSid_fin {a b} : schedSid (Ev.fin a b) = none := rfl
@[simp] theorem schedSid_logged {a} : schedSid (Ev.logged a) = none := rfl
@[simp] theorem ranSid_schedCb {a b c} : ranSid (Ev.schedCb a b c) = none := rfl
@[simp] theorem ranSid_ranCb {a b c d e} : ranSid (Ev.ranCb a b c d e) = some a := rfl
@[simp] theorem ranSid_schedT {a b c d} : ranSid (Ev.schedT a b c d) = none := rfl
@[simp] theorem ranSid_ranT {a b c d e f} : ranSid (Ev.ranT a b c d e f) = none := rfl
@[simp] theorem ranSid_removed {a} : ranSid (Ev.removed a) = none := rfl
@[simp] theorem ranSid_ranF {a b c d e f} : ranSid (Ev.ranF a b c d e f) = none := rfl
@[simp] theorem ranSid_fin {a b} : ranSid (Ev.fin a b) = none := rfl
@[simp] theorem ranSid_logged {a} : ranSid (Ev.logged a) = none := rfl
@[simp] theorem ranWhen_schedCb {a b c} : ranWhen (Ev.schedCb a b c) = none := rfl
@[simp] theorem ranWhen_ranCb {a b c d e} : ranWhen (Ev.ranCb a b c d e) = none := rfl
@[simp] theorem ranWhen_schedT {a b c d} : ranWhen (Ev.schedT a b c d) = none := rfl
@[simp] theorem ranWhen_ranT {a b c d e f} : ranWhen (Ev.ranT a b c d e f) = some d := rfl
@[simp] theorem ranWhen_removed {a} : ranWhen (Ev.removed a) = none := rfl
@[simp] theorem ranWhen_ranF {a b c d e f} : ranWhen (Ev.ranF a b c d e f) = none := rfl
@[simp] theorem ranWhen_fin {a b} : ranWhen (Ev.fin a b) = none := rfl
@[simp] theorem ranWhen_logged {a} : ranWhen (Ev.logged a) = none := rfl
@[simp] theorem removedOf_schedCb {a b c} : removedOf (Ev.schedCb a b c) = none := rfl
@[simp] theorem removedOf_ranCb {a b c d e} : removedOf (Ev.ranCb a b c d e) = none := rfl
@[simp] theorem removedOf_schedT {a b c d} : removedOf (Ev.schedT a b c d) = none := rfl
@[simp] theorem removedOf_ranT {a b c d e f} : removedOf (Ev.ranT a b c d e f) = none := rfl
@[simp] theorem removedOf_removed {a} : removedOf (Ev.removed a) = some a := rfl
@[simp] theorem removedOf_ranF {a b c d e f} : removedOf (Ev.ranF a b c d e f) = none := rfl
@[simp] theorem removedOf_fin {a b} : removedOf (Ev.fin a b) = none := rfl
@[simp] theorem removedOf_logged {a} : removedOf (Ev.logged a) = none := rfl
@[simp] theorem ranTh_schedCb {a b c} : ranTh (Ev.schedCb a b c) = none := rfl
@[simp] theorem ranTh_ranCb {a b c d e} : ranTh (Ev.ranCb a b c d e) = none := rfl
@[simp] theorem ranTh_schedT {a b c d} : ranTh (Ev.schedT a b c d) = none := rfl
@[simp] theorem ranTh_ranT {a b c d e f} : ranTh (Ev.ranT a b c d e f) = some a := rfl
@[simp] theorem ranTh_removed {a} : ranTh (Ev.removed a) = none := rfl
@[simp] theorem ranTh_ranF {a b c d e f} : ranTh (Ev.ranF a b c d e f) = none := rfl
@[simp] theorem ranTh_fin {a b} : ranTh (Ev.fin a b) = none := rfl
@[simp] theorem ranTh_logged {a} : ranTh (Ev.logged a) = none := rfl
@[simp] theorem schedTh_schedCb {a b c} : schedTh (Ev.schedCb a b c) = none := rfl
@[simp] theorem schedTh_ranCb {a b c d e} : schedTh (Ev.ranCb a b c d e) = none := rfl
@[simp] theorem schedTh_schedT {a b c d} : schedTh (Ev.schedT a b c d) = some a := rfl
@[simp] theorem schedTh_ranT {a b c d e f} : schedTh (Ev.ranT a b c d e f) = none := rfl
@[simp] theorem schedTh_removed {a} : schedTh (Ev.removed a) = none := rfl
@[simp] theorem schedTh_ranF {a b c d e f} : schedTh (Ev.ranF a b c d e f) = none := rfl
@[simp] theorem schedTh_fin {a b} : schedTh (Ev.fin a b) = none := rfl
@[simp] theorem schedTh_logged {a} : schedTh (Ev.logged a) = none := rfl

@[simp] theorem fm_single_none {α β} (f : α → Option β) (a : α) (h : f a = none) : List.filterMap f [a] = [] := by
  simp [List.filterMap_cons, h]
@[simp] theorem fm_single_some {α β} (f : α → Option β) (a : α) (b : β) (h : f a = some b) :
    List.filterMap f [a] = [b] := by
  simp [List.filterMap_cons, h]
@[simp] theorem fm_pair_none {α β} (f : α → Option β) (a a' : α) (h : f a = none) (h' : f a' = none) :
    List.filterMap f [a, a'] = [] := by
  simp [List.filterMap_cons, h, h']

def InvA (s : Loop) : Prop :=
  s.log.filterMap schedSid = s.log.filterMap ranSid ++ (s.batch ++ s.next).filterMap cbSidOf ∧
  (∀ x ∈ s.log.filterMap schedSid, x < s.nextS) ∧ (s.log.filterMap schedSid).Nodup

theorem invA_step : ∀ s, InvA s → InvA (step s) := by
  apply step_cases
  · intro s c a rest _ _ h
    cases a with
    | addCb k =>
      obtain ⟨h1, h2, h3⟩ := h
      refine ⟨?_, ?_, ?_⟩
      · simp only [doAct, emit_log, emit_batch, emit_next, List.filterMap_append, List.filterMap_cons,
          List.filterMap_nil, schedSid_schedCb, ranSid_schedCb, cbSidOf, h1, List.append_assoc, List.append_nil]
      · intro x hx
        simp only [doAct, emit_log, emit_nextS, List.filterMap_append, List.filterMap_cons, List.filterMap_nil,
          schedSid_schedCb, List.mem_append, List.mem_singleton] at hx ⊢
        rcases hx with hx | hx
        · have := h2 x hx; omega
        · omega
      · simp only [doAct, emit_log, List.filterMap_append, List.filterMap_cons, List.filterMap_nil, schedSid_schedCb]
        rw [List.nodup_append]
        refine ⟨h3, by simp, ?_⟩
        intro a ha b hb
        simp at hb; subst hb
        have := h2 a ha; omega
    | addTmo f arg k name => unfold InvA at h ⊢; simp [doAct, List.filterMap_append, List.filterMap_cons, schedSid, ranSid] at h ⊢; exact h
    | rmTmo name =>
      simp only [doAct]
      split
      · exact h
      · split
        · unfold InvA at h ⊢; simp [List.filterMap_append, List.filterMap_cons, schedSid, ranSid] at h ⊢; exact h
        · exact h
    | busy d => exact h
    | addFut fid k =>
      simp only [doAct]
      split
      · unfold InvA at h ⊢; simp [List.filterMap_append, List.filterMap_cons, schedSid, ranSid, cbSidOf] at h ⊢; exact h
      · exact h
    | resolve fid ok =>
      simp only [doAct]
      split
      · exact h
      · unfold InvA at h ⊢; simp [List.filterMap_append, List.filterMap_cons, schedSid, ranSid] at h ⊢; exact h
  · intro s c _ _ h
    unfold finish
    unfold InvA at h ⊢
    cases hf : c.fin <;> simp [List.filterMap_append, List.filterMap_cons, schedSid, ranSid, cbSidOf, hf] at h ⊢ <;> exact h
  · intro s it rest _ hb h
    unfold InvA at h ⊢
    rw [hb] at h
    cases it with
    | cb sid k enq => simp [startItem, List.filterMap_append, List.filterMap_cons, schedSid, ranSid, cbSidOf] at h ⊢; exact h
    | tcb t c =>
      simp only [startItem]
      split <;> simp [List.filterMap_append, List.filterMap_cons, schedSid, ranSid, cbSidOf] at h ⊢ <;> exact h
    | fcb fid k added enq => simp [startItem, List.filterMap_append, List.filterMap_cons, schedSid, ranSid, cbSidOf] at h ⊢; exact h
    | discard ok enq =>
      cases ok <;> simp [startItem, List.filterMap_append, List.filterMap_cons, schedSid, ranSid, cbSidOf] at h ⊢ <;> exact h
  · intro s _ hb h
    unfold InvA at h ⊢
    rw [hb] at h
    rw [newIteration_eq]
    simp [List.filterMap_append, List.filterMap_cons, schedSid, ranSid] at h ⊢
    exact h

theorem invA_init (tbl : List Body) (pref : List Nat) (main : List Act) : InvA (init tbl pref main) := by
  simp [InvA, init]

/-! ### (E) iterations -/

def batchOk (iter : Nat) : Item → Prop
  | .cb _ _ enq => enq + 1 = iter
  | .fcb _ _ added enq => added ≤ enq ∧ enq + 1 = iter
  | .discard _ enq => enq + 1 = iter
  | .tcb _ _ => True

def nextOk (iter : Nat) : Item → Prop
  | .cb _ _ enq => enq = iter
  | .fcb _ _ added enq => added ≤ enq ∧ enq = iter
  | .discard _ enq => enq = iter
  | .tcb _ _ => False

def InvE (s : Loop) : Prop :=
  (∀ it ∈ s.batch, batchOk s.iter it) ∧ (∀ it ∈ s.next, nextOk s.iter it) ∧
  (∀ w ∈ s.waiters, w.2.2 ≤ s.iter) ∧ laterIteration s.log

theorem batchOk_cancel (iter h : Nat) (it : Item) (hh : batchOk iter it) : batchOk iter (cancelItem h it) := by
  cases it <;> simpa [cancelItem, batchOk] using hh

theorem later_append (l : List Ev) (e : Ev) (h : laterIteration l) (he : iterOk e = true) : laterIteration (l ++ [e]) := by
  intro x hx
  rcases List.mem_append.mp hx with hx | hx
  · exact h x hx
  · simp at hx; subst hx; exact he

theorem invE_step : ∀ s, InvE s → InvE (step s) := by
  apply step_cases
  · intro s c a rest _ _ h
    obtain ⟨h1, h2, h3, h4⟩ := h
    cases a with
    | addCb k =>
      refine ⟨h1, ?_, h3, later_append _ _ h4 rfl⟩
      intro it hit
      simp [doAct] at hit
      rcases hit with hit | hit
      · exact h2 it hit
      · subst hit; simp [nextOk, doAct]
    | addTmo f arg k name => exact ⟨h1, h2, h3, later_append _ _ h4 rfl⟩
    | rmTmo name =>
      simp only [doAct]
      split
      · exact ⟨h1, h2, h3, h4⟩
      · split
        · refine ⟨?_, h2, h3, later_append _ _ h4 rfl⟩
          intro it hit
          simp at hit
          obtain ⟨it', hit', rfl⟩ := hit
          exact batchOk_cancel _ _ _ (h1 it' hit')
        · exact ⟨h1, h2, h3, h4⟩
    | busy d => exact ⟨h1, h2, h3, h4⟩
    | addFut fid k =>
      simp only [doAct]
      split
      · refine ⟨h1, ?_, h3, h4⟩
        intro it hit
        simp at hit
        rcases hit with hit | hit
        · exact h2 it hit
        · subst hit; simp [nextOk]
      · refine ⟨h1, h2, ?_, h4⟩
        intro w hw
        simp at hw
        rcases hw with hw | hw
        · exact h3 w hw
        · subst hw; simp
    | resolve fid ok =>
      simp only [doAct]
      split
      · exact ⟨h1, h2, h3, h4⟩
      · refine ⟨h1, ?_, ?_, h4⟩
        · intro it hit
          simp at hit
          rcases hit with hit | ⟨a, b, c, ⟨hw, _⟩, rfl⟩
          · exact h2 it hit
          · have := h3 _ hw; simpa [nextOk] using this
        · intro w hw
          simp at hw
          exact h3 w hw.1
  · intro s c _ _ h
    obtain ⟨h1, h2, h3, h4⟩ := h
    unfold finish
    have hl : laterIteration (s.log ++ [Ev.fin c.who c.fin]) := later_append _ _ h4 rfl
    cases hf : c.fin
    · exact ⟨h1, h2, h3, by simpa [hf] using hl⟩
    · refine ⟨h1, h2, h3, ?_⟩
      simp only [hf, emit_log]
      exact later_append _ _ (hf ▸ hl) rfl
    · refine ⟨h1, ?_, h3, by simpa [hf] using hl⟩
      intro it hit
      simp [hf] at hit
      rcases hit with hit | hit
      · exact h2 it hit
      · subst hit; simp [nextOk]
    · refine ⟨h1, ?_, h3, by simpa [hf] using hl⟩
      intro it hit
      simp [hf] at hit
      rcases hit with hit | hit
      · exact h2 it hit
      · subst hit; simp [nextOk]
    · exact ⟨h1, h2, h3, by simpa [hf] using hl⟩
  · intro s it rest _ hb h
    obtain ⟨h1, h2, h3, h4⟩ := h
    have hit := h1 it (by simp [hb])
    have h1' : ∀ x ∈ rest, batchOk s.iter x := fun x hx => h1 x (by simp [hb, hx])
    cases it with
    | cb sid k enq =>
      refine ⟨h1', h2, h3, ?_⟩
      simp only [startItem, startBody_log, emit_log]
      apply later_append _ _ h4
      simp [iterOk]; simp [batchOk] at hit; omega
    | tcb t c =>
      simp only [startItem]
      split
      · exact ⟨h1', h2, h3, h4⟩
      · exact ⟨h1', h2, h3, later_append _ _ h4 rfl⟩
    | fcb fid k added enq =>
      refine ⟨h1', h2, h3, ?_⟩
      simp only [startItem, startBody_log, emit_log]
      apply later_append _ _ h4
      simp [iterOk]; simp [batchOk] at hit; omega
    | discard ok enq =>
      cases ok
      · exact ⟨h1', h2, h3, later_append _ _ h4 rfl⟩
      · exact ⟨h1', h2, h3, h4⟩
  · intro s _ hb h
    obtain ⟨h1, h2, h3, h4⟩ := h
    rw [newIteration_eq]
    refine ⟨?_, by simp, ?_, h4⟩
    · intro it hit
      simp at hit
      rcases hit with hit | ⟨t, _, rfl⟩
      · have := h2 it hit
        cases it <;> simp [nextOk, batchOk] at this ⊢ <;> omega
      · simp [batchOk]
    · intro w hw
      have := h3 w hw
      simp; omega

theorem invE_init (tbl : List Body) (pref : List Nat) (main : List Act) : InvE (init tbl pref main) := by
  simp [InvE, init, laterIteration]

/-! ### (B) deadlines -/

def tcbOk (moved : Int) : Item → Prop
  | .tcb t _ => t.deadline ≤ t.when ∧ t.when ≤ moved
  | _ => True

def noTcb : Item → Prop
  | .tcb _ _ => False
  | _ => True

def InvB (s : Loop) : Prop :=
  (s.moved ≤ s.now ∧ ∀ it ∈ s.next, noTcb it) ∧ (∀ t ∈ s.timers, t.deadline ≤ t.when) ∧
  (∀ it ∈ s.batch, tcbOk s.moved it) ∧ notBeforeDeadline s.log

theorem noTcb_snoc (l : List Item) (x : Item) (h : ∀ it ∈ l, noTcb it) (hx : noTcb x) : ∀ it ∈ l ++ [x], noTcb it := by
  intro it hit
  rcases List.mem_append.mp hit with hit | hit
  · exact h it hit
  · simp at hit; subst hit; exact hx

theorem tcbOk_cancel (m : Int) (h : Nat) (it : Item) (hh : tcbOk m it) : tcbOk m (cancelItem h it) := by
  cases it <;> simpa [cancelItem, tcbOk] using hh

theorem nbd_append (l : List Ev) (e : Ev) (h : notBeforeDeadline l) (he : deadlineOk e = true) :
    notBeforeDeadline (l ++ [e]) := by
  intro x hx
  rcases List.mem_append.mp hx with hx | hx
  · exact h x hx
  · simp at hx; subst hx; exact he

theorem invB_step : ∀ s, InvB s → InvB (step s) := by
  apply step_cases
  · intro s c a rest _ _ h
    obtain ⟨h1, h2, h3, h4⟩ := h
    cases a with
    | addCb k => exact ⟨⟨h1.1, noTcb_snoc _ _ h1.2 trivial⟩, h2, h3, nbd_append _ _ h4 rfl⟩
    | addTmo f arg k name =>
      refine ⟨h1, ?_, h3, nbd_append _ _ h4 rfl⟩
      intro t ht
      simp [doAct] at ht
      rcases ht with ht | ht
      · exact h2 t ht
      · subst ht; simp only; split <;> omega
    | rmTmo name =>
      simp only [doAct]
      split
      · exact ⟨h1, h2, h3, h4⟩
      · split
        · refine ⟨h1, ?_, ?_, nbd_append _ _ h4 rfl⟩
          · intro t ht; simp at ht; exact h2 t ht.1
          · intro it hit
            simp at hit
            obtain ⟨it', hit', rfl⟩ := hit
            exact tcbOk_cancel _ _ _ (h3 it' hit')
        · exact ⟨h1, h2, h3, h4⟩
    | busy d => exact ⟨⟨by simp [doAct] at *; omega, h1.2⟩, h2, h3, h4⟩
    | addFut fid k =>
      simp only [doAct]
      split
      · exact ⟨⟨h1.1, noTcb_snoc _ _ h1.2 trivial⟩, h2, h3, h4⟩
      · exact ⟨h1, h2, h3, h4⟩
    | resolve fid ok =>
      simp only [doAct]
      split
      · exact ⟨h1, h2, h3, h4⟩
      · refine ⟨⟨h1.1, ?_⟩, h2, h3, h4⟩
        intro it hit
        simp at hit
        rcases hit with hit | ⟨a, b, c, _, rfl⟩
        · exact h1.2 it hit
        · trivial
  · intro s c _ _ h
    obtain ⟨h1, h2, h3, h4⟩ := h
    unfold finish
    have hl : notBeforeDeadline (s.log ++ [Ev.fin c.who c.fin]) := nbd_append _ _ h4 rfl
    cases hf : c.fin
    · exact ⟨h1, h2, h3, by simpa [hf] using hl⟩
    · refine ⟨h1, h2, h3, ?_⟩
      simp only [hf, emit_log]
      exact nbd_append _ _ (hf ▸ hl) rfl
    · exact ⟨⟨h1.1, by simpa [hf] using noTcb_snoc _ (.discard false s.iter) h1.2 trivial⟩, h2, h3, by simpa [hf] using hl⟩
    · exact ⟨⟨h1.1, by simpa [hf] using noTcb_snoc _ (.discard true s.iter) h1.2 trivial⟩, h2, h3, by simpa [hf] using hl⟩
    · exact ⟨h1, h2, h3, by simpa [hf] using hl⟩
  · intro s it rest _ hb h
    obtain ⟨h1, h2, h3, h4⟩ := h
    have hit := h3 it (by simp [hb])
    have h3' : ∀ x ∈ rest, tcbOk s.moved x := fun x hx => h3 x (by simp [hb, hx])
    cases it with
    | cb sid k enq => exact ⟨h1, h2, h3', nbd_append _ _ h4 rfl⟩
    | tcb t c =>
      simp only [startItem]
      split
      · exact ⟨h1, h2, h3', h4⟩
      · refine ⟨h1, h2, h3', ?_⟩
        simp only [startBody_log, emit_log]
        apply nbd_append _ _ h4
        simp [tcbOk] at hit
        simp [deadlineOk]
        have := h1.1
        constructor <;> omega
    | fcb fid k added enq => exact ⟨h1, h2, h3', nbd_append _ _ h4 rfl⟩
    | discard ok enq =>
      cases ok
      · exact ⟨h1, h2, h3', nbd_append _ _ h4 rfl⟩
      · exact ⟨h1, h2, h3', h4⟩
  · intro s _ hb h
    obtain ⟨h1, h2, h3, h4⟩ := h
    rw [newIteration_eq]
    refine ⟨by simp, ?_, ?_, h4⟩
    · intro t ht; simp at ht; exact h2 t ht.1
    · intro it hit
      simp at hit
      rcases hit with hit | ⟨t, ht, rfl⟩
      · -- items appended during an iteration are never timer handles
        have := h1.2 it hit
        cases it <;> simp [tcbOk, noTcb] at this ⊢
      · rw [mem_sortT] at ht
        simp at ht
        exact ⟨h2 t ht.1, ht.2⟩

theorem invB_init (tbl : List Body) (pref : List Nat) (main : List Act) : InvB (init tbl pref main) := by
  simp [InvB, init, notBeforeDeadline]

/-! ### (D) removal -/

def tcbFresh (n : Nat) : Item → Prop
  | .tcb t _ => t.h < n
  | _ => True

/-- a removed handle, if still in the batch, is marked cancelled -/
def tcbDead (h : Nat) : Item → Prop
  | .tcb t c => t.h = h → c = true
  | _ => True

def InvD (s : Loop) : Prop :=
  ((∀ t ∈ s.timers, t.h < s.nextH) ∧ (∀ it ∈ s.batch, tcbFresh s.nextH it) ∧ (∀ v ∈ s.vars, v.2 < s.nextH) ∧
    (∀ h ∈ s.removed, h < s.nextH) ∧ (∀ it ∈ s.next, noTcb it)) ∧
  (∀ h ∈ s.removed, (∀ t ∈ s.timers, t.h ≠ h) ∧ (∀ it ∈ s.batch, tcbDead h it)) ∧
  (∀ e ∈ s.log, ∀ h, removedOf e = some h → h ∈ s.removed) ∧
  removedNeverRuns s.log

theorem rnr_append (l : List Ev) (e : Ev) (h : removedNeverRuns l) (he : ∀ a ∈ l, notRanAfter a e = true) :
    removedNeverRuns (l ++ [e]) := by
  unfold removedNeverRuns at *
  rw [List.pairwise_append]
  refine ⟨h, by simp, ?_⟩
  intro a ha b hb
  simp at hb; subst hb; exact he a ha

/-- an event that is not a `ranT` can be appended freely -/
theorem notRanAfter_of_not_ran (a e : Ev) (he : ∀ h, isRanOf h e = false) : notRanAfter a e = true := by
  unfold notRanAfter
  cases removedOf a <;> simp [he]

theorem removedOf_mem_append (l : List Ev) (e : Ev) (R : List Nat)
    (h : ∀ x ∈ l, ∀ h, removedOf x = some h → h ∈ R) (he : removedOf e = none) :
    ∀ x ∈ l ++ [e], ∀ h, removedOf x = some h → h ∈ R := by
  intro x hx hh hr
  rcases List.mem_append.mp hx with hx | hx
  · exact h x hx hh hr
  · simp at hx; subst hx; rw [he] at hr; cases hr

/-- appending a non-`ranT`, non-`removed` event keeps the log part of the invariant -/
theorem invD_emit (s : Loop) (e : Ev) (h : InvD s) (h1 : ∀ h, isRanOf h e = false) (h2 : removedOf e = none) :
    InvD (emit s e) := by
  obtain ⟨a, b, c, d⟩ := h
  exact ⟨a, b, removedOf_mem_append _ _ _ c h2, rnr_append _ _ d (fun x _ => notRanAfter_of_not_ran x e h1)⟩

theorem tcbDead_cancel (h h' : Nat) (it : Item) (hh : tcbDead h it) : tcbDead h (cancelItem h' it) := by
  cases it with
  | tcb t c => simp [cancelItem, tcbDead] at hh ⊢; intro e; simp [hh e]
  | _ => simp [cancelItem, tcbDead]

theorem tcbDead_cancel_self (h : Nat) (it : Item) : tcbDead h (cancelItem h it) := by
  cases it with
  | tcb t c => simp [cancelItem, tcbDead]; intro e; simp [e]
  | _ => simp [cancelItem, tcbDead]

theorem tcbFresh_cancel (n h : Nat) (it : Item) (hh : tcbFresh n it) : tcbFresh n (cancelItem h it) := by
  cases it <;> simpa [cancelItem, tcbFresh] using hh

theorem mem_lookup {α β} [BEq α] [LawfulBEq α] (l : List (α × β)) (a : α) (b : β) (h : l.lookup a = some b) :
    (a, b) ∈ l := by
  induction l with
  | nil => simp at h
  | cons x xs ih =>
    obtain ⟨k, v⟩ := x
    simp only [List.lookup_cons] at h
    split at h
    · next heq => simp at heq; cases h; simp [heq]
    · exact List.mem_cons_of_mem _ (ih h)

theorem invD_step : ∀ s, InvD s → InvD (step s) := by
  apply step_cases
  · intro s c a rest _ _ h
    cases a with
    | addCb k =>
      have h' : InvD { s with cur := some { c with acts := rest }, next := s.next ++ [.cb s.nextS k s.iter], nextS := s.nextS + 1 } := by
        obtain ⟨⟨a1, a2, a3, a4, a5⟩, b, c', d⟩ := h
        exact ⟨⟨a1, a2, a3, a4, noTcb_snoc _ _ a5 trivial⟩, b, c', d⟩
      exact invD_emit _ _ h' (fun _ => rfl) rfl
    | addTmo f arg k name =>
      obtain ⟨⟨a1, a2, a3, a4, a5⟩, b, c', d⟩ := h
      refine ⟨⟨?_, ?_, ?_, ?_, a5⟩, ?_, removedOf_mem_append _ _ _ c' rfl,
        rnr_append _ _ d (fun x _ => notRanAfter_of_not_ran x _ (fun _ => rfl))⟩
      · intro t ht
        simp [doAct] at ht ⊢
        rcases ht with ht | ht
        · have := a1 t ht; omega
        · subst ht; simp
      · intro it hit
        have := a2 it hit
        cases it <;> simp [tcbFresh, doAct] at this ⊢; omega
      · intro v hv
        simp [doAct] at hv ⊢
        rcases hv with hv | hv
        · subst hv; simp
        · have := a3 v hv; omega
      · intro h hh; have := a4 h hh; simp [doAct]; omega
      · intro h hh
        obtain ⟨b1, b2⟩ := b h hh
        refine ⟨?_, b2⟩
        intro t ht
        simp [doAct] at ht
        rcases ht with ht | ht
        · exact b1 t ht
        · subst ht; have := a4 h hh; simp; omega
    | rmTmo name =>
      simp only [doAct]
      split
      · exact h
      · next h0 hlk =>
        split
        · obtain ⟨⟨a1, a2, a3, a4, a5⟩, b, c', d⟩ := h
          have hfresh : h0 < s.nextH := a3 (name, h0) (mem_lookup _ _ _ hlk)
          refine ⟨⟨?_, ?_, a3, ?_, a5⟩, ?_, ?_, ?_⟩
          · intro t ht; simp at ht; exact a1 t ht.1
          · intro it hit
            simp at hit
            obtain ⟨it', hit', rfl⟩ := hit
            exact tcbFresh_cancel _ _ _ (a2 it' hit')
          · intro h hh
            simp at hh
            rcases hh with hh | hh
            · subst hh; exact hfresh
            · exact a4 h hh
          · intro h hh
            simp at hh
            rcases hh with hh | hh
            · subst hh
              refine ⟨?_, ?_⟩
              · intro t ht; simp at ht; exact ht.2
              · intro it hit
                simp at hit
                obtain ⟨it', _, rfl⟩ := hit
                exact tcbDead_cancel_self _ _
            · obtain ⟨b1, b2⟩ := b h hh
              refine ⟨?_, ?_⟩
              · intro t ht; simp at ht; exact b1 t ht.1
              · intro it hit
                simp at hit
                obtain ⟨it', hit', rfl⟩ := hit
                exact tcbDead_cancel _ _ _ (b2 it' hit')
          · intro x hx hh hr
            simp at hx
            rcases hx with hx | hx
            · simp; right; exact c' x hx hh hr
            · subst hx; simp at hr; subst hr; simp
          · simp only [emit_log]
            exact rnr_append _ _ d (fun x _ => notRanAfter_of_not_ran x _ (fun _ => rfl))
        · exact h
    | busy d => exact h
    | addFut fid k =>
      simp only [doAct]
      split
      · obtain ⟨⟨a1, a2, a3, a4, a5⟩, b, c', d⟩ := h
        exact ⟨⟨a1, a2, a3, a4, noTcb_snoc _ _ a5 trivial⟩, b, c', d⟩
      · exact h
    | resolve fid ok =>
      simp only [doAct]
      split
      · exact h
      · obtain ⟨⟨a1, a2, a3, a4, a5⟩, b, c', d⟩ := h
        refine ⟨⟨a1, a2, a3, a4, ?_⟩, b, c', d⟩
        intro it hit
        simp at hit
        rcases hit with hit | ⟨_, _, _, _, rfl⟩
        · exact a5 it hit
        · trivial
  · intro s c _ _ h
    unfold finish
    have h0 : InvD (emit { s with cur := none } (.fin c.who c.fin)) := invD_emit _ _ h (fun _ => rfl) rfl
    cases hf : c.fin
    · simpa [hf] using h0
    · simp only [hf] at h0 ⊢
      exact invD_emit _ _ h0 (fun _ => rfl) rfl
    · simp only [hf] at h0 ⊢
      obtain ⟨⟨a1, a2, a3, a4, a5⟩, b, c', d⟩ := h0
      exact ⟨⟨a1, a2, a3, a4, noTcb_snoc _ _ a5 trivial⟩, b, c', d⟩
    · simp only [hf] at h0 ⊢
      obtain ⟨⟨a1, a2, a3, a4, a5⟩, b, c', d⟩ := h0
      exact ⟨⟨a1, a2, a3, a4, noTcb_snoc _ _ a5 trivial⟩, b, c', d⟩
    · simpa [hf] using h0
  · intro s it rest _ hb h
    have hpop : InvD { s with batch := rest } := by
      obtain ⟨⟨a1, a2, a3, a4, a5⟩, b, c', d⟩ := h
      refine ⟨⟨a1, fun x hx => a2 x (by simp [hb, hx]), a3, a4, a5⟩, ?_, c', d⟩
      intro h hh
      exact ⟨(b h hh).1, fun x hx => (b h hh).2 x (by simp [hb, hx])⟩
    cases it with
    | cb sid k enq => exact invD_emit _ _ hpop (fun _ => rfl) rfl
    | tcb t c =>
      simp only [startItem]
      split
      · exact hpop
      · next hc =>
        obtain ⟨a, b, c', d⟩ := hpop
        refine ⟨a, b, removedOf_mem_append _ _ _ c' rfl, ?_⟩
        simp only [startBody_log, emit_log]
        apply rnr_append _ _ d
        intro x hx
        unfold notRanAfter
        cases hr : removedOf x with
        | none => rfl
        | some h' =>
          simp only [isRanOf, Bool.not_eq_true', beq_eq_false_iff_ne, ne_eq]
          intro heq
          have hmem := c' x hx h' hr
          have := (h.2.1 h' hmem).2 (.tcb t c) (by simp [hb])
          simp [tcbDead] at this
          exact hc (this heq)
    | fcb fid k added enq => exact invD_emit _ _ hpop (fun _ => rfl) rfl
    | discard ok enq =>
      cases ok
      · exact invD_emit _ _ hpop (fun _ => rfl) rfl
      · exact hpop
  · intro s _ hb h
    obtain ⟨⟨a1, a2, a3, a4, a5⟩, b, c', d⟩ := h
    rw [newIteration_eq]
    refine ⟨⟨?_, ?_, a3, a4, by simp⟩, ?_, c', d⟩
    · intro t ht; simp at ht; exact a1 t ht.1
    · intro it hit
      simp at hit
      rcases hit with hit | ⟨t, ht, rfl⟩
      · have := a5 it hit
        cases it <;> simp [tcbFresh, noTcb] at this ⊢
      · rw [mem_sortT] at ht; simp at ht
        exact a1 t ht.1
    · intro h hh
      obtain ⟨b1, _⟩ := b h hh
      refine ⟨?_, ?_⟩
      · intro t ht; simp at ht; exact b1 t ht.1
      · intro it hit
        simp at hit
        rcases hit with hit | ⟨t, ht, rfl⟩
        · have := a5 it hit
          cases it <;> simp [tcbDead, noTcb] at this ⊢
        · rw [mem_sortT] at ht; simp at ht
          intro e; exact absurd e (b1 t ht.1)

theorem invD_init (tbl : List Body) (pref : List Nat) (main : List Act) : InvD (init tbl pref main) := by
  simp [InvD, init, removedNeverRuns]

end TornadoModel.C38
