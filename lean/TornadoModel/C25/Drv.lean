/- C25 driver: `C25 run [args,…]`, `C25 serve [[clear|[cookie,args],…],[ending,param]]`, `C25 quote|unquote|parse <text>`, `C25 read <set-cookie value>` -/
import TornadoModel.Base.Wire
import TornadoModel.C25.Spec
namespace TornadoModel.C25.Drv
open TornadoModel TornadoModel.Wire TornadoModel.C25

def decCVal (v : V) : Option CVal :=
  match v with
  | .list [.atom "s", x] => x.cps?.map CVal.str
  | .list [.atom "b", x] => x.byteNats?.map CVal.bytes
  | _ => none

def decOptStr (v : V) : Option (Option Str) := if v.isNone then some none else v.cps?.map some

def decKw (v : V) : Option (Str × KwVal) :=
  match v with
  | .list [k, .list [.atom "s", x]] => do pure (← k.cps?, .str (← x.cps?))
  | .list [k, .list [.atom "f", b]] => do pure (← k.cps?, .flag (← b.bool?))
  | _ => none

/-- `[name, value, domain, expires, path, max_age, httponly, secure, samesite, [kwargs]]` -/
def decArgs (v : V) : Option CookieArgs :=
  match v with
  | .list [n, x, dom, exp, path, ma, ho, se, ss, .list kws] => do
    let maxAge : Option Int ← (if ma.isNone then some none else ma.int?.map some)
    pure { name := ← decCVal n, value := ← decCVal x, domain := ← decOptStr dom, expires := ← decOptStr exp,
           path := ← decOptStr path, maxAge := maxAge,
           httponly := ← ho.bool?, secure := ← se.bool?, samesite := ← decOptStr ss, kwargs := ← kws.mapM decKw }
  | _ => none

def encErr : Err → V
  | .valueError => .atom "ValueError"
  | .cookieError => .atom "CookieError"
  | .unicodeDecode => .atom "UnicodeDecodeError"
  | .unicodeEncode => .atom "UnicodeEncodeError"
  | .httpInput => .atom "HTTPInputError"
  | .typeError => .atom "TypeError"

def encOut : Option Err → V
  | none => .atom "ok"
  | some e => encErr e

def encPairs (ps : List (Str × Str)) : V := .list (ps.map (fun (k, v) => .list [V.ofCps k, V.ofCps v]))

def encAttr (a : Spec.Attr) : V := .list [V.ofCps a.1, match a.2 with | some v => V.ofCps v | none => .none]

def encMorsel (m : Morsel) : V :=
  .list [V.ofCps m.key, V.ofCps m.value, V.ofCps m.coded, .list ((Spec.requested m).map encAttr)]

/-- `clear` or `[cookie, args]` -/
def decHOp (v : V) : Option HOp :=
  match v with
  | .atom "clear" => some .clear
  | .list [.atom "cookie", a] => (decArgs a).map .cookie
  | _ => none

/-- `[kind, parameter]` -/
def decEnding (v : V) : Option Ending :=
  match v with
  | .list [.atom "finish", _] => some .finish
  | .list [.atom "finishChunk", _] => some .finishChunk
  | .list [.atom "autoFinish", _] => some .autoFinish
  | .list [.atom "raiseFinish", _] => some .raiseFinish
  | .list [.atom "sendError", c] => c.nat?.map .sendError
  | .list [.atom "raiseHTTP", c] => c.nat?.map .raiseHTTP
  | .list [.atom "missingArg", _] => some .missingArg
  | .list [.atom "raiseOther", _] => some .raiseOther
  | .list [.atom "redirect", p] => p.bool?.map .redirect
  | _ => none

def handle (toks : List String) : String :=
  match toks with
  | [cmd, arg] =>
    match V.parse arg with
    | none => err "bad-arg"
    | some a =>
      match cmd with
      | "run" => match a.list? >>= (·.mapM decArgs) with
        | some calls =>
          let r := runJar [] calls
          ok [.list (r.2.map encOut),
              (match flushCookies r.1 with
               | .ok l => .list (l.map V.ofCps)
               | .error e => encErr e),
              .list (r.1.map encMorsel)]
        | none => err "bad-op"
      | "serve" => match a with
        | .list [.list ops, e] => match ops.mapM decHOp, decEnding e with
          | some ops, some e =>
            let r := serveHandler ops e
            (match r.2 with
             | .ok (st, l) => ok [.list (r.1.map encOut), .list (l.map V.ofCps), .int st]
             | .error x => ok [.list (r.1.map encOut), encErr x, .none])
          | _, _ => err "bad-op"
        | _ => err "bad-op"
      | "quote" => match a.cps? with
        | some t => ok [V.ofCps (quote t)]
        | none => err "bad-arg"
      | "unquote" => match a.cps? with
        | some t => ok [V.ofCps (unquote t)]
        | none => err "bad-arg"
      | "parse" => match a.cps? with
        | some t => ok [encPairs (parseCookie t)]
        | none => err "bad-arg"
      | "read" => match a.cps? with
        | some t => match Spec.readSetCookie t with
          | some (first, attrs) => ok [V.ofCps first, .list (attrs.map encAttr)]
          | none => ok [.atom "Malformed"]
        | none => err "bad-arg"
      | _ => err "bad-cmd"
  | _ => err "bad-line"

end TornadoModel.C25.Drv
