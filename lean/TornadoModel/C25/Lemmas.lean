/- C25 — helper lemmas (core Lean only) -/
import TornadoModel.C25.Spec
namespace TornadoModel.C25
open Spec

/-! ### quoting -/

theorem legal_facts {c : Nat} (h : isLegalChar c = true) :
    33 ≤ c ∧ c ≤ 126 ∧ c ≠ 34 ∧ c ≠ 59 ∧ c ≠ 61 ∧ c ≠ 92 ∧ c ≠ 44 := by
  simp only [isLegalChar, isAlnum, Bool.or_eq_true, Bool.and_eq_true, decide_eq_true_eq, beq_iff_eq] at h
  omega

theorem unqAt_skip (p r : Str) : unqAt (p ++ r) p.length = unqAt r 0 := by
  induction p with
  | nil => rfl
  | cons c p ih => simpa [unqAt] using ih

theorem unqAt_plain (c : Nat) (r : Str) (h : c ≠ 92) : unqAt (c :: r) 0 = c :: unqAt r 0 := by
  simp [unqAt, h]

theorem unqAt_esc (a : Nat) (r : Str) (h1 : isOct03 a = false) (h2 : a ≠ 10) :
    unqAt (92 :: a :: r) 0 = a :: unqAt r 0 := by
  rcases r with _ | ⟨x, _ | ⟨y, r⟩⟩ <;> simp [unqAt, h1, h2]

theorem unqAt_oct (c : Nat) (r : Str) (h : c < 256) : unqAt (octal3 c ++ r) 0 = c :: unqAt r 0 := by
  have h1 : isOct03 (48 + c / 64) = true := by simp [isOct03]; omega
  have h2 : isOct07 (48 + c / 8 % 8) = true := by simp [isOct07]; omega
  have h3 : isOct07 (48 + c % 8) = true := by simp [isOct07]; omega
  have hv : (48 + c / 64 - 48) * 64 + (48 + c / 8 % 8 - 48) * 8 + (48 + c % 8 - 48) = c := by omega
  simp only [octal3, List.cons_append, List.nil_append, unqAt, ↓reduceIte, h1, h2, h3, Bool.and_self, hv]

theorem unqAt_translate (c : Nat) (r : Str) : unqAt (translate c ++ r) 0 = c :: unqAt r 0 := by
  unfold translate
  split
  · rename_i h; subst h; exact unqAt_esc 34 r (by decide) (by decide)
  · split
    · rename_i h; subst h; exact unqAt_esc 92 r (by decide) (by decide)
    · split
      · rename_i h
        simp only [Bool.and_eq_true, decide_eq_true_eq] at h
        exact unqAt_oct c r h.1
      · rename_i h92 _
        exact unqAt_plain c r h92

theorem unqAt_flatMap (s r : Str) : unqAt (s.flatMap translate ++ r) 0 = s ++ unqAt r 0 := by
  induction s with
  | nil => rfl
  | cons c s ih => simp only [List.flatMap_cons, List.append_assoc, unqAt_translate, ih, List.cons_append]

/-! ### the jar -/

theorem setAttr_key (m : Morsel) (k : Str) (v : KwVal) : (setAttr m k v).key = m.key := by
  unfold setAttr
  simp only
  repeat' split
  all_goals rfl

theorem applyKwargs_key (m : Morsel) (kws : List (Str × KwVal)) : (applyKwargs m kws).1.key = m.key := by
  induction kws generalizing m with
  | nil => rfl
  | cons kv rest ih =>
    obtain ⟨k, v⟩ := kv
    simp only [applyKwargs]
    split
    · rw [ih, setAttr_key]
    · rfl

/-- the jar after `set_cookie`: entries under other names untouched and in order, then the morsel this
call builds on its own; a call that raises leaves the jar as it was -/
theorem setCookie_eq (j : Jar) (a : CookieArgs) :
    setCookie j a = (match setCookie [] a with
      | ([m], e) => (jarErase j m.key ++ [m], e)
      | (_, e) => (j, e)) := by
  unfold setCookie
  cases buildMorsel a with
  | error e => rfl
  | ok m => simp [jarErase]

/-- on the empty jar a returning call leaves exactly one morsel -/
theorem setCookie_nil_ok (a : CookieArgs) (h : (setCookie [] a).2 = none) : ∃ m, setCookie [] a = ([m], none) := by
  unfold setCookie at h ⊢
  cases hb : buildMorsel a with
  | error e => rw [hb] at h; cases h
  | ok m => exact ⟨m, by simp [jarErase]⟩

/-- a returning call, on any jar, is a successful `buildMorsel` -/
theorem setCookie_ok_iff (j j' : Jar) (a : CookieArgs) :
    setCookie j a = (j', none) ↔ ∃ m, buildMorsel a = .ok m ∧ j' = jarErase j m.key ++ [m] := by
  unfold setCookie
  cases hb : buildMorsel a with
  | error e => simp
  | ok m =>
    simp only [Prod.mk.injEq, and_true, Except.ok.injEq, exists_eq_left']
    exact eq_comm

/-- a call that raises leaves the jar untouched -/
theorem setCookie_raise_jar (j : Jar) (a : CookieArgs) (e : Err) (h : (setCookie j a).2 = some e) :
    (setCookie j a).1 = j := by
  unfold setCookie at h ⊢
  cases hb : buildMorsel a with
  | error e => rfl
  | ok m => rw [hb] at h; cases h

theorem jarErase_no_key (j : Jar) (k : Str) : ∀ x ∈ jarErase j k, x.key ≠ k := by
  intro x hx
  simp only [jarErase, List.mem_filter, bne_iff_ne, ne_eq] at hx
  exact hx.2

/-- names in the outgoing jar stay pairwise distinct: one `Set-Cookie` per name -/
theorem setCookie_nodup (j : Jar) (a : CookieArgs) (h : (j.map (·.key)).Nodup) :
    ((setCookie j a).1.map (·.key)).Nodup := by
  rw [setCookie_eq]
  split
  · rename_i m e _
    simp only [List.map_append, List.map_cons, List.map_nil]
    rw [List.nodup_append]
    refine ⟨?_, by simp, ?_⟩
    · exact List.Nodup.sublist (List.Sublist.map _ (List.filter_sublist)) h
    · intro x hx y hy
      simp only [List.mem_cons, List.not_mem_nil, or_false] at hy
      subst hy
      simp only [List.mem_map] at hx
      obtain ⟨z, hz, rfl⟩ := hx
      exact jarErase_no_key j m.key z hz
  · exact h

/-! ### parse_cookie on a single pair -/

theorem translate_no59 (c x : Nat) (h : x ∈ translate c) : x ≠ 59 := by
  unfold translate at h
  split at h
  · simp at h; omega
  · split at h
    · simp at h; omega
    · split at h
      · rename_i hc
        simp only [Bool.and_eq_true, decide_eq_true_eq] at hc
        simp only [octal3, List.mem_cons, List.not_mem_nil, or_false] at h
        omega
      · rename_i hc
        simp only [List.mem_cons, List.not_mem_nil, or_false] at h
        subst h
        intro he
        subst he
        exact hc (by decide)

theorem quote_no59 (v : Str) : ∀ x ∈ quote v, x ≠ 59 := by
  intro x hx
  unfold quote at hx
  split at hx
  · rename_i hk
    simp only [isLegalKey, Bool.and_eq_true] at hk
    exact (legal_facts (List.all_eq_true.mp hk.2 x hx)).2.2.2.1
  · simp only [List.mem_cons, List.mem_append, List.mem_flatMap, List.not_mem_nil, or_false] at hx
    rcases hx with rfl | ⟨c, _, hc⟩ | rfl
    · decide
    · exact translate_no59 c x hc
    · decide

theorem splitOn_none (sep : Nat) (s : Str) (h : ∀ x ∈ s, x ≠ sep) : splitOn sep s = [s] := by
  induction s with
  | nil => rfl
  | cons c cs ih =>
    have hc : c ≠ sep := h c (by simp)
    simp [splitOn, hc, ih (fun x hx => h x (by simp [hx]))]

theorem span_loop_at (k q acc : Str) (h : ∀ x ∈ k, x ≠ 61) :
    List.span.loop (· != 61) (k ++ 61 :: q) acc = (acc.reverse ++ k, 61 :: q) := by
  induction k generalizing acc with
  | nil => simp [List.span.loop]
  | cons c cs ih =>
    have hc : c ≠ 61 := h c (by simp)
    have := ih (c :: acc) (fun x hx => h x (by simp [hx]))
    have hb : (c != 61) = true := by simp [hc]
    simp only [List.cons_append, List.span.loop, hb]
    simpa using this

theorem span_at (k q : Str) (h : ∀ x ∈ k, x ≠ 61) :
    (k ++ 61 :: q).span (· != 61) = (k, 61 :: q) := by
  simpa [List.span] using span_loop_at k q [] h

theorem splitEq_at (k q : Str) (h : ∀ x ∈ k, x ≠ 61) : splitEq (k ++ 61 :: q) = (k, q) := by
  simp [splitEq, span_at k q h]

theorem strip_id (s : Str) (hh : ∀ c, s.head? = some c → isPySpace c = false)
    (hl : ∀ c, s.getLast? = some c → isPySpace c = false) : strip s = s := by
  cases s with
  | nil => rfl
  | cons c t =>
    have h1 : (c :: t).dropWhile isPySpace = c :: t := by simp [List.dropWhile, hh c rfl]
    unfold strip
    rw [h1]
    cases hr : (c :: t).reverse with
    | nil => simp at hr
    | cons d r =>
      have hd : (c :: t).getLast? = some d := by rw [← List.head?_reverse, hr]; rfl
      have h2 : (d :: r).dropWhile isPySpace = d :: r := by simp [List.dropWhile, hl d hd]
      rw [h2, ← hr, List.reverse_reverse]

theorem legal_not_space {c : Nat} (h : isLegalChar c = true) : isPySpace c = false := by
  have := legal_facts h
  simp [isPySpace]
  omega

theorem strip_legal (s : Str) (h : s.all isLegalChar = true) : strip s = s := by
  apply strip_id
  · intro c hc
    exact legal_not_space (List.all_eq_true.mp h c (List.mem_of_mem_head? hc))
  · intro c hc
    exact legal_not_space (List.all_eq_true.mp h c (List.mem_of_getLast? hc))

theorem strip_quote (v : Str) : strip (quote v) = quote v := by
  unfold quote
  split
  · rename_i hk
    simp only [isLegalKey, Bool.and_eq_true] at hk
    exact strip_legal v hk.2
  · apply strip_id
    · intro c hc
      simp at hc
      subst hc
      decide
    · intro c hc
      have e : 34 :: (v.flatMap translate ++ [34]) = (34 :: v.flatMap translate) ++ [34] := rfl
      rw [e, List.getLast?_concat] at hc
      simp at hc
      subst hc
      decide

/-! ### reading a Set-Cookie value back -/

theorem splitOn_append (p r : Str) (h : ∀ x ∈ p, x ≠ 59) :
    splitOn 59 (p ++ 59 :: r) = p :: splitOn 59 r := by
  induction p with
  | nil => simp [splitOn]
  | cons c cs ih =>
    have hc : c ≠ 59 := h c (by simp)
    simp [splitOn, hc, ih (fun x hx => h x (by simp [hx]))]

theorem split_join (p : Str) (ps : List Str) (h : ∀ q ∈ p :: ps, ∀ x ∈ q, x ≠ 59) :
    splitOn 59 (joinWith [59, 32] (p :: ps)) = p :: ps.map (32 :: ·) := by
  induction ps generalizing p with
  | nil => simpa [joinWith] using splitOn_none 59 p (h p (by simp))
  | cons q qs ih =>
    have hp := h p (by simp)
    have := ih q (fun z hz => h z (by simp at hz ⊢; right; exact hz))
    simp only [joinWith, List.cons_append, List.nil_append, List.append_assoc]
    rw [splitOn_append p _ hp]
    simp only [splitOn, show (32 : Nat) ≠ 59 by decide, ↓reduceIte, this, List.map_cons]

theorem mapM_dropSp (ps : List Str) : (ps.map (32 :: ·)).mapM dropSp = some ps := by
  induction ps with
  | nil => rfl
  | cons p ps ih => simp [List.mapM_cons, dropSp, ih]


theorem span_loop_no61 (k acc : Str) (h : ∀ x ∈ k, x ≠ 61) :
    List.span.loop (· != 61) k acc = (acc.reverse ++ k, []) := by
  induction k generalizing acc with
  | nil => simp [List.span.loop]
  | cons c cs ih =>
    have hc : c ≠ 61 := h c (by simp)
    have hb : (c != 61) = true := by simp [hc]
    have := ih (c :: acc) (fun x hx => h x (by simp [hx]))
    simp only [List.span.loop, hb]
    simpa using this

theorem readAttr_kv (k v : Str) (h : ∀ x ∈ k, x ≠ 61) : readAttr (kv k v) = (k, some v) := by
  have := span_loop_at k v [] h
  simp only [List.reverse_nil, List.nil_append] at this
  simp [readAttr, kv, List.span, this]

theorem readAttr_flag (k : Str) (h : ∀ x ∈ k, x ≠ 61) : readAttr k = (k, none) := by
  have := span_loop_no61 k [] h
  simp only [List.reverse_nil, List.nil_append] at this
  simp [readAttr, List.span, this]

/-- the text attributes and the two value parts carry no `;` -/
def MorselClean (m : Morsel) : Prop :=
  (∀ x ∈ m.key, x ≠ 59) ∧ (∀ x ∈ m.coded, x ≠ 59) ∧ (∀ x ∈ m.domain, x ≠ 59) ∧ (∀ x ∈ m.expires, x ≠ 59) ∧
  (∀ x ∈ m.maxAge, x ≠ 59) ∧ (∀ x ∈ m.path, x ≠ 59) ∧ (∀ x ∈ m.samesite, x ≠ 59) ∧ (∀ x ∈ m.version, x ≠ 59)

theorem optAttr_read (k v : Str) (h : ∀ x ∈ k, x ≠ 61) : (optAttr k v).map readAttr = reqAttr k v := by
  unfold optAttr reqAttr
  split <;> simp [readAttr_kv k v h]

theorem optFlag_read (k : Str) (b : Bool) (h : ∀ x ∈ k, x ≠ 61) : (optFlag k b).map readAttr = reqFlag k b := by
  unfold optFlag reqFlag
  split <;> simp [readAttr_flag k h]

theorem attrParts_read (m : Morsel) : (attrParts m).map readAttr = requested m := by
  unfold attrParts requested
  simp only [List.map_append, optAttr_read _ _ (by decide : ∀ x ∈ dDomain, x ≠ 61),
    optAttr_read _ _ (by decide : ∀ x ∈ dExpires, x ≠ 61), optAttr_read _ _ (by decide : ∀ x ∈ dMaxAge, x ≠ 61),
    optAttr_read _ _ (by decide : ∀ x ∈ dPath, x ≠ 61), optAttr_read _ _ (by decide : ∀ x ∈ dSameSite, x ≠ 61),
    optAttr_read _ _ (by decide : ∀ x ∈ dVersion, x ≠ 61), optFlag_read _ _ (by decide : ∀ x ∈ dHttpOnly, x ≠ 61),
    optFlag_read _ _ (by decide : ∀ x ∈ dSecure, x ≠ 61)]
  congr 1
  split <;> simp [readAttr_kv dComment _ (by decide : ∀ x ∈ dComment, x ≠ 61)]


theorem kv_no59 (k v : Str) (hk : ∀ x ∈ k, x ≠ 59) (hv : ∀ x ∈ v, x ≠ 59) : ∀ x ∈ kv k v, x ≠ 59 := by
  intro x hx
  simp only [kv, List.mem_append, List.mem_cons] at hx
  rcases hx with hx | rfl | hx
  · exact hk x hx
  · decide
  · exact hv x hx

theorem optAttr_no59 (k v : Str) (hk : ∀ x ∈ k, x ≠ 59) (hv : ∀ x ∈ v, x ≠ 59) :
    ∀ q ∈ optAttr k v, ∀ x ∈ q, x ≠ 59 := by
  intro q hq
  unfold optAttr at hq
  split at hq
  · simp at hq
  · simp only [List.mem_cons, List.not_mem_nil, or_false] at hq
    subst hq
    exact kv_no59 k v hk hv

theorem optFlag_no59 (k : Str) (b : Bool) (hk : ∀ x ∈ k, x ≠ 59) : ∀ q ∈ optFlag k b, ∀ x ∈ q, x ≠ 59 := by
  intro q hq
  unfold optFlag at hq
  split at hq
  · simp only [List.mem_cons, List.not_mem_nil, or_false] at hq
    subst hq
    exact hk
  · simp at hq

theorem attrParts_no59 (m : Morsel) (h : MorselClean m) : ∀ q ∈ attrParts m, ∀ x ∈ q, x ≠ 59 := by
  obtain ⟨_, _, hd, he, hm, hp, hs, hv⟩ := h
  intro q hq
  unfold attrParts at hq
  simp only [List.mem_append] at hq
  rcases hq with (((((((hq | hq) | hq) | hq) | hq) | hq) | hq) | hq) | hq
  · split at hq
    · simp at hq
    · simp only [List.mem_cons, List.not_mem_nil, or_false] at hq
      subst hq
      exact kv_no59 _ _ (by decide) (quote_no59 _)
  · exact optAttr_no59 _ _ (by decide) hd q hq
  · exact optAttr_no59 _ _ (by decide) he q hq
  · exact optFlag_no59 _ _ (by decide) q hq
  · exact optAttr_no59 _ _ (by decide) hm q hq
  · exact optAttr_no59 _ _ (by decide) hp q hq
  · exact optAttr_no59 _ _ (by decide) hs q hq
  · exact optFlag_no59 _ _ (by decide) q hq
  · exact optAttr_no59 _ _ (by decide) hv q hq

end TornadoModel.C25
