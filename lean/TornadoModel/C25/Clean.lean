/- C25 — what an accepted `set_cookie` call builds: every text attribute of the Morsel is free of `;` and of control
   characters (core Lean only).  Generic over a set `B` of forbidden characters contained in `[\x00-\x1f\x3b\x7f]`,
   so the same induction gives `MorselClean` (B = {`;`}) and `MorselStrict` (B = the whole class). -/
import TornadoModel.C25.Lemmas
namespace TornadoModel.C25
open Spec

/-- the eight texts that `OutputString` emits verbatim hold no character of `B` -/
def TextsAvoid (B : Nat → Bool) (m : Morsel) : Prop :=
  (∀ x ∈ m.key, B x = false) ∧ (∀ x ∈ m.coded, B x = false) ∧ (∀ x ∈ m.domain, B x = false) ∧
  (∀ x ∈ m.expires, B x = false) ∧ (∀ x ∈ m.maxAge, B x = false) ∧ (∀ x ∈ m.path, B x = false) ∧
  (∀ x ∈ m.samesite, B x = false) ∧ (∀ x ∈ m.version, B x = false)

/-- no `;`, no C0 control character, no DEL in any text that is emitted verbatim -/
def MorselStrict (m : Morsel) : Prop := TextsAvoid badKwChar m

theorem textsAvoid_clean {m : Morsel} (h : TextsAvoid (· == 59) m) : MorselClean m := by
  obtain ⟨h1, h2, h3, h4, h5, h6, h7, h8⟩ := h
  have t : ∀ l : Str, (∀ x ∈ l, (x == 59) = false) → ∀ x ∈ l, x ≠ 59 := fun l hl x hx => by
    simpa using hl x hx
  exact ⟨t _ h1, t _ h2, t _ h3, t _ h4, t _ h5, t _ h6, t _ h7, t _ h8⟩

theorem badKw_59 : ∀ c, (c == 59) = true → badKwChar c = true := by
  intro c h
  simp only [beq_iff_eq] at h
  subst h
  decide

theorem strict_clean {m : Morsel} (h : MorselStrict m) : MorselClean m := by
  obtain ⟨h1, h2, h3, h4, h5, h6, h7, h8⟩ := h
  have t : ∀ l : Str, (∀ x ∈ l, badKwChar x = false) → ∀ x ∈ l, x ≠ 59 := fun l hl x hx he => by
    subst he
    have := hl 59 hx
    simp [badKwChar] at this
  exact ⟨t _ h1, t _ h2, t _ h3, t _ h4, t _ h5, t _ h6, t _ h7, t _ h8⟩

/-! ### the pieces of the base Morsel -/

theorem legal_notBadKw {c : Nat} (h : isLegalChar c = true) : badKwChar c = false := by
  have := legal_facts h
  simp [badKwChar]
  omega

theorem translate_notBadKw (c x : Nat) (h : x ∈ translate c) : badKwChar x = false := by
  unfold translate at h
  split at h
  · simp only [List.mem_cons, List.not_mem_nil, or_false] at h
    rcases h with rfl | rfl <;> decide
  · split at h
    · simp only [List.mem_cons, List.not_mem_nil, or_false] at h
      rcases h with rfl | rfl <;> decide
    · split at h
      · rename_i hc
        simp only [Bool.and_eq_true, decide_eq_true_eq] at hc
        simp only [octal3, List.mem_cons, List.not_mem_nil, or_false] at h
        simp [badKwChar]
        omega
      · rename_i hc
        simp only [List.mem_cons, List.not_mem_nil, or_false] at h
        subst h
        simp only [Bool.and_eq_true, decide_eq_true_eq, Bool.not_eq_true', not_and, Bool.not_eq_false] at hc
        by_cases hx : x < 256
        · have hu := hc hx
          simp only [isUnescaped, isLegalChar, isAlnum, Bool.or_eq_true, Bool.and_eq_true, decide_eq_true_eq,
            beq_iff_eq] at hu
          simp [badKwChar]
          omega
        · simp [badKwChar]
          omega

/-- `_quote` never lets a `;`, a control character or DEL through (they become `\ooo`) — for every value -/
theorem quote_notBadKw (v : Str) : ∀ x ∈ quote v, badKwChar x = false := by
  intro x hx
  unfold quote at hx
  split at hx
  · rename_i hk
    simp only [isLegalKey, Bool.and_eq_true] at hk
    exact legal_notBadKw (List.all_eq_true.mp hk.2 x hx)
  · simp only [List.mem_cons, List.mem_append, List.mem_flatMap, List.not_mem_nil, or_false] at hx
    rcases hx with rfl | ⟨c, _, hc⟩ | rfl
    · decide
    · exact translate_notBadKw c x hc
    · decide

theorem badAttr_of_badKw {c : Nat} (h : badAttrChar c = false) : badKwChar c = false := by
  simp [badAttrChar] at h
  simp [badKwChar]
  omega

theorem optBad_notBadKw {o : Option Str} (h : optBad o = false) : ∀ x ∈ optStr o, badKwChar x = false := by
  intro x hx
  cases o with
  | none => simp [optStr] at hx
  | some s =>
    simp only [optStr, Option.getD_some] at hx
    simp only [optBad, hasBadAttrChar, List.any_eq_false] at h
    exact badAttr_of_badKw (by simpa using h x hx)

/-- `str(n)` for a natural number: decimal digits only -/
theorem decOfNat_digits (n : Nat) : ∀ x ∈ decOfNat n, 48 ≤ x ∧ x ≤ 57 := by
  intro x hx
  simp only [decOfNat, Nat.toString_eq_repr, Nat.toList_repr, List.mem_map] at hx
  obtain ⟨c, hc, rfl⟩ := hx
  have := Nat.isDigit_of_mem_toDigits (by decide) (by decide) hc
  simp only [Char.isDigit, Bool.and_eq_true, decide_eq_true_eq] at this
  obtain ⟨h1, h2⟩ := this
  have e1 : (48 : UInt32) ≤ c.val ↔ 48 ≤ c.val.toNat := by
    rw [UInt32.le_iff_toNat_le]; rfl
  have e2 : c.val ≤ (57 : UInt32) ↔ c.val.toNat ≤ 57 := by
    rw [UInt32.le_iff_toNat_le]; rfl
  exact ⟨e1.mp h1, e2.mp h2⟩

/-- `str(max_age)`: digits, possibly after a minus sign -/
theorem decOfInt_notBadKw (i : Int) : ∀ x ∈ decOfInt i, badKwChar x = false := by
  intro x hx
  unfold decOfInt at hx
  have hd : ∀ n, ∀ y ∈ decOfNat n, badKwChar y = false := fun n y hy => by
    have := decOfNat_digits n y hy
    simp [badKwChar]
    omega
  split at hx
  · simp only [List.mem_cons] at hx
    rcases hx with rfl | hx
    · decide
    · exact hd _ x hx
  · exact hd _ x hx

/-! ### induction over the keyword loop -/

theorem setAttr_avoid (B : Nat → Bool) (hB : ∀ c, B c = true → badKwChar c = true) (m : Morsel) (k : Str) (v : KwVal)
    (hm : TextsAvoid B m) (hk : kwBad (k, v) = false) : TextsAvoid B (setAttr m k v) := by
  obtain ⟨h1, h2, h3, h4, h5, h6, h7, h8⟩ := hm
  -- the stored text is clean unless the key is `comment`
  have hs : lowerS k ≠ sComment →
      ∀ x ∈ (match v with | .str s => s | .flag _ => ([] : Str)), B x = false := by
    intro hne x hx
    cases v with
    | flag b => simp at hx
    | str s =>
      simp only at hx
      simp only [kwBad, Bool.and_eq_false_imp, bne_iff_ne, ne_eq] at hk
      have := hk hne
      simp only [List.any_eq_false] at this
      have hx' := this x hx
      cases hb : B x with
      | false => rfl
      | true => exact absurd (hB x hb) hx'
  unfold setAttr
  simp only
  split
  · exact ⟨h1, h2, h3, h4, h5, h6, h7, h8⟩
  · rename_i hc
    have hne : lowerS k ≠ sComment := by simpa using hc
    have hs' := hs hne
    split
    · exact ⟨h1, h2, hs', h4, h5, h6, h7, h8⟩
    · split
      · exact ⟨h1, h2, h3, hs', h5, h6, h7, h8⟩
      · split
        · exact ⟨h1, h2, h3, h4, h5, h6, h7, h8⟩
        · split
          · exact ⟨h1, h2, h3, h4, hs', h6, h7, h8⟩
          · split
            · exact ⟨h1, h2, h3, h4, h5, hs', h7, h8⟩
            · split
              · exact ⟨h1, h2, h3, h4, h5, h6, hs', h8⟩
              · split
                · exact ⟨h1, h2, h3, h4, h5, h6, h7, h8⟩
                · split
                  · exact ⟨h1, h2, h3, h4, h5, h6, h7, hs'⟩
                  · exact ⟨h1, h2, h3, h4, h5, h6, h7, h8⟩

theorem applyKwargs_avoid (B : Nat → Bool) (hB : ∀ c, B c = true → badKwChar c = true) (m : Morsel)
    (kws : List (Str × KwVal)) (hm : TextsAvoid B m) (hk : kws.any kwBad = false) :
    TextsAvoid B (applyKwargs m kws).1 := by
  induction kws generalizing m with
  | nil => exact hm
  | cons kv rest ih =>
    obtain ⟨k, v⟩ := kv
    simp only [List.any_cons, Bool.or_eq_false_iff] at hk
    simp only [applyKwargs]
    split
    · exact ih _ (setAttr_avoid B hB m k v hm hk.1) hk.2
    · exact hm

/-! ### what acceptance means -/

/-- a successful `buildMorsel`: both conversions succeeded, every check passed, the Morsel is the base Morsel after
the whole keyword loop, and the header it produces is one `flush` can send -/
theorem buildMorsel_ok_inv (a : CookieArgs) (m : Morsel) (h : buildMorsel a = .ok m) :
    ∃ name value, nativeStr a.name = .ok name ∧ nativeStr a.value = .ok value ∧ hasCtlOrSpace value = false ∧
      hasBadAttrChar name = false ∧ optBad a.domain = false ∧ optBad a.path = false ∧ optBad a.samesite = false ∧
      a.kwargs.any kwBad = false ∧ isReserved name = false ∧ isLegalKey name = true ∧
      applyKwargs (baseMorsel name value a) a.kwargs = (m, none) ∧ sendable (outputString m) = true := by
  unfold buildMorsel at h
  cases hn : nativeStr a.name with
  | error e => rw [hn] at h; cases h
  | ok name =>
    rw [hn] at h
    cases hv : nativeStr a.value with
    | error e => rw [hv] at h; cases h
    | ok value =>
      rw [hv] at h
      simp only at h
      by_cases h1 : hasCtlOrSpace value = true
      · simp [h1] at h
      · by_cases h2 : (hasBadAttrChar name || optBad a.domain || optBad a.path || optBad a.samesite) = true
        · simp [h1, h2] at h
        · by_cases h3 : a.kwargs.any kwBad = true
          · simp [h1, h2, h3] at h
          · by_cases h4 : (isReserved name || !isLegalKey name) = true
            · simp [h1, h2, h3, h4] at h
            · simp only [h1, h2, h3, h4, Bool.false_eq_true, ↓reduceIte] at h
              simp only [Bool.or_eq_true, not_or, Bool.not_eq_true, Bool.not_eq_true', Bool.not_eq_false] at h2 h4
              cases hk : applyKwargs (baseMorsel name value a) a.kwargs with
              | mk m' e' =>
                rw [hk] at h
                cases e' with
                | some e => cases h
                | none =>
                  simp only at h
                  by_cases h5 : sendable (outputString m') = true
                  · simp only [h5, ↓reduceIte, Except.ok.injEq] at h
                    subst h
                    exact ⟨name, value, rfl, rfl, by simpa using h1, h2.1.1.1, h2.1.1.2, h2.1.2, h2.2,
                      by simpa using h3, h4.1, h4.2, hk, h5⟩
                  · simp [h5] at h

theorem setCookie_nil_build (a : CookieArgs) (m : Morsel) (h : setCookie [] a = ([m], none)) :
    buildMorsel a = .ok m := by
  obtain ⟨m', hb, hj⟩ := (setCookie_ok_iff [] [m] a).mp h
  simp only [jarErase, List.filter_nil, List.nil_append, List.cons.injEq, and_true] at hj
  rw [hj]; exact hb

/-- a returning call on the empty jar: both conversions succeeded, every check passed, and the Morsel is the base
Morsel after the whole keyword loop -/
theorem setCookie_accept_inv (a : CookieArgs) (m : Morsel) (h : setCookie [] a = ([m], none)) :
    ∃ name value, nativeStr a.name = .ok name ∧ nativeStr a.value = .ok value ∧ hasCtlOrSpace value = false ∧
      hasBadAttrChar name = false ∧ optBad a.domain = false ∧ optBad a.path = false ∧ optBad a.samesite = false ∧
      a.kwargs.any kwBad = false ∧ isReserved name = false ∧ isLegalKey name = true ∧
      applyKwargs (baseMorsel name value a) a.kwargs = (m, none) := by
  obtain ⟨name, value, h1, h2, h3, h4, h5, h6, h7, h8, h9, h10, h11, _⟩ :=
    buildMorsel_ok_inv a m (setCookie_nil_build a m h)
  exact ⟨name, value, h1, h2, h3, h4, h5, h6, h7, h8, h9, h10, h11⟩

theorem baseMorsel_avoid (B : Nat → Bool) (hB : ∀ c, B c = true → badKwChar c = true) (name value : Str)
    (a : CookieArgs) (hkey : isLegalKey name = true) (hd : optBad a.domain = false) (hp : optBad a.path = false)
    (hs : optBad a.samesite = false) (hexp : ∀ e, a.expires = some e → ∀ x ∈ e, B x = false) :
    TextsAvoid B (baseMorsel name value a) := by
  have up : ∀ l : Str, (∀ x ∈ l, badKwChar x = false) → ∀ x ∈ l, B x = false := fun l hl x hx => by
    cases hb : B x with
    | false => rfl
    | true => have := hB x hb; rw [hl x hx] at this; cases this
  simp only [isLegalKey, Bool.and_eq_true] at hkey
  refine ⟨up _ (fun x hx => legal_notBadKw (List.all_eq_true.mp hkey.2 x hx)), up _ (quote_notBadKw value),
    up _ (optBad_notBadKw hd), ?_, up _ ?_, up _ (optBad_notBadKw hp), up _ (optBad_notBadKw hs), ?_⟩
  · intro x hx
    simp only [baseMorsel] at hx
    cases he : a.expires with
    | none => rw [he] at hx; simp [optStr] at hx
    | some e => rw [he] at hx; exact hexp e he x (by simpa [optStr] using hx)
  · intro x hx
    simp only [baseMorsel] at hx
    split at hx
    · split at hx
      · cases hx
      · exact decOfInt_notBadKw _ x hx
    · cases hx
  · intro x hx
    simp [baseMorsel] at hx

/-- every text attribute of the Morsel an accepted call builds avoids `B`, provided the externally formatted
`expires` text does -/
theorem accepted_avoid (B : Nat → Bool) (hB : ∀ c, B c = true → badKwChar c = true) (a : CookieArgs) (m : Morsel)
    (hexp : ∀ e, a.expires = some e → ∀ x ∈ e, B x = false) (h : setCookie [] a = ([m], none)) :
    TextsAvoid B m := by
  obtain ⟨name, value, _, _, _, _, hd, hp, hs, hk, _, hkey, hm⟩ := setCookie_accept_inv a m h
  have := applyKwargs_avoid B hB _ a.kwargs (baseMorsel_avoid B hB name value a hkey hd hp hs hexp) hk
  rw [hm] at this
  exact this

end TornadoModel.C25
