/-
C25 — model of the outgoing-cookie path (core Lean only).

Anchors
  tornado/web.py       RequestHandler.set_cookie (validation, Morsel population, deprecated kwargs),
                       clear_cookie / set_signed_cookie (both delegate to set_cookie),
                       flush (cookie loop: `add_header("Set-Cookie", morsel.OutputString(None))`),
                       _convert_header_value / _VALID_HEADER_CHARS
  tornado/httputil.py  HTTPHeaders.add (field_name / field_value check), parse_cookie, _unquote_cookie
  CPython 3.12 http/cookies.py   _LegalChars, _UnescapedChars, _Translator, _quote, Morsel.set,
                       Morsel.__setitem__, Morsel.OutputString, BaseCookie.__setitem__

Python `str` is a list of code points (`List Nat`); `bytes` is a list of naturals < 256.
External: `httputil.format_timestamp` (clock + email.utils.formatdate) — the model receives the
already formatted `expires` text; `create_signed_value` (HMAC) — the model receives the signed value.
-/
namespace TornadoModel.C25

abbrev Str := List Nat

/-! ### character classes -/

def isAlnum (c : Nat) : Bool := (48 ≤ c && c ≤ 57) || (65 ≤ c && c ≤ 90) || (97 ≤ c && c ≤ 122)

/-- `http.cookies._LegalChars` = ascii_letters + digits + ``!#$%&'*+-.^_`|~:`` -/
def isLegalChar (c : Nat) : Bool :=
  isAlnum c || c == 33 || c == 35 || c == 36 || c == 37 || c == 38 || c == 39 || c == 42 || c == 43
    || c == 45 || c == 46 || c == 94 || c == 95 || c == 96 || c == 124 || c == 126 || c == 58

/-- `http.cookies._UnescapedChars` = _LegalChars + `` ()/<=>?@[]{}`` -/
def isUnescaped (c : Nat) : Bool :=
  isLegalChar c || c == 32 || c == 40 || c == 41 || c == 47 || c == 60 || c == 61 || c == 62 || c == 63
    || c == 64 || c == 91 || c == 93 || c == 123 || c == 125

/-- `_is_legal_key = re.compile('[%s]+' % re.escape(_LegalChars)).fullmatch` -/
def isLegalKey (s : Str) : Bool := !s.isEmpty && s.all isLegalChar

/-! ### `http.cookies._quote` -/

/-- `'\\%03o' % n` for `n < 256` -/
def octal3 (c : Nat) : Str := [92, 48 + c / 64, 48 + c / 8 % 8, 48 + c % 8]

/-- one entry of `_Translator` (`str.translate` leaves code points without an entry unchanged) -/
def translate (c : Nat) : Str :=
  if c = 34 then [92, 34]
  else if c = 92 then [92, 92]
  else if c < 256 && !isUnescaped c then octal3 c
  else [c]

def quote (s : Str) : Str :=
  if isLegalKey s then s else 34 :: (s.flatMap translate ++ [34])

/-! ### `tornado.httputil._unquote_cookie` -/

def isOct03 (c : Nat) : Bool := 48 ≤ c && c ≤ 51
def isOct07 (c : Nat) : Bool := 48 ≤ c && c ≤ 55

/-- `_unquote_sub(_unquote_replace, s)` with `_unquote_sub = re.compile(r"\\(?:([0-3][0-7][0-7])|(.))").sub`:
scan left to right; `skip` counts characters already consumed by the previous match.  At a backslash:
three octal digits → that code point (4 consumed); otherwise any character except `\n` → that
character (2 consumed); otherwise no match here and the backslash is copied. -/
def unqAt : Str → Nat → Str
  | [], _ => []
  | _ :: rest, skip + 1 => unqAt rest skip
  | c :: rest, 0 =>
    if c = 92 then
      match rest with
      | a :: b :: d :: _ =>
        if isOct03 a && isOct07 b && isOct07 d then
          ((a - 48) * 64 + (b - 48) * 8 + (d - 48)) :: unqAt rest 3
        else if a ≠ 10 then a :: unqAt rest 1
        else 92 :: unqAt rest 0
      | a :: _ =>
        if a ≠ 10 then a :: unqAt rest 1 else 92 :: unqAt rest 0
      | [] => [92]
    else c :: unqAt rest 0

/-- `_unquote_cookie` -/
def unquote (s : Str) : Str :=
  if s.length < 2 then s
  else if s.head? != some 34 || s.getLast? != some 34 then s
  else unqAt ((s.drop 1).dropLast) 0

/-! ### `tornado.httputil.parse_cookie` -/

/-- `str.isspace()` per code point (CPython `_PyUnicode_IsWhitespace`) -/
def isPySpace (c : Nat) : Bool :=
  (9 ≤ c && c ≤ 13) || (28 ≤ c && c ≤ 32) || c == 133 || c == 160 || c == 5760
    || (8192 ≤ c && c ≤ 8202) || c == 8232 || c == 8233 || c == 8239 || c == 8287 || c == 12288

/-- `str.strip()` -/
def strip (s : Str) : Str := ((s.dropWhile isPySpace).reverse.dropWhile isPySpace).reverse

/-- `s.split(sep)` for a one-character separator: always at least one piece. -/
def splitOn (sep : Nat) : Str → List Str
  | [] => [[]]
  | c :: cs =>
    if c = sep then [] :: splitOn sep cs
    else match splitOn sep cs with
      | [] => [[c]]          -- unreachable
      | w :: ws => (c :: w) :: ws

/-- `chunk.split("=", 1)` when `"=" in chunk`, else `("", chunk)` -/
def splitEq : Str → Str × Str
  | s => match s.span (· != 61) with
    | (k, _ :: v) => (k, v)
    | (_, []) => ([], s)

/-- insertion-ordered `dict.__setitem__` -/
def dictSet (d : List (Str × Str)) (k v : Str) : List (Str × Str) :=
  if d.any (·.1 == k) then d.map (fun p => if p.1 == k then (k, v) else p) else d ++ [(k, v)]

def parseChunk (d : List (Str × Str)) (chunk : Str) : List (Str × Str) :=
  let kv := splitEq chunk
  let k := strip kv.1
  let v := strip kv.2
  if !k.isEmpty || !v.isEmpty then dictSet d k (unquote v) else d

/-- `parse_cookie(cookie)` as the insertion-ordered item list of the resulting dict -/
def parseCookie (s : Str) : List (Str × Str) := (splitOn 59 s).foldl parseChunk []

/-! ### header-value checks applied by `flush` to every `Set-Cookie` value -/

/-- `RequestHandler._VALID_HEADER_CHARS.fullmatch`: ``[\x09\x20-\x7e\x80-\xff]*`` -/
def isValidHeaderChar (c : Nat) : Bool := c == 9 || (32 ≤ c && c ≤ 126) || (128 ≤ c && c ≤ 255)
def validHeaderChars (s : Str) : Bool := s.all isValidHeaderChar

def isFieldVchar (c : Nat) : Bool := (0x21 ≤ c && c ≤ 0x7E) || (0x80 ≤ c && c ≤ 0xFF)

/-- `_ABNF.field_value.fullmatch`: empty, or vchars with inner SP/HTAB, first and last a vchar. -/
def isFieldValue (s : Str) : Bool :=
  match s with
  | [] => true
  | c :: cs =>
    isFieldVchar c && (c :: cs).all (fun x => isFieldVchar x || x == 32 || x == 9)
      && ((c :: cs).getLast?.map isFieldVchar == some true)

/-! ### errors -/

inductive Err where
  | valueError | cookieError | unicodeDecode | unicodeEncode | httpInput | typeError
  deriving Repr, DecidableEq, BEq, Inhabited

/-! ### `escape.native_str` (= `to_unicode`): bytes are decoded as strict UTF-8 -/

inductive CVal where
  | str (s : Str)
  | bytes (b : Str)
  deriving Repr, DecidableEq, BEq, Inhabited

def utf8Decode (b : Str) : Option Str :=
  if b.all (· < 256) then
    (String.fromUTF8? (ByteArray.mk (b.map UInt8.ofNat).toArray)).map (fun s => s.toList.map Char.toNat)
  else none

def nativeStr : CVal → Except Err Str
  | .str s => .ok s
  | .bytes b => match utf8Decode b with
    | some s => .ok s
    | none => .error .unicodeDecode

/-! ### Morsel -/

/-- A `Morsel`: key, value, coded value, and the nine reserved attributes (`""` = unset, exactly as in
`Morsel.__init__`); the two flags hold their truthiness. -/
structure Morsel where
  key : Str
  value : Str
  coded : Str
  comment : Str := []
  domain : Str := []
  expires : Str := []
  httponly : Bool := false
  maxAge : Str := []
  path : Str := []
  samesite : Str := []
  secure : Bool := false
  version : Str := []
  deriving Repr, DecidableEq, BEq, Inhabited

def asciiLower (c : Nat) : Nat := if 65 ≤ c ∧ c ≤ 90 then c + 32 else c
def lowerS (s : Str) : Str := s.map asciiLower

def sComment : Str := [99, 111, 109, 109, 101, 110, 116]
def sDomain : Str := [100, 111, 109, 97, 105, 110]
def sExpires : Str := [101, 120, 112, 105, 114, 101, 115]
def sHttponly : Str := [104, 116, 116, 112, 111, 110, 108, 121]
def sMaxAge : Str := [109, 97, 120, 45, 97, 103, 101]
def sPath : Str := [112, 97, 116, 104]
def sSamesite : Str := [115, 97, 109, 101, 115, 105, 116, 101]
def sSecure : Str := [115, 101, 99, 117, 114, 101]
def sVersion : Str := [118, 101, 114, 115, 105, 111, 110]

/-- `K.lower() in Morsel._reserved` -/
def isReserved (k : Str) : Bool :=
  let l := lowerS k
  l == sComment || l == sDomain || l == sExpires || l == sHttponly || l == sMaxAge || l == sPath
    || l == sSamesite || l == sSecure || l == sVersion

/-- the display names of `Morsel._reserved` -/
def dComment : Str := [67, 111, 109, 109, 101, 110, 116]
def dDomain : Str := [68, 111, 109, 97, 105, 110]
def dExpires : Str := sExpires
def dHttpOnly : Str := [72, 116, 116, 112, 79, 110, 108, 121]
def dMaxAge : Str := [77, 97, 120, 45, 65, 103, 101]
def dPath : Str := [80, 97, 116, 104]
def dSameSite : Str := [83, 97, 109, 101, 83, 105, 116, 101]
def dSecure : Str := [83, 101, 99, 117, 114, 101]
def dVersion : Str := [86, 101, 114, 115, 105, 111, 110]

def kv (k v : Str) : Str := k ++ 61 :: v

def optAttr (k v : Str) : List Str := if v.isEmpty then [] else [kv k v]
def optFlag (k : Str) (b : Bool) : List Str := if b then [k] else []

/-- the attribute parts of `Morsel.OutputString`, in `sorted(self.items())` order, empty ones skipped -/
def attrParts (m : Morsel) : List Str :=
  (if m.comment.isEmpty then [] else [kv dComment (quote m.comment)])
    ++ optAttr dDomain m.domain ++ optAttr dExpires m.expires ++ optFlag dHttpOnly m.httponly
    ++ optAttr dMaxAge m.maxAge ++ optAttr dPath m.path ++ optAttr dSameSite m.samesite
    ++ optFlag dSecure m.secure ++ optAttr dVersion m.version

def joinWith (sep : Str) : List Str → Str
  | [] => []
  | [w] => w
  | w :: ws => w ++ sep ++ joinWith sep ws

/-- `Morsel.OutputString(None)` = `"; ".join([key=coded] + attributes)` -/
def outputString (m : Morsel) : Str := joinWith [59, 32] (kv m.key m.coded :: attrParts m)

/-! ### `RequestHandler.set_cookie` -/

/-- value of a deprecated keyword argument: a string or a bool -/
inductive KwVal where
  | str (s : Str)
  | flag (b : Bool)
  deriving Repr, DecidableEq, BEq, Inhabited

structure CookieArgs where
  name : CVal
  value : CVal
  domain : Option Str := none
  /-- `httputil.format_timestamp(expires)` when `expires` (or `expires_days`) is given and truthy -/
  expires : Option Str := none
  path : Option Str := some [47]
  maxAge : Option Int := none
  httponly : Bool := false
  secure : Bool := false
  samesite : Option Str := none
  kwargs : List (Str × KwVal) := []
  deriving Repr, Inhabited

/-- `re.search(r"[\x00-\x20]", value)` -/
def hasCtlOrSpace (s : Str) : Bool := s.any (· ≤ 32)
/-- `re.search(r"[\x00-\x20\x3b\x7f]", attr_value)` -/
def badAttrChar (c : Nat) : Bool := c ≤ 32 || c == 59 || c == 127
def hasBadAttrChar (s : Str) : Bool := s.any badAttrChar
def optBad (o : Option Str) : Bool := match o with | some s => hasBadAttrChar s | none => false

/-- check applied (by the `fix:` commit) to the string values of the deprecated keyword arguments:
``[\x00-\x1f\x3b\x7f]`` — space is allowed (an `expires` text contains spaces); `comment` is exempt
because `OutputString` quotes it. -/
def badKwChar (c : Nat) : Bool := c ≤ 31 || c == 59 || c == 127
def kwBad (kw : Str × KwVal) : Bool :=
  match kw.2 with
  | .str s => lowerS kw.1 != sComment && s.any badKwChar
  | .flag _ => false

def truthy : KwVal → Bool
  | .str s => !s.isEmpty
  | .flag b => b

/-- `morsel[k] = v` for a reserved `k` (`Morsel.__setitem__`); flags keep only their truthiness.
A `False`/`True` stored in a string attribute is outside the modelled domain (see ASSUMPTIONS). -/
def setAttr (m : Morsel) (k : Str) (v : KwVal) : Morsel :=
  let l := lowerS k
  let s : Str := match v with | .str s => s | .flag _ => []
  if l == sComment then { m with comment := s }
  else if l == sDomain then { m with domain := s }
  else if l == sExpires then { m with expires := s }
  else if l == sHttponly then { m with httponly := truthy v }
  else if l == sMaxAge then { m with maxAge := s }
  else if l == sPath then { m with path := s }
  else if l == sSamesite then { m with samesite := s }
  else if l == sSecure then { m with secure := truthy v }
  else if l == sVersion then { m with version := s }
  else m

/-- `for k, v in kwargs.items(): morsel[k] = v` — stops at the first non-reserved key with `CookieError`,
keeping what was stored before it. -/
def applyKwargs (m : Morsel) : List (Str × KwVal) → Morsel × Option Err
  | [] => (m, none)
  | (k, v) :: rest =>
    if isReserved k then applyKwargs (setAttr m k v) rest else (m, some .cookieError)

def decOfNat (n : Nat) : Str := (toString n).toList.map Char.toNat
/-- `str(max_age)` -/
def decOfInt (i : Int) : Str := if i < 0 then 45 :: decOfNat i.natAbs else decOfNat i.toNat

def optStr (o : Option Str) : Str := o.getD []

/-- the Morsel built by `set_cookie` from validated arguments, before the deprecated kwargs -/
def baseMorsel (name value : Str) (a : CookieArgs) : Morsel :=
  { key := name, value := value, coded := quote value,
    domain := optStr a.domain, expires := optStr a.expires, path := optStr a.path,
    maxAge := (match a.maxAge with | some i => if i = 0 then [] else decOfInt i | none => []),
    httponly := a.httponly, secure := a.secure, samesite := optStr a.samesite }

/-- the outgoing cookie jar `_new_cookie` (insertion-ordered dict name → Morsel) -/
abbrev Jar := List Morsel

def jarErase (j : Jar) (name : Str) : Jar := j.filter (·.key != name)

/-- what `flush` demands of every `Set-Cookie` value: `_convert_header_value` (`_VALID_HEADER_CHARS`) and
`HTTPHeaders.add` (`_ABNF.field_value`).  Since fix dc0f039 `set_cookie` applies the same two checks itself. -/
def sendable (s : Str) : Bool := validHeaderChars s && isFieldValue s

/-- the Morsel a `set_cookie` call builds **on the side** (fix 1aefcde: nothing is stored in the jar before the
call has succeeded), or the exception it raises.  Order of the checks as in the code: conversions, legacy value
check, attribute check, keyword-value check, `SimpleCookie.__setitem__` (reserved / illegal key), the keyword loop
(`CookieError` at the first non-reserved key), and last (fix dc0f039) the header the Morsel would produce is
generated once and refused with `CookieError` unless `flush` could send it. -/
def buildMorsel (a : CookieArgs) : Except Err Morsel :=
  match nativeStr a.name with
  | .error e => .error e
  | .ok name =>
  match nativeStr a.value with
  | .error e => .error e
  | .ok value =>
    if hasCtlOrSpace value then .error .valueError
    else if hasBadAttrChar name || optBad a.domain || optBad a.path || optBad a.samesite then
      .error .cookieError
    else if a.kwargs.any kwBad then .error .cookieError
    else if isReserved name || !isLegalKey name then .error .cookieError
    else
      match applyKwargs (baseMorsel name value a) a.kwargs with
      | (_, some e) => .error e
      | (m, none) => if sendable (outputString m) then .ok m else .error .cookieError

/-- `set_cookie`: new jar and `none` (returned) or `some e` (raised `e`, jar untouched) -/
def setCookie (j : Jar) (a : CookieArgs) : Jar × Option Err :=
  match buildMorsel a with
  | .ok m => (jarErase j m.key ++ [m], none)
  | .error e => (j, some e)

/-- the cookie loop of `flush`: `add_header("Set-Cookie", cookie.OutputString(None))` for every morsel;
`_convert_header_value` raises `ValueError`, `HTTPHeaders.add` raises `HTTPInputError`. -/
def flushCookies : Jar → Except Err (List Str)
  | [] => .ok []
  | m :: rest =>
    let s := outputString m
    if !validHeaderChars s then .error .valueError
    else if !isFieldValue s then .error .httpInput
    else match flushCookies rest with
      | .ok l => .ok (s :: l)
      | .error e => .error e

/-- a whole handler run restricted to cookies: per-call outcome, then the `Set-Cookie` values -/
def runJar (j : Jar) : List CookieArgs → Jar × List (Option Err)
  | [] => (j, [])
  | a :: rest =>
    let r := setCookie j a
    let rr := runJar r.1 rest
    (rr.1, r.2 :: rr.2)

/-! ### the rest of a handler run: `clear()`, and the ways a handler ends

`_new_cookie` lives beside `_headers`: `RequestHandler.clear()` — called by the application or by `send_error()`
before every error page, hence for `raise HTTPError(...)` and for any uncaught exception — resets the headers, the
write buffer and the status, and does not touch the jar.  Whatever way the handler ends, the one `flush` that
writes the header block runs the cookie loop over the jar as the calls left it. -/

/-- the response state the cookie path can see: status code and the outgoing jar -/
structure HState where
  status : Nat := 200
  jar : Jar := []
  deriving Repr, Inhabited

inductive HOp where
  | cookie (a : CookieArgs)      -- set_cookie / clear_cookie / set_signed_cookie
  | clear                        -- RequestHandler.clear()
  deriving Inhabited

def hstep (s : HState) : HOp → HState × Option Err
  | .cookie a => let r := setCookie s.jar a; ({ s with jar := r.1 }, r.2)
  | .clear => ({ s with status := 200 }, none)

def hrun (s : HState) : List HOp → HState × List (Option Err)
  | [] => (s, [])
  | o :: rest =>
    let r := hstep s o
    let rr := hrun r.1 rest
    (rr.1, r.2 :: rr.2)

/-- how the handler method ends -/
inductive Ending where
  | finish                       -- `self.finish()`
  | finishChunk                  -- `self.finish("body")`
  | autoFinish                   -- the method returns; `_execute` calls `finish()`
  | raiseFinish                  -- `raise Finish()`: `_handle_request_exception` calls `finish()`
  | sendError (status : Nat)     -- `self.send_error(status)`
  | raiseHTTP (status : Nat)     -- `raise HTTPError(status)` → `send_error(status, exc_info=…)`
  | missingArg                   -- `self.get_argument("absent")` → `MissingArgumentError` = `HTTPError(400)`
  | raiseOther                   -- any other exception → `send_error(500, exc_info=…)`
  | redirect (permanent : Bool)  -- `self.redirect(url, permanent)` → `set_status`, `Location`, `finish()`
  deriving Repr, Inhabited

/-- `send_error(code)` before headers were written: `clear()`, `set_status(code)`, then `write_error` → `finish` -/
def sendError (s : HState) (code : Nat) : HState := { (hstep s .clear).1 with status := code }

def endState (s : HState) : Ending → HState
  | .finish | .finishChunk | .autoFinish | .raiseFinish => s
  | .sendError c | .raiseHTTP c => sendError s c
  | .missingArg => sendError s 400
  | .raiseOther => sendError s 500
  | .redirect p => { s with status := if p then 301 else 302 }

/-- the first `finish()` of the response: status code and `Set-Cookie` values written, or the error the cookie
loop of `flush` raised (then no header block is ever written: `_headers_written` is already set) -/
def respond (s : HState) (e : Ending) : Except Err (Nat × List Str) :=
  match flushCookies (endState s e).jar with
  | .ok l => .ok ((endState s e).status, l)
  | .error err => .error err

/-- a whole handler: per-call outcomes, then the response -/
def serveHandler (ops : List HOp) (e : Ending) : List (Option Err) × Except Err (Nat × List Str) :=
  let r := hrun {} ops
  (r.2, respond r.1 e)

/-- the `set_cookie` calls of a handler, in order -/
def cookieCalls : List HOp → List CookieArgs
  | [] => []
  | .cookie a :: rest => a :: cookieCalls rest
  | .clear :: rest => cookieCalls rest

end TornadoModel.C25
