/- C25 — run-level facts: every Morsel in the jar can be sent by `flush` (so the response is always sent), a raising
   call leaves the jar alone, and the Morsel of a returning call stays in the jar until a later *returning* call for the
   same name replaces it (core Lean only). -/
import TornadoModel.C25.Clean
namespace TornadoModel.C25
open Spec

theorem setCookie_of_build_ok (j : Jar) (a : CookieArgs) (m : Morsel) (h : buildMorsel a = .ok m) :
    setCookie j a = (jarErase j m.key ++ [m], none) := by
  simp [setCookie, h]

theorem setCookie_of_build_err (j : Jar) (a : CookieArgs) (e : Err) (h : buildMorsel a = .error e) :
    setCookie j a = (j, some e) := by
  simp [setCookie, h]

/-- the cookie loop of `flush` succeeds on a jar of sendable Morsels, and writes their `OutputString`s in order -/
theorem flushCookies_ok (j : Jar) (h : ∀ m ∈ j, sendable (outputString m) = true) :
    flushCookies j = .ok (j.map outputString) := by
  induction j with
  | nil => rfl
  | cons m rest ih =>
    have hm := h m (by simp)
    simp only [sendable, Bool.and_eq_true] at hm
    have ih' := ih (fun x hx => h x (by simp [hx]))
    simp only [flushCookies, hm.1, hm.2, Bool.not_true, Bool.false_eq_true, ↓reduceIte, ih', List.map_cons]

theorem buildMorsel_sendable (a : CookieArgs) (m : Morsel) (h : buildMorsel a = .ok m) :
    sendable (outputString m) = true := by
  obtain ⟨_, _, _, _, _, _, _, _, _, _, _, _, _, hs⟩ := buildMorsel_ok_inv a m h
  exact hs

/-- `set_cookie` keeps the invariant "every Morsel in the jar can be sent" -/
theorem setCookie_sendable (j : Jar) (a : CookieArgs) (h : ∀ m ∈ j, sendable (outputString m) = true) :
    ∀ m ∈ (setCookie j a).1, sendable (outputString m) = true := by
  cases hb : buildMorsel a with
  | error e => rw [setCookie_of_build_err j a e hb]; exact h
  | ok m' =>
    rw [setCookie_of_build_ok j a m' hb]
    intro m hm
    simp only [List.mem_append, List.mem_cons, List.not_mem_nil, or_false] at hm
    rcases hm with hm | rfl
    · exact h m (by simp only [jarErase, List.mem_filter] at hm; exact hm.1)
    · exact buildMorsel_sendable a m hb

theorem runJar_sendable (calls : List CookieArgs) (j : Jar) (h : ∀ m ∈ j, sendable (outputString m) = true) :
    ∀ m ∈ (runJar j calls).1, sendable (outputString m) = true := by
  induction calls generalizing j with
  | nil => exact h
  | cons a rest ih => exact ih _ (setCookie_sendable j a h)

theorem runJar_append (pre post : List CookieArgs) (j : Jar) :
    (runJar j (pre ++ post)).1 = (runJar (runJar j pre).1 post).1 := by
  induction pre generalizing j with
  | nil => rfl
  | cons a rest ih => simp only [List.cons_append, runJar, ih]

/-- a Morsel stays in the jar (same position relative to the others or not — membership is what `flush` needs) as long
as no later call **that returns** builds a Morsel of the same name; later calls that raise change nothing -/
theorem runJar_keeps (post : List CookieArgs) (j : Jar) (m : Morsel) (hm : m ∈ j)
    (hpost : ∀ b ∈ post, ∀ mb, buildMorsel b = .ok mb → mb.key ≠ m.key) : m ∈ (runJar j post).1 := by
  induction post generalizing j with
  | nil => exact hm
  | cons b rest ih =>
    simp only [runJar]
    apply ih
    · cases hb : buildMorsel b with
      | error e => rw [setCookie_of_build_err j b e hb]; exact hm
      | ok mb =>
        rw [setCookie_of_build_ok j b mb hb]
        have hne := hpost b (by simp) mb hb
        simp only [List.mem_append, List.mem_cons, List.not_mem_nil, or_false]
        left
        simp only [jarErase, List.mem_filter, bne_iff_ne, ne_eq]
        exact ⟨hm, fun he => hne he.symm⟩
    · exact fun b' hb' => hpost b' (by simp [hb'])

theorem setAttr_coded (m : Morsel) (k : Str) (v : KwVal) : (setAttr m k v).coded = m.coded := by
  unfold setAttr
  simp only
  repeat' split
  all_goals rfl

theorem applyKwargs_coded (m : Morsel) (kws : List (Str × KwVal)) : (applyKwargs m kws).1.coded = m.coded := by
  induction kws generalizing m with
  | nil => rfl
  | cons kv rest ih =>
    obtain ⟨k, v⟩ := kv
    simp only [applyKwargs]
    split
    · rw [ih, setAttr_coded]
    · rfl

/-- name and coded value of the Morsel a successful call builds are the call's own (deprecated keywords cannot touch
them) -/
theorem buildMorsel_name_value (a : CookieArgs) (m : Morsel) (h : buildMorsel a = .ok m) :
    ∃ name value, nativeStr a.name = .ok name ∧ nativeStr a.value = .ok value ∧ isLegalKey name = true ∧
      m.key = name ∧ m.coded = quote value ∧ m = (applyKwargs (baseMorsel name value a) a.kwargs).1 := by
  obtain ⟨name, value, hn, hv, _, _, _, _, _, _, _, hk, hm, _⟩ := buildMorsel_ok_inv a m h
  refine ⟨name, value, hn, hv, hk, ?_, ?_, ?_⟩
  · have := applyKwargs_key (baseMorsel name value a) a.kwargs
    rw [hm] at this
    exact this
  · have := applyKwargs_coded (baseMorsel name value a) a.kwargs
    rw [hm] at this
    exact this
  · rw [hm]

end TornadoModel.C25
