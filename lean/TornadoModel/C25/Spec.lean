/-
C25 — specification side.

What a client does with a `Set-Cookie` value and what comes back on the next request:
`readSetCookie` splits the value at every `;` (each later part must start with the single space that
separates attributes), the first part is `name=value`, every other part is `Attr=text` or a bare flag.
The client then echoes `name=value` verbatim in its `Cookie` header, which Tornado reads with
`parse_cookie`.  `requested` is the attribute list the application asked for.
-/
import TornadoModel.C25.Model
namespace TornadoModel.C25.Spec
open TornadoModel.C25

/-- one attribute as read by the client: name and (for non-flags) text -/
abbrev Attr := Str × Option Str

def readAttr (part : Str) : Attr :=
  match part.span (· != 61) with
  | (k, _ :: v) => (k, some v)
  | (k, []) => (k, none)

/-- drop the single space after `;`; `none` when it is missing -/
def dropSp : Str → Option Str
  | 32 :: rest => some rest
  | _ => none

/-- `(name=value part, attributes)` -/
def readSetCookie (s : Str) : Option (Str × List Attr) :=
  match splitOn 59 s with
  | [] => none
  | first :: rest => (rest.mapM dropSp).map (fun ps => (first, ps.map readAttr))

def reqAttr (k v : Str) : List Attr := if v.isEmpty then [] else [(k, some v)]
def reqFlag (k : Str) (b : Bool) : List Attr := if b then [(k, none)] else []

/-- the attributes a Morsel asks for, under the display names of `Morsel._reserved`, sorted by key -/
def requested (m : Morsel) : List Attr :=
  (if m.comment.isEmpty then [] else [(dComment, some (quote m.comment))])
    ++ reqAttr dDomain m.domain ++ reqAttr dExpires m.expires ++ reqFlag dHttpOnly m.httponly
    ++ reqAttr dMaxAge m.maxAge ++ reqAttr dPath m.path ++ reqAttr dSameSite m.samesite
    ++ reqFlag dSecure m.secure ++ reqAttr dVersion m.version

end TornadoModel.C25.Spec
