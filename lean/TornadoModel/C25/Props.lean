import TornadoModel.C25.Spec
namespace TornadoModel.C25
theorem stub : (1 : Nat) = 1 := rfl
end TornadoModel.C25
