/-
C25 — outgoing cookies are emitted exactly as set: the property theorems.

`quote` is `http.cookies._quote`, `unquote` is tornado's `_unquote_cookie`, `parseCookie` is
`httputil.parse_cookie`, `setCookie` is `RequestHandler.set_cookie` acting on the outgoing jar,
`outputString` is `Morsel.OutputString`, and `Spec.readSetCookie` is the client-side reading of a
`Set-Cookie` value.  All statements are universally quantified over code-point strings.
-/
import TornadoModel.C25.Sent
namespace TornadoModel.C25
open Spec

/-- `_unquote_cookie(_quote(v)) == v` for every string `v` -/
theorem unquote_quote (v : Str) : unquote (quote v) = v := by
  unfold quote
  split
  · rename_i hk
    simp only [isLegalKey, Bool.and_eq_true, Bool.not_eq_true', List.isEmpty_eq_false_iff] at hk
    cases v with
    | nil => exact absurd rfl hk.1
    | cons c t =>
      have := (legal_facts (List.all_eq_true.mp hk.2 c (by simp))).2.2.1
      unfold unquote
      split
      · rfl
      · simp [this]
  · unfold unquote
    have hlen : ¬ (34 :: (v.flatMap translate ++ [34])).length < 2 := by simp
    have hlast : (34 :: (v.flatMap translate ++ [34])).getLast? = some 34 := by
      have e : 34 :: (v.flatMap translate ++ [34]) = (34 :: v.flatMap translate) ++ [34] := rfl
      rw [e, List.getLast?_concat]
    simp only [hlen, ↓reduceIte, List.head?_cons, hlast, bne_self_eq_false, Bool.or_self, Bool.false_eq_true,
      List.drop_succ_cons, List.drop_zero, List.dropLast_concat]
    have := unqAt_flatMap v []
    simpa [unqAt] using this


example : quote [97, 59, 34, 92, 233] = [34, 97, 92, 48, 55, 51, 92, 34, 92, 92, 92, 51, 53, 49, 34] := by rfl
example : unquote [34, 97, 92, 48, 55, 51, 92, 34, 92, 92, 92, 51, 53, 49, 34] = [97, 59, 34, 92, 233] := by rfl

/-- **What was set is what the next request reads**: for every cookie name `set_cookie` accepts (a
legal key) and *every* value, `parse_cookie` applied to the `name=coded_value` pair a browser echoes
yields exactly `{name: value}` — one entry, nothing else. -/
theorem set_then_parse (name value : Str) (hn : isLegalKey name = true) :
    parseCookie (kv name (quote value)) = [(name, value)] := by
  simp only [isLegalKey, Bool.and_eq_true, Bool.not_eq_true', List.isEmpty_eq_false_iff] at hn
  have h59 : ∀ x ∈ kv name (quote value), x ≠ 59 := by
    intro x hx
    simp only [kv, List.mem_append, List.mem_cons] at hx
    rcases hx with hx | rfl | hx
    · exact (legal_facts (List.all_eq_true.mp hn.2 x hx)).2.2.2.1
    · decide
    · exact quote_no59 value x hx
  have h61 : ∀ x ∈ name, x ≠ 61 := fun x hx => (legal_facts (List.all_eq_true.mp hn.2 x hx)).2.2.2.2.1
  have hne : name.isEmpty = false := by
    cases name with
    | nil => exact absurd rfl hn.1
    | cons _ _ => rfl
  have e1 : splitOn 59 (kv name (quote value)) = [kv name (quote value)] := splitOn_none 59 _ h59
  have e2 : splitEq (kv name (quote value)) = (name, quote value) := splitEq_at name (quote value) h61
  unfold parseCookie
  rw [e1]
  simp only [List.foldl_cons, List.foldl_nil, parseChunk, e2, strip_legal name hn.2, strip_quote, unquote_quote, hne,
    Bool.not_false, Bool.true_or, ↓reduceIte, dictSet, List.any_nil, Bool.false_eq_true, List.nil_append]


/-- non-vacuity: `sid` is a legal key; the value holds `;`, `"`, a space and `=` -/
example : isLegalKey [115, 105, 100] = true := by rfl
example : parseCookie (kv [115, 105, 100] (quote [97, 59, 34, 32, 61])) = [([115, 105, 100], [97, 59, 34, 32, 61])] := by rfl

/-- **Exactly the requested attributes**: a client that splits the emitted `Set-Cookie` value at every
`;` finds the `name=coded_value` pair followed by exactly the attributes the Morsel asks for — same
names, same texts, same order, nothing extra — whenever no text attribute contains `;`
(`set_cookie` rejects `;` in every attribute it accepts; see `MorselClean`). -/
theorem attrs_exact (m : Morsel) (h : MorselClean m) :
    readSetCookie (outputString m) = some (kv m.key m.coded, requested m) := by
  have hall : ∀ q ∈ kv m.key m.coded :: attrParts m, ∀ x ∈ q, x ≠ 59 := by
    intro q hq
    simp only [List.mem_cons] at hq
    rcases hq with rfl | hq
    · exact kv_no59 _ _ h.1 h.2.1
    · exact attrParts_no59 m h q hq
  unfold readSetCookie outputString
  rw [split_join _ _ hall]
  simp only [mapM_dropSp, Option.map_some, attrParts_read]


/-- non-vacuity: a morsel with every kind of attribute satisfies `MorselClean` and is read back exactly -/
example : MorselClean { key := [97], value := [98], coded := [98], domain := [120], path := [47], secure := true,
                        samesite := [76, 97, 120], comment := [99, 59, 100] } := by
  refine ⟨?_, ?_, ?_, ?_, ?_, ?_, ?_, ?_⟩ <;> decide
example : readSetCookie (outputString { key := [97], value := [98], coded := [98], domain := [120], path := [47],
                                        secure := true, comment := [99, 59, 100] })
    = some ([97, 61, 98], [(dComment, some [34, 99, 92, 48, 55, 51, 100, 34]), (dDomain, some [120]), (dPath, some [47]),
                           (dSecure, none)]) := by rfl

/-- a `;` smuggled into an attribute *would* add an attribute for the reader — this is why the hypothesis
is needed, and what `set_cookie`'s validation (including, after the `fix:` commit, the deprecated
keyword arguments) excludes -/
example : readSetCookie (outputString { key := [97], value := [98], coded := [98], domain := [120, 59, 32, 83] })
    = some ([97, 61, 98], [(dDomain, some [120]), ([83], none)]) := by rfl

/-- **Accepted calls build clean Morsels**: every Morsel an accepted `set_cookie` call builds satisfies
`MorselClean`, given that the `expires` text produced by `format_timestamp` (external) has no `;`.
Ingredients: `_quote` escapes `;` (`quote_no59`), the attribute checks of `setCookie` (`hasBadAttrChar` on
name/domain/path/samesite, `kwBad` on every deprecated keyword value except `comment`, which is quoted),
`str(max_age)` is digits and `-`, and an induction over the keyword loop (`Clean.lean`). -/
theorem accepted_morsel_clean :
  ∀ (a : CookieArgs) (m : Morsel), (∀ e, a.expires = some e → ∀ x ∈ e, x ≠ 59) →
    setCookie [] a = ([m], none) → MorselClean m := by
  intro a m hexp h
  exact textsAvoid_clean (accepted_avoid (· == 59) badKw_59 a m
    (fun e he x hx => by simpa using hexp e he x hx) h)

/-- the same at full strength: no text the Morsel emits verbatim (name, coded value, Domain, expires, Max-Age,
Path, SameSite, Version) contains `;`, a C0 control character or DEL — provided the externally formatted
`expires` text does not -/
theorem accepted_morsel_strict (a : CookieArgs) (m : Morsel)
    (hexp : ∀ e, a.expires = some e → ∀ x ∈ e, badKwChar x = false)
    (h : setCookie [] a = ([m], none)) : MorselStrict m :=
  accepted_avoid badKwChar (fun _ hc => hc) a m hexp h

/-- **Accepted calls emit exactly what was requested** (`attrs_exact` with its premise discharged): for every call
`set_cookie` accepts, a client that splits the emitted `Set-Cookie` value at every `;` reads the `name=coded_value`
pair followed by exactly the attributes of the Morsel the call built — same names, texts, order, nothing extra. -/
theorem accepted_attrs_exact (a : CookieArgs) (m : Morsel)
    (hexp : ∀ e, a.expires = some e → ∀ x ∈ e, x ≠ 59) (h : setCookie [] a = ([m], none)) :
    readSetCookie (outputString m) = some (kv m.key m.coded, requested m) :=
  attrs_exact m (accepted_morsel_clean a m hexp h)

/-- … whatever the jar held before: the call leaves the jar's other names alone and appends one Morsel, and that
Morsel is read back as exactly its requested attributes -/
theorem accepted_attrs_exact_jar (j j' : Jar) (a : CookieArgs)
    (hexp : ∀ e, a.expires = some e → ∀ x ∈ e, x ≠ 59) (h : setCookie j a = (j', none)) :
    ∃ m, j' = jarErase j m.key ++ [m] ∧ MorselClean m ∧
      readSetCookie (outputString m) = some (kv m.key m.coded, requested m) := by
  have hs := setCookie_eq j a
  rw [h] at hs
  have h2 : (setCookie [] a).2 = none := by
    split at hs
    · rename_i m e heq
      injection hs with _ h2
      rw [heq, ← h2]
    · rename_i l e _ heq
      injection hs with _ h2
      rw [heq, ← h2]
  obtain ⟨m, hm⟩ := setCookie_nil_ok a h2
  rw [hm] at hs
  simp only at hs
  injection hs with h1 _
  exact ⟨m, h1, accepted_morsel_clean a m hexp hm, accepted_attrs_exact a m hexp hm⟩

/-- without deprecated keywords the requested attributes are the call's own arguments: the reader finds `Domain`,
`expires`, `HttpOnly`, `Max-Age` (= `str(max_age)`, omitted for 0), `Path`, `SameSite`, `Secure` — each iff given
(non-empty / true), with the given text, in that order -/
theorem accepted_attrs_args (a : CookieArgs) (m : Morsel) (hkw : a.kwargs = [])
    (hexp : ∀ e, a.expires = some e → ∀ x ∈ e, x ≠ 59) (h : setCookie [] a = ([m], none)) :
    ∃ name value, nativeStr a.name = .ok name ∧ nativeStr a.value = .ok value ∧
      readSetCookie (outputString m) = some (kv name (quote value),
        reqAttr dDomain (optStr a.domain) ++ reqAttr dExpires (optStr a.expires) ++ reqFlag dHttpOnly a.httponly
          ++ reqAttr dMaxAge (match a.maxAge with | some i => if i = 0 then [] else decOfInt i | none => [])
          ++ reqAttr dPath (optStr a.path) ++ reqAttr dSameSite (optStr a.samesite) ++ reqFlag dSecure a.secure) := by
  obtain ⟨name, value, hn, hv, _, _, _, _, _, _, _, _, hm⟩ := setCookie_accept_inv a m h
  rw [hkw] at hm
  simp only [applyKwargs, Prod.mk.injEq, and_true] at hm
  refine ⟨name, value, hn, hv, ?_⟩
  rw [accepted_attrs_exact a m hexp h, ← hm]
  simp only [requested, baseMorsel, reqAttr, List.isEmpty_nil, if_true, List.nil_append, List.append_nil]
  rfl

/-- non-vacuity: an accepted call with every kind of argument, a deprecated keyword (`Version`) and a comment that
holds a `;` (quoted by the library) -/
example : setCookie [] { name := .str [97], value := .str [98, 59], domain := some [120], maxAge := some 60,
                         secure := true, samesite := some [76, 97, 120], expires := some [84, 104, 117],
                         kwargs := [([86, 101, 114, 115, 105, 111, 110], .str [49]),
                                    ([99, 111, 109, 109, 101, 110, 116], .str [99, 59, 100])] }
    = ([{ key := [97], value := [98, 59], coded := [34, 98, 92, 48, 55, 51, 34], domain := [120], maxAge := [54, 48],
          path := [47], secure := true, samesite := [76, 97, 120], expires := [84, 104, 117], version := [49],
          comment := [99, 59, 100] }], none) := by rfl
/-- … and a call the model refuses (a `;` in a deprecated keyword value — the fixed defect): not accepted -/
example : (setCookie [] { name := .str [97], value := .str [98],
                          kwargs := [([68, 111, 109, 97, 105, 110], .str [120, 59, 32, 83])] }).2
    = some .cookieError := by rfl

/-- **Last setting wins**: after `set_cookie` returns, the jar is the old jar without any entry of that
name, followed by the one morsel this call would have produced on an empty jar — so an earlier
setting of the same name contributes nothing to the response. -/
theorem last_wins (j j' : Jar) (a : CookieArgs) (h : setCookie j a = (j', none)) :
    ∃ m, setCookie [] a = ([m], none) ∧ j' = jarErase j m.key ++ [m] ∧ ∀ x ∈ jarErase j m.key, x.key ≠ m.key := by
  have hs := setCookie_eq j a
  rw [h] at hs
  have h2 : (setCookie [] a).2 = none := by
    split at hs
    · rename_i m e heq
      injection hs with _ h2
      rw [heq, ← h2]
    · rename_i l e _ heq
      injection hs with _ h2
      rw [heq, ← h2]
  obtain ⟨m, hm⟩ := setCookie_nil_ok a h2
  rw [hm] at hs
  simp only at hs
  injection hs with h1 _
  exact ⟨m, hm, h1, jarErase_no_key j m.key⟩

example : (setCookie [{ key := [97], value := [49], coded := [49] }] { name := .str [97], value := .str [50] })
    = ([{ key := [97], value := [50], coded := [50], path := [47] }], none) := by rfl

theorem jar_names_unique (calls : List CookieArgs) (j : Jar) (h : (j.map (·.key)).Nodup) :
    ((runJar j calls).1.map (·.key)).Nodup := by
  induction calls generalizing j with
  | nil => exact h
  | cons a rest ih => exact ih _ (setCookie_nodup j a h)


example : ((runJar [] [{ name := .str [97], value := .str [49] }, { name := .str [98], value := .str [50] },
                       { name := .str [97], value := .str [51] }]).1.map (·.key)) = [[98], [97]] := by rfl

/-! ### cookies survive `clear()` and every way a handler can end -/

theorem endState_jar (s : HState) (e : Ending) : (endState s e).jar = s.jar := by
  cases e <;> rfl

theorem hrun_jar (s : HState) (ops : List HOp) : (hrun s ops).1.jar = (runJar s.jar (cookieCalls ops)).1 := by
  induction ops generalizing s with
  | nil => rfl
  | cons o rest ih =>
    cases o with
    | cookie a => simp only [hrun, hstep, cookieCalls, runJar, ih]
    | clear => simp only [hrun, hstep, cookieCalls, ih]

/-- **The error path keeps the cookies**: for every handler program (cookie calls interleaved with `clear()`) and
every ending — `finish`, `send_error(status)`, `raise HTTPError(status)`, any other exception, `redirect` — the
`Set-Cookie` values of the response (or the error of the cookie loop) are exactly those of the jar the cookie calls
alone build: neither `clear()` nor the kind of ending adds, drops or changes a cookie. -/
theorem ending_keeps_cookies (ops : List HOp) (e : Ending) :
    (serveHandler ops e).2.map Prod.snd = flushCookies (runJar [] (cookieCalls ops)).1 := by
  have hj : (endState (hrun {} ops).1 e).jar = (runJar [] (cookieCalls ops)).1 := by
    rw [endState_jar, hrun_jar]
  simp only [serveHandler, respond, hj]
  cases flushCookies (runJar [] (cookieCalls ops)).1 <;> rfl

/-- per-call outcomes do not depend on `clear()` either -/
theorem hrun_outs_cookie (s : HState) (a : CookieArgs) (rest : List HOp) :
    (hrun s (.cookie a :: rest)).2 = (setCookie s.jar a).2 :: (hrun { s with jar := (setCookie s.jar a).1 } rest).2 := rfl

/-- non-vacuity: `clear_cookie`-like call, `clear()`, a second cookie, then `raise HTTPError(403)`: status 403 and
both cookies -/
example : serveHandler [.cookie { name := .str [97], value := .str [49] }, .clear,
                        .cookie { name := .str [98], value := .str [50], httponly := true }] (.raiseHTTP 403)
    = ([none, none, none], .ok (403, [[97, 61, 49, 59, 32, 80, 97, 116, 104, 61, 47],
        [98, 61, 50, 59, 32, 72, 116, 116, 112, 79, 110, 108, 121, 59, 32, 80, 97, 116, 104, 61, 47]])) := by rfl

/-! ### the call returns ⇒ the response is sent, with that cookie (review S1-a, S2-a, S2-b, S2-c) -/

/-- **A call that raises changes nothing** (fix 1aefcde): the jar — hence the response — is as if the call had not been
made; in particular it cannot replace or half-set the cookie an earlier, returning call set under the same name. -/
theorem raised_call_no_effect (j : Jar) (a : CookieArgs) (e : Err) (h : (setCookie j a).2 = some e) :
    (setCookie j a).1 = j := setCookie_raise_jar j a e h

/-- **Every Morsel that gets into the jar can be sent** (fix dc0f039): after any sequence of calls, returning or
raising, the cookie loop of `flush` succeeds and writes exactly the `OutputString`s of the jar. -/
theorem flush_never_fails (calls : List CookieArgs) :
    flushCookies (runJar [] calls).1 = .ok ((runJar [] calls).1.map outputString) :=
  flushCookies_ok _ (runJar_sendable calls [] (by simp))

/-- **The response is always sent**: for every handler program and every ending, `respond` is `.ok`: a status line and the
`Set-Cookie` values of the whole jar (no call that returned can make `flush` raise). -/
theorem response_always_sent (ops : List HOp) (e : Ending) :
    ∃ st, (serveHandler ops e).2 = .ok (st, (runJar [] (cookieCalls ops)).1.map outputString) := by
  have hj : (endState (hrun {} ops).1 e).jar = (runJar [] (cookieCalls ops)).1 := by
    rw [endState_jar, hrun_jar]
  refine ⟨(endState (hrun {} ops).1 e).status, ?_⟩
  simp only [serveHandler, respond, hj, flush_never_fails]

/-- with deprecated keywords too, the Morsel — hence (by `accepted_attrs_exact`) the attribute list the client reads — is
a function of the call's own arguments: the base Morsel of the named arguments overridden, in order, by `morsel[k] = v`
for each keyword (`setAttr`), and name / coded value are the call's name and `_quote(value)`. -/
theorem accepted_attrs_kwargs (a : CookieArgs) (m : Morsel)
    (hexp : ∀ e, a.expires = some e → ∀ x ∈ e, x ≠ 59) (h : setCookie [] a = ([m], none)) :
    ∃ name value, nativeStr a.name = .ok name ∧ nativeStr a.value = .ok value ∧
      readSetCookie (outputString m) = some (kv name (quote value),
        requested (applyKwargs (baseMorsel name value a) a.kwargs).1) := by
  obtain ⟨name, value, hn, hv, _, hk, hc, hm⟩ := buildMorsel_name_value a m (setCookie_nil_build a m h)
  refine ⟨name, value, hn, hv, ?_⟩
  rw [accepted_attrs_exact a m hexp h, hk, hc, ← hm]

/-- **Composed read-back of an accepted call** (any keywords): the client reads `first` = `name=_quote(value)` followed by
exactly the requested attributes, and `parse_cookie(first)` — what tornado reads on the next request — is exactly
`{name: value}` for the call's own name and value. -/
theorem accepted_readback (a : CookieArgs) (m : Morsel)
    (hexp : ∀ e, a.expires = some e → ∀ x ∈ e, x ≠ 59) (h : setCookie [] a = ([m], none)) :
    ∃ name value first, nativeStr a.name = .ok name ∧ nativeStr a.value = .ok value ∧
      readSetCookie (outputString m) = some (first, requested m) ∧ parseCookie first = [(name, value)] := by
  obtain ⟨name, value, hn, hv, hl, hk, hc, _⟩ := buildMorsel_name_value a m (setCookie_nil_build a m h)
  refine ⟨name, value, kv name (quote value), hn, hv, ?_, set_then_parse name value hl⟩
  rw [accepted_attrs_exact a m hexp h, hk, hc]

/-- **The first clause, run level**: take any handler (cookie calls interleaved with `clear()`, any ending) and any one of
its cookie calls `a` that **returned**.  If no later call *that returns* sets the same name (later calls that raise do
not matter), then the response **is sent** (`.ok`, whatever the status) and one of its `Set-Cookie` values is read by
the client as `first` + exactly the attributes requested by `a`, where `parse_cookie(first) = {name: value}` of `a`. -/
theorem returned_call_sent (ops : List HOp) (e : Ending) (pre post : List CookieArgs) (a : CookieArgs) (j' : Jar)
    (hops : cookieCalls ops = pre ++ a :: post)
    (hret : setCookie (runJar [] pre).1 a = (j', none))
    (hexp : ∀ t, a.expires = some t → ∀ x ∈ t, x ≠ 59)
    (hlast : ∀ b ∈ post, ∀ mb, buildMorsel b = .ok mb → nativeStr b.name ≠ nativeStr a.name) :
    ∃ name value m st l first, nativeStr a.name = .ok name ∧ nativeStr a.value = .ok value ∧
      (serveHandler ops e).2 = .ok (st, l) ∧ outputString m ∈ l ∧
      readSetCookie (outputString m) = some (first, requested m) ∧
      m = (applyKwargs (baseMorsel name value a) a.kwargs).1 ∧ parseCookie first = [(name, value)] := by
  obtain ⟨m, hb, hj'⟩ := (setCookie_ok_iff _ j' a).mp hret
  have h0 : setCookie [] a = ([m], none) := by rw [setCookie_of_build_ok [] a m hb]; rfl
  obtain ⟨name, value, hn, hv, hl, hk, hc, hm⟩ := buildMorsel_name_value a m hb
  obtain ⟨st, hst⟩ := response_always_sent ops e
  refine ⟨name, value, m, st, _, kv name (quote value), hn, hv, hst, ?_, ?_, hm, set_then_parse name value hl⟩
  · rw [hops, runJar_append]
    simp only [runJar, hret, List.mem_map]
    refine ⟨m, runJar_keeps post j' m (by rw [hj']; simp) ?_, rfl⟩
    intro b hbm mb hmb hkey
    obtain ⟨nb, _, hnb, _, _, hkb, _, _⟩ := buildMorsel_name_value b mb hmb
    apply hlast b hbm mb hmb
    rw [hnb, hn, ← hkb, ← hk, hkey]
  · rw [accepted_attrs_exact a m hexp h0, hk, hc]

/-- non-vacuity, and the witnesses of the two repaired defects as the fixed code behaves: `set_cookie("ok","1")` returns,
`set_cookie("w","€")` raises `CookieError` (before dc0f039 it returned and `flush` raised `ValueError`: no response);
`set_cookie("a","first")` then `set_cookie("a","second", bogus="x")`: the second raises and (since 1aefcde) `a=first`
is what is sent -/
example : serveHandler [.cookie { name := .str [111, 107], value := .str [49] },
                        .cookie { name := .str [119], value := .str [8364] }] .finish
    = ([none, some .cookieError], .ok (200, [[111, 107, 61, 49, 59, 32, 80, 97, 116, 104, 61, 47]])) := by rfl
example : serveHandler [.cookie { name := .str [97], value := .str [49] },
                        .cookie { name := .str [97], value := .str [50], kwargs := [([120], .str [121])] }] .finish
    = ([none, some .cookieError], .ok (200, [[97, 61, 49, 59, 32, 80, 97, 116, 104, 61, 47]])) := by rfl
example : (setCookie [] { name := .str [97], value := .str [98], domain := some [8364] }).2 = some .cookieError := by rfl
/-- a deprecated keyword value may end in a space; as the last attribute it would make `HTTPHeaders.add` refuse the header -/
example : (setCookie [] { name := .str [97], value := .str [98],
                          kwargs := [([86, 101, 114, 115, 105, 111, 110], .str [49, 32])] }).2 = some .cookieError := by rfl

end TornadoModel.C25
