/-
C28 — specification side.

`sameSite loc`: the Location is an absolute path on this host — it starts with `/`, and its second
character is neither `/` (protocol-relative `//host`) nor `\` (which browsers treat like `/`); in
particular it cannot carry a scheme.

`loginRedirectOk login loc`: the Location is the configured login URL, optionally followed by
`?next=` and text made only of unreserved characters, `%` and `+` (the request appears only
percent-encoded inside the `next` parameter).
-/
import TornadoModel.C28.Model
namespace TornadoModel.C28.Spec
open TornadoModel.C26 (Str)

def sameSite (loc : Str) : Bool :=
  match loc with
  | 47 :: 47 :: _ => false
  | 47 :: 92 :: _ => false
  | 47 :: _ => true
  | _ => false

/-- unreserved characters, `%` and `+` -/
def encodedChar (c : Nat) : Bool :=
  (48 ≤ c && c ≤ 57) || (65 ≤ c && c ≤ 90) || (97 ≤ c && c ≤ 122)
    || c == 95 || c == 46 || c == 45 || c == 126 || c == 37 || c == 43

def nextPrefix : Str := [63, 110, 101, 120, 116, 61]   -- "?next="

def loginRedirectOk (login loc : Str) : Bool :=
  login.isPrefixOf loc &&
    (let rest := loc.drop login.length
     rest == [] || (nextPrefix.isPrefixOf rest && (rest.drop nextPrefix.length).all encodedChar))

end TornadoModel.C28.Spec
