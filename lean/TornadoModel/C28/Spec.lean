/-
C28 — specification side.

`sameSite loc`: the Location is an absolute path on this host — it starts with `/`, and its second
character is neither `/` (protocol-relative `//host`) nor `\` (which browsers treat like `/`); in
particular it cannot carry a scheme.

`loginRedirectOk login loc`: the Location is the configured login URL, optionally followed by
`?next=` and text made only of unreserved characters, `%` and `+` (the request appears only
percent-encoded inside the `next` parameter).
-/
import TornadoModel.C28.Model
namespace TornadoModel.C28.Spec
open TornadoModel.C26 (Str)

def sameSite (loc : Str) : Bool :=
  match loc with
  | 47 :: 47 :: _ => false
  | 47 :: 92 :: _ => false
  | 47 :: _ => true
  | _ => false

/-! ### an independent yardstick for "a path on the same host" (review S2-a)

How a browser resolves a `Location` value as a reference against an http(s) page (WHATWG URL standard, basic URL parser):
leading C0-control/space characters are stripped and ASCII tab / LF / CR are removed wherever they occur; then a value that
begins with `scheme:` is scheme-qualified, a value whose first two characters are each `/` or `\` (a backslash counts as a
slash for http/https) names another authority (`//host`), and a value with a single leading `/` is a path on the same host.
This definition does not mention the code's `_is_same_site_path`. -/

def c0OrSpace (c : Nat) : Bool := c ≤ 0x20
def tabOrNewline (c : Nat) : Bool := c == 9 || c == 10 || c == 13

/-- the text the URL parser actually sees -/
def browserInput (loc : Str) : Str := (loc.dropWhile c0OrSpace).filter (fun c => !tabOrNewline c)

def isAlpha (c : Nat) : Bool := (65 ≤ c && c ≤ 90) || (97 ≤ c && c ≤ 122)
def isSchemeChar (c : Nat) : Bool := isAlpha c || (48 ≤ c && c ≤ 57) || c == 43 || c == 45 || c == 46

/-- `ALPHA *( ALPHA / DIGIT / "+" / "-" / "." ) ":"` at the start -/
def hasScheme (s : Str) : Bool :=
  match s with
  | c :: rest => isAlpha c && ((rest.dropWhile isSchemeChar).head? == some 58)
  | [] => false

def slashLike (c : Nat) : Bool := c == 47 || c == 92

/-- `//host…`, `/\host…`, `\/host…`, `\\host…` -/
def protocolRelative (s : Str) : Bool :=
  match s with
  | a :: b :: _ => slashLike a && slashLike b
  | _ => false

/-- the reference leaves the site: scheme-qualified or protocol-relative -/
def offSite (loc : Str) : Bool := hasScheme (browserInput loc) || protocolRelative (browserInput loc)

/-- the Location is a path on the same host: begins with `/` and does not leave the site -/
def onSameHost (loc : Str) : Bool := (browserInput loc).head? == some 47 && !offSite loc

/-- unreserved characters, `%` and `+` -/
def encodedChar (c : Nat) : Bool :=
  (48 ≤ c && c ≤ 57) || (65 ≤ c && c ≤ 90) || (97 ≤ c && c ≤ 122)
    || c == 95 || c == 46 || c == 45 || c == 126 || c == 37 || c == 43

def nextPrefix : Str := [63, 110, 101, 120, 116, 61]   -- "?next="

def loginRedirectOk (login loc : Str) : Bool :=
  login.isPrefixOf loc &&
    (let rest := loc.drop login.length
     rest == [] || (nextPrefix.isPrefixOf rest && (rest.drop nextPrefix.length).all encodedChar))

end TornadoModel.C28.Spec
