import TornadoModel.C28.Spec
namespace TornadoModel.C28
end TornadoModel.C28
