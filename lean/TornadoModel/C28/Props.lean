/-
C28 — property theorems.
-/
import TornadoModel.C28.Spec
namespace TornadoModel.C28
open TornadoModel.C26 (Str cSlash endsWithSlash sameSitePath utf8Enc)

/-- the guard of the D17 fix is the specification predicate -/
theorem sameSitePath_eq (p : Str) : sameSitePath p = Spec.sameSite p := by
  unfold sameSitePath Spec.sameSite
  rfl

theorem sameSite_cons2 (a b : Nat) (t : Str) :
    Spec.sameSite (a :: b :: t) = (a == 47 && b != 47 && b != 92) := by
  unfold Spec.sameSite
  split
  · rename_i h; injection h with h1 h2; injection h2 with h2 h3; subst h1 h2; rfl
  · rename_i h; injection h with h1 h2; injection h2 with h2 h3; subst h1 h2; rfl
  · rename_i h1 h2 h; injection h with ha hb; subst ha hb
    have n1 : b ≠ 47 := fun hc => h1 t (by rw [hc])
    have n2 : b ≠ 92 := fun hc => h2 t (by rw [hc])
    simp [n1, n2]
  · rename_i h
    have : a ≠ 47 := fun hc => h (b :: t) (by rw [hc])
    simp [this]

theorem sameSite_single (a : Nat) : Spec.sameSite [a] = (a == 47) := by
  unfold Spec.sameSite
  split
  · rename_i h; injection h with _ h; cases h
  · rename_i h; injection h with _ h; cases h
  · rename_i h; injection h with h _; subst h; rfl
  · rename_i h
    have : a ≠ 47 := fun hc => h [] (by rw [hc])
    simp [this]

/-- appending a query (`?…`) or nothing to a same-site path keeps it same-site -/
theorem sameSite_withQuery (uri q : Str) (h : Spec.sameSite uri = true) : Spec.sameSite (withQuery uri q) = true := by
  unfold withQuery
  split
  · exact h
  · rcases uri with _ | ⟨a, _ | ⟨b, t⟩⟩
    · simp [Spec.sameSite] at h
    · rw [sameSite_single] at h
      show Spec.sameSite (a :: 63 :: q) = true
      rw [sameSite_cons2]
      simp_all
    · rw [sameSite_cons2] at h
      show Spec.sameSite (a :: b :: (t ++ 63 :: q)) = true
      rw [sameSite_cons2]
      exact h

/-- **slash_redirect_same_site.**  Whatever the method, request path and query: if `@removeslash` or `@addslash`
answers with a redirect, its Location is a same-site absolute path (starts with `/`, second character neither
`/` nor `\\`). -/
theorem slash_redirect_same_site (m : Method) (path query : Str) (st : Nat) (loc : Str)
    (h : removeslash m path query = .redirect st loc ∨ addslash m path query = .redirect st loc) :
    Spec.sameSite loc = true := by
  rcases h with h | h
  · unfold removeslash at h
    simp only [] at h
    repeat' split at h
    all_goals first | cases h | skip
    apply sameSite_withQuery
    rw [← sameSitePath_eq]
    simp_all
  · unfold addslash at h
    simp only [] at h
    repeat' split at h
    all_goals first | cases h | skip
    apply sameSite_withQuery
    rw [← sameSitePath_eq]
    simp_all


theorem sameSite_addSlash (p : Str) (h : Spec.sameSite p = true) (hne : endsWithSlash p = false) :
    Spec.sameSite (p ++ [cSlash]) = true := by
  rcases p with _ | ⟨a, _ | ⟨b, t⟩⟩
  · simp [Spec.sameSite] at h
  · rw [sameSite_single] at h
    have : a = 47 := by simpa using h
    subst this
    simp [endsWithSlash, cSlash] at hne
  · rw [sameSite_cons2] at h
    show Spec.sameSite (a :: b :: (t ++ [cSlash])) = true
    rw [sameSite_cons2]
    exact h

/-- **static_redirect_same_site.**  For every configuration, request path, resolved file path and filesystem:
if `validate_absolute_path` redirects (directory without trailing slash), the Location is a same-site
absolute path. -/
theorem static_redirect_same_site (cfg : C26.Cfg) (reqPath absPath : Str) (fs : Str → C26.Kind) (loc : Str)
    (h : (C26.validate cfg reqPath absPath fs).1 = .redirect loc) : Spec.sameSite loc = true := by
  have key : ∀ (a : Str) (qs : List C26.Q), (C26.existsFile fs a qs).1 ≠ .redirect loc := by
    intro a qs
    unfold C26.existsFile
    split
    · simp
    · split <;> simp
  unfold C26.validate at h
  split at h
  · cases h
  · split at h
    · split at h
      · split at h
        · split at h
          · cases h
          · rename_i hns hss
            simp only [C26.Resp.redirect.injEq] at h
            subst h
            apply sameSite_addSlash
            · rw [← sameSitePath_eq]; simpa using hss
            · simpa using hns
        · exact absurd h (key _ _)
      · exact absurd h (key _ _)
    · exact absurd h (key _ _)

/-- the same for a whole request through any of the catch-all patterns -/
theorem static_handle_redirect_same_site (cfg : C26.Cfg) (pat : C26.Pat) (target : Str) (fs : Str → C26.Kind)
    (loc : Str) (h : (C26.handle cfg pat target fs).1 = .redirect loc) : Spec.sameSite loc = true := by
  unfold C26.handle at h
  simp only [] at h
  split at h
  · cases h
  split at h
  · cases h
  · split at h
    · cases h
    · exact static_redirect_same_site _ _ _ _ _ h

/-! ### the login redirect -/

theorem hexDigitU_encoded (n : Nat) (h : n < 16) : Spec.encodedChar (hexDigitU n) = true := by
  unfold hexDigitU Spec.encodedChar
  split <;> simp <;> omega

theorem alwaysSafe_encoded (b : Nat) (h : alwaysSafe b = true) : Spec.encodedChar b = true := by
  unfold alwaysSafe at h
  unfold Spec.encodedChar
  simp only [Bool.or_eq_true] at h ⊢
  rcases h with (((((h | h) | h) | h) | h) | h) | h <;> simp [h]

theorem quoteByte_encoded (b : Nat) (hb : b < 256) : (quoteByte b).all Spec.encodedChar = true := by
  unfold quoteByte
  split
  · rename_i h
    simp only [List.all_cons, List.all_nil, Bool.and_true]
    exact alwaysSafe_encoded b h
  · split
    · decide
    · simp only [List.all_cons, List.all_nil, Bool.and_true, Bool.and_eq_true]
      exact ⟨by decide, hexDigitU_encoded _ (by omega), hexDigitU_encoded _ (Nat.mod_lt _ (by omega))⟩

theorem utf8Enc_bytes (s : Str) (hs : ∀ c ∈ s, c < 0x800) : ∀ b ∈ utf8Enc s, b < 256 := by
  intro b hb
  unfold utf8Enc at hb
  simp only [List.mem_flatMap] at hb
  obtain ⟨c, hc, hb⟩ := hb
  have := hs c hc
  split at hb
  · simp at hb; omega
  · simp at hb; rcases hb with hb | hb <;> omega

/-- `quote_plus` emits only unreserved characters, `%` and `+` -/
theorem quotePlus_encoded (s : Str) (hs : ∀ c ∈ s, c < 0x800) : (quotePlus s).all Spec.encodedChar = true := by
  unfold quotePlus
  simp only [List.all_flatMap, List.all_eq_true]
  intro b hb
  have := quoteByte_encoded b (utf8Enc_bytes s hs b hb)
  simpa [List.all_eq_true] using this

theorem isPrefixOf_append_self (a b : Str) : a.isPrefixOf (a ++ b) = true := by
  induction a with
  | nil => simp [List.isPrefixOf]
  | cons x t ih => simp [List.isPrefixOf, ih]

theorem drop_length_append (a b : Str) : (a ++ b).drop a.length = b := by
  induction a with
  | nil => rfl
  | cons x t ih => simpa using ih

theorem loginOk_next (login q : Str) (hq : q.all Spec.encodedChar = true) :
    Spec.loginRedirectOk login (login ++ (Spec.nextPrefix ++ q)) = true := by
  unfold Spec.loginRedirectOk
  have h1 : login.isPrefixOf (login ++ (Spec.nextPrefix ++ q)) = true := isPrefixOf_append_self _ _
  have h2 : (login ++ (Spec.nextPrefix ++ q)).drop login.length = Spec.nextPrefix ++ q := drop_length_append _ _
  have h3 : Spec.nextPrefix.isPrefixOf (Spec.nextPrefix ++ q) = true := isPrefixOf_append_self _ _
  have h4 : (Spec.nextPrefix ++ q).drop Spec.nextPrefix.length = q := drop_length_append _ _
  simp only [h1, h2, h3, h4, hq, Bool.true_and, Bool.or_true, Bool.and_self]

/-- **login_redirect_is_login_url.**  If `@authenticated` redirects, the Location is the configured login URL,
followed — when the login URL has no query of its own — by `?next=` and a percent-encoded copy of the request
(`Spec.loginRedirectOk`): the request never contributes a raw character to the Location. -/
theorem login_redirect_is_login_url (li : Bool) (m : Method) (login : Str) (sch : Bool) (uri full : Str)
    (st : Nat) (loc : Str) (hu : ∀ c ∈ uri, c < 0x800) (hf : ∀ c ∈ full, c < 0x800)
    (h : authenticated li m login sch uri full = .redirect st loc) :
    Spec.loginRedirectOk login loc = true := by
  unfold authenticated at h
  split at h
  · split at h
    · split at h
      · injection h with _ h
        subst h
        simp [Spec.loginRedirectOk]
      · injection h with _ h
        subst h
        have hq : (quotePlus (if sch = true then full else uri)).all Spec.encodedChar = true := by
          split
          · exact quotePlus_encoded _ hf
          · exact quotePlus_encoded _ hu
        simpa [nextEq, Spec.nextPrefix] using loginOk_next login _ hq
    · cases h
  · cases h


/-- what `Spec.sameSite` excludes: the Location starts with `/`, and neither `//…` (protocol-relative), `/\…`
nor anything without a leading slash (hence nothing with a scheme) passes -/
theorem sameSite_not_offsite (loc : Str) (h : Spec.sameSite loc = true) :
    ∃ rest, loc = 47 :: rest ∧ rest.head? ≠ some 47 ∧ rest.head? ≠ some 92 := by
  rcases loc with _ | ⟨a, _ | ⟨b, t⟩⟩
  · simp [Spec.sameSite] at h
  · rw [sameSite_single] at h
    exact ⟨[], by simp_all, by simp, by simp⟩
  · rw [sameSite_cons2] at h
    refine ⟨b :: t, ?_, ?_, ?_⟩ <;> simp_all

theorem ofOut_redirect (o : Out) (st : Nat) (loc : Str) (h : ofOut o = .redirect st loc) : o = .redirect st loc := by
  cases o <;> simp [ofOut] at h ⊢
  exact h

/-- whole requests through a catch-all pattern: any redirect produced by the slash decorators is same-site -/
theorem handleDeco_slash_same_site (pat : C26.Pat) (m : Method) (target : Str) (st : Nat) (loc : Str)
    (h : handleDeco .rm pat m target = .redirect st loc ∨ handleDeco .add pat m target = .redirect st loc) :
    Spec.sameSite loc = true := by
  unfold handleDeco at h
  simp only [] at h
  rcases h with h | h
  · split at h
    · cases h
    split at h
    · cases h
    · split at h
      · cases h
      · exact slash_redirect_same_site m _ _ st loc (Or.inl (ofOut_redirect _ _ _ h))
  · split at h
    · cases h
    split at h
    · cases h
    · split at h
      · cases h
      · exact slash_redirect_same_site m _ _ st loc (Or.inr (ofOut_redirect _ _ _ h))

/-! ### the guard against an independent yardstick (review S2-a) -/

theorem browserInput_id (loc : Str) (h : ∀ c ∈ loc, 0x20 < c) : Spec.browserInput loc = loc := by
  unfold Spec.browserInput
  have h1 : loc.dropWhile Spec.c0OrSpace = loc := by
    cases loc with
    | nil => rfl
    | cons a t =>
      have := h a (by simp)
      rw [List.dropWhile_cons]
      simp [Spec.c0OrSpace]
      omega
  rw [h1, List.filter_eq_self]
  intro c hc
  have := h c hc
  simp [Spec.tabOrNewline]
  omega

/-- **sameSite_iff_onSameHost.**  On text without whitespace/control characters (all a request line can carry), the code's
guard accepts exactly the values a browser resolves to a path on the same host (`Spec.onSameHost`: begins with `/`, no
`scheme:` prefix, not `//`, `/\`, `\/`, `\\` at the start) -/
theorem sameSite_iff_onSameHost (loc : Str) (h : ∀ c ∈ loc, 0x20 < c) : sameSitePath loc = Spec.onSameHost loc := by
  rw [sameSitePath_eq]
  unfold Spec.onSameHost Spec.offSite
  rw [browserInput_id loc h]
  rcases loc with _ | ⟨a, _ | ⟨b, t⟩⟩
  · rfl
  · rw [sameSite_single]
    by_cases ha : a = 47
    · subst ha; simp [Spec.hasScheme, Spec.protocolRelative, Spec.isAlpha]
    · have ha' : (a == 47) = false := by simp [ha]
      simp [ha']
  · rw [sameSite_cons2]
    by_cases ha : a = 47
    · subst ha
      cases hb1 : (b == 47) <;> cases hb2 : (b == 92) <;>
        simp [Spec.hasScheme, Spec.protocolRelative, Spec.isAlpha, Spec.slashLike, bne, hb1, hb2]
    · have ha' : (a == 47) = false := by simp [ha]
      simp [ha']

/-- without that side condition the guard is *not* adequate: `/<TAB>/host` passes it, a browser drops the tab -/
theorem sameSite_tab_refuted : sameSitePath [47, 9, 47, 101] = true ∧ Spec.onSameHost [47, 9, 47, 101] = false := by decide

theorem vchar_gt (c : Nat) (h : C26.vchar c = true) : 0x20 < c := by
  simp [C26.vchar] at h
  omega

theorem validTarget_gt (t : Str) (h : C26.validTarget t = true) : ∀ c ∈ t, 0x20 < c := by
  intro c hc
  simp only [C26.validTarget, Bool.and_eq_true, List.all_eq_true] at h
  exact vchar_gt c (h.2 c hc)

theorem splitTarget_mem (t : Str) : (∀ c ∈ (splitTarget t).1, c ∈ t) ∧ (∀ c ∈ (splitTarget t).2, c ∈ t) := by
  unfold splitTarget
  constructor
  · intro c hc; exact (List.takeWhile_sublist _).subset hc
  · intro c hc
    exact (List.dropWhile_sublist _).subset ((List.drop_sublist _ _).subset hc)

theorem rstripSlash_mem (s : Str) : ∀ c ∈ rstripSlash s, c ∈ s := by
  intro c hc
  unfold rstripSlash at hc
  rw [List.mem_reverse] at hc
  exact List.mem_reverse.mp ((List.dropWhile_sublist _).subset hc)

theorem withQuery_gt (uri q : Str) (hu : ∀ c ∈ uri, 0x20 < c) (hq : ∀ c ∈ q, 0x20 < c) : ∀ c ∈ withQuery uri q, 0x20 < c := by
  intro c hc
  unfold withQuery at hc
  split at hc
  · exact hu c hc
  · simp only [List.mem_append, List.mem_cons] at hc
    rcases hc with hc | hc | hc
    · exact hu c hc
    · omega
    · exact hq c hc

/-- the Location of a slash-decorator redirect consists of characters of the request path/query, `/` and `?` -/
theorem slash_redirect_chars (m : Method) (path query : Str) (st : Nat) (loc : Str)
    (hp : ∀ c ∈ path, 0x20 < c) (hq : ∀ c ∈ query, 0x20 < c)
    (h : removeslash m path query = .redirect st loc ∨ addslash m path query = .redirect st loc) :
    ∀ c ∈ loc, 0x20 < c := by
  rcases h with h | h
  · unfold removeslash at h
    simp only [] at h
    repeat' split at h
    all_goals first | cases h | skip
    exact withQuery_gt _ _ (fun c hc => hp c (rstripSlash_mem _ c hc)) hq
  · unfold addslash at h
    simp only [] at h
    repeat' split at h
    all_goals first | cases h | skip
    refine withQuery_gt _ _ (fun c hc => ?_) hq
    simp only [List.mem_append, List.mem_singleton] at hc
    rcases hc with hc | hc
    · exact hp c hc
    · subst hc; simp [cSlash]

theorem sameSite_onSameHost_of (loc : Str) (h : ∀ c ∈ loc, 0x20 < c) (hs : Spec.sameSite loc = true) :
    Spec.onSameHost loc = true := by
  rw [← sameSite_iff_onSameHost loc h, sameSitePath_eq]; exact hs

/-- **handleDeco_slash_on_same_host.**  Whole request (request line, routing, argument decoding, decorator), no side
condition: whenever `@removeslash` / `@addslash` answer with a redirect, a browser resolves its Location to a path on
the same host (`Spec.onSameHost`, defined without reference to the code's guard). -/
theorem handleDeco_slash_on_same_host (pat : C26.Pat) (m : Method) (target : Str) (st : Nat) (loc : Str)
    (h : handleDeco .rm pat m target = .redirect st loc ∨ handleDeco .add pat m target = .redirect st loc) :
    Spec.onSameHost loc = true := by
  have hs := handleDeco_slash_same_site pat m target st loc h
  refine sameSite_onSameHost_of loc ?_ hs
  have hmem := splitTarget_mem target
  unfold handleDeco at h
  simp only [] at h
  rcases h with h | h
  · split at h
    · cases h
    rename_i hv
    have hv' := validTarget_gt target (by simpa using hv)
    split at h
    · cases h
    · split at h
      · cases h
      · exact slash_redirect_chars m _ _ st loc (fun c hc => hv' c (hmem.1 c hc)) (fun c hc => hv' c (hmem.2 c hc))
          (Or.inl (ofOut_redirect _ _ _ h))
  · split at h
    · cases h
    rename_i hv
    have hv' := validTarget_gt target (by simpa using hv)
    split at h
    · cases h
    · split at h
      · cases h
      · exact slash_redirect_chars m _ _ st loc (fun c hc => hv' c (hmem.1 c hc)) (fun c hc => hv' c (hmem.2 c hc))
          (Or.inr (ofOut_redirect _ _ _ h))

/-- **static_handle_on_same_host.**  The same for the static-directory redirect of a whole request. -/
theorem static_handle_on_same_host (cfg : C26.Cfg) (pat : C26.Pat) (target : Str) (fs : Str → C26.Kind)
    (loc : Str) (h : (C26.handle cfg pat target fs).1 = .redirect loc) : Spec.onSameHost loc = true := by
  have hs := static_handle_redirect_same_site cfg pat target fs loc h
  refine sameSite_onSameHost_of loc ?_ hs
  unfold C26.handle at h
  simp only [] at h
  split at h
  · cases h
  rename_i hv
  have hv' := validTarget_gt target (by simpa using hv)
  split at h
  · cases h
  · split at h
    · cases h
    · rename_i p _
      have hl : loc = C26.pathOfTarget target ++ [cSlash] := by
        unfold C26.serve C26.validate at h
        have key : ∀ (a : Str) (qs : List C26.Q), (C26.existsFile fs a qs).1 ≠ .redirect loc := by
          intro a qs
          unfold C26.existsFile
          split
          · simp
          · split <;> simp
        split at h
        · cases h
        · split at h
          · split at h
            · split at h
              · split at h
                · cases h
                · simp only [C26.Resp.redirect.injEq] at h
                  exact h.symm
              · exact absurd h (key _ _)
            · exact absurd h (key _ _)
          · exact absurd h (key _ _)
      intro c hc
      rw [hl] at hc
      simp only [List.mem_append, List.mem_singleton] at hc
      rcases hc with hc | hc
      · exact hv' c ((List.takeWhile_sublist _).subset hc)
      · subst hc; simp [cSlash]

/-- what `Spec.onSameHost` excludes, spelled out: not scheme-qualified, not protocol-relative -/
theorem onSameHost_not_offsite (loc : Str) (h : Spec.onSameHost loc = true) :
    Spec.hasScheme (Spec.browserInput loc) = false ∧ Spec.protocolRelative (Spec.browserInput loc) = false
      ∧ (Spec.browserInput loc).head? = some 47 := by
  unfold Spec.onSameHost Spec.offSite at h
  simp only [Bool.and_eq_true, Bool.not_eq_true', Bool.or_eq_false_iff, beq_iff_eq] at h
  exact ⟨h.2.1, h.2.2, h.1⟩

theorem vchar_lt (c : Nat) (h : C26.vchar c = true) : c < 0x800 := by
  simp [C26.vchar] at h
  omega

/-- **handleDeco_auth_login_url.**  Whole request, no side condition on the target (the request-line grammar bounds its
characters): whenever `@authenticated` redirects, the Location is the configured login URL, optionally followed by
`?next=` and percent-encoded text.  (`protocol`/`host` are below U+0800: they come from the connection and a latin-1 header.) -/
theorem handleDeco_auth_login_url (li : Bool) (login : Str) (sch : Bool) (proto host : Str) (pat : C26.Pat) (m : Method)
    (target : Str) (st : Nat) (loc : Str) (hp : ∀ c ∈ proto, c < 0x800) (hh : ∀ c ∈ host, c < 0x800)
    (h : handleDeco (.auth li login sch proto host) pat m target = .redirect st loc) :
    Spec.loginRedirectOk login loc = true := by
  unfold handleDeco at h
  simp only [] at h
  split at h
  · cases h
  rename_i hv
  have hv' : ∀ c ∈ target, c < 0x800 := by
    intro c hc
    have hv2 : C26.validTarget target = true := by simpa using hv
    simp only [C26.validTarget, Bool.and_eq_true, List.all_eq_true] at hv2
    exact vchar_lt c (hv2.2 c hc)
  split at h
  · cases h
  · split at h
    · cases h
    · refine login_redirect_is_login_url li m login sch target (fullUrl proto host target) st loc hv' ?_ (ofOut_redirect _ _ _ h)
      intro c hc
      unfold fullUrl at hc
      simp only [List.mem_append, List.mem_cons] at hc
      rcases hc with ((hc | hc) | hc) | hc
      · exact hp c hc
      · rcases hc with hc | hc | hc | hc
        · omega
        · omega
        · omega
        · cases hc
      · exact hh c hc
      · exact hv' c hc

/-! ### non-vacuity -/

-- "//evil.example/" under @removeslash: refused (403), no redirect; "/foo/" → 301 /foo?x
example : removeslash .get [47, 47, 101, 47] [] = .forbidden := by decide
example : removeslash .get [47, 102, 111, 111, 47] [120] = .redirect 301 [47, 102, 111, 111, 63, 120] := by decide
example : addslash .get [47, 102] [] = .redirect 301 [47, 102, 47] := by decide
example : addslash .head [47, 92, 101] [] = .forbidden := by decide
example : Spec.sameSite [47, 47, 101] = false := by decide
example : Spec.sameSite [104, 116, 116, 112, 58, 47, 47, 101] = false := by decide   -- "http://e"
-- login: "/login" + "?next=" + quote_plus("//e/?a=b") = "%2F%2Fe%2F%3Fa%3Db"
example : authenticated false .get [47, 108] false [47, 47, 101, 47, 63, 97, 61, 98] [] =
    .redirect 302 ([47, 108, 63, 110, 101, 120, 116, 61] ++ [37, 50, 70, 37, 50, 70, 101, 37, 50, 70, 37, 51, 70, 97, 37, 51, 68, 98]) := by decide

-- the independent yardstick on the classical open-redirect shapes
example : Spec.onSameHost [47, 102, 111, 111] = true := by decide                      -- "/foo"
example : Spec.onSameHost [47, 47, 101] = false := by decide                            -- "//e"
example : Spec.onSameHost [47, 92, 101] = false := by decide                            -- "/\e"
example : Spec.onSameHost [92, 92, 101] = false := by decide                            -- "\\e"
example : Spec.offSite [104, 116, 116, 112, 58, 47, 47, 101] = true := by decide        -- "http://e"
example : Spec.offSite [106, 97, 118, 97, 115, 99, 114, 105, 112, 116, 58, 120] = true := by decide   -- "javascript:x"
example : Spec.offSite [32, 47, 9, 47, 101] = true := by decide                         -- " /<TAB>/e"
example : handleDeco .add .all .get [47, 9, 47, 101] = .badRequest := by decide         -- a tab never reaches the decorator
example : handleDeco .add .all .get [47, 102] = .redirect 301 [47, 102, 47] := by decide

end TornadoModel.C28
