/- C28 driver:
   `C28 deco <rm|add> <pat> <method> <target>`                                  → `ok <resp>`
   `C28 auth <loggedIn T|F> <login> <hasScheme T|F> <proto> <host> <pat> <method> <target>` → `ok <resp>`
   `C28 static <root> <default|~> <pat> <target> [[path,kind],…]`                → `ok <resp>`
   `C28 sameSite <loc>`   `C28 onSameHost <loc>`   `C28 loginOk <login> <loc>` -/
import TornadoModel.Base.Wire
import TornadoModel.C26.Drv
import TornadoModel.C28.Spec
namespace TornadoModel.C28.Drv
open TornadoModel TornadoModel.Wire TornadoModel.C28

def decMethod : V → Option Method
  | .atom "GET" => some .get
  | .atom "HEAD" => some .head
  | .atom "POST" => some .other
  | _ => none

def encResp : Resp → V
  | .notRouted => .list [.atom "notRouted"]
  | .badRequest => .list [.atom "badRequest"]
  | .forbidden => .list [.atom "forbidden"]
  | .notFound => .list [.atom "notFound"]
  | .ok => .list [.atom "ok"]
  | .redirect s l => .list [.atom "redirect", .int s, V.ofCps l]

def encStatic : C26.Resp → V
  | .notRouted => .list [.atom "notRouted"]
  | .badRequest => .list [.atom "badRequest"]
  | .forbidden => .list [.atom "forbidden"]
  | .notFound => .list [.atom "notFound"]
  | .served _ => .list [.atom "ok"]
  | .redirect l => .list [.atom "redirect", .int 301, V.ofCps l]

def handle (toks : List String) : String :=
  match toks.tail.mapM V.parse, toks.head? with
  | some args, some cmd =>
    match cmd, args with
    | "deco", [d, pat, m, t] =>
      match d.atom?, C26.Drv.decPat pat, decMethod m, t.cps? with
      | some "rm", some pat, some m, some t => ok [encResp (handleDeco .rm pat m t)]
      | some "add", some pat, some m, some t => ok [encResp (handleDeco .add pat m t)]
      | _, _, _, _ => err "bad-arg"
    | "auth", [li, login, sch, proto, host, pat, m, t] =>
      match li.bool?, login.cps?, sch.bool?, proto.cps?, host.cps?, C26.Drv.decPat pat, decMethod m, t.cps? with
      | some li, some login, some sch, some proto, some host, some pat, some m, some t =>
        ok [encResp (handleDeco (.auth li login sch proto host) pat m t)]
      | _, _, _, _, _, _, _, _ => err "bad-arg"
    | "static", [root, dflt, pat, target, fs] =>
      match root.cps?, C26.Drv.optStr dflt, C26.Drv.decPat pat, target.cps?, C26.Drv.decFs fs with
      | some root, some d, some pat, some t, some tab =>
        ok [encStatic (C26.handle { root := root, defaultFile := d } pat t (C26.Drv.lookupFs tab)).1]
      | _, _, _, _, _ => err "bad-arg"
    | "sameSite", [l] => match l.cps? with
      | some l => ok [V.ofBool (Spec.sameSite l)]
      | none => err "bad-arg"
    | "onSameHost", [l] => match l.cps? with
      | some l => ok [V.ofBool (Spec.onSameHost l)]
      | none => err "bad-arg"
    | "loginOk", [a, l] => match a.cps?, l.cps? with
      | some a, some l => ok [V.ofBool (Spec.loginRedirectOk a l)]
      | _, _ => err "bad-arg"
    | _, _ => err "bad-cmd"
  | _, _ => err "bad-line"

end TornadoModel.C28.Drv
