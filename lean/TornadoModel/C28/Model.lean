/-
C28 — model of the redirects Tornado derives from the request itself (core Lean only).

Anchors: `tornado.web.removeslash`, `addslash`, `authenticated`, `_is_same_site_path` (D17 fix),
`RequestHandler.redirect`, `StaticFileHandler.validate_absolute_path` (directory redirect; the model is
`TornadoModel.C26.validate`), `HTTPServerRequest.full_url`; CPython `urllib.parse.urlencode / quote_plus`.

The decorators are modelled as functions from (method, request path, query, …) to an outcome;
`passed` means the decorated method runs.
-/
import TornadoModel.C26.Model
namespace TornadoModel.C28
open TornadoModel.C26 (Str cSlash endsWithSlash sameSitePath utf8Enc)

inductive Method where
  | get | head | other
  deriving Repr, BEq, DecidableEq

def Method.safe : Method → Bool
  | .get => true | .head => true | .other => false

inductive Out where
  | passed                              -- the wrapped method is called
  | redirect (status : Nat) (loc : Str) -- `self.redirect(loc)`
  | forbidden                           -- HTTPError(403)
  | notFound                            -- HTTPError(404)
  deriving Repr, BEq, DecidableEq

/-- `s.rstrip("/")` -/
def rstripSlash (s : Str) : Str := (s.reverse.dropWhile (· == cSlash)).reverse

/-- `uri += "?" + query` when the query is non-empty -/
def withQuery (uri query : Str) : Str := if query = [] then uri else uri ++ 63 :: query

/-- `@removeslash` -/
def removeslash (m : Method) (path query : Str) : Out :=
  if endsWithSlash path then
    if m.safe then
      let uri := rstripSlash path
      if uri ≠ [] then
        if ¬ sameSitePath uri then .forbidden
        else .redirect 301 (withQuery uri query)
      else .passed
    else .notFound
  else .passed

/-- `@addslash` -/
def addslash (m : Method) (path query : Str) : Out :=
  if ¬ endsWithSlash path then
    if m.safe then
      let uri := path ++ [cSlash]
      if ¬ sameSitePath uri then .forbidden
      else .redirect 301 (withQuery uri query)
    else .notFound
  else .passed

/-! ### `urlencode(dict(next=…))` -/

def hexDigitU (n : Nat) : Nat := if n < 10 then 48 + n else 55 + n

/-- characters `quote` never escapes: `A-Za-z0-9_.-~` -/
def alwaysSafe (c : Nat) : Bool :=
  (48 ≤ c && c ≤ 57) || (65 ≤ c && c ≤ 90) || (97 ≤ c && c ≤ 122) || c == 95 || c == 46 || c == 45 || c == 126

/-- `quote_plus` of one UTF-8 byte -/
def quoteByte (b : Nat) : Str :=
  if alwaysSafe b then [b] else if b = 32 then [43] else [37, hexDigitU (b / 16), hexDigitU (b % 16)]

/-- `urllib.parse.quote_plus(s)` (text below U+0800) -/
def quotePlus (s : Str) : Str := (utf8Enc s).flatMap quoteByte

def nextEq : Str := [110, 101, 120, 116, 61]   -- "next="

/-- `@authenticated`: `uri` is `request.uri`, `fullUrl` is `request.full_url()`;
`loginHasScheme` is `bool(urlsplit(login_url).scheme)` -/
def authenticated (loggedIn : Bool) (m : Method) (loginUrl : Str) (loginHasScheme : Bool) (uri fullUrl : Str) : Out :=
  if ¬ loggedIn then
    if m.safe then
      if 63 ∈ loginUrl then .redirect 302 loginUrl
      else .redirect 302 (loginUrl ++ 63 :: nextEq ++ quotePlus (if loginHasScheme then fullUrl else uri))
    else .forbidden
  else .passed

/-- `request.full_url()` -/
def fullUrl (protocol host uri : Str) : Str := protocol ++ [58, 47, 47] ++ host ++ uri

/-! ### whole requests (routing through a catch-all pattern, argument decoding) -/

inductive Resp where
  | notRouted | badRequest | forbidden | notFound
  | ok                                   -- 200 from the wrapped method
  | redirect (status : Nat) (loc : Str)
  deriving Repr, BEq, DecidableEq

inductive Deco where
  | rm | add | auth (loggedIn : Bool) (loginUrl : Str) (loginHasScheme : Bool) (protocol host : Str)
  deriving Repr

def ofOut : Out → Resp
  | .passed => .ok
  | .redirect s l => .redirect s l
  | .forbidden => .forbidden
  | .notFound => .notFound

/-- `uri.partition("?")`: (path, query) -/
def splitTarget (t : Str) : Str × Str :=
  (t.takeWhile (· != 63), (t.dropWhile (· != 63)).drop 1)

def handleDeco (d : Deco) (pat : C26.Pat) (m : Method) (target : Str) : Resp :=
  if ¬ C26.validTarget target then .badRequest     -- malformed request line (`parse_request_start_line`)
  else
    let (path, query) := splitTarget target
    match C26.capture pat path with
    | none => .notRouted
    | some g =>
      match C26.decodeArg g with
      | none => .badRequest
      | some _ =>
        match d with
        | .rm => ofOut (removeslash m path query)
        | .add => ofOut (addslash m path query)
        | .auth li url sch proto host => ofOut (authenticated li m url sch target (fullUrl proto host target))

end TornadoModel.C28
