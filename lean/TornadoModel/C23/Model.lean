/-
C23 — model of Tornado's signed values (core Lean only).

Anchors (`tornado/web.py`): `create_signed_value`, `decode_signed_value`, `_get_version`,
`_decode_signed_value_v1`, `_decode_signed_value_v2`, `_decode_fields_v2` (`_consume_field`),
`_create_signature_v1`, `_create_signature_v2`, `get_signature_key_version`; from the standard library the
pieces they lean on: `base64.b64encode`, `base64.b64decode` (= `binascii.a2b_base64`, non-strict),
`int(bytes)`, `bytes.partition/split`, slicing with negative indices, `str(int)`, UTF-8 encoding.

Byte strings and code-point strings are `List Nat`.  The two keyed hashes are *parameters*
`H1 H2 : Bytes → Bytes → Bytes` (key, message ↦ lower-case hex digest): HMAC-SHA1 and HMAC-SHA256.
The clock is an input (whole seconds).  The model follows the code of the repo worktree *after* the
`fix:` commits listed in docs/C23.md.
-/
namespace TornadoModel.C23

abbrev Bytes := List Nat
/-- keyed hash: key, message ↦ hex digest -/
abbrev Mac := Bytes → Bytes → Bytes

def cPipe : Nat := 124   -- '|'
def cColon : Nat := 58   -- ':'
def cEq : Nat := 61      -- '='
def cLf : Nat := 10

/-! ### UTF-8 (`escape.utf8` on a `str` of scalar values) -/

def utf8Cp (c : Nat) : Bytes :=
  if c < 0x80 then [c]
  else if c < 0x800 then [0xC0 + c / 64, 0x80 + c % 64]
  else if c < 0x10000 then [0xE0 + c / 4096, 0x80 + (c / 64) % 64, 0x80 + c % 64]
  else [0xF0 + c / 262144, 0x80 + (c / 4096) % 64, 0x80 + (c / 64) % 64, 0x80 + c % 64]

def utf8 (s : List Nat) : Bytes := s.flatMap utf8Cp

/-! ### decimal numbers: `str(n)` / `"%d" % n` and `int(bytes)` -/

/-- `str(n)` for `n ≥ 0`, with explicit fuel (`toDec` supplies enough). -/
def toDecF : Nat → Nat → Bytes
  | 0, n => [48 + n % 10]
  | f + 1, n => if n < 10 then [48 + n] else toDecF f (n / 10) ++ [48 + n % 10]

def toDec (n : Nat) : Bytes := toDecF n n

def isDigit (c : Nat) : Bool := 48 ≤ c && c ≤ 57
/-- `Py_ISSPACE` on a byte -/
def isSpaceB (c : Nat) : Bool := c = 32 || (9 ≤ c && c ≤ 13)

/-- CPython's limit on decimal digits in `int(str)` (`sys.get_int_max_str_digits()`), beyond which
`int()` raises `ValueError`. -/
def maxStrDigits : Nat := 4300

/-- the digit/underscore body of a Python integer literal, *after* its first digit:
returns (value, number of digits, remaining input).  `pu` = the previous byte was `_`
(an underscore must be followed by a digit). -/
def intBody : Bytes → Nat → Nat → Bool → Option (Nat × Nat × Bytes)
  | [], acc, cnt, pu => if pu then none else some (acc, cnt, [])
  | c :: cs, acc, cnt, pu =>
    if isDigit c then intBody cs (acc * 10 + (c - 48)) (cnt + 1) false
    else if c = 95 then (if pu then none else intBody cs acc cnt true)
    else if pu then none else some (acc, cnt, c :: cs)

/-- `int(b)` for a byte string `b` (base 10): optional surrounding ASCII whitespace, optional sign,
digits with single interior underscores, at most 4300 digits.  `none` = `ValueError`. -/
def stripSign (s : Bytes) : Bool × Bytes :=
  match s with
  | c :: r => if c = 45 then (true, r) else if c = 43 then (false, r) else (false, c :: r)
  | [] => (false, [])

def pyInt (s : Bytes) : Option Int :=
  let p := stripSign (s.dropWhile isSpaceB)
  match p.2 with
  | c :: cs =>
    if isDigit c then
      match intBody cs (c - 48) 1 false with
      | some (v, cnt, rest) =>
        if (rest.dropWhile isSpaceB).isEmpty && cnt ≤ maxStrDigits then
          some (if p.1 then -(v : Int) else (v : Int))
        else none
      | none => none
    else none
  | [] => none

/-! ### Python slicing and splitting -/

/-- clamp a Python index into `[0, len]` -/
def normIdx (len : Nat) (i : Int) : Nat :=
  if i < 0 then ((len : Int) + i).toNat else min i.toNat len

/-- `xs[lo:hi]` -/
def pySlice (xs : Bytes) (lo hi : Int) : Bytes :=
  (xs.take (normIdx xs.length hi)).drop (normIdx xs.length lo)
/-- `xs[:hi]` -/
def pyTake (xs : Bytes) (hi : Int) : Bytes := xs.take (normIdx xs.length hi)
/-- `xs[lo:]` -/
def pyDrop (xs : Bytes) (lo : Int) : Bytes := xs.drop (normIdx xs.length lo)

/-- `s.partition(sep)` for a one-byte separator, as (head, found, tail). -/
def partition1 (sep : Nat) : Bytes → Bytes × Bool × Bytes
  | [] => ([], false, [])
  | c :: cs =>
    if c = sep then ([], true, cs)
    else let (h, f, t) := partition1 sep cs; (c :: h, f, t)

/-- `s.split(sep)` for a one-byte separator: always at least one piece. -/
def splitOn1 (sep : Nat) : Bytes → List Bytes
  | [] => [[]]
  | c :: cs =>
    if c = sep then [] :: splitOn1 sep cs
    else match splitOn1 sep cs with
      | [] => [[c]]          -- unreachable
      | w :: ws => (c :: w) :: ws

def joinWith (sep : Bytes) : List Bytes → Bytes
  | [] => []
  | [w] => w
  | w :: ws => w ++ sep ++ joinWith sep ws

/-! ### base64 (standard alphabet) -/

def b64Char (i : Nat) : Nat :=
  if i < 26 then 65 + i else if i < 52 then 71 + i else if i < 62 then i - 4 else if i = 62 then 43 else 47

/-- `table_a2b_base64`: value of an alphabet byte, `none` for every other byte -/
def b64Val (c : Nat) : Option Nat :=
  if 65 ≤ c ∧ c ≤ 90 then some (c - 65)
  else if 97 ≤ c ∧ c ≤ 122 then some (c - 71)
  else if 48 ≤ c ∧ c ≤ 57 then some (c + 4)
  else if c = 43 then some 62
  else if c = 47 then some 63
  else none

/-- `base64.b64encode` -/
def b64encode : Bytes → Bytes
  | [] => []
  | [a] => [b64Char (a / 4), b64Char (a % 4 * 16), cEq, cEq]
  | [a, b] => [b64Char (a / 4), b64Char (a % 4 * 16 + b / 16), b64Char (b % 16 * 4), cEq]
  | a :: b :: c :: rest =>
    b64Char (a / 4) :: b64Char (a % 4 * 16 + b / 16) :: b64Char (b % 16 * 4 + c / 64) :: b64Char (c % 64)
      :: b64encode rest

/-- the main loop of `binascii.a2b_base64(data, strict_mode=False)` (CPython 3.12): `quad` is `quad_pos`,
`left` is `leftchar`, `pads` the number of consecutive `=` seen while `quad ≥ 2`.
Bytes outside the alphabet are skipped; a complete pad sequence stops the scan (anything after it is
ignored); ending inside a quad is `binascii.Error` (`none`). -/
def b64Loop : Bytes → Nat → Nat → Nat → Option Bytes
  | [], quad, _, _ => if quad = 0 then some [] else none
  | c :: cs, quad, left, pads =>
    if c = cEq then
      if 2 ≤ quad then
        if 4 ≤ quad + (pads + 1) then some [] else b64Loop cs quad left (pads + 1)
      else b64Loop cs quad left pads
    else match b64Val c with
      | none => b64Loop cs quad left pads
      | some v =>
        if quad = 0 then b64Loop cs 1 v 0
        else if quad = 1 then (b64Loop cs 2 (v % 16) 0).map (fun o => (left * 4 + v / 16) :: o)
        else if quad = 2 then (b64Loop cs 3 (v % 4) 0).map (fun o => (left * 16 + v / 4) :: o)
        else (b64Loop cs 0 0 0).map (fun o => (left * 64 + v) :: o)

/-- `base64.b64decode(s)` (no `altchars`, `validate=False`); `none` = `binascii.Error` -/
def b64decode (s : Bytes) : Option Bytes := b64Loop s 0 0 0

/-! ### secrets -/

/-- `cookie_secret`: one key, or a dictionary key-version ↦ key (insertion-ordered association list) -/
inductive Secret where
  | single (k : Bytes)
  | dict (d : List (Int × Bytes))
  deriving Repr, DecidableEq

def dictGet (d : List (Int × Bytes)) (k : Int) : Option Bytes :=
  match d with
  | [] => none
  | (k', v) :: rest => if k' = k then some v else dictGet rest k

/-- the key a holder of `secret` uses for key version `kv` (`none`: it has no such key; `KeyError`) -/
def effectiveKey (secret : Secret) (kv : Int) : Option Bytes :=
  match secret with
  | .single k => some k
  | .dict d => dictGet d kv

/-! ### signatures and creation -/

/-- message of `_create_signature_v1(secret, name, value, timestamp)`: the parts are fed to the HMAC one
after the other, i.e. concatenated with no delimiter. -/
def toSignV1 (name b64 ts : Bytes) : Bytes := name ++ b64 ++ ts

/-- `format_field`: decimal byte length, colon, bytes -/
def formatField (s : Bytes) : Bytes := toDec s.length ++ [cColon] ++ s

/-- the string signed by format version 2, including the final pipe -/
def toSignV2 (keyVersion ts : Nat) (name b64 : Bytes) : Bytes :=
  [50, cPipe] ++ formatField (toDec keyVersion) ++ [cPipe] ++ formatField (toDec ts) ++ [cPipe]
    ++ formatField name ++ [cPipe] ++ formatField b64 ++ [cPipe]

/-- outcome of `create_signed_value`: the signed value, or the exception a mis-configured call raises -/
inductive CreateOut where
  | ok (v : Bytes)
  | raised (kind : String)
  deriving Repr, DecidableEq

/-- `create_signed_value(secret, name, value, version, clock, key_version)` with `clock() = now`
(`name` as code points, `value` as bytes). -/
def create (H1 H2 : Mac) (secret : Secret) (name : List Nat) (value : Bytes) (version : Nat) (now : Nat)
    (keyVersion : Option Nat) : CreateOut :=
  let ts := toDec now
  let b64 := b64encode value
  if version = 1 then
    match secret with
    | .dict _ => .raised "AssertionError"
    | .single k => .ok (b64 ++ [cPipe] ++ ts ++ [cPipe] ++ H1 k (toSignV1 (utf8 name) b64 ts))
  else if version = 2 then
    let kv := keyVersion.getD 0
    let ts2 := toSignV2 kv now (utf8 name) b64
    match secret with
    | .single k => .ok (ts2 ++ H2 k ts2)
    | .dict d =>
      match keyVersion with
      | none => .raised "AssertionError"
      | some kv' =>
        match dictGet d (kv' : Int) with
        | none => .raised "KeyError"
        | some k => .ok (ts2 ++ H2 k ts2)
  else .raised "ValueError"

/-! ### version detection -/

/-- the leading run of ASCII digits and what follows -/
def spanDigits : Bytes → Bytes × Bytes
  | [] => ([], [])
  | c :: cs => if isDigit c then let (d, r) := spanDigits cs; (c :: d, r) else ([], c :: cs)

def decVal (ds : Bytes) : Nat := ds.foldl (fun a c => a * 10 + (c - 48)) 0

/-- `_get_version`: `^([1-9][0-9]*)\|(.*)$` (DOTALL) and the `> 999` rule; everything else is version 1. -/
def getVersion (value : Bytes) : Nat :=
  match spanDigits value with
  | (d :: ds, c :: _) =>
    if d ≠ 48 ∧ c = cPipe then
      if (d :: ds).length ≤ 3 then decVal (d :: ds) else 1
    else 1
  | _ => 1

/-! ### decoding -/

/-- result of `decode_signed_value` -/
inductive Out where
  | none
  | some (v : Bytes)
  | uncaught (kind : String)
  deriving Repr, DecidableEq

def sec31Days : Int := 31 * 86400

/-- `_decode_signed_value_v1` (`maxAge` = `max_age_days * 86400`, `now` = `clock()`) -/
def decodeV1 (H1 : Mac) (key : Bytes) (name : List Nat) (value : Bytes) (maxAge now : Int) : Out :=
  match splitOn1 cPipe value with
  | [p0, p1, p2] =>
    if p2 ≠ H1 key (toSignV1 (utf8 name) p0 p1) then .none
    else match pyInt p1 with
      | none => .none
      | some ts =>
        if ts < now - maxAge then .none
        else if ts > now + sec31Days then .none
        else if p1.head? = some 48 then .none
        else match b64decode p0 with
          | some v => .some v
          | none => .none
  | _ => .none

/-- `_consume_field`: `none` = `ValueError` -/
def consumeField (s : Bytes) : Option (Bytes × Bytes) :=
  let (len, _, rest) := partition1 cColon s
  match pyInt len with
  | none => none
  | some n =>
    if pySlice rest n (n + 1) ≠ [cPipe] then none
    else some (pyTake rest n, pyDrop rest (n + 1))

structure FieldsV2 where
  keyVersion : Int
  timestamp : Bytes
  name : Bytes
  value : Bytes
  sig : Bytes
  deriving Repr, DecidableEq

/-- `_decode_fields_v2`: `none` = `ValueError` -/
def decodeFieldsV2 (value : Bytes) : Option FieldsV2 :=
  match consumeField (value.drop 2) with
  | none => none
  | some (kv, rest) =>
    match consumeField rest with
    | none => none
    | some (ts, rest) =>
      match consumeField rest with
      | none => none
      | some (nm, rest) =>
        match consumeField rest with
        | none => none
        | some (vf, sig) =>
          match pyInt kv with
          | none => none
          | some k => some ⟨k, ts, nm, vf, sig⟩

/-- `value[:-len(passed_sig)]` (note `value[:-0]` is empty) -/
def signedPart (value sig : Bytes) : Bytes :=
  if sig.isEmpty then [] else value.take (value.length - sig.length)

/-- `_decode_signed_value_v2` -/
def decodeV2 (H2 : Mac) (secret : Secret) (name : List Nat) (value : Bytes) (maxAge now : Int) : Out :=
  match decodeFieldsV2 value with
  | none => .none
  | some f =>
    match effectiveKey secret f.keyVersion with
    | none => .none
    | some key =>
      if f.sig ≠ H2 key (signedPart value f.sig) then .none
      else if f.name ≠ utf8 name then .none
      else match pyInt f.timestamp with
        | none => .none
        | some ts =>
          if ts < now - maxAge then .none
          else match b64decode f.value with
            | some v => .some v
            | none => .none

/-- `decode_signed_value(secret, name, value, max_age_days, clock, min_version)`; `value` already through
`utf8()`, `maxAge = max_age_days * 86400`, `now = clock()`. -/
def decode (H1 H2 : Mac) (secret : Secret) (name : List Nat) (value : Bytes) (maxAge now : Int)
    (minVersion : Nat) : Out :=
  if minVersion > 2 then .uncaught "ValueError"
  else if value.isEmpty then .none
  else
    let version := getVersion value
    if version < minVersion then .none
    else if version = 1 then
      match secret with
      | .dict _ => .none
      | .single k => decodeV1 H1 k name value maxAge now
    else if version = 2 then decodeV2 H2 secret name value maxAge now
    else .none

/-- `get_signature_key_version` -/
def keyVersionOf (value : Bytes) : Option Int :=
  if getVersion value < 2 then none
  else (decodeFieldsV2 value).map (·.keyVersion)

/-! ### the `str → bytes` step: `escape.utf8` on an arbitrary Python `str`

A Python `str` is a sequence of code points `0 … 0x10FFFF` and may hold *lone surrogates*
(`0xD800 … 0xDFFF`; e.g. from `surrogateescape` decoding, JSON `"\ud800"`, or a high/low pair kept as two
code points).  `s.encode("utf-8")` raises `UnicodeEncodeError` on every one of them. -/

def isSurrogate (c : Nat) : Bool := 0xD800 ≤ c && c ≤ 0xDFFF

/-- `escape.utf8(s)` for a `str`: `none` = `UnicodeEncodeError` -/
def utf8? (s : List Nat) : Option Bytes := if s.any isSurrogate then none else some (utf8 s)

/-- what a caller may hand over as the signed value: `bytes`, or a `str` (code points) -/
inductive PyVal where
  | bytes (b : Bytes)
  | str (s : List Nat)
  deriving Repr, DecidableEq

/-- Python truthiness: `not value` -/
def PyVal.isEmpty : PyVal → Bool
  | .bytes b => b.isEmpty
  | .str s => s.isEmpty

/-- `escape.utf8(value)`: bytes pass through, a `str` is encoded; `none` = `UnicodeEncodeError` -/
def PyVal.encode? : PyVal → Option Bytes
  | .bytes b => some b
  | .str s => utf8? s

/-- `create_signed_value` as called with an arbitrary `str` name: the name is encoded inside
`_create_signature_v1` (after the `assert` on the secret) resp. `format_field(name)` (before the dictionary
checks); a name that cannot be encoded makes the call raise `UnicodeEncodeError`. -/
def createIn (H1 H2 : Mac) (secret : Secret) (name : List Nat) (value : Bytes) (version : Nat) (now : Nat)
    (keyVersion : Option Nat) : CreateOut :=
  match utf8? name with
  | some _ => create H1 H2 secret name value version now keyVersion
  | none =>
    if version = 1 then
      match secret with
      | .dict _ => .raised "AssertionError"
      | .single _ => .raised "UnicodeEncodeError"
    else if version = 2 then .raised "UnicodeEncodeError"
    else .raised "ValueError"

/-- the whole of `decode_signed_value(secret, name, value, max_age_days, clock, min_version)` as the caller sees
it, *including* `utf8(value)` / `utf8(name)`: a value or a name that has no UTF-8 form is answered with `None`
(the `except UnicodeEncodeError` of the fixed code; before the fix this was an uncaught exception). -/
def decodeIn (H1 H2 : Mac) (secret : Secret) (name : List Nat) (value : PyVal) (maxAge now : Int)
    (minVersion : Nat) : Out :=
  if minVersion > 2 then .uncaught "ValueError"
  else if value.isEmpty then .none
  else
    match value.encode?, utf8? name with
    | some v, some _ => decode H1 H2 secret name v maxAge now minVersion
    | _, _ => .none

/-- the same function as it was BEFORE the fix (kept only to state what the defect was):
`utf8(value)` ran unguarded first; `utf8(name)` ran unguarded inside `_create_signature_v1` (three `|`-parts)
resp. after a matching v2 signature. -/
def decodeInUnfixed (H1 H2 : Mac) (secret : Secret) (name : List Nat) (value : PyVal) (maxAge now : Int)
    (minVersion : Nat) : Out :=
  if minVersion > 2 then .uncaught "ValueError"
  else if value.isEmpty then .none
  else
    match value.encode? with
    | none => .uncaught "UnicodeEncodeError"
    | some v =>
      match utf8? name with
      | some _ => decode H1 H2 secret name v maxAge now minVersion
      | none =>
        let version := getVersion v
        if version < minVersion then .none
        else if version = 1 then
          match secret with
          | .dict _ => .none
          | .single _ => if (splitOn1 cPipe v).length = 3 then .uncaught "UnicodeEncodeError" else .none
        else if version = 2 then
          match decodeFieldsV2 v with
          | none => .none
          | some f =>
            match effectiveKey secret f.keyVersion with
            | none => .none
            | some key =>
              if f.sig ≠ H2 key (signedPart v f.sig) then .none else .uncaught "UnicodeEncodeError"
        else .none

/-- `get_signature_key_version(value)` including `utf8(value)` (fixed code: `None` when it cannot be encoded) -/
def keyVersionIn (value : PyVal) : Option Int :=
  match value.encode? with
  | none => none
  | some v => keyVersionOf v

end TornadoModel.C23
