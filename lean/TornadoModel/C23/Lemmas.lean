/- C23 — helper lemmas: decimal rendering/parsing, the field codec, base64. -/
import TornadoModel.C23.Spec
namespace TornadoModel.C23

/-! ### decimal -/

theorem toDecF_digits (f n : Nat) : ∀ c ∈ toDecF f n, 48 ≤ c ∧ c ≤ 57 := by
  induction f generalizing n with
  | zero => intro c hc; simp [toDecF] at hc; omega
  | succ f ih =>
    intro c hc
    unfold toDecF at hc
    split at hc
    · simp at hc; omega
    · simp only [List.mem_append, List.mem_singleton] at hc
      rcases hc with hc | hc
      · exact ih _ c hc
      · omega

theorem toDec_digits (n : Nat) : ∀ c ∈ toDec n, 48 ≤ c ∧ c ≤ 57 := toDecF_digits n n

theorem toDecF_ne_nil (f n : Nat) : toDecF f n ≠ [] := by
  cases f with
  | zero => simp [toDecF]
  | succ f => unfold toDecF; split <;> simp

theorem toDec_ne_nil (n : Nat) : toDec n ≠ [] := toDecF_ne_nil n n

def decStep (a c : Nat) : Nat := a * 10 + (c - 48)

theorem toDecF_val (f n : Nat) (h : n ≤ f) : (toDecF f n).foldl decStep 0 = n := by
  induction f generalizing n with
  | zero => have : n = 0 := by omega
            subst this; simp [toDecF, decStep]
  | succ f ih =>
    unfold toDecF
    split
    · simp [decStep]
    · rw [List.foldl_append, ih (n / 10) (by omega)]
      simp [decStep]; omega

theorem toDecF_len (f n k : Nat) (hk : 1 ≤ k) (h : n < 10 ^ k) : (toDecF f n).length ≤ k := by
  induction f generalizing n k with
  | zero => simp [toDecF]; omega
  | succ f ih =>
    unfold toDecF
    split
    · simp; omega
    · rename_i h10
      have hk2 : 2 ≤ k := by
        rcases Nat.lt_or_ge k 2 with h' | h'
        · have : k = 1 := by omega
          subst this; simp at h; omega
        · exact h'
      have : n / 10 < 10 ^ (k - 1) := by
        have e : 10 ^ k = 10 ^ (k - 1) * 10 := by
          rw [← Nat.pow_succ]; congr 1; omega
        rw [e] at h
        exact Nat.div_lt_of_lt_mul (by rw [Nat.mul_comm]; exact h)
      have := ih (n / 10) (k - 1) (by omega) this
      simp; omega

/-- `n` is small enough for CPython's `int()` to parse its decimal form back (at most 4300 digits). -/
def Small (n : Nat) : Prop := n < 10 ^ 4300

theorem toDec_len (n : Nat) (h : Small n) : (toDec n).length ≤ maxStrDigits :=
  toDecF_len n n 4300 (by decide) h

theorem toDecF_head_ne_zero (f n : Nat) (h : n ≤ f) (h1 : 1 ≤ n) : (toDecF f n).head? ≠ some 48 := by
  induction f generalizing n with
  | zero => omega
  | succ f ih =>
    unfold toDecF
    split
    · simp; omega
    · have := ih (n / 10) (by omega) (by omega)
      have hne := toDecF_ne_nil f (n / 10)
      cases hx : toDecF f (n / 10) with
      | nil => exact absurd hx hne
      | cons a as => rw [hx] at this; simpa using this

theorem toDec_head_ne_zero (n : Nat) (h1 : 1 ≤ n) : (toDec n).head? ≠ some 48 :=
  toDecF_head_ne_zero n n (Nat.le_refl _) h1

theorem intBody_digits (ds : Bytes) (acc cnt : Nat) (h : ∀ c ∈ ds, 48 ≤ c ∧ c ≤ 57) :
    intBody ds acc cnt false = some (ds.foldl decStep acc, cnt + ds.length, []) := by
  induction ds generalizing acc cnt with
  | nil => simp [intBody]
  | cons c cs ih =>
    have hc := h c (by simp)
    have : isDigit c = true := by simp [isDigit]; omega
    simp only [intBody, this, if_true, List.foldl_cons, List.length_cons]
    rw [ih _ _ (fun x hx => h x (by simp [hx]))]
    simp [decStep]; omega

theorem pyInt_digits (ds : Bytes) (hne : ds ≠ []) (h : ∀ c ∈ ds, 48 ≤ c ∧ c ≤ 57)
    (hlen : ds.length ≤ maxStrDigits) : pyInt ds = some ((ds.foldl decStep 0 : Nat) : Int) := by
  cases ds with
  | nil => exact absurd rfl hne
  | cons c cs =>
    have hc := h c (by simp)
    have hsp : isSpaceB c = false := by simp [isSpaceB]; omega
    have hd : isDigit c = true := by simp [isDigit]; omega
    have h45 : c ≠ 45 := by omega
    have h43 : c ≠ 43 := by omega
    have hb := intBody_digits cs (c - 48) 1 (fun x hx => h x (by simp [hx]))
    simp only [List.length_cons] at hlen
    have hl : 1 + cs.length ≤ maxStrDigits := by omega
    simp [pyInt, stripSign, hsp, h45, h43, hd, hb, hl, decStep]

/-- `int(str(n)) = n` (for `n` below CPython's digit limit) -/
theorem pyInt_toDec' (n : Nat) (h : Small n) : pyInt (toDec n) = some (n : Int) := by
  rw [pyInt_digits (toDec n) (toDec_ne_nil n) (toDec_digits n) (toDec_len n h)]
  unfold toDec
  rw [toDecF_val n n (Nat.le_refl _)]

/-! ### partition / split -/

theorem partition1_append (sep : Nat) (a r : Bytes) (h : sep ∉ a) :
    partition1 sep (a ++ sep :: r) = (a, true, r) := by
  induction a with
  | nil => simp [partition1]
  | cons c cs ih =>
    have hc : c ≠ sep := fun e => h (by simp [e])
    have hcs : sep ∉ cs := fun e => h (by simp [e])
    simp [partition1, hc, ih hcs]

theorem splitOn1_nosep (sep : Nat) (a : Bytes) (h : sep ∉ a) : splitOn1 sep a = [a] := by
  induction a with
  | nil => simp [splitOn1]
  | cons c cs ih =>
    have hc : c ≠ sep := fun e => h (by simp [e])
    have hcs : sep ∉ cs := fun e => h (by simp [e])
    simp [splitOn1, hc, ih hcs]

theorem splitOn1_append (sep : Nat) (a r : Bytes) (h : sep ∉ a) :
    splitOn1 sep (a ++ sep :: r) = a :: splitOn1 sep r := by
  induction a with
  | nil => simp [splitOn1]
  | cons c cs ih =>
    have hc : c ≠ sep := fun e => h (by simp [e])
    have hcs : sep ∉ cs := fun e => h (by simp [e])
    simp [splitOn1, hc, ih hcs]

/-! ### the v2 field codec -/

theorem colon_not_in_toDec (n : Nat) : cColon ∉ toDec n := by
  intro h; have := toDec_digits n _ h; simp [cColon] at this

theorem consumeField_formatField (d rest : Bytes) (h : Small d.length) :
    consumeField (formatField d ++ cPipe :: rest) = some (d, rest) := by
  unfold consumeField formatField
  have e : toDec d.length ++ [cColon] ++ d ++ cPipe :: rest = toDec d.length ++ cColon :: (d ++ cPipe :: rest) := by simp
  rw [e, partition1_append _ _ _ (colon_not_in_toDec _)]
  simp only [pyInt_toDec' _ h]
  have l1 : normIdx (d ++ cPipe :: rest).length (d.length : Int) = d.length := by
    simp [normIdx]; omega
  have l2 : normIdx (d ++ cPipe :: rest).length ((d.length : Int) + 1) = d.length + 1 := by
    have hn1 : ¬ (((d.length : Int) + 1) < 0) := by omega
    simp only [normIdx, hn1, if_false]
    have : ((d.length : Int) + 1).toNat = d.length + 1 := by omega
    rw [this]; simp
  simp only [pySlice, pyTake, pyDrop, l1, l2]
  simp [List.take_append, List.drop_append]

/-! ### base64 -/

theorem b64Val_b64Char (i : Nat) (h : i < 64) : b64Val (b64Char i) = some i := by
  unfold b64Char b64Val
  by_cases h1 : i < 26
  · simp only [h1, if_true]; rw [if_pos (by omega)]; congr 1; omega
  · by_cases h2 : i < 52
    · simp only [h1, h2, if_true, if_false]; rw [if_neg (by omega), if_pos (by omega)]; congr 1; omega
    · by_cases h3 : i < 62
      · simp only [h1, h2, h3, if_true, if_false]
        rw [if_neg (by omega), if_neg (by omega), if_pos (by omega)]; congr 1; omega
      · by_cases h4 : i = 62
        · subst h4; simp
        · have : i = 63 := by omega
          subst this; simp

theorem b64Char_range (i : Nat) :
    (65 ≤ b64Char i ∧ b64Char i ≤ 90) ∨ (97 ≤ b64Char i ∧ b64Char i ≤ 122) ∨ (48 ≤ b64Char i ∧ b64Char i ≤ 57)
      ∨ b64Char i = 43 ∨ b64Char i = 47 := by
  unfold b64Char
  by_cases h1 : i < 26
  · simp only [h1, if_true]; omega
  · by_cases h2 : i < 52
    · simp only [h1, h2, if_true, if_false]; omega
    · by_cases h3 : i < 62
      · simp only [h1, h2, h3, if_true, if_false]; omega
      · by_cases h4 : i = 62
        · subst h4; simp
        · simp [h1, h2, h3, h4]

theorem b64Char_ne_eq (i : Nat) : b64Char i ≠ cEq := by
  have := b64Char_range i; unfold cEq; omega

theorem b64Char_ne_61 (i : Nat) : (b64Char i = 61) = False := by
  have := b64Char_range i; simp; omega

theorem b64Char_ne_pipe (i : Nat) : b64Char i ≠ cPipe := by
  have := b64Char_range i; unfold cPipe; omega

/-- one full quad decodes to its three bytes and returns to the initial state -/
theorem b64Loop_quad (a b c : Nat) (ha : a < 256) (hb : b < 256) (hc : c < 256) (rest : Bytes) :
    b64Loop (b64Char (a / 4) :: b64Char (a % 4 * 16 + b / 16) :: b64Char (b % 16 * 4 + c / 64)
      :: b64Char (c % 64) :: rest) 0 0 0 = (b64Loop rest 0 0 0).map (fun o => a :: b :: c :: o) := by
  have v1 := b64Val_b64Char (a / 4) (by omega)
  have v2 := b64Val_b64Char (a % 4 * 16 + b / 16) (by omega)
  have v3 := b64Val_b64Char (b % 16 * 4 + c / 64) (by omega)
  have v4 := b64Val_b64Char (c % 64) (by omega)
  simp only [b64Loop, cEq, b64Char_ne_61, if_false, v1, v2, v3, v4, if_true]
  simp only [show ((1 : Nat) = 0) = False by decide, show ((2 : Nat) = 0) = False by decide,
    show ((2 : Nat) = 1) = False by decide, show ((3 : Nat) = 0) = False by decide, show ((3 : Nat) = 1) = False by decide,
    show ((3 : Nat) = 2) = False by decide, if_false, if_true, Option.map_map]
  congr 1
  funext o
  simp only [Function.comp]
  have e1 : a / 4 * 4 + (a % 4 * 16 + b / 16) / 16 = a := by omega
  have e2 : (a % 4 * 16 + b / 16) % 16 * 16 + (b % 16 * 4 + c / 64) / 4 = b := by omega
  have e3 : (b % 16 * 4 + c / 64) % 4 * 64 + c % 64 = c := by omega
  rw [e1, e2, e3]

theorem b64_roundtrip' : ∀ (bs : Bytes), (∀ x ∈ bs, x < 256) → b64decode (b64encode bs) = some bs
  | [], _ => by simp [b64decode, b64encode, b64Loop]
  | [a], h => by
    have ha : a < 256 := h a (by simp)
    have v1 := b64Val_b64Char (a / 4) (by omega)
    have v2 := b64Val_b64Char (a % 4 * 16) (by omega)
    simp only [b64decode, b64encode, b64Loop, cEq, b64Char_ne_61, if_false, v1, v2, if_true]
    simp
    omega
  | [a, b], h => by
    have ha : a < 256 := h a (by simp)
    have hb : b < 256 := h b (by simp)
    have v1 := b64Val_b64Char (a / 4) (by omega)
    have v2 := b64Val_b64Char (a % 4 * 16 + b / 16) (by omega)
    have v3 := b64Val_b64Char (b % 16 * 4) (by omega)
    simp only [b64decode, b64encode, b64Loop, cEq, b64Char_ne_61, if_false, v1, v2, v3, if_true]
    simp
    omega
  | a :: b :: c :: rest, h => by
    have ha : a < 256 := h a (by simp)
    have hb : b < 256 := h b (by simp)
    have hc : c < 256 := h c (by simp)
    have ih := b64_roundtrip' rest (fun x hx => h x (by simp [hx]))
    unfold b64decode at ih ⊢
    unfold b64encode
    rw [b64Loop_quad a b c ha hb hc, ih]
    simp

theorem b64encode_no_pipe (bs : Bytes) : cPipe ∉ b64encode bs := by
  induction bs using b64encode.induct with
  | case1 => simp [b64encode]
  | case2 a =>
    simp only [b64encode, List.mem_cons, List.mem_nil_iff, or_false, not_or]
    exact ⟨fun e => b64Char_ne_pipe _ e.symm, fun e => b64Char_ne_pipe _ e.symm, by decide, by decide⟩
  | case3 a b =>
    simp only [b64encode, List.mem_cons, List.mem_nil_iff, or_false, not_or]
    exact ⟨fun e => b64Char_ne_pipe _ e.symm, fun e => b64Char_ne_pipe _ e.symm,
      fun e => b64Char_ne_pipe _ e.symm, by decide⟩
  | case4 a b c rest ih =>
    simp only [b64encode, List.mem_cons, not_or]
    exact ⟨fun e => b64Char_ne_pipe _ e.symm, fun e => b64Char_ne_pipe _ e.symm,
      fun e => b64Char_ne_pipe _ e.symm, fun e => b64Char_ne_pipe _ e.symm, ih⟩

theorem b64encode_len4 (bs : Bytes) : (b64encode bs).length % 4 = 0 := by
  induction bs using b64encode.induct with
  | case1 => simp [b64encode]
  | case2 a => simp [b64encode]
  | case3 a b => simp [b64encode]
  | case4 a b c rest ih => simp only [b64encode, List.length_cons]; omega

/-! ### sizes -/

theorem small_of_le (n : Nat) (h : n ≤ maxStrDigits) : Small n := by
  unfold Small
  have h1 : n < 10 ^ n := Nat.lt_pow_self (by decide)
  have h2 : 10 ^ n ≤ 10 ^ 4300 := Nat.pow_le_pow_right (by decide) h
  omega

theorem small_toDec_length (n : Nat) (h : Small n) : Small (toDec n).length :=
  small_of_le _ (toDec_len n h)

theorem toDec_inj (a b : Nat) (h : toDec a = toDec b) : a = b := by
  have ha := toDecF_val a a (Nat.le_refl _)
  have hb := toDecF_val b b (Nat.le_refl _)
  unfold toDec at h
  rw [h] at ha
  omega

/-! ### the signed string of format 2 -/

theorem toSignV2_append (kv ts : Nat) (n v sig : Bytes) :
    toSignV2 kv ts n v ++ sig = 50 :: cPipe :: (formatField (toDec kv) ++ cPipe :: (formatField (toDec ts) ++ cPipe ::
      (formatField n ++ cPipe :: (formatField v ++ cPipe :: sig)))) := by
  simp [toSignV2]

theorem sep_split (sep : Nat) (a b r1 r2 : Bytes) (ha : sep ∉ a) (hb : sep ∉ b)
    (h : a ++ sep :: r1 = b ++ sep :: r2) : a = b ∧ r1 = r2 := by
  have h1 := partition1_append sep a r1 ha
  have h2 := partition1_append sep b r2 hb
  rw [h, h2] at h1
  simp at h1
  exact ⟨h1.1.symm, h1.2.symm⟩

/-- the length-prefixed field code is prefix-free: a field followed by anything parses in one way only -/
theorem formatField_prefix_free (a b x y : Bytes) (h : formatField a ++ x = formatField b ++ y) :
    a = b ∧ x = y := by
  unfold formatField at h
  have e1 : toDec a.length ++ [cColon] ++ a ++ x = toDec a.length ++ cColon :: (a ++ x) := by simp
  have e2 : toDec b.length ++ [cColon] ++ b ++ y = toDec b.length ++ cColon :: (b ++ y) := by simp
  rw [e1, e2] at h
  obtain ⟨hl, hr⟩ := sep_split cColon _ _ _ _ (colon_not_in_toDec _) (colon_not_in_toDec _) h
  have hlen := toDec_inj _ _ hl
  exact List.append_inj hr hlen

theorem toSignV2_prefix_free (kv ts kv' ts' : Nat) (n v n' v' s s' : Bytes)
    (h : toSignV2 kv ts n v ++ s = toSignV2 kv' ts' n' v' ++ s') :
    kv = kv' ∧ ts = ts' ∧ n = n' ∧ v = v' ∧ s = s' := by
  rw [toSignV2_append, toSignV2_append] at h
  simp only [List.cons.injEq, true_and] at h
  obtain ⟨h1, h⟩ := formatField_prefix_free _ _ _ _ h
  simp only [List.cons.injEq, true_and] at h
  obtain ⟨h2, h⟩ := formatField_prefix_free _ _ _ _ h
  simp only [List.cons.injEq, true_and] at h
  obtain ⟨h3, h⟩ := formatField_prefix_free _ _ _ _ h
  simp only [List.cons.injEq, true_and] at h
  obtain ⟨h4, h⟩ := formatField_prefix_free _ _ _ _ h
  simp only [List.cons.injEq, true_and] at h
  exact ⟨toDec_inj _ _ h1, toDec_inj _ _ h2, h3, h4, h⟩

theorem decodeFieldsV2_toSign (kv ts : Nat) (n v sig : Bytes) (hkv : Small kv) (hts : Small ts)
    (hn : Small n.length) (hv : Small v.length) :
    decodeFieldsV2 (toSignV2 kv ts n v ++ sig) = some ⟨(kv : Int), toDec ts, n, v, sig⟩ := by
  rw [toSignV2_append]
  unfold decodeFieldsV2
  simp only [List.drop_succ_cons, List.drop_zero]
  rw [consumeField_formatField _ _ (small_toDec_length kv hkv)]
  simp only
  rw [consumeField_formatField _ _ (small_toDec_length ts hts)]
  simp only
  rw [consumeField_formatField _ _ hn]
  simp only
  rw [consumeField_formatField _ _ hv]
  simp only [pyInt_toDec' kv hkv]

theorem signedPart_append (S sig : Bytes) (h : sig ≠ []) : signedPart (S ++ sig) sig = S := by
  unfold signedPart
  cases sig with
  | nil => exact absurd rfl h
  | cons c cs => simp

theorem getVersion_toSignV2 (kv ts : Nat) (n v sig : Bytes) : getVersion (toSignV2 kv ts n v ++ sig) = 2 := by
  rw [toSignV2_append]
  simp [getVersion, spanDigits, isDigit, cPipe, decVal]

/-! ### version detection on format-1 values -/

theorem spanDigits_all (a r : Bytes) (h : ∀ c ∈ a, isDigit c = true) :
    spanDigits (a ++ cPipe :: r) = (a, cPipe :: r) := by
  induction a with
  | nil => simp [spanDigits, isDigit, cPipe]
  | cons c cs ih =>
    have hc := h c (by simp)
    simp [spanDigits, hc, ih (fun x hx => h x (by simp [hx]))]

theorem spanDigits_some (a r : Bytes) (h : ¬ ∀ c ∈ a, isDigit c = true) :
    ∃ ds c r', spanDigits (a ++ cPipe :: r) = (ds, c :: r') ∧ c ∈ a := by
  induction a with
  | nil => simp at h
  | cons x xs ih =>
    by_cases hx : isDigit x = true
    · have : ¬ ∀ c ∈ xs, isDigit c = true := by
        intro hall; apply h; intro c hc
        simp at hc; rcases hc with rfl | hc
        · exact hx
        · exact hall c hc
      obtain ⟨ds, c, r', he, hm⟩ := ih this
      exact ⟨x :: ds, c, r', by simp [spanDigits, hx, he], by simp [hm]⟩
    · exact ⟨[], x, xs ++ cPipe :: r, by simp [spanDigits, hx], by simp⟩

/-- a value whose first `|`-free segment has a length divisible by 4 (a base64 text) is never taken for a
versioned value: a digit-only base64 text has at least 4 digits, i.e. reads as a number above 999. -/
theorem getVersion_v1 (a r : Bytes) (hp : cPipe ∉ a) (h4 : a.length % 4 = 0) :
    getVersion (a ++ cPipe :: r) = 1 := by
  unfold getVersion
  by_cases hall : ∀ c ∈ a, isDigit c = true
  · rw [spanDigits_all a r hall]
    cases a with
    | nil => rfl
    | cons d ds =>
      simp only [List.length_cons] at h4
      simp
      intro _ h3
      omega
  · obtain ⟨ds, c, r', he, hm⟩ := spanDigits_some a r hall
    rw [he]
    have hc : c ≠ cPipe := fun e => hp (e ▸ hm)
    cases ds with
    | nil => rfl
    | cons d ds' => simp [hc]

/-! ### the signature is the tail of the value -/

theorem partition1_tail_suffix (sep : Nat) (s : Bytes) : ∃ k, (partition1 sep s).2.2 = s.drop k := by
  induction s with
  | nil => exact ⟨0, rfl⟩
  | cons c cs ih =>
    unfold partition1
    split
    · exact ⟨1, rfl⟩
    · obtain ⟨k, hk⟩ := ih
      exact ⟨k + 1, by simpa using hk⟩

theorem consumeField_suffix (s f r : Bytes) (h : consumeField s = some (f, r)) : ∃ k, r = s.drop k := by
  unfold consumeField at h
  obtain ⟨k, hk⟩ := partition1_tail_suffix cColon s
  revert h
  generalize partition1 cColon s = t at hk
  obtain ⟨len, fnd, rest⟩ := t
  simp only at hk
  intro h
  simp only at h
  split at h
  · simp at h
  · rename_i n _
    split at h
    · simp at h
    · simp only [Option.some.injEq, Prod.mk.injEq] at h
      refine ⟨k + normIdx rest.length (n + 1), ?_⟩
      rw [← h.2, pyDrop, hk, List.drop_drop]

theorem decodeFieldsV2_sig_suffix (value : Bytes) (f : FieldsV2) (h : decodeFieldsV2 value = some f) :
    ∃ k, f.sig = value.drop k := by
  unfold decodeFieldsV2 at h
  split at h
  · simp at h
  · rename_i kv r1 h1
    split at h
    · simp at h
    · rename_i ts r2 h2
      split at h
      · simp at h
      · rename_i nm r3 h3
        split at h
        · simp at h
        · rename_i vf sig h4
          split at h
          · simp at h
          · simp only [Option.some.injEq] at h
            subst h
            obtain ⟨k1, e1⟩ := consumeField_suffix _ _ _ h1
            obtain ⟨k2, e2⟩ := consumeField_suffix _ _ _ h2
            obtain ⟨k3, e3⟩ := consumeField_suffix _ _ _ h3
            obtain ⟨k4, e4⟩ := consumeField_suffix _ _ _ h4
            refine ⟨2 + k1 + k2 + k3 + k4, ?_⟩
            subst e1; subst e2; subst e3; subst e4
            simp only [List.drop_drop]

/-- when the signature is not empty, the value is the signed part followed by the signature -/
theorem signedPart_append_sig (value sig : Bytes) (k : Nat) (hk : sig = value.drop k) (hne : sig ≠ []) :
    signedPart value sig ++ sig = value := by
  unfold signedPart
  have hlen : sig.length = value.length - k := by rw [hk]; simp
  have hpos : 0 < sig.length := List.length_pos_iff.mpr hne
  have : sig.isEmpty = false := by cases sig <;> simp_all
  simp only [this]
  have e : value.length - sig.length = k := by omega
  simp only [Bool.false_eq_true, if_false]
  rw [e, hk, List.take_append_drop]

end TornadoModel.C23
