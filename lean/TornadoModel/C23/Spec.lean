/-
C23 — specification side: a ledger reading of "signed values cannot be forged, replayed or crash the reader".

One value has been issued (`Issued`): who signed it (effective key), for which name, what payload, when,
in which format, and the exact string handed out.  A later `decode` query is judged against that ledger:

* `mustAccept` — the query presents exactly the issued string, under the issued name, with the very secret
  that signed it, a `min_version` not above the issued
  format, a creation time of at least one second after the epoch, and a clock between the creation second
  and `max_age` later: the answer must be the payload;
* `mustReject` — the string, the name or the key differs, or the value has expired, or its format version is
  below `min_version`: the answer must be `None`;
* otherwise (the clock is *before* the creation time, the creation time is 0, or the verifier holds a
  different secret *object* with the same key material for that key version) the property says nothing.

Whatever the query, the reader must not raise (`verdict` never allows `uncaught`).
-/
import TornadoModel.C23.Model
namespace TornadoModel.C23.Spec
open TornadoModel.C23

structure Issued where
  secret : Secret        -- the secret object the signer held
  key : Bytes            -- the key that signed (= effectiveKey secret keyVersion)
  keyVersion : Int       -- 0 when none was given
  name : Bytes           -- utf8(name)
  payload : Bytes
  ts : Int               -- creation time, whole seconds
  version : Nat          -- format version 1 | 2
  signed : Bytes         -- the string handed out
  deriving Repr, DecidableEq

structure Query where
  secret : Secret
  name : Bytes           -- utf8(name)
  value : Bytes
  maxAge : Int
  now : Int
  minVersion : Nat
  deriving Repr, DecidableEq

/-- same string, same name, and the verifier's key for the issued key version is the signing key -/
def sameString (i : Issued) (q : Query) : Bool :=
  q.value == i.signed && q.name == i.name && effectiveKey q.secret i.keyVersion == some i.key

def mustAccept (i : Issued) (q : Query) : Bool :=
  sameString i q && q.secret == i.secret && decide (q.minVersion ≤ i.version) && decide (1 ≤ i.ts) && decide (i.ts ≤ q.now) && decide (q.now ≤ i.ts + q.maxAge)

def mustReject (i : Option Issued) (q : Query) : Bool :=
  match i with
  | none => true
  | some i => !sameString i q || decide (i.version < q.minVersion) || decide (i.ts + q.maxAge < q.now)

inductive Verdict where
  | accept (payload : Bytes)
  | reject
  | any
  deriving Repr, DecidableEq

def verdict (i : Option Issued) (q : Query) : Verdict :=
  match i with
  | none => .reject
  | some iss =>
    if mustAccept iss q then .accept iss.payload
    else if mustReject i q then .reject
    else .any

/-- does an observed outcome satisfy the verdict?  (`uncaught` never does) -/
def satisfies (v : Verdict) (o : Out) : Bool :=
  match v, o with
  | _, .uncaught _ => false
  | .accept p, .some x => x == p
  | .accept _, .none => false
  | .reject, .none => true
  | .reject, .some _ => false
  | .any, _ => true

end TornadoModel.C23.Spec
