import TornadoModel.C23.Spec
namespace TornadoModel.C23
end TornadoModel.C23
