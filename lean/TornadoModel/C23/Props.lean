/-
C23 — property theorems.  `H1`/`H2` (HMAC-SHA1 / HMAC-SHA256 as hex) are arbitrary functions everywhere;
where a contract is needed it is the explicit hypothesis `HexLike` (digests are non-empty and contain no `|`).
`Small n` (`n < 10^4300`) is CPython's limit for `int()` on decimal text: the length prefixes and the
timestamp must be parsable at all.
-/
import TornadoModel.C23.Lemmas
namespace TornadoModel.C23

/-- what the theorems assume about a keyed hash: its hex digest is not empty and contains no `|`
(true of every `hexdigest()`). -/
structure HexLike (H : Mac) : Prop where
  ne_nil : ∀ k m, H k m ≠ []
  no_pipe : ∀ k m, cPipe ∉ H k m

/-! ### base64 and decimal round trips -/

/-- `b64decode(b64encode(bs)) == bs` for every byte string -/
theorem b64_roundtrip (bs : Bytes) (h : ∀ x ∈ bs, x < 256) : b64decode (b64encode bs) = some bs :=
  b64_roundtrip' bs h

example : b64decode (b64encode [0, 255, 16, 77]) = some [0, 255, 16, 77] := by decide

/-- `int(str(n)) == n` below CPython's digit limit -/
theorem pyInt_toDec (n : Nat) (h : Small n) : pyInt (toDec n) = some (n : Int) := pyInt_toDec' n h

example : Small 1700000000 := by unfold Small; exact Nat.lt_of_lt_of_le (by decide : 1700000000 < 10 ^ 10) (Nat.pow_le_pow_right (by decide) (by decide))

/-! ### the signed encoding is injective (format 2) and is not (format 1) -/

/-- The length-prefixed string signed by format 2 determines key version, timestamp, name and value —
even when followed by arbitrary further bytes (the signature).  Hence a value accepted under name `n'`
that was signed for `n ≠ n'` requires two different messages with the same HMAC. -/
theorem v2_tosign_injective (kv ts kv' ts' : Nat) (n v n' v' s s' : Bytes)
    (h : toSignV2 kv ts n v ++ s = toSignV2 kv' ts' n' v' ++ s') :
    kv = kv' ∧ ts = ts' ∧ n = n' ∧ v = v' ∧ s = s' :=
  toSignV2_prefix_free kv ts kv' ts' n v n' v' s s' h

/-- full statement for format 1 (false: D5) -/
def v1_tosign_injective_full : Prop :=
  ∀ n v t n' v' t' : Bytes, toSignV1 n v t = toSignV1 n' v' t' → n = n' ∧ v = v' ∧ t = t'

/-- format 1 signs `name ‖ value ‖ timestamp` with no delimiter: it is injective only once the name and the
timestamp width are fixed. -/
theorem v1_tosign_injective_partial (n v t v' t' : Bytes) (hl : t.length = t'.length)
    (h : toSignV1 n v t = toSignV1 n v' t') : v = v' ∧ t = t' := by
  unfold toSignV1 at h
  simp only [List.append_assoc, List.append_cancel_left_eq] at h
  have : v.length = v'.length := by
    have := congrArg List.length h
    simp at this; omega
  exact List.append_inj h this

example : toSignV1 [97] [81, 85, 74, 68] [49] = toSignV1 [97] [81, 85, 74, 68] [49] ∧ ([49] : Bytes).length = [49].length := ⟨rfl, rfl⟩

/-- D5: `("a", "QUJD", "1")` and `("aQ", "UJD", "1")` are signed identically. -/
theorem v1_tosign_injective_refuted : ¬ v1_tosign_injective_full := by
  intro h
  have := h [97] [81, 85, 74, 68] [49] [97, 81] [85, 74, 68] [49] (by decide)
  exact absurd this.1 (by decide)

/-! ### parsing back what was written -/

theorem decodeFields_toSign (kv ts : Nat) (n v sig : Bytes) (hkv : Small kv) (hts : Small ts)
    (hn : Small n.length) (hv : Small v.length) :
    decodeFieldsV2 (toSignV2 kv ts n v ++ sig) = some ⟨(kv : Int), toDec ts, n, v, sig⟩ :=
  decodeFieldsV2_toSign kv ts n v sig hkv hts hn hv

/-- format detection of what `create` writes: format 2 reads as 2, format 1 as 1 (a digit-only base64
text has ≥ 4 digits, the `> 999` rule). -/
theorem created_version (H1 H2 : Mac) (secret : Secret) (name : List Nat) (value : Bytes) (version now : Nat)
    (kv : Option Nat) (signed : Bytes) (h : create H1 H2 secret name value version now kv = .ok signed) :
    getVersion signed = version := by
  unfold create at h
  split at h
  · rename_i hv
    split at h
    · simp at h
    · simp only [CreateOut.ok.injEq] at h
      subst h; subst hv
      simp only [List.append_assoc, List.singleton_append]
      exact getVersion_v1 _ _ (b64encode_no_pipe _) (b64encode_len4 _)
  · split at h
    · rename_i hv
      subst hv
      split at h
      · simp only [CreateOut.ok.injEq] at h; subst h; exact getVersion_toSignV2 _ _ _ _ _
      · split at h
        · simp at h
        · split at h
          · simp at h
          · simp only [CreateOut.ok.injEq] at h; subst h; exact getVersion_toSignV2 _ _ _ _ _
    · simp at h

/-! ### round trip -/

theorem decode_eq_v1 (H1 H2 : Mac) (k : Bytes) (name : List Nat) (value : Bytes) (maxAge now : Int) (minVersion : Nat)
    (hne : value ≠ []) (hv : getVersion value = 1) (hmin : minVersion ≤ 1) :
    decode H1 H2 (.single k) name value maxAge now minVersion = decodeV1 H1 k name value maxAge now := by
  unfold decode
  have h2 : ¬ (minVersion > 2) := by omega
  have h3 : ¬ (1 < minVersion) := by omega
  have h4 : value.isEmpty = false := by cases value <;> simp_all
  simp [h2, h3, h4, hv]

theorem decode_eq_v2 (H1 H2 : Mac) (secret : Secret) (name : List Nat) (value : Bytes) (maxAge now : Int)
    (minVersion : Nat) (hv : getVersion value = 2) (hmin : minVersion ≤ 2) :
    decode H1 H2 secret name value maxAge now minVersion = decodeV2 H2 secret name value maxAge now := by
  unfold decode
  have h2 : ¬ (minVersion > 2) := by omega
  have h3 : ¬ (2 < minVersion) := by omega
  have h4 : value.isEmpty = false := by
    cases value with
    | nil => simp [getVersion, spanDigits] at hv
    | cons c cs => rfl
  simp [h2, h3, h4, hv]

/-- format 2: a value signed with key `key` for key version `kvn` decodes, under every secret whose
effective key for `kvn` is `key`, at every time up to `maxAge` after its timestamp. -/
theorem roundtrip_v2 (H2 : Mac) (hH : ∀ k m, H2 k m ≠ []) (secret : Secret) (key : Bytes) (kvn now : Nat)
    (name : List Nat) (value : Bytes) (maxAge now' : Int)
    (hkey : effectiveKey secret (kvn : Int) = some key)
    (hval : ∀ x ∈ value, x < 256) (hkv : Small kvn) (hnow : Small now)
    (hn : Small (utf8 name).length) (hv : Small (b64encode value).length)
    (hfresh : now' ≤ (now : Int) + maxAge) :
    decodeV2 H2 secret name
      (toSignV2 kvn now (utf8 name) (b64encode value) ++ H2 key (toSignV2 kvn now (utf8 name) (b64encode value)))
      maxAge now' = .some value := by
  unfold decodeV2
  rw [decodeFieldsV2_toSign kvn now _ _ _ hkv hnow hn hv]
  simp only [hkey, signedPart_append _ _ (hH _ _), ne_eq, not_true_eq_false, if_false, pyInt_toDec' now hnow,
    b64_roundtrip' value hval]
  have : ¬ ((now : Int) < now' - maxAge) := by omega
  simp [this]

example : effectiveKey (.dict [(0, [1]), (7, [107])]) ((7 : Nat) : Int) = some [107] := by decide

/-- format 1: a value signed with key `key` decodes under that key from its creation second (≥ 1) until
`maxAge` later. -/
theorem roundtrip_v1 (H1 : Mac) (hH : HexLike H1) (key : Bytes) (now : Nat) (name : List Nat) (value : Bytes)
    (maxAge now' : Int) (hval : ∀ x ∈ value, x < 256) (hnow : Small now) (h1 : 1 ≤ now)
    (hafter : (now : Int) ≤ now') (hfresh : now' ≤ (now : Int) + maxAge) :
    decodeV1 H1 key name
      (b64encode value ++ [cPipe] ++ toDec now ++ [cPipe] ++ H1 key (toSignV1 (utf8 name) (b64encode value) (toDec now)))
      maxAge now' = .some value := by
  unfold decodeV1
  have hts : cPipe ∉ toDec now := by
    intro h; have := toDec_digits now _ h; simp [cPipe] at this
  have e : b64encode value ++ [cPipe] ++ toDec now ++ [cPipe] ++ H1 key (toSignV1 (utf8 name) (b64encode value) (toDec now))
      = b64encode value ++ cPipe :: (toDec now ++ cPipe :: H1 key (toSignV1 (utf8 name) (b64encode value) (toDec now))) := by
    simp
  rw [e, splitOn1_append _ _ _ (b64encode_no_pipe value), splitOn1_append _ _ _ hts,
    splitOn1_nosep _ _ (hH.no_pipe _ _)]
  simp only [ne_eq, not_true_eq_false, if_false, pyInt_toDec' now hnow, b64_roundtrip' value hval]
  have a1 : ¬ ((now : Int) < now' - maxAge) := by omega
  have a2 : ¬ ((now : Int) > now' + sec31Days) := by unfold sec31Days; omega
  have a3 := toDec_head_ne_zero now h1
  simp [a1, a2, a3]

/-- **Round trip**: for every secret form, name, value and creation second ≥ 1, what `create` returns
decodes — with the same secret and name, any `min_version ≤` its format — to the original value at every
clock from the creation second until `maxAge` later. -/
theorem roundtrip (H1 H2 : Mac) (hH1 : HexLike H1) (hH2 : HexLike H2) (secret : Secret) (name : List Nat)
    (value : Bytes) (version now : Nat) (kv : Option Nat) (signed : Bytes) (maxAge now' : Int) (minVersion : Nat)
    (hc : create H1 H2 secret name value version now kv = .ok signed)
    (hval : ∀ x ∈ value, x < 256) (hkv : Small (kv.getD 0)) (hnow : Small now) (h1 : 1 ≤ now)
    (hn : Small (utf8 name).length) (hv : Small (b64encode value).length)
    (hmin : minVersion ≤ version) (hafter : (now : Int) ≤ now') (hfresh : now' ≤ (now : Int) + maxAge) :
    decode H1 H2 secret name signed maxAge now' minVersion = .some value := by
  have hver := created_version H1 H2 secret name value version now kv signed hc
  unfold create at hc
  split at hc
  · -- format 1
    rename_i hv1
    subst hv1
    split at hc
    · simp at hc
    · rename_i k
      simp only [CreateOut.ok.injEq] at hc
      subst hc
      rw [decode_eq_v1 H1 H2 k name _ maxAge now' minVersion (by simp) hver hmin]
      exact roundtrip_v1 H1 hH1 k now name value maxAge now' hval hnow h1 hafter hfresh
  · split at hc
    · rename_i hv2
      subst hv2
      split at hc
      · -- single key
        rename_i k
        simp only [CreateOut.ok.injEq] at hc
        subst hc
        rw [decode_eq_v2 H1 H2 _ name _ maxAge now' minVersion hver hmin]
        exact roundtrip_v2 H2 hH2.ne_nil (.single k) k (kv.getD 0) now name value maxAge now' rfl hval hkv hnow hn hv hfresh
      · rename_i d
        split at hc
        · simp at hc
        · rename_i kv'
          split at hc
          · simp at hc
          · rename_i k hk
            simp only [CreateOut.ok.injEq] at hc
            subst hc
            rw [decode_eq_v2 H1 H2 _ name _ maxAge now' minVersion hver hmin]
            exact roundtrip_v2 H2 hH2.ne_nil (.dict d) k kv' now name value maxAge now' hk hval hkv hnow hn hv hfresh
    · simp at hc

/-- non-vacuity: a concrete stand-in hash satisfies the contract, and the hypotheses of `roundtrip` hold for a
dictionary secret, a non-ASCII name and the window edge. -/
def demoMac : Mac := fun k m => [97 + (k.length + m.length) % 6]
theorem demoMac_hexLike : HexLike demoMac :=
  ⟨fun _ _ => by simp [demoMac], fun k m => by simp [demoMac, cPipe]; omega⟩
example : create demoMac demoMac (.dict [(7, [107])]) [233] [118, 97, 108] 2 1700000000 (some 7)
    = .ok (toSignV2 7 1700000000 [195, 169] [100, 109, 70, 115] ++ demoMac [107] (toSignV2 7 1700000000 [195, 169] [100, 109, 70, 115])) := by
  decide

/-! ### soundness of acceptance -/

/-- **Soundness (format 2)**: if a string decodes to `x` under `name`, then it parses into four
length-prefixed fields and a signature such that the signature is `H2` — under the verifier's key for the
presented key version — of everything before it, the name field is the expected name, the timestamp is an
integer within `maxAge`, and the value field is base64 for `x`.  So producing an accepted string means
producing `H2 key m` for a message `m` which (by `v2_tosign_injective`) pins name, value, time and key version. -/
theorem decode_sound_v2 (H2 : Mac) (secret : Secret) (name : List Nat) (value : Bytes) (maxAge now : Int) (x : Bytes)
    (h : decodeV2 H2 secret name value maxAge now = .some x) :
    ∃ f key ts, decodeFieldsV2 value = some f ∧ effectiveKey secret f.keyVersion = some key
      ∧ f.sig = H2 key (signedPart value f.sig) ∧ f.name = utf8 name
      ∧ pyInt f.timestamp = some ts ∧ now - maxAge ≤ ts ∧ b64decode f.value = some x := by
  unfold decodeV2 at h
  split at h
  · simp at h
  · rename_i f hf
    split at h
    · simp at h
    · rename_i key hk
      split at h
      · simp at h
      · rename_i hsig
        split at h
        · simp at h
        · rename_i hname
          split at h
          · simp at h
          · rename_i ts hts
            split at h
            · simp at h
            · rename_i hfr
              split at h
              · rename_i v hb
                simp only [Out.some.injEq] at h
                subst h
                exact ⟨f, key, ts, hf, hk, by simpa using hsig, by simpa using hname, hts, by omega, hb⟩
              · simp at h

/-- **Soundness (format 1)**: an accepted string is `p0|p1|sig` with `sig = H1 key (name ‖ p0 ‖ p1)`, `p1` an
integer timestamp within `maxAge` (and not more than 31 days ahead), `p0` base64 for the result. -/
theorem decode_sound_v1 (H1 : Mac) (key : Bytes) (name : List Nat) (value : Bytes) (maxAge now : Int) (x : Bytes)
    (h : decodeV1 H1 key name value maxAge now = .some x) :
    ∃ p0 p1 ts, splitOn1 cPipe value = [p0, p1, H1 key (toSignV1 (utf8 name) p0 p1)]
      ∧ pyInt p1 = some ts ∧ now - maxAge ≤ ts ∧ ts ≤ now + sec31Days ∧ b64decode p0 = some x := by
  unfold decodeV1 at h
  split at h
  · rename_i p0 p1 p2 hs
    split at h
    · simp at h
    · rename_i hsig
      split at h
      · simp at h
      · rename_i ts hts
        split at h
        · simp at h
        · split at h
          · simp at h
          · split at h
            · simp at h
            · split at h
              · rename_i v hb
                simp only [Out.some.injEq] at h
                subst h
                have e : p2 = H1 key (toSignV1 (utf8 name) p0 p1) := by simpa using hsig
                exact ⟨p0, p1, ts, by rw [hs, e], hts, by omega, by omega, hb⟩
              · simp at h
  · simp at h

/-- shape of an accepted format-2 string: it *is* `signed ++ H2 key signed` — the signature is the tail of the
value and covers everything before it (given only that digests are not empty). -/
theorem accepted_shape_v2 (H2 : Mac) (hH : ∀ k m, H2 k m ≠ []) (secret : Secret) (name : List Nat) (value : Bytes)
    (maxAge now : Int) (x : Bytes) (h : decodeV2 H2 secret name value maxAge now = .some x) :
    ∃ signed key, value = signed ++ H2 key signed := by
  obtain ⟨f, key, ts, hf, _, hsig, _⟩ := decode_sound_v2 H2 secret name value maxAge now x h
  obtain ⟨k, hk⟩ := decodeFieldsV2_sig_suffix value f hf
  have hne : f.sig ≠ [] := by rw [hsig]; exact hH _ _
  have := signedPart_append_sig value f.sig k hk hne
  exact ⟨signedPart value f.sig, key, by rw [← hsig]; exact this.symm⟩

/-- **decode_sound**: whatever `decode_signed_value` accepts is either a format-2 string satisfying
`decode_sound_v2` (and `min_version ≤ 2`) or a format-1 string satisfying `decode_sound_v1` under a single-key
secret (and `min_version ≤ 1`). -/
theorem decode_sound (H1 H2 : Mac) (secret : Secret) (name : List Nat) (value : Bytes) (maxAge now : Int)
    (minVersion : Nat) (x : Bytes) (h : decode H1 H2 secret name value maxAge now minVersion = .some x) :
    (getVersion value = 2 ∧ minVersion ≤ 2 ∧ decodeV2 H2 secret name value maxAge now = .some x)
    ∨ (getVersion value = 1 ∧ minVersion ≤ 1 ∧ ∃ k, secret = .single k ∧ decodeV1 H1 k name value maxAge now = .some x) := by
  unfold decode at h
  split at h
  · simp at h
  · rename_i hmv
    split at h
    · simp at h
    · simp only at h
      split at h
      · simp at h
      · rename_i hlt
        split at h
        · rename_i hv1
          right
          split at h
          · simp at h
          · rename_i k
            exact ⟨hv1, by omega, k, rfl, h⟩
        · split at h
          · rename_i hv2
            left
            exact ⟨hv2, by omega, h⟩
          · simp at h

/-- a format-2 value presented under a different (encoded) name is rejected — no assumption on `H2`. -/
theorem wrong_name_rejected_v2 (H2 : Mac) (secret : Secret) (key : Bytes) (kvn now : Nat) (name name' : List Nat)
    (b64 : Bytes) (maxAge now' : Int) (hne : utf8 name ≠ utf8 name')
    (hkv : Small kvn) (hnow : Small now) (hn : Small (utf8 name).length) (hv : Small b64.length) :
    decodeV2 H2 secret name' (toSignV2 kvn now (utf8 name) b64 ++ H2 key (toSignV2 kvn now (utf8 name) b64))
      maxAge now' = .none := by
  unfold decodeV2
  rw [decodeFieldsV2_toSign kvn now _ _ _ hkv hnow hn hv]
  simp only
  split
  · rfl
  · split
    · rfl
    · simp [hne]

example : utf8 [97] ≠ utf8 [97, 81] := by decide

/-- an expired value is rejected, whatever else is true of it (both formats) -/
theorem expired_rejected (H1 H2 : Mac) (secret : Secret) (name : List Nat) (value : Bytes) (maxAge now : Int)
    (minVersion : Nat) (x : Bytes) (h : decode H1 H2 secret name value maxAge now minVersion = .some x) :
    (getVersion value = 2 ∧ ∃ f ts, decodeFieldsV2 value = some f ∧ pyInt f.timestamp = some ts ∧ now ≤ ts + maxAge)
    ∨ (getVersion value = 1 ∧ ∃ p0 p1 p2 ts, splitOn1 cPipe value = [p0, p1, p2] ∧ pyInt p1 = some ts ∧ now ≤ ts + maxAge) := by
  unfold decode at h
  split at h
  · simp at h
  · split at h
    · simp at h
    · simp only at h
      split at h
      · simp at h
      · split at h
        · rename_i hv1
          right
          split at h
          · simp at h
          · obtain ⟨p0, p1, ts, hs, hts, hfr, _, _⟩ := decode_sound_v1 _ _ _ _ _ _ _ h
            exact ⟨hv1, p0, p1, _, ts, hs, hts, by omega⟩
        · split at h
          · rename_i hv2
            left
            obtain ⟨f, key, ts, hf, _, _, _, hts, hfr, _⟩ := decode_sound_v2 _ _ _ _ _ _ _ h
            exact ⟨hv2, f, ts, hf, hts, by omega⟩
          · simp at h

/-- a value whose format version is below `min_version` is rejected -/
theorem min_version_respected (H1 H2 : Mac) (secret : Secret) (name : List Nat) (value : Bytes) (maxAge now : Int)
    (minVersion : Nat) (hmin : minVersion ≤ 2) (hlt : getVersion value < minVersion) :
    decode H1 H2 secret name value maxAge now minVersion = .none := by
  unfold decode
  have : ¬ (minVersion > 2) := by omega
  simp only [this, if_false]
  split
  · rfl
  · simp [hlt]

example : getVersion [100, 109, 70, 115, 124, 49, 124, 97] < 2 := by decide

/-! ### totality -/

theorem decodeV1_total (H1 : Mac) (key : Bytes) (name : List Nat) (value : Bytes) (maxAge now : Int) (e : String) :
    decodeV1 H1 key name value maxAge now ≠ .uncaught e := by
  unfold decodeV1
  repeat' split
  all_goals simp

theorem decodeV2_total (H2 : Mac) (secret : Secret) (name : List Nat) (value : Bytes) (maxAge now : Int) (e : String) :
    decodeV2 H2 secret name value maxAge now ≠ .uncaught e := by
  unfold decodeV2
  repeat' split
  all_goals simp

/-- **Totality**: for every string, secret form, name, clock and `min_version ≤ 2`, decoding does not end in
an uncaught exception (in the model every Python operation that can raise — `int()`, `b64decode`, the
dictionary lookup, the field parser — has an explicit failure branch). -/
theorem decode_total (H1 H2 : Mac) (secret : Secret) (name : List Nat) (value : Bytes) (maxAge now : Int)
    (minVersion : Nat) (hmin : minVersion ≤ 2) (e : String) :
    decode H1 H2 secret name value maxAge now minVersion ≠ .uncaught e := by
  unfold decode
  have : ¬ (minVersion > 2) := by omega
  simp only [this, if_false]
  repeat' split
  all_goals first
    | exact decodeV1_total _ _ _ _ _ _ _
    | exact decodeV2_total _ _ _ _ _ _ _
    | (intro h; cases h)

/-- without the hypothesis the statement is false: `min_version = 3` is a `ValueError` by design -/
example : decode demoMac demoMac (.single []) [] [49] 0 0 3 = .uncaught "ValueError" := by decide

/-! ### the `str → bytes` step (review finding: "never raises, whatever string it is given")

`decode` above starts *after* `utf8(value)`.  `decodeIn` is the function the caller sees: the value is `bytes` or
an arbitrary `str` (code points, lone surrogates included), the name an arbitrary `str`. -/

/-- a string without surrogates encodes, and to what `utf8` says -/
theorem utf8?_of_scalar (s : List Nat) (h : ∀ c ∈ s, isSurrogate c = false) : utf8? s = some (utf8 s) := by
  unfold utf8?
  have : s.any isSurrogate = false := by
    rw [List.any_eq_false]
    intro c hc
    simp [h c hc]
  simp [this]

/-- a string holding a surrogate anywhere does not encode (`UnicodeEncodeError`) -/
theorem utf8?_of_surrogate (s : List Nat) (c : Nat) (hc : c ∈ s) (hs : isSurrogate c = true) : utf8? s = none := by
  unfold utf8?
  have : s.any isSurrogate = true := List.any_eq_true.mpr ⟨c, hc, hs⟩
  simp [this]

/-- whenever `utf8?` succeeds it is `utf8` -/
theorem utf8?_eq_some (s : List Nat) (b : Bytes) (h : utf8? s = some b) : b = utf8 s := by
  unfold utf8? at h
  split at h
  · cases h
  · exact (Option.some.inj h).symm

/-- on encodable input the caller-level function IS `decode` on the encoded value: every theorem above
(round trip, soundness, rejections) is a theorem about `decodeIn`. -/
theorem decodeIn_encodable (H1 H2 : Mac) (secret : Secret) (name : List Nat) (value : PyVal) (v nb : Bytes)
    (maxAge now : Int) (minVersion : Nat)
    (hv : value.encode? = some v) (hn : utf8? name = some nb) :
    decodeIn H1 H2 secret name value maxAge now minVersion
      = decode H1 H2 secret name v maxAge now minVersion := by
  unfold decodeIn decode
  have hemp : value.isEmpty = v.isEmpty := by
    cases value with
    | bytes b => simp only [PyVal.encode?] at hv; cases hv; rfl
    | str s =>
      simp only [PyVal.encode?] at hv
      have := utf8?_eq_some s v hv
      subst this
      cases s with
      | nil => rfl
      | cons c cs =>
        simp only [PyVal.isEmpty, List.isEmpty_cons, utf8, List.flatMap_cons]
        unfold utf8Cp
        repeat' split
        all_goals rfl
  rw [hv, hn, hemp]
  by_cases h2 : minVersion > 2
  · simp [h2]
  · simp only [h2, if_false]
    by_cases he : v.isEmpty = true
    · simp [he]
    · simp only [he, Bool.false_eq_true, if_false]

/-- **a value or a name with no UTF-8 form is answered with `None`** (and nothing else happens) -/
theorem decodeIn_unencodable (H1 H2 : Mac) (secret : Secret) (name : List Nat) (value : PyVal)
    (maxAge now : Int) (minVersion : Nat) (hmin : minVersion ≤ 2)
    (h : value.encode? = none ∨ utf8? name = none) :
    decodeIn H1 H2 secret name value maxAge now minVersion = .none := by
  unfold decodeIn
  have : ¬ (minVersion > 2) := by omega
  simp only [this, if_false]
  split
  · rfl
  · rcases h with h | h
    · rw [h]
    · rw [h]; split <;> simp_all

/-- **Totality at the caller's level**: for every `bytes` or `str` value — lone surrogates included —, every
`str` name, secret form, clock and `min_version ≤ 2`, `decode_signed_value` does not end in an uncaught
exception. -/
theorem decodeIn_total (H1 H2 : Mac) (secret : Secret) (name : List Nat) (value : PyVal) (maxAge now : Int)
    (minVersion : Nat) (hmin : minVersion ≤ 2) (e : String) :
    decodeIn H1 H2 secret name value maxAge now minVersion ≠ .uncaught e := by
  unfold decodeIn
  have : ¬ (minVersion > 2) := by omega
  simp only [this, if_false]
  repeat' split
  all_goals first
    | exact decode_total _ _ _ _ _ _ _ _ hmin _
    | (intro h; cases h)

/-- the defect that was fixed: before the fix a lone surrogate in the value (here `'\ud800'`), or in the name
once the parser got as far as the signature (`'a|1|c'` under the name `'n\ud800'`), was an uncaught
`UnicodeEncodeError`; the fixed function answers `None`. -/
theorem decodeInUnfixed_raised :
    decodeInUnfixed demoMac demoMac (.single [107]) [110] (.str [0xD800]) 0 0 1 = .uncaught "UnicodeEncodeError"
    ∧ decodeInUnfixed demoMac demoMac (.single [107]) [110, 0xD800] (.str [97, 124, 49, 124, 99]) 0 0 1
        = .uncaught "UnicodeEncodeError"
    ∧ decodeIn demoMac demoMac (.single [107]) [110] (.str [0xD800]) 0 0 1 = .none
    ∧ decodeIn demoMac demoMac (.single [107]) [110, 0xD800] (.str [97, 124, 49, 124, 99]) 0 0 1 = .none := by
  refine ⟨by decide, by decide, by decide, by decide⟩

/-- the fix changes nothing on encodable input -/
theorem decodeInUnfixed_encodable (H1 H2 : Mac) (secret : Secret) (name : List Nat) (value : PyVal) (v nb : Bytes)
    (maxAge now : Int) (minVersion : Nat)
    (hv : value.encode? = some v) (hn : utf8? name = some nb) :
    decodeInUnfixed H1 H2 secret name value maxAge now minVersion
      = decodeIn H1 H2 secret name value maxAge now minVersion := by
  unfold decodeInUnfixed decodeIn
  rw [hv, hn]

/-- non-vacuity: a `str` value with a non-ASCII scalar encodes (2 bytes), the neighbours of the surrogate block
encode, every surrogate and a high/low pair kept as two code points do not -/
example : (PyVal.str [0xE9]).encode? = some [0xC3, 0xA9] := by decide
example : utf8? [0xD7FF] = some [0xED, 0x9F, 0xBF] ∧ utf8? [0xE000] = some [0xEE, 0x80, 0x80] := by decide
example : utf8? [0xD800] = none ∧ utf8? [0xDFFF] = none ∧ utf8? [0xD83D, 0xDE00] = none := by decide
example : keyVersionIn (.str [50, 124, 0xDC80]) = none := by decide
example : createIn demoMac demoMac (.single [107]) [110, 0xD800] [118] 2 5 none = .raised "UnicodeEncodeError" := by decide

/-! ### the ledger specification is met on its accepting side -/

/-- If the ledger says a query must be accepted (same string, same name, same secret, fresh, version allowed),
the model of `decode_signed_value` returns the issued payload. -/
theorem spec_accept_sound (H1 H2 : Mac) (hH1 : HexLike H1) (hH2 : HexLike H2) (secret : Secret) (name : List Nat)
    (value : Bytes) (version now : Nat) (kv : Option Nat) (signed key : Bytes) (q : Spec.Query)
    (hc : create H1 H2 secret name value version now kv = .ok signed)
    (hval : ∀ x ∈ value, x < 256) (hkv : Small (kv.getD 0)) (hnow : Small now)
    (hn : Small (utf8 name).length) (hv : Small (b64encode value).length)
    (hq : q.name = utf8 name)
    (hacc : Spec.mustAccept ⟨secret, key, ((kv.getD 0 : Nat) : Int), utf8 name, value, (now : Int), version, signed⟩ q = true) :
    decode H1 H2 q.secret name q.value q.maxAge q.now q.minVersion = .some value := by
  simp only [Spec.mustAccept, Spec.sameString, Bool.and_eq_true, beq_iff_eq, decide_eq_true_eq] at hacc
  obtain ⟨⟨⟨⟨⟨⟨⟨hval', _⟩, _⟩, hsec⟩, hmin⟩, h1⟩, hafter⟩, hfresh⟩ := hacc
  rw [hval', hsec]
  exact roundtrip H1 H2 hH1 hH2 secret name value version now kv signed q.maxAge q.now q.minVersion hc hval hkv hnow
    (by omega) hn hv hmin hafter hfresh

end TornadoModel.C23
