/- C23 driver.

  C23 create  <table> <secret> <name> <value> <version> <now> <keyVersion|~>   → ok x…  | ok <ExcName>
  C23 decode  <table> <secret> <name> <value> <maxAge> <now> <minVersion>      → ok ~ | ok x… | ok Uncaught:<Exc>
  C23 keyver  <value>                                                          → ok ~ | ok <int>
  C23 decode0 …same as decode…   the function as it was BEFORE the surrogate fix (validation of `decodeInUnfixed` only)
              in create/decode/keyver  <name> is text (code points, lone surrogates allowed: `[cp,…]`);
              in decode/keyver  <value> is x… (bytes) or text (a `str`, code points, lone surrogates allowed)
  C23 version <value>      C23 pyint <bytes>      C23 b64enc <bytes>      C23 b64dec <bytes>
  C23 tosign2 <keyVersion> <ts> <nameBytes> <b64>
  C23 spec    <issued|~> <secret> <nameBytes> <value> <maxAge> <now> <minVersion>   → ok accept x… | ok reject | ok any
              issued = [secret, key, keyVersion, nameBytes, payload, ts, version, signed]

  <table>  = [[1|2, key, message, hexdigest], …]: the HMAC-SHA1 (1) / HMAC-SHA256 (2) values the implementation
             computed on this input (captured by the harness).  The model's `H1`/`H2` are instantiated with
             the table; a query outside the table yields the marker `?missing-digest?`, which can never equal a
             real digest, so a model that signs different bytes than the code is exposed.
  <secret> = x… (single key) | [[version, x…], …] (key dictionary)
  <name>   = text (code points);  <nameBytes> = its UTF-8 bytes
-/
import TornadoModel.Base.Wire
import TornadoModel.C23.Spec
namespace TornadoModel.C23.Drv
open TornadoModel TornadoModel.Wire TornadoModel.C23

abbrev Table := List (Nat × Bytes × Bytes × Bytes)

def missing : Bytes := "?missing-digest?".toList.map Char.toNat

def tableMac (t : Table) (which : Nat) : Mac := fun key msg =>
  match t.find? (fun (w, k, m, _) => w == which && k == key && m == msg) with
  | some (_, _, _, d) => d
  | none => missing

def decEntry (e : V) : Option (Nat × Bytes × Bytes × Bytes) := do
  let r ← e.list?
  match r with
  | [w, k, m, d] => pure (← w.nat?, ← k.byteNats?, ← m.byteNats?, ← d.byteNats?)
  | _ => none

def decTable (v : V) : Option Table := do
  let l ← v.list?
  l.mapM decEntry

def decPair (e : V) : Option (Int × Bytes) := do
  let r ← e.list?
  match r with
  | [k, b] => pure (← k.int?, ← b.byteNats?)
  | _ => none

def decSecret (v : V) : Option Secret :=
  match v with
  | .bytes b => some (.single (b.map UInt8.toNat))
  | .list l => (l.mapM decPair).map Secret.dict
  | _ => none

/-- a presented value: `x…` = bytes, text / list of code points = str -/
def decPyVal (v : V) : Option PyVal :=
  match v with
  | .bytes b => some (.bytes (b.map UInt8.toNat))
  | other => other.cps?.map PyVal.str

def encOut : Out → V
  | .none => .none
  | .some v => V.ofByteNats v
  | .uncaught k => .atom ("Uncaught:" ++ k)

def encOptBytes : Option Bytes → V
  | some b => V.ofByteNats b
  | none => .none

def decIssued (v : V) : Option (Option Spec.Issued) :=
  match v with
  | .none => some none
  | .list [sec, k, kv, n, p, ts, ver, s] => do
      pure (some ⟨← decSecret sec, ← k.byteNats?, ← kv.int?, ← n.byteNats?, ← p.byteNats?, ← ts.int?, ← ver.nat?, ← s.byteNats?⟩)
  | _ => none

def handle (toks : List String) : String :=
  match toks with
  | cmd :: args =>
    match parseArgs args with
    | none => err "bad-arg"
    | some vs =>
      match cmd, vs with
      | "create", [t, s, n, v, ver, now, kv] =>
        match decTable t, decSecret s, n.cps?, v.byteNats?, ver.nat?, now.nat? with
        | some t, some s, some n, some v, some ver, some now =>
          let kv? : Option (Option Nat) := if kv.isNone then some none else kv.nat?.map some
          match kv? with
          | some kv =>
            match createIn (tableMac t 1) (tableMac t 2) s n v ver now kv with
            | .ok b => ok [V.ofByteNats b]
            | .raised k => ok [.atom k]
          | none => err "bad-arg"
        | _, _, _, _, _, _ => err "bad-arg"
      | "decode", [t, s, n, v, maxAge, now, minV] =>
        match decTable t, decSecret s, n.cps?, decPyVal v, maxAge.int?, now.int?, minV.nat? with
        | some t, some s, some n, some v, some maxAge, some now, some minV =>
          ok [encOut (decodeIn (tableMac t 1) (tableMac t 2) s n v maxAge now minV)]
        | _, _, _, _, _, _, _ => err "bad-arg"
      | "decode0", [t, s, n, v, maxAge, now, minV] =>
        match decTable t, decSecret s, n.cps?, decPyVal v, maxAge.int?, now.int?, minV.nat? with
        | some t, some s, some n, some v, some maxAge, some now, some minV =>
          ok [encOut (decodeInUnfixed (tableMac t 1) (tableMac t 2) s n v maxAge now minV)]
        | _, _, _, _, _, _, _ => err "bad-arg"
      | "keyver", [v] =>
        match decPyVal v with
        | some v => ok [match keyVersionIn v with | some k => .int k | none => .none]
        | none => err "bad-arg"
      | "version", [v] =>
        match v.byteNats? with
        | some v => ok [.int (getVersion v)]
        | none => err "bad-arg"
      | "pyint", [v] =>
        match v.byteNats? with
        | some v => ok [match pyInt v with | some k => .int k | none => .none]
        | none => err "bad-arg"
      | "b64enc", [v] =>
        match v.byteNats? with
        | some v => ok [V.ofByteNats (b64encode v)]
        | none => err "bad-arg"
      | "b64dec", [v] =>
        match v.byteNats? with
        | some v => ok [encOptBytes (b64decode v)]
        | none => err "bad-arg"
      | "tosign2", [kv, ts, n, b] =>
        match kv.nat?, ts.nat?, n.byteNats?, b.byteNats? with
        | some kv, some ts, some n, some b => ok [V.ofByteNats (toSignV2 kv ts n b)]
        | _, _, _, _ => err "bad-arg"
      | "spec", [iss, s, n, v, maxAge, now, minV] =>
        match decIssued iss, decSecret s, n.byteNats?, v.byteNats?, maxAge.int?, now.int?, minV.nat? with
        | some iss, some s, some n, some v, some maxAge, some now, some minV =>
          match Spec.verdict iss ⟨s, n, v, maxAge, now, minV⟩ with
          | .accept p => ok [.atom "accept", V.ofByteNats p]
          | .reject => ok [.atom "reject"]
          | .any => ok [.atom "any"]
        | _, _, _, _, _, _, _ => err "bad-arg"
      | _, _ => err "bad-cmd"
  | _ => err "bad-line"

end TornadoModel.C23.Drv
